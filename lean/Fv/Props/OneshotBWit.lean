import Fv.Chan.OneshotB
/-!
Witnesses of the STEP-LEVEL oneshot model `Fv.Chan.OneshotB` on concrete programs and schedules
(`decide` on `run`): the known defect F18, the two-load races the interleaved runs exposed, the teardown
orders (non-vacuity of the theorems in `Fv.Props.OneshotB`).
-/
namespace Fv.Props.OneshotB
open Fv.Chan.OneshotB


/-- a whole operation of handle `a` with `n` actions between call and return -/
def opS (a : Ag) (n : Nat) : List (Ag × Label) := (a, .call) :: (List.replicate n (a, .act) ++ [(a, .ret)])
/-- call + the first `n` actions of an operation -/
def opP (a : Ag) (n : Nat) : List (Ag × Label) := (a, .call) :: List.replicate n (a, .act)
def acts (a : Ag) (n : Nat) : List (Ag × Label) := List.replicate n (a, .act)

/-- F18 program: `s1 = s0.clone(); s0.send(1); rx.try_recv(); block_on(rx.recv())` ‖ `drop(s1)` -/
def f18S : Nat → List Op
  | 0 => [.clone, .send 1]
  | 1 => [.drop]
  | _ => []
def f18R : List Op := [.tryRecv, .recv 7]
/-- clone; send (Ok); try_recv takes the value (state TAKEN); recv polls, registers, answers Pending and
parks; THEN the last sender handle is dropped: `decrement_senders` finds TAKEN and wakes nobody. -/
def f18Sched : List (Ag × Label) :=
  opS (.S 0) 1 ++ opS (.S 0) 12 ++ opS .R 5 ++ opP .R 6 ++ opS (.S 1) 6

/-- C05 / C06 FAILS on the code as it is (known finding F18, `oneshot:recv:blocked-after-all-senders-gone`;
replay: /verif/findings/OneshotB_F18.case): a reachable state in which the receiver is parked in
`recv()` with no park token, its waker still registered and armed, nobody about to wake it (every sender
handle is gone and idle), although the state is TAKEN and `sender_count` is 0 — the next poll would
answer `Disconnected`, but it never happens. -/
theorem C05_fails_F18_recv_parked_in_TAKEN_never_woken :
    (run (init f18S f18R) f18Sched).map (fun s =>
      decide ((s.loc .R).m = .park ∧ s.tok 7 = false ∧ s.waker = some (.task 7) ∧ s.armed = true ∧
        s.st = .taken ∧ s.scount = 0 ∧ s.closer = none ∧
        s.gone (.S 0) = true ∧ s.gone (.S 1) = true ∧ (s.loc (.S 0)).m = .idle ∧ (s.loc (.S 1)).m = .idle ∧
        s.received = [1])) = some true := by decide

/-- `Receiver::is_closed` is not atomic (state word, then `sender_count`): it answers `true` from a stale
EMPTY and a fresh count 0 while a value is SENT and waiting to be received. Program: `tx.send(1)` ‖
`rx.is_closed()`; schedule: the probe loads EMPTY, the whole send (and the drop of the sender) runs, the
probe loads count 0. (This is why the linearizability tie does not compare that probe.) -/
theorem receiver_is_closed_stale_true :
    (run (init (fun i => if i = 0 then [.send 1] else []) [.isClosed])
      (opP .R 1 ++ opS (.S 0) 17 ++ acts .R 1)).map (fun s =>
      decide ((s.loc .R).m = .ret (.b true) ∧ s.st = .sent ∧ s.slot = some 1 ∧ s.sres 0 = some .ok)) = some true := by decide

/-- reopen program: two handles are closed, the second closed handle is cloned and the clone sends -/
def reopenS : Nat → List Op
  | 0 => [.clone, .close]
  | 1 => [.close, .clone]
  | 2 => [.send 5]
  | _ => []
def reopenSched : List (Ag × Label) :=
  opS (.S 0) 1 ++ opS (.S 1) 2 ++ opP (.S 0) 2 ++          -- s1 = s0.clone(); s1.close(); s0.close() up to the fetch_sub (count 0)
  opP .R 3 ++                                               -- try_recv: EMPTY, count 0, about to CAS EMPTY→CLOSED
  opS (.S 1) 1 ++ opS (.S 2) 17 ++                          -- s2 = s1.clone() (a closed handle!); s2.send(5) → Ok
  acts .R 1 ++ [(.R, .ret)] ++ opS .R 5                     -- the CAS fails, try_recv says Disconnected; the next one gets 5

/-- C04 "Disconnected is final" FAILS once a CLOSED sender handle is cloned (the known
clone-of-closed-handle family): `try_recv` answers `Disconnected` from a stale EMPTY + count 0, the next
`try_recv` returns the value a resurrected sender sent in between. -/
theorem C04_fails_disconnected_then_value_after_reopen :
    (run (init reopenS [.tryRecv, .tryRecv]) reopenSched).map (fun s =>
      decide (s.results .R = [.disc, .okV 5] ∧ s.reopened = true)) = some true := by decide

/-! ### teardown orders (non-vacuity of `teardown_no_leak`: `freed` is reached with the value in each place) -/

def oneSend : Nat → List Op := fun i => if i = 0 then [.send 1] else []

/-- value never taken, sender gone first: the receiver's Drop claims SENT→TAKEN and drops the value. -/
example : (run (init oneSend [.drop]) (opS (.S 0) 17 ++ opS .R 8)).map (fun s =>
    decide (s.freed = true ∧ s.dropped = [1] ∧ s.received = [] ∧ s.slot = none ∧ s.sres 0 = some .ok)) = some true := by decide

/-- receiver dropped first, while the sender is between its CAS and the slot write ("drop race"): the send
still reports Ok, the last sender's `decrement_senders` claims SENT→TAKEN and drops the value. -/
example : (run (init oneSend [.drop]) (opP (.S 0) 5 ++ opS .R 5 ++ acts (.S 0) 14 ++ [(.S 0, .ret)])).map (fun s =>
    decide (s.freed = true ∧ s.dropped = [1] ∧ s.received = [] ∧ s.slot = none ∧ s.sres 0 = some .ok ∧
      s.results (.S 0) = [.ok])) = some true := by decide

/-- value taken by the receiver, then both sides go: nothing is dropped by the channel. -/
example : (run (init oneSend [.tryRecv, .drop]) (opS (.S 0) 17 ++ opS .R 5 ++ opS .R 6)).map (fun s =>
    decide (s.freed = true ∧ s.dropped = [] ∧ s.received = [1] ∧ s.slot = none)) = some true := by decide

/-- receiver gone before the send starts: the send fails with `Closed(1)`, nothing enters the channel. -/
example : (run (init oneSend [.drop]) (opS .R 5 ++ opS (.S 0) 11)).map (fun s =>
    decide (s.freed = true ∧ s.moved = [] ∧ s.sres 0 = some (.closedV 1) ∧ s.results (.S 0) = [.closedV 1])) = some true := by decide

/-- two senders race: exactly one `Ok`, the other gets its value back (`send_ok_unique`, `token_fate`). -/
example : (run (init (fun i => if i = 0 then [.clone, .send 1] else if i = 1 then [.send 2] else []) [])
    (opS (.S 0) 1 ++ opP (.S 0) 4 ++ opS (.S 1) 7 ++ acts (.S 0) 13 ++ [(.S 0, .ret)])).map (fun s =>
    decide (s.sres 0 = some .ok ∧ s.sres 1 = some (.sentV 2) ∧ s.moved = [1] ∧ s.slot = some 1)) = some true := by decide

end Fv.Props.OneshotB
