import Fv.Chan.OneshotB
/-!
Witnesses of the STEP-LEVEL oneshot model `Fv.Chan.OneshotB` on concrete programs and schedules
(`decide` on `run`): the known defect F18, the two-load races the interleaved runs exposed, the teardown
orders (non-vacuity of the theorems in `Fv.Props.OneshotB`).
-/
namespace Fv.Props.OneshotB
open Fv.Chan.OneshotB


/-- a whole operation of handle `a` with `n` actions between call and return -/
def opS (a : Ag) (n : Nat) : List (Ag × Label) := (a, .call) :: (List.replicate n (a, .act) ++ [(a, .ret)])
/-- call + the first `n` actions of an operation -/
def opP (a : Ag) (n : Nat) : List (Ag × Label) := (a, .call) :: List.replicate n (a, .act)
def acts (a : Ag) (n : Nat) : List (Ag × Label) := List.replicate n (a, .act)

/-- F18 program: `s1 = s0.clone(); s0.send(1); rx.try_recv(); block_on(rx.recv())` ‖ `drop(s1)` -/
def f18S : Nat → List Op
  | 0 => [.clone, .send 1]
  | 1 => [.drop]
  | _ => []
def f18R : List Op := [.tryRecv, .recv 7]
/-- clone; send (Ok); try_recv takes the value (state TAKEN); recv polls, registers, answers Pending and
parks; THEN the last sender handle is dropped: `decrement_senders` finds TAKEN and wakes nobody. -/
def f18Sched : List (Ag × Label) :=
  opS (.S 0) 1 ++ opS (.S 0) 12 ++ opS .R 5 ++ opP .R 6 ++ opS (.S 1) 6

/-- C05 / C06 FAILS on the code as it is (known finding F18, `oneshot:recv:blocked-after-all-senders-gone`;
replay: /verif/findings/OneshotB_F18.case): a reachable state in which the receiver is parked in
`recv()` with no park token, its waker still registered and armed, nobody about to wake it (every sender
handle is gone and idle), although the state is TAKEN and `sender_count` is 0 — the next poll would
answer `Disconnected`, but it never happens. -/
theorem C05_fails_F18_recv_parked_in_TAKEN_never_woken :
    (run (init f18S f18R) f18Sched).map (fun s =>
      decide ((s.loc .R).m = .park ∧ s.tok 7 = false ∧ s.waker = some (.task 7) ∧ s.armed = true ∧
        s.st = .taken ∧ s.scount = 0 ∧ s.closer = none ∧
        s.gone (.S 0) = true ∧ s.gone (.S 1) = true ∧ (s.loc (.S 0)).m = .idle ∧ (s.loc (.S 1)).m = .idle ∧
        s.received = [1])) = some true := by decide

/-- `Receiver::is_closed` is not atomic (state word, then `sender_count`): it answers `true` from a stale
EMPTY and a fresh count 0 while a value is SENT and waiting to be received. Program: `tx.send(1)` ‖
`rx.is_closed()`; schedule: the probe loads EMPTY, the whole send (and the drop of the sender) runs, the
probe loads count 0. (This is why the linearizability tie does not compare that probe.) -/
theorem receiver_is_closed_stale_true :
    (run (init (fun i => if i = 0 then [.send 1] else []) [.isClosed])
      (opP .R 1 ++ opS (.S 0) 17 ++ acts .R 1)).map (fun s =>
      decide ((s.loc .R).m = .ret (.b true) ∧ s.st = .sent ∧ s.slot = some 1 ∧ s.sres 0 = some .ok)) = some true := by decide

/-- reopen program: two handles are closed, the second closed handle is cloned -/
def reopenS : Nat → List Op
  | 0 => [.clone, .close]
  | 1 => [.close, .clone]
  | _ => []
def reopenSched : List (Ag × Label) :=
  opS (.S 0) 1 ++ opS (.S 1) 2 ++ opP (.S 0) 2 ++          -- s1 = s0.clone(); s1.close(); s0.close() up to the fetch_sub (count 0)
  opP .R 2 ++                                               -- try_recv CALLED with EMPTY + count 0 (`q`); it loads EMPTY
  opS (.S 1) 1 ++                                           -- s2 = s1.clone(): a CLOSED handle is cloned, count 1 again
  acts .R 1                                                 -- try_recv loads count 1 → Empty

/-- C04 "all senders gone and nothing sent ⇒ Disconnected" needs the hypothesis of
`senders_gone_recv_disconnected_partial`: once a CLOSED sender handle is cloned (the known
clone-of-closed-handle family) a `try_recv` that was called with state EMPTY and `sender_count = 0`
answers `Empty`. (Since fix a886a91 this is all a reopen can do: `Disconnected` itself is final,
`disconnected_is_final`.) -/
theorem C04_fails_senders_gone_empty_after_reopen :
    (run (init reopenS [.tryRecv]) reopenSched).map (fun s =>
      decide ((s.loc .R).q = true ∧ (s.loc .R).m = .ret .empty ∧ s.reopened = true)) = some true := by decide

/-- the schedule of the defect fixed by a886a91 (no clone involved): `try_recv` loads EMPTY, the whole
`send(1)` and the drop of the only sender run (SENT, count 0), `try_recv` loads count 0, its CAS
EMPTY→CLOSED fails — and the FIXED code looks again and returns the value (the old code answered
`Disconnected` here with the value SENT). -/
theorem fixed_disconnected_before_drain_returns_value :
    (run (init (fun i => if i = 0 then [.send 1] else []) [.tryRecv])
      (opP .R 2 ++ opS (.S 0) 17 ++ acts .R 6 ++ [(.R, .ret)])).map (fun s =>
      decide (s.results .R = [.okV 1] ∧ s.received = [1] ∧ s.sres 0 = some .ok)) = some true := by decide

/-! ### teardown orders (non-vacuity of `teardown_no_leak`: `freed` is reached with the value in each place) -/

def oneSend : Nat → List Op := fun i => if i = 0 then [.send 1] else []

/-- value never taken, sender gone first: the receiver's Drop claims SENT→TAKEN and drops the value. -/
example : (run (init oneSend [.drop]) (opS (.S 0) 17 ++ opS .R 8)).map (fun s =>
    decide (s.freed = true ∧ s.dropped = [1] ∧ s.received = [] ∧ s.slot = none ∧ s.sres 0 = some .ok)) = some true := by decide

/-- receiver dropped first, while the sender is between its CAS and the slot write ("drop race"): the send
still reports Ok, the last sender's `decrement_senders` claims SENT→TAKEN and drops the value. -/
example : (run (init oneSend [.drop]) (opP (.S 0) 5 ++ opS .R 5 ++ acts (.S 0) 14 ++ [(.S 0, .ret)])).map (fun s =>
    decide (s.freed = true ∧ s.dropped = [1] ∧ s.received = [] ∧ s.slot = none ∧ s.sres 0 = some .ok ∧
      s.results (.S 0) = [.ok])) = some true := by decide

/-- value taken by the receiver, then both sides go: nothing is dropped by the channel. -/
example : (run (init oneSend [.tryRecv, .drop]) (opS (.S 0) 17 ++ opS .R 5 ++ opS .R 6)).map (fun s =>
    decide (s.freed = true ∧ s.dropped = [] ∧ s.received = [1] ∧ s.slot = none)) = some true := by decide

/-- receiver gone before the send starts: the send fails with `Closed(1)`, nothing enters the channel. -/
example : (run (init oneSend [.drop]) (opS .R 5 ++ opS (.S 0) 11)).map (fun s =>
    decide (s.freed = true ∧ s.moved = [] ∧ s.sres 0 = some (.closedV 1) ∧ s.results (.S 0) = [.closedV 1])) = some true := by decide

/-- two senders race: exactly one `Ok`, the other gets its value back (`send_ok_unique`, `token_fate`). -/
example : (run (init (fun i => if i = 0 then [.clone, .send 1] else if i = 1 then [.send 2] else []) [])
    (opS (.S 0) 1 ++ opP (.S 0) 4 ++ opS (.S 1) 7 ++ acts (.S 0) 13 ++ [(.S 0, .ret)])).map (fun s =>
    decide (s.sres 0 = some .ok ∧ s.sres 1 = some (.sentV 2) ∧ s.moved = [1] ∧ s.slot = some 1)) = some true := by decide

end Fv.Props.OneshotB
