import Fv.Lemmas.SpscBWaitAll
/-!
# Step-level theorems for the bounded SPSC channel (feeds C01, C02, C03, C05 — spsc flavour)

Model: `Fv.Chan.SpscB` — one visible action (atomic load / store / swap / cas / fetch_sub, fence,
mutex lock / unlock, park, unpark, spin) per step, two threads (`P` = sender handle, `C` = receiver
handle), programs `pp pc : List Op` over `send / try_send / recv / try_recv / recv_timeout(0) / len /
close / drop`, any capacity. Every theorem below quantifies over every capacity `0 < cap`, every pair of
programs and every interleaving (`Reach cap pp pc s`), including spurious park returns.

Not in the model (see `…_gap` notes at the end): the batch forms, `is_closed`, the async handles.
-/
namespace Fv.Props.SpscB
open Fv.Chan.SpscB

variable {cap : Nat} {pp pc : List Op} {s : State}

/-! ## Ring safety (C01 / C02 / C03) -/

/-- **C03**: the occupancy `tail − head` never exceeds the capacity (and `head ≤ tail`). -/
theorem ring_occupancy (hcap : 0 < cap) (h : Reach cap pp pc s) : s.head ≤ s.tail ∧ s.tail - s.head ≤ s.cap ∧ s.cap ≤ s.phys :=
  have hi := reach_rinv hcap h
  ⟨hi.ht, hi.occ, hi.capPhys⟩

/-- the private index caches are always conservative: `cachedHead ≤ head ≤ cachedTail ≤ tail`. -/
theorem ring_caches (hcap : 0 < cap) (h : Reach cap pp pc s) :
    s.cachedHead ≤ s.head ∧ s.head ≤ s.cachedTail ∧ s.cachedTail ≤ s.tail :=
  have hi := reach_rinv hcap h
  ⟨hi.ch, hi.ct1, hi.ct2⟩

/-- **C01 + C02 in one equation**: everything ever published (`pushed`, in publication order) is exactly
what has been received (`popped`, in reception order), then what the final `Ring::drop` drained, then
the slots of the published window `[head, tail)`, oldest first. -/
theorem ring_sequence (hcap : 0 < cap) (h : Reach cap pp pc s) :
    s.pushed.map some = (s.popped ++ s.drained).map some ++ window s.slots s.phys s.head (s.tail - s.head) :=
  (reach_rinv hcap h).seq

theorem map_some_split {A B : List Nat} {W : List (Option Nat)} (h : A.map some = B.map some ++ W) :
    ∃ R, A = B ++ R ∧ W = R.map some := by
  induction B generalizing A with
  | nil => exact ⟨A, rfl, by simpa using h.symm⟩
  | cons b B ih =>
    cases A with
    | nil => simp at h
    | cons a A =>
      simp only [List.map_cons, List.cons_append, List.cons.injEq, Option.some.injEq] at h
      obtain ⟨R, h1, h2⟩ := ih h.2
      exact ⟨R, by rw [h.1, h1]; rfl, h2⟩

/-- **received ⊑ sent, in order, each at most once; nothing is lost**: `pushed = popped ++ drained ++ buffered`
where `buffered` is the content of the `tail − head` published slots. -/
theorem received_prefix_of_sent (hcap : 0 < cap) (h : Reach cap pp pc s) :
    ∃ buffered, s.pushed = s.popped ++ s.drained ++ buffered ∧ buffered.length = s.tail - s.head ∧
      buffered.map some = window s.slots s.phys s.head (s.tail - s.head) := by
  obtain ⟨R, h1, h2⟩ := map_some_split (ring_sequence hcap h)
  refine ⟨R, h1, ?_, h2.symm⟩
  have := congrArg List.length h2
  simp [window_length] at this
  exact this.symm

/-- exactly-once: if the tokens published are pairwise distinct, no token is received twice, received and
drained, or received and still buffered. -/
theorem exactly_once (hcap : 0 < cap) (h : Reach cap pp pc s) (hd : s.pushed.Nodup) :
    ∃ buffered, (s.popped ++ s.drained ++ buffered).Nodup ∧ s.pushed = s.popped ++ s.drained ++ buffered := by
  obtain ⟨R, h1, _, _⟩ := received_prefix_of_sent hcap h
  exact ⟨R, h1 ▸ hd, h1⟩

/-- the key arithmetic fact of the masked ring, for an arbitrary modulus. -/
theorem ring_index_injective {a b m : Nat} (h1 : a < b) (h2 : b - a < m) : a % m ≠ b % m := mod_ne_of_lt h1 h2

/-- **nothing is overwritten before it is read**: the slot a producer has just written (and not yet
published) is none of the slots of the published window. -/
theorem write_outside_window (hcap : 0 < cap) (h : Reach cap pp pc s) {r : Role} (hm : (s.loc r).m = .pushStTail) :
    ∀ k, k < s.tail - s.head → (s.head + k) % s.phys ≠ s.tail % s.phys := by
  have hi := reach_rinv hcap h
  obtain ⟨_, hlt, _⟩ := hi.pushSt r hm
  intro k hk
  exact mod_ne_of_lt (by omega) (by have := hi.capPhys; omega)

/-- a push that fails (`Err(item)` → `TrySendError::Full` / the wait loop) really saw `tail − head ≥ cap`
at its refresh of `head`. -/
theorem full_really_full (hcap : 0 < cap) (h : Reach cap pp pc s) {r : Role} {s' : State}
    (hm : (s.loc r).m = .pushLdHead) (hs : step s r (.load .head) = some s') (hf : (s'.loc r).m ≠ .pushStTail) :
    s.cap ≤ s.tail - s.head := by
  have hi := reach_rinv hcap h
  have ht := hi.pushLh r hm
  simp only [step, stepLdHead, hm] at hs
  split at hs
  · omega
  · simp at hs; subst hs; simp at hf

/-- a pop that fails (`None` → Empty / Disconnected check / the wait loop) really saw `head = tail` at its
refresh of `tail`. -/
theorem empty_really_empty (hcap : 0 < cap) (h : Reach cap pp pc s) {r : Role} {s' : State}
    (hm : (s.loc r).m = .popLdTail) (hs : step s r (.load .tail) = some s') (hf : (s'.loc r).m ≠ .popStHead) :
    s.head = s.tail := by
  have hi := reach_rinv hcap h
  have ht := hi.popLt r hm
  simp only [step, stepLdTail, hm] at hs
  split at hs
  · omega
  · simp at hs; subst hs; simp at hf

/-- only the sender thread pushes, only the receiver thread (or the final drain) pops. -/
theorem single_producer_single_consumer (h : Reach cap pp pc s) {r q : Role} :
    (isPush (s.loc r).m = true → r = .P) ∧ (isPop (s.loc r).m = true → isPop (s.loc q).m = true → r = q) :=
  have hc := reach_cinv h
  ⟨fun a => push_P hc a, fun a b => pop_unique hc a b⟩

/-! ## No lost wakeup, in safety form (C05) -/

/-- what a blocked receiver waits for: an item, or the sender side gone -/
def condC (s : State) : Prop := s.head < s.tail ∨ s.count .P = 0
/-- what a blocked sender waits for: space, or the receiver gone -/
def condP (s : State) : Prop := s.tail - s.head < s.cap ∨ s.dropped .C = true
def cond (s : State) : Role → Prop
  | .P => condP s
  | .C => condC s

/-- the thread at `(k, m)` is inside a straight-line (non-blocking) section that ends in waking the other
side: between its publication (`tail`/`head` store) and the end of `notify_*`, or between the
`dropped`-store / count decrement of `close`/`Drop` and the end of its `wake_one`. -/
def notifying (k : K) (m : Mic) : Prop := owesNf k m ∨ dropSec k m ∨ holdsW m = true ∨ m = .wkUnpark

/-- a wake is owed to the thread of role `q` -/
def Owed (s : State) (q : Role) : Prop :=
  s.tok q = true ∨ s.flag q = true ∨ notifying (s.loc (other q)).k (s.loc (other q)).m

/-- **No lost wakeup, receiver.** In every reachable state, if the receiver is registered and past its
post-registration re-check (about to read `sender_count`, or at `park`) while an item is available, or
is at `park` while the sender side is gone, then a wake is owed to it. -/
theorem no_lost_wakeup_consumer (hcap : 0 < cap) (h : Reach cap pp pc s)
    (hk : (s.loc .C).k = .rL) (hreg : (s.loc .C).reg = true)
    (hpos : ((s.loc .C).m = .ldCount ∧ s.head < s.tail) ∨ ((s.loc .C).m = .park ∧ condC s)) : Owed s .C := by
  have A := reach_all hcap h
  cases hs : s.slot .C with
  | none =>
    rcases A.w.c3 .C hreg hs with f | w | u | u
    · exact Or.inr (Or.inl f)
    · exact Or.inr (Or.inr (Or.inr (Or.inr (Or.inl (wkPre_holdsW w)))))
    · rcases hpos with ⟨e, _⟩ | ⟨e, _⟩ <;> simp [e] at u
    · rcases hpos with ⟨e, _⟩ | ⟨e, _⟩ <;> simp [e] at u
  | some f =>
    have hne : s.slot .C ≠ none := by simp [hs]
    rcases hpos with ⟨e, hlt⟩ | ⟨e, hlt | hcnt⟩
    · exact Or.inr (Or.inr (Or.inl (A.k.kc1 hk hreg (Or.inl e) hlt hne)))
    · exact Or.inr (Or.inr (Or.inl (A.k.kc1 hk hreg (Or.inr e) hlt hne)))
    · have ⟨a, b⟩ := A.k.kc2 hk e hcnt hne
      exact Or.inr (Or.inr (Or.inr (Or.inl ⟨a, Or.inr b⟩)))

/-- **No lost wakeup, sender** (mirror image): registered and at `park` with space available, or past its
`consumer_dropped` check with the receiver gone ⇒ a wake is owed. -/
theorem no_lost_wakeup_producer (hcap : 0 < cap) (h : Reach cap pp pc s)
    (hk : (s.loc .P).k = .sL) (hreg : (s.loc .P).reg = true)
    (hpos : ((s.loc .P).m = .park ∧ condP s) ∨
            (((s.loc .P).m = .pushLdTail ∨ (s.loc .P).m = .pushLdHead) ∧ s.dropped .C = true)) : Owed s .P := by
  have A := reach_all hcap h
  cases hs : s.slot .P with
  | none =>
    rcases A.w.c3 .P hreg hs with f | w | u | u
    · exact Or.inr (Or.inl f)
    · exact Or.inr (Or.inr (Or.inr (Or.inr (Or.inl (wkPre_holdsW w)))))
    · rcases hpos with ⟨e, _⟩ | ⟨e | e, _⟩ <;> simp [e] at u
    · rcases hpos with ⟨e, _⟩ | ⟨e | e, _⟩ <;> simp [e] at u
  | some f =>
    have hne : s.slot .P ≠ none := by simp [hs]
    rcases hpos with ⟨e, hsp | hdr⟩ | ⟨e, hdr⟩
    · exact Or.inr (Or.inr (Or.inl (A.k.kp1 hk e hsp hne)))
    · exact Or.inr (Or.inr (Or.inr (Or.inl (A.k.kp2 hk hreg (Or.inr (Or.inr e)) hdr hne))))
    · refine Or.inr (Or.inr (Or.inr (Or.inl (A.k.kp2 hk hreg ?_ hdr hne))))
      rcases e with e | e
      · exact Or.inl e
      · exact Or.inr (Or.inl e)

/-- a thread at `park` is in the wait loop of `send` / `recv`, registered -/
theorem parked_is_registered (hcap : 0 < cap) (h : Reach cap pp pc s) {r : Role} (hp : (s.loc r).m = .park) :
    (s.loc r).reg = true ∧ (s.loc r).k = (match r with | .P => K.sL | .C => K.rL) := by
  have A := reach_all hcap h
  refine ⟨A.w.c8 r hp, ?_⟩
  have h1 := A.c.ok r
  have h2 := A.c.side r
  rw [hp] at h1
  simp only [okAt] at h1
  cases r with
  | P => rcases h1 with h1 | h1
         · exact h1
         · have := h2 .C (by simp [h1, kSide]); simp at this
  | C => rcases h1 with h1 | h1
         · have := h2 .P (by simp [h1, kSide]); simp at this
         · exact h1

/-- **C05 for spsc**: a parked thread whose condition holds is owed a wake. -/
theorem no_lost_wakeup (hcap : 0 < cap) (h : Reach cap pp pc s) (r : Role)
    (hp : (s.loc r).m = .park) (hc : cond s r) : Owed s r := by
  obtain ⟨hreg, hk⟩ := parked_is_registered hcap h hp
  cases r with
  | P => exact no_lost_wakeup_producer hcap h hk hreg (Or.inl ⟨hp, hc⟩)
  | C => exact no_lost_wakeup_consumer hcap h hk hreg (Or.inr ⟨hp, hc⟩)

/-! ### quiescence: no reachable deadlock with a thread whose condition holds -/

/-- no thread has an enabled protocol step (environment `call`s and spurious park returns excluded) -/
def Quiescent (s : State) : Prop := ∀ r l, l ≠ .call → l ≠ .spurious → step s r l = none

syntax "en_tac " ident " [" Lean.Parser.Tactic.simpLemma,* "]" : tactic
macro_rules
  | `(tactic| en_tac $hm [$ls,*]) => `(tactic|
      first
      | (simp [step, $ls,*, $hm:ident, targetOf]; done)
      | (simp only [step, $ls,*, $hm:ident, targetOf, ↓reduceIte]; (repeat' split) <;> simp))

/-- every position other than `idle`, `park` and a `lock` on a held mutex has an enabled step -/
theorem enabled_or_blocked (s : State) (r : Role) :
    (s.loc r).m = .idle ∨ (s.loc r).m = .park ∨
    (((s.loc r).m = .wkLock ∧ s.locked (other r) = true) ∨
     (((s.loc r).m = .rgLock ∨ (s.loc r).m = .urLock) ∧ s.locked r = true)) ∨
    ∃ l, l ≠ .call ∧ l ≠ .spurious ∧ (step s r l).isSome = true := by
  cases hm : (s.loc r).m with
  | idle => exact Or.inl rfl
  | park => exact Or.inr (Or.inl rfl)
  | wkLock =>
    cases hl : s.locked (other r) with
    | true => exact Or.inr (Or.inr (Or.inl (Or.inl ⟨rfl, rfl⟩)))
    | false =>
      refine Or.inr (Or.inr (Or.inr ⟨.lock (other r), by simp, by simp, ?_⟩))
      simp only [step, stepLock, hm, targetOf, ↓reduceIte, hl]
      cases s.slot (other r) <;> simp
  | rgLock =>
    cases hl : s.locked r with
    | true => exact Or.inr (Or.inr (Or.inl (Or.inr ⟨Or.inl rfl, rfl⟩)))
    | false =>
      refine Or.inr (Or.inr (Or.inr ⟨.lock r, by simp, by simp, ?_⟩))
      simp [step, stepLock, hm, targetOf, hl]
  | urLock =>
    cases hl : s.locked r with
    | true => exact Or.inr (Or.inr (Or.inl (Or.inr ⟨Or.inr rfl, rfl⟩)))
    | false =>
      refine Or.inr (Or.inr (Or.inr ⟨.lock r, by simp, by simp, ?_⟩))
      simp [step, stepLock, hm, targetOf, hl]
  | pushLdTail =>
    refine Or.inr (Or.inr (Or.inr ⟨.load .tail, by simp, by simp, ?_⟩))
    en_tac hm [stepLdTail]
  | pushLdHead =>
    refine Or.inr (Or.inr (Or.inr ⟨.load .head, by simp, by simp, ?_⟩))
    en_tac hm [stepLdHead]
  | pushStTail =>
    refine Or.inr (Or.inr (Or.inr ⟨.store .tail, by simp, by simp, ?_⟩))
    en_tac hm [stepStTail]
  | popLdHead =>
    refine Or.inr (Or.inr (Or.inr ⟨.load .head, by simp, by simp, ?_⟩))
    en_tac hm [stepLdHead]
  | popLdTail =>
    refine Or.inr (Or.inr (Or.inr ⟨.load .tail, by simp, by simp, ?_⟩))
    en_tac hm [stepLdTail]
  | popStHead =>
    refine Or.inr (Or.inr (Or.inr ⟨.store .head, by simp, by simp, ?_⟩))
    en_tac hm [stepStHead]
  | nfFence =>
    refine Or.inr (Or.inr (Or.inr ⟨.fence, by simp, by simp, ?_⟩))
    en_tac hm [stepFence]
  | nfLdGate =>
    refine Or.inr (Or.inr (Or.inr ⟨.load (.gate (other r)), by simp, by simp, ?_⟩))
    en_tac hm [stepLdGate]
  | wkStGate f =>
    refine Or.inr (Or.inr (Or.inr ⟨.store (.gate (other r)), by simp, by simp, ?_⟩))
    en_tac hm [stepStGate]
  | wkStFlag =>
    refine Or.inr (Or.inr (Or.inr ⟨.store (.flag (other r)), by simp, by simp, ?_⟩))
    en_tac hm [stepStFlag]
  | wkUnlock t =>
    refine Or.inr (Or.inr (Or.inr ⟨.unlock (other r), by simp, by simp, ?_⟩))
    en_tac hm [stepUnlock]
  | wkUnpark =>
    refine Or.inr (Or.inr (Or.inr ⟨.unpark (other r), by simp, by simp, ?_⟩))
    en_tac hm [stepUnpark]
  | rgStGate =>
    refine Or.inr (Or.inr (Or.inr ⟨.store (.gate r), by simp, by simp, ?_⟩))
    en_tac hm [stepStGate]
  | rgUnlock =>
    refine Or.inr (Or.inr (Or.inr ⟨.unlock r, by simp, by simp, ?_⟩))
    en_tac hm [stepUnlock]
  | rgFence =>
    refine Or.inr (Or.inr (Or.inr ⟨.fence, by simp, by simp, ?_⟩))
    en_tac hm [stepFence]
  | urStGate =>
    refine Or.inr (Or.inr (Or.inr ⟨.store (.gate r), by simp, by simp, ?_⟩))
    en_tac hm [stepStGate]
  | urUnlock =>
    refine Or.inr (Or.inr (Or.inr ⟨.unlock r, by simp, by simp, ?_⟩))
    en_tac hm [stepUnlock]
  | swapFlag =>
    refine Or.inr (Or.inr (Or.inr ⟨.swap (.flag r), by simp, by simp, ?_⟩))
    en_tac hm [stepSwapFlag]
  | spin =>
    refine Or.inr (Or.inr (Or.inr ⟨.spin, by simp, by simp, ?_⟩))
    en_tac hm [stepSpin]
  | ldClosed =>
    refine Or.inr (Or.inr (Or.inr ⟨.load (.closed r), by simp, by simp, ?_⟩))
    en_tac hm [stepLdClosed]
  | ldDropped =>
    refine Or.inr (Or.inr (Or.inr ⟨.load (.dropped (other r)), by simp, by simp, ?_⟩))
    en_tac hm [stepLdDropped]
  | ldCount =>
    refine Or.inr (Or.inr (Or.inr ⟨.load (.count (other r)), by simp, by simp, ?_⟩))
    en_tac hm [stepLdCount]
  | casClosed =>
    refine Or.inr (Or.inr (Or.inr ⟨.cas (.closed r), by simp, by simp, ?_⟩))
    en_tac hm [stepCasClosed]
  | swapClosed =>
    refine Or.inr (Or.inr (Or.inr ⟨.swap (.closed r), by simp, by simp, ?_⟩))
    en_tac hm [stepSwapClosed]
  | stDropped =>
    refine Or.inr (Or.inr (Or.inr ⟨.store (.dropped r), by simp, by simp, ?_⟩))
    en_tac hm [stepStDropped]
  | subCount =>
    refine Or.inr (Or.inr (Or.inr ⟨.fsub (.count r), by simp, by simp, ?_⟩))
    en_tac hm [stepSubCount]
  | lenLdHead =>
    refine Or.inr (Or.inr (Or.inr ⟨.load .head, by simp, by simp, ?_⟩))
    en_tac hm [stepLdHead]
  | lenLdTail =>
    refine Or.inr (Or.inr (Or.inr ⟨.load .tail, by simp, by simp, ?_⟩))
    en_tac hm [stepLdTail]
  | ret res =>
    refine Or.inr (Or.inr (Or.inr ⟨.ret, by simp, by simp, ?_⟩))
    en_tac hm [stepRet]

theorem holdsSelf_enabled {s : State} {r : Role} (h : holdsSelf (s.loc r).m = true) :
    ∃ l, l ≠ .call ∧ l ≠ .spurious ∧ (step s r l).isSome = true := by
  rcases enabled_or_blocked s r with e | e | e | e
  · simp [e, holdsSelf] at h
  · simp [e, holdsSelf] at h
  · rcases e with ⟨e, _⟩ | ⟨e | e, _⟩ <;> simp [e, holdsSelf] at h
  · exact e

theorem holdsW_enabled {s : State} {r : Role} (h : holdsW (s.loc r).m = true) :
    ∃ l, l ≠ .call ∧ l ≠ .spurious ∧ (step s r l).isSome = true := by
  rcases enabled_or_blocked s r with e | e | e | e
  · simp [e, holdsW] at h
  · simp [e, holdsW] at h
  · rcases e with ⟨e, _⟩ | ⟨e | e, _⟩ <;> simp [e, holdsW] at h
  · exact e

theorem not_enabled_of_quiescent {s : State} (hq : Quiescent s) (r : Role) :
    ¬ ∃ l, l ≠ .call ∧ l ≠ .spurious ∧ (step s r l).isSome = true := by
  rintro ⟨l, h1, h2, h3⟩
  rw [hq r l h1 h2] at h3
  simp at h3

/-- in a quiescent reachable state every thread is idle (between operations) or parked -/
theorem quiescent_idle_or_parked (hcap : 0 < cap) (h : Reach cap pp pc s) (hq : Quiescent s) (r : Role) :
    (s.loc r).m = .idle ∨ (s.loc r).m = .park := by
  have A := reach_all hcap h
  rcases enabled_or_blocked s r with e | e | e | e
  · exact Or.inl e
  · exact Or.inr e
  · exfalso
    -- blocked on a held mutex: the holder has an enabled step
    have hold : ∀ q, s.locked q = true → False := by
      intro q hl
      rcases A.a.a3 q hl with hs | hw
      · exact not_enabled_of_quiescent hq q (holdsSelf_enabled hs)
      · exact not_enabled_of_quiescent hq (other q) (holdsW_enabled hw)
    rcases e with ⟨_, hl⟩ | ⟨_, hl⟩
    · exact hold _ hl
    · exact hold _ hl
  · exact absurd e (not_enabled_of_quiescent hq r)

theorem notifying_not_idle_parked {k : K} {m : Mic} (h : notifying k m) : m ≠ .idle ∧ m ≠ .park := by
  rcases h with h | h | h | h
  · cases m <;> simp_all [owesNf]
  · rcases h with ⟨_, h | h⟩ <;> simp [h]
  · cases m <;> simp_all [holdsW]
  · simp [h]

/-- **Deadlock freedom (C05 corollary)**: in a reachable state with no enabled step, every thread is idle
or parked *with its condition false* — no thread is blocked while an item / space is available or the
other side is gone. -/
theorem quiescent_no_lost_wakeup (hcap : 0 < cap) (h : Reach cap pp pc s) (hq : Quiescent s) (r : Role) :
    (s.loc r).m = .idle ∨ ((s.loc r).m = .park ∧ s.tok r = false ∧ ¬ cond s r) := by
  have A := reach_all hcap h
  rcases quiescent_idle_or_parked hcap h hq r with e | e
  · exact Or.inl e
  · refine Or.inr ⟨e, ?_, ?_⟩
    · cases ht : s.tok r with
      | false => rfl
      | true =>
        exfalso
        apply not_enabled_of_quiescent hq r
        exact ⟨.park, by simp, by simp, by simp [step, stepPark, e, ht]⟩
    · intro hc
      have ht : s.tok r = false := by
        cases ht : s.tok r with
        | false => rfl
        | true =>
          exfalso
          apply not_enabled_of_quiescent hq r
          exact ⟨.park, by simp, by simp, by simp [step, stepPark, e, ht]⟩
      obtain ⟨_, hk⟩ := parked_is_registered hcap h e
      have hn : ∀ {k m}, notifying k m → (s.loc (other r)).k = k → (s.loc (other r)).m = m → False := by
        intro k m hn _ hm
        have := notifying_not_idle_parked hn
        rcases quiescent_idle_or_parked hcap h hq (other r) with e' | e' <;> (rw [hm] at e'; simp_all)
      rcases no_lost_wakeup hcap h r e hc with o | o | o
      · simp [ht] at o
      · rcases A.w.c7 r o with c | c | c | c
        · simp [ht] at c
        · have : notifying (s.loc (other r)).k (s.loc (other r)).m := by
            cases hm : (s.loc (other r)).m <;> simp_all [wkPost, notifying, holdsW]
          exact hn this rfl rfl
        · simp [e] at c
        · cases r <;> simp [hk, exitK] at c
      · exact hn o rfl rfl


/-! ## Non-vacuity: concrete reachable states (capacity 1, `send 1 ‖ recv`) -/

theorem reach_of_run {tr : List (Role × Label)} : ∀ {s0 s : State}, Reach cap pp pc s0 → run s0 tr = some s → Reach cap pp pc s := by
  induction tr with
  | nil => intro s0 s h0 h; simp [run] at h; subst h; exact h0
  | cons a rest ih =>
    intro s0 s h0 h
    obtain ⟨t, l⟩ := a
    simp only [run, Option.bind] at h
    split at h
    · simp at h
    · rename_i s1 hs1; exact ih (Reach.step h0 hs1) h

/-- the receiver runs alone until it parks: closed check, two empty pops, `senders_alive`, one spin,
again, register (lock, gate := 1, unlock), fence, re-check, `senders_alive`, → `park` -/
def trParkC : List (Role × Label) :=
  [(.C, .call), (.C, .load (.closed .C)), (.C, .load .head), (.C, .load .tail), (.C, .load .head), (.C, .load .tail),
   (.C, .load (.count .P)), (.C, .spin), (.C, .load .head), (.C, .load .tail), (.C, .load (.count .P)),
   (.C, .lock .C), (.C, .store (.gate .C)), (.C, .unlock .C), (.C, .fence),
   (.C, .load .head), (.C, .load .tail), (.C, .load (.count .P))]

/-- … then the sender publishes one item: closed checks, `tail` load (slot written), `tail` store -/
def trPublish : List (Role × Label) :=
  [(.P, .call), (.P, .load (.closed .P)), (.P, .load (.dropped .C)), (.P, .load .tail), (.P, .store .tail)]

/-- … and notifies: fence, gate read (= 1), lock, gate := 0, flag := true, unlock, unpark, return; the receiver
wakes, swaps the flag, pops the item, notifies (gate 0) and returns it -/
def trWake : List (Role × Label) :=
  [(.P, .fence), (.P, .load (.gate .C)), (.P, .lock .C), (.P, .store (.gate .C)), (.P, .store (.flag .C)),
   (.P, .unlock .C), (.P, .unpark .C), (.P, .ret),
   (.C, .park), (.C, .swap (.flag .C)), (.C, .load .head), (.C, .load .tail), (.C, .store .head),
   (.C, .fence), (.C, .load (.gate .P)), (.C, .ret)]

/-- Non-vacuity of `no_lost_wakeup` (receiver): a reachable state in which the receiver is parked without a
token, an item is available, and the wake is owed by the sender being between its `tail` store and the end
of `notify_receivers`. -/
example : ∃ s, Reach 1 [.send 1] [.recv] s ∧ (s.loc .C).m = .park ∧ s.tok .C = false ∧ s.flag .C = false ∧
    s.head < s.tail ∧ (s.loc .P).m = .nfFence := by
  cases hr : run (init 1 [.send 1] [.recv]) (trParkC ++ trPublish) with
  | none => exact absurd hr (by decide)
  | some s =>
    refine ⟨s, reach_of_run Reach.init hr, ?_, ?_, ?_, ?_, ?_⟩
    · have : (run (init 1 [.send 1] [.recv]) (trParkC ++ trPublish)).map (fun s => (s.loc .C).m) = some .park := by decide
      rw [hr] at this; simpa using this
    · have : (run (init 1 [.send 1] [.recv]) (trParkC ++ trPublish)).map (fun s => s.tok .C) = some false := by decide
      rw [hr] at this; simpa using this
    · have : (run (init 1 [.send 1] [.recv]) (trParkC ++ trPublish)).map (fun s => s.flag .C) = some false := by decide
      rw [hr] at this; simpa using this
    · have : (run (init 1 [.send 1] [.recv]) (trParkC ++ trPublish)).map (fun s => decide (s.head < s.tail)) = some true := by decide
      rw [hr] at this; simpa using this
    · have : (run (init 1 [.send 1] [.recv]) (trParkC ++ trPublish)).map (fun s => (s.loc .P).m) = some .nfFence := by decide
      rw [hr] at this; simpa using this

/-- the whole handshake runs in the model: the parked receiver is woken and returns the item sent. -/
example : (run (init 1 [.send 1] [.recv]) (trParkC ++ trPublish ++ trWake)).map
    (fun s => (s.results .P, s.results .C, s.pushed, s.popped, s.tok .C)) = some ([.ok], [.okV 1], [1], [1], false) := by decide

/-- Non-vacuity of the quiescent case: the receiver parked alone (sender idle, handle alive, nothing sent) is
quiescent-blocked with its condition false — the only kind of blocked state the theorems allow. -/
example : (run (init 1 [] [.recv]) trParkC).map (fun s => ((s.loc .C).m, s.tok .C, decide (s.head < s.tail), s.count .P))
    = some (.park, false, false, 1) := by decide

end Fv.Props.SpscB
