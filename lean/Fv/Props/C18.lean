import Fv.Lemmas.IocCycle
import Fv.Lemmas.IocConc
/-!
# C18 — IoC resolution: singletons once and shared, transients fresh, keys isolated
(model: `Fv.Ioc`, code: /repo/ioc/src/{core,container,local_container,global,macros}.rs)

All statements are about `Fv.Ioc`: arbitrary registries / histories (`runOps World.empty ops` for any
`ops`), arbitrary keys, any number of containers (global = container 0, instance and local ones).

* isolation, unregistered ⇒ `None`, latest registration wins, transient freshness, singleton
  sharing and run count, totality, cycle ⇒ panic: full strength.
* `panic(cycle) ⇒ cycle` is FALSE on the code (F16: the resolving set ignores the container):
  `C18_fails_F16`; proved for factories that stay inside one container
  (`C18_cycle_panic_only_for_cycles_partial`).
* threads: `_partial` w.r.t. schedules — the small-step model takes `OnceCell::get_or_init` as one
  atomic test-and-run step (once_cell's contract, trusted) and quantifies over every interleaving
  of those steps with lookups and registrations.
-/
namespace Fv.Props.C18
open Fv.Ioc

/-! ## Keys are isolated -/

/-- A registration under `(container, type, name) = s'` does not change what any other slot holds:
differently typed, differently named (`None` vs `Some ""` included) or differently placed
registrations never alias. -/
theorem C18_key_isolation (w : World) (op : Op) (s s' : Slot) (hreg : op.regSlot = some s') (hne : s ≠ s') :
    (applyOp w op).1.regs.get s = w.regs.get s :=
  applyOp_reg_other hreg hne

/-- A resolution (of any slot, with any outcome, panics included) never adds, removes or replaces a
registration: every slot keeps its provider, which can only have been initialised / counted. -/
theorem C18_resolution_keeps_registrations (w : World) (c : Nat) (k : Key) (s : Slot) :
    (w.regs.get s = none → (resolve w c k).1.regs.get s = none) ∧
    (∀ p, w.regs.get s = some p → ∃ p', (resolve w c k).1.regs.get s = some p' ∧ p.Evolves p') :=
  ⟨fun h => (resolve_ext w c k).get_none h, fun p h => (resolve_ext w c k).evolves s p h⟩

example : (applyOp { regs := [(⟨1, ⟨0, none⟩⟩, .inst 3)], next := 4 } (.regInstance 1 ⟨0, some 0⟩ 9)).1.regs.get ⟨1, ⟨0, none⟩⟩
    = some (.inst 3) := by decide

/-! ## Unregistered ⇒ `None` -/

/-- After ANY history that never registers slot `s`, resolving `s` returns `None` (no panic) and
changes nothing. -/
theorem C18_unregistered_none (ops : List Op) (s : Slot) (hno : ∀ op ∈ ops, op.regSlot ≠ some s) :
    resolve (runOps World.empty ops) s.c s.k = (runOps World.empty ops, .none) := by
  obtain ⟨c, k⟩ := s
  have hg := runOps_good World.good_empty ops
  have hnone := runOps_get_none (w := World.empty) (s := ⟨c, k⟩) ops hno rfl
  exact resolveF_unregistered (by rw [hg.idle]; simp) hnone

example : resolve (runOps World.empty [.regInstance 1 ⟨0, none⟩ 5, .resolve 1 ⟨0, none⟩]) 1 ⟨0, some 0⟩
    = (runOps World.empty [.regInstance 1 ⟨0, none⟩ 5, .resolve 1 ⟨0, none⟩], .none) := by decide

/-! ## The latest registration wins -/

/-- After `… reg(s, p) …` with no later registration of `s`, slot `s` holds `p` itself, possibly
initialised/counted by the resolutions that followed — never an older registration of `s`. -/
theorem C18_latest_registration_wins (before after : List Op) (reg : Op) (s : Slot) (p : Provider)
    (hs : reg.regSlot = some s) (hp : reg.provider = some p) (hno : ∀ op ∈ after, op.regSlot ≠ some s) :
    ∃ p', (runOps World.empty (before ++ reg :: after)).regs.get s = some p' ∧ p.Evolves p' := by
  rw [runOps_append]
  simp only [runOps]
  exact runOps_evolves after hno (applyOp_reg_get hs hp)

/-- In particular an `add_instance` is what every later resolution returns, whatever was registered
under the key before. -/
theorem C18_latest_instance_resolved (before after : List Op) (c : Nat) (k : Key) (id : Nat)
    (hno : ∀ op ∈ after, op.regSlot ≠ some ⟨c, k⟩) :
    (resolve (runOps World.empty (before ++ .regInstance c k id :: after)) c k).2 = .some id := by
  obtain ⟨p', hp', ev⟩ := C18_latest_registration_wins before after (.regInstance c k id) ⟨c, k⟩ (.inst id) rfl rfl hno
  simp only [Provider.Evolves] at ev
  subst ev
  have hg := runOps_good World.good_empty (before ++ .regInstance c k id :: after)
  rw [show resolve _ c k = _ from resolveF_inst (by rw [hg.idle]; simp) hp']

example : (resolve (runOps World.empty [.regSingleton 1 ⟨0, none⟩ [], .resolve 1 ⟨0, none⟩, .regInstance 1 ⟨0, none⟩ 9]) 1 ⟨0, none⟩).2
    = .some 9 := by decide

/-! ## Transients are fresh -/

/-- A transient resolution that returns an instance returns one that did not exist before
(`≥` the id counter, under which every stored or previously returned instance lies) and moves the
counter past it. -/
theorem C18_transient_fresh (w w' : World) (c : Nat) (k : Key) (sc : List Dep) (r id : Nat)
    (hget : w.regs.get ⟨c, k⟩ = some (.transient sc r)) (hres : resolve w c k = (w', .some id)) :
    w.next ≤ id ∧ w'.next = id + 1 ∧ w'.regs.get ⟨c, k⟩ = some (.transient sc (r + 1)) := by
  obtain ⟨h1, h2, h3⟩ := resolveF_active_some hget (sc := sc) rfl hres
  refine ⟨h1, h2, ?_⟩
  rcases h3 with ⟨r0, h, _⟩ | ⟨r0, h, h'⟩
  · cases h
  · cases h; exact h'

/-- Every instance any resolution returns is below the counter afterwards (so a later transient
instance differs from it). -/
theorem C18_returned_below_counter (ops : List Op) (c : Nat) (k : Key) (w' : World) (id : Nat)
    (hres : resolve (runOps World.empty ops) c k = (w', .some id)) : id < w'.next :=
  resolveF_some_lt (runOps_good World.good_empty ops).ids hres

/-- Two transient resolutions anywhere in a history (same key or not, any operations in between)
return different instances; ids strictly increase. -/
theorem C18_transient_pairwise_distinct (ops mid : List Op) (c c' : Nat) (k k' : Key) (w1 w2 : World)
    (id1 id2 : Nat) (sc' : List Dep) (r' : Nat)
    (h1 : resolve (runOps World.empty ops) c k = (w1, .some id1))
    (hget2 : (runOps w1 mid).regs.get ⟨c', k'⟩ = some (.transient sc' r'))
    (h2 : resolve (runOps w1 mid) c' k' = (w2, .some id2)) : id1 < id2 := by
  have hlt := C18_returned_below_counter ops c k w1 id1 h1
  have hmono := runOps_next_le w1 mid
  have := (C18_transient_fresh _ _ _ _ _ _ _ hget2 h2).1
  omega

example : (resolve (runOps World.empty [.regTransient 1 ⟨2, none⟩ [], .resolve 1 ⟨2, none⟩]) 1 ⟨2, none⟩).2 = .some 1 := by
  decide

/-! ## Singletons: one instance, one factory run -/

/-- Once a resolution of a singleton slot has returned `id`, every later resolution of the slot —
after any operations that do not re-register it — returns the same `id`, without running anything. -/
theorem C18_singleton_shared (ops mid : List Op) (c : Nat) (k : Key) (sc : List Dep) (cell : Option Nat)
    (r id : Nat) (w1 : World)
    (hget : (runOps World.empty ops).regs.get ⟨c, k⟩ = some (.singleton sc cell r))
    (h1 : resolve (runOps World.empty ops) c k = (w1, .some id))
    (hno : ∀ op ∈ mid, op.regSlot ≠ some ⟨c, k⟩) :
    resolve (runOps w1 mid) c k = (runOps w1 mid, .some id) := by
  obtain ⟨r', hr'⟩ := resolveF_singleton_some hget h1
  obtain ⟨p', hp', ev⟩ := runOps_evolves mid hno hr'
  simp only [Provider.Evolves] at ev
  subst ev
  have hg0 := runOps_good World.good_empty ops
  have hg1 : w1.Good := by
    have := applyOp_good hg0 (.resolve c k)
    simp only [applyOp, h1] at this
    exact this
  have hg := runOps_good hg1 mid
  exact resolveF_filled (by rw [hg.idle]; simp) hp'

/-- In every reachable state every singleton registration has completed its factory at most once:
never for an empty cell, exactly once for a filled one. -/
theorem C18_singleton_factory_at_most_once (ops : List Op) (s : Slot) (sc : List Dep) (cell : Option Nat) (r : Nat)
    (hget : (runOps World.empty ops).regs.get s = some (.singleton sc cell r)) :
    r ≤ 1 ∧ (cell = none ↔ r = 0) := by
  have := (runOps_good World.good_empty ops).runs s _ hget
  cases cell <;> simp_all [Provider.RunsOk]

example : (runOps World.empty [.regSingleton 1 ⟨0, none⟩ [], .resolve 1 ⟨0, none⟩, .resolve 1 ⟨0, none⟩]).count ⟨1, ⟨0, none⟩⟩
    = some 1 := by decide

/-! ## Cycles: a panic, never a hang -/

/-- The resolver is total: for EVERY registry, container, key and resolving set, `regs.length + 1`
levels of nesting suffice — the real recursion terminates (no hang, no unbounded stack). -/
theorem C18_resolve_total (w : World) (c : Nat) (k : Key) : (resolve w c k).2 ≠ .diverge :=
  resolve_total w c k

/-- Whenever the dependency graph reachable from the resolved slot has a cycle, the outcome is a
panic (and, `resolve_cycle_frame`, no slot on the way is ever initialised). -/
theorem C18_cycle_panics (w : World) (c : Nat) (k : Key) (h : CycleFrom w ⟨c, k⟩) :
    ∃ p, (resolve w c k).2 = .panic p :=
  resolve_cycle_panics h

/-- a two-slot cycle A → B → A -/
def cycWorld : World :=
  { regs := [(⟨1, ⟨0, none⟩⟩, .singleton [⟨1, ⟨1, none⟩, true⟩] none 0),
             (⟨1, ⟨1, none⟩⟩, .transient [⟨1, ⟨0, none⟩, false⟩] 0)] }

example : CycleFrom cycWorld ⟨1, ⟨0, none⟩⟩ := by
  have e1 : ActiveEdge cycWorld ⟨1, ⟨0, none⟩⟩ ⟨1, ⟨1, none⟩⟩ :=
    ⟨.singleton [⟨1, ⟨1, none⟩, true⟩] none 0, [⟨1, ⟨1, none⟩, true⟩], by decide, rfl, ⟨1, ⟨1, none⟩, true⟩, by simp, rfl⟩
  have e2 : ActiveEdge cycWorld ⟨1, ⟨1, none⟩⟩ ⟨1, ⟨0, none⟩⟩ :=
    ⟨.transient [⟨1, ⟨0, none⟩, false⟩] 0, [⟨1, ⟨0, none⟩, false⟩], by decide, rfl, ⟨1, ⟨0, none⟩, false⟩, by simp, rfl⟩
  exact ⟨_, _, Reach.refl _, e1, Reach.step e2 (Reach.refl _)⟩

example : (resolve cycWorld 1 ⟨0, none⟩).2 = .panic .cycle := by decide

/-- The exact form of the cycle clause: a "Circular dependency" panic is reported only when the
dependency graph reachable from the resolved slot has a cycle.  FALSE on the code (F16). -/
def CyclePanicOnlyForCycles : Prop :=
  ∀ (w : World) (c : Nat) (k : Key), w.resolving = [] →
    (resolve w c k).2 = .panic .cycle → CycleFrom w ⟨c, k⟩

/-- True when every factory resolves from one and the same container `c`. -/
theorem C18_cycle_panic_only_for_cycles_partial (w : World) (c : Nat) (k : Key) (hone : OneContainer w c)
    (hidle : w.resolving = []) (h : (resolve w c k).2 = .panic .cycle) : CycleFrom w ⟨c, k⟩ :=
  resolve_cycle_panic_sound hone hidle h

example : OneContainer cycWorld 1 := by
  intro s p hget d hd
  simp only [cycWorld, Reg.get] at hget
  split at hget
  · cases hget; simp only [Provider.script, List.mem_singleton] at hd; subst hd; rfl
  · split at hget
    · cases hget; simp only [Provider.script, List.mem_singleton] at hd; subst hd; rfl
    · cases hget

/-- container 1 decorates the service `T0` of the global container 0 -/
def f16World : World :=
  { regs := [(⟨1, ⟨0, none⟩⟩, .singleton [⟨0, ⟨0, none⟩, true⟩] none 0), (⟨0, ⟨0, none⟩⟩, .inst 7)], next := 8 }

theorem f16_edge {a x : Slot} (h : ActiveEdge f16World a x) : a = ⟨1, ⟨0, none⟩⟩ ∧ x = ⟨0, ⟨0, none⟩⟩ := by
  obtain ⟨p, sc, hg, ha, d, hd, hx⟩ := h
  simp only [f16World, Reg.get] at hg
  split at hg
  · next h1 =>
    cases hg
    simp only [Provider.active, Option.some.injEq] at ha
    subst ha
    simp only [List.mem_singleton] at hd
    subst hd
    exact ⟨h1.symm, hx.symm⟩
  · split at hg
    · cases hg; simp [Provider.active] at ha
    · cases hg

/-- **F16 witness**: the model (like the code) reports a cycle where the graph has none. -/
theorem C18_fails_F16 : ¬ CyclePanicOnlyForCycles := by
  intro h
  have hp : (resolve f16World 1 ⟨0, none⟩).2 = .panic .cycle := by decide
  obtain ⟨t, u, hr, he, hb⟩ := h f16World 1 ⟨0, none⟩ rfl hp
  have hsrc := (f16_edge he).1
  have hu := (f16_edge he).2
  subst hsrc hu
  cases hb with
  | step e _ => exact absurd (f16_edge e).1 (by decide)

/-! ## Threads (partial w.r.t. schedules: `get_or_init` atomic, see `Fv.Ioc.stepJob`) -/

/-- all jobs are at their start -/
def Job.Initial : Job → Prop
  | .resolver _ _ ph => ph = .ready
  | .registrar _ _ fin => fin = false

/-- **At most once, same instance, under every schedule.**  Start: slot `s` holds a freshly
registered singleton; any number of threads (`jobs`): resolvers of `s`, resolvers of other keys,
and registrations of other slots.  For EVERY schedule (any list of thread indices, fair or not,
finished or not): the factory of `s` has completed at most once, and all resolver threads of `s`
that have returned an instance returned the same one, which is the one in the cell. -/
theorem C18_once_under_every_schedule_partial (w : World) (s : Slot) (sc : List Dep) (jobs : List Job)
    (hidle : w.resolving = []) (hget : w.regs.get s = some (.singleton sc none 0))
    (hinit : ∀ j ∈ jobs, Job.Initial j) (hreg : ∀ j ∈ jobs, ∀ s' p f, j = .registrar s' p f → s' ≠ s)
    (sched : List Nat) :
    let cf := runSched ⟨w, jobs⟩ sched
    (∃ n, cf.w.count s = some n ∧ n ≤ 1) ∧
    (∀ j ∈ cf.jobs, ∀ j' ∈ cf.jobs, ∀ id id', j = .resolver s.c s.k (.done (.some id)) →
      j' = .resolver s.c s.k (.done (.some id')) → id = id' ∧ ∃ r, cf.w.regs.get s = some (.singleton sc (some id) r)) := by
  have h0 : RaceInv s sc ⟨w, jobs⟩ := by
    refine ⟨hidle, hreg, Or.inl ⟨hget, ?_⟩⟩
    intro j hj id e
    have := hinit j hj
    subst e
    simp [Job.Initial] at this
  obtain ⟨_, _, h3⟩ := runSched_raceInv sched h0
  intro cf
  rcases h3 with ⟨hg, hn⟩ | ⟨id0, hg, ha⟩
  · refine ⟨⟨0, by simp [World.count, cf, hg], Nat.zero_le _⟩, ?_⟩
    intro j hj j' _ id id' e _
    exact absurd e (hn j hj id)
  · refine ⟨⟨1, by simp [World.count, cf, hg], Nat.le_refl _⟩, ?_⟩
    intro j hj j' hj' id id' e e'
    have h1 := ha j hj id e
    have h2 := ha j' hj' id' e'
    subst h1 h2
    exact ⟨rfl, 1, hg⟩

/-- Every slot, every schedule: whatever threads resolve and register (fresh providers) in whatever
interleaving, no singleton registration ever completes its factory twice. -/
theorem C18_factory_at_most_once_under_every_schedule_partial (ops : List Op) (jobs : List Job)
    (hfresh : FreshRegistrars jobs) (sched : List Nat) (s : Slot) (sc : List Dep) (cell : Option Nat) (r : Nat)
    (hget : (runSched ⟨runOps World.empty ops, jobs⟩ sched).w.regs.get s = some (.singleton sc cell r)) :
    r ≤ 1 ∧ (cell = none ↔ r = 0) := by
  have := (runSched_good sched (cf := ⟨runOps World.empty ops, jobs⟩) (runOps_good World.good_empty ops) hfresh).runs s _ hget
  cases cell <;> simp_all [Provider.RunsOk]

/-- non-vacuity: three racing resolvers and a registrar, two different schedules, same result -/
def raceConf : Conf :=
  { w := { regs := [(⟨1, ⟨0, none⟩⟩, .singleton [⟨1, ⟨1, none⟩, false⟩] none 0)] },
    jobs := [.resolver 1 ⟨0, none⟩ .ready, .resolver 1 ⟨0, none⟩ .ready, .resolver 1 ⟨0, none⟩ .ready,
             .registrar ⟨1, ⟨1, none⟩⟩ (.inst 40) false] }

example : (runSched raceConf [0, 1, 2, 3, 2, 1, 0]).jobs.take 3 =
    [.resolver 1 ⟨0, none⟩ (.done (.some 41)), .resolver 1 ⟨0, none⟩ (.done (.some 41)), .resolver 1 ⟨0, none⟩ (.done (.some 41))] := by
  decide

example : FreshRegistrars raceConf.jobs := by
  intro j hj s p f e
  subst e
  simp only [raceConf, List.mem_cons, reduceCtorEq, Job.registrar.injEq, List.not_mem_nil, or_false, false_or] at hj
  obtain ⟨_, rfl, _⟩ := hj
  trivial

example : (runSched raceConf [2, 2, 3, 0, 0, 1, 1]).w.count ⟨1, ⟨0, none⟩⟩ = some 1 := by decide

end Fv.Props.C18
