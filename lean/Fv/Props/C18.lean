import Fv.Lemmas.IocSpec
/-!
# C18 — IoC resolution (model: `Fv.Ioc`, /repo/ioc)
-/
namespace Fv.Props.C18
open Fv.Ioc

/-- The exact form of the cycle clause: a "Circular dependency" panic is reported only when the
dependency graph reachable from the resolved slot has a cycle.  FALSE on the code (F16). -/
def CyclePanicOnlyForCycles : Prop :=
  ∀ (w : World) (c : Nat) (k : Key), w.resolving = [] →
    (resolve w c k).2 = .panic .cycle → CycleFrom w ⟨c, k⟩

/-- container 1 decorates the service `T0` of the global container 0 -/
def f16World : World :=
  { regs := [(⟨1, ⟨0, none⟩⟩, .singleton [⟨0, ⟨0, none⟩, true⟩] none 0), (⟨0, ⟨0, none⟩⟩, .instance 7)], next := 8 }

theorem f16_edge {a x : Slot} (h : ActiveEdge f16World a x) : a = ⟨1, ⟨0, none⟩⟩ ∧ x = ⟨0, ⟨0, none⟩⟩ := by
  obtain ⟨p, sc, hg, ha, d, hd, hx⟩ := h
  simp only [f16World, Reg.get] at hg
  split at hg
  · next h1 =>
    cases hg
    simp only [Provider.active, Option.some.injEq] at ha
    subst ha
    simp only [List.mem_singleton] at hd
    subst hd
    exact ⟨h1.symm, hx.symm⟩
  · split at hg
    · cases hg; simp [Provider.active] at ha
    · cases hg

/-- **F16 witness**: the model (like the code) reports a cycle where the graph has none. -/
theorem C18_fails_F16 : ¬ CyclePanicOnlyForCycles := by
  intro h
  have hp : (resolve f16World 1 ⟨0, none⟩).2 = .panic .cycle := by decide
  obtain ⟨t, u, hr, he, hb⟩ := h f16World 1 ⟨0, none⟩ rfl hp
  have hsrc := (f16_edge he).1
  have hu := (f16_edge he).2
  subst hsrc hu
  cases hb with
  | step e _ => exact absurd (f16_edge e).1 (by decide)

end Fv.Props.C18
