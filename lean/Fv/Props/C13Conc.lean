import Fv.Lemmas.CacheConcUnbounded
import Fv.Props.CacheConc
/-!
# C13 under interleavings — the accounting clause at full strength for unbounded caches

`Fv.Props.CacheConc.C13c_quiescent_accounting_partial` needs `dirty = false` (no capacity pass was
told a released cost different from what it removed). With `capacity = u64::MAX` (`unbounded()`), the
capacity pass's load of `current_cost` can never exceed the capacity, so the pass never reaches its
policy call: the hypothesis is a theorem.

Programs may MIX calls on the sync handle (`Cache`) and on the async handle (`AsyncCache`): the environment
label `call op async` chooses the handle per call, and every theorem below quantifies over such mixed
programs (see `Fv.Props.CacheConcAsync` for what differs between the two handles).
-/
namespace Fv.Props.C13Conc
open Fv.Cache.Conc

/-- **Accounting at quiescence, unbounded cache, full strength**: for every program, thread count and
interleaving of get / insert / overwrite / remove / compute / or_insert / clear / maintenance passes,
in every quiescent reachable state `current_cost` = Σ cost of resident entries. -/
theorem C13c_quiescent_accounting_unbounded {c : Cfg} (hc : 18446744073709551615 ≤ c.capacity) {s : State}
    (h : Reach c s) (hq : Quiescent c s) : s.cur = residentCost s :=
  Fv.Props.CacheConc.C13c_quiescent_accounting_partial h hq (invU_reach hc h).clean

/-- in an unbounded cache no thread is ever inside the evicting part of the capacity pass -/
theorem C13c_unbounded_never_evicts_for_capacity {c : Cfg} (hc : 18446744073709551615 ≤ c.capacity) {s : State}
    (h : Reach c s) (t : Nat) : capPC (s.pc t) = false := (invU_reach hc h).nocap t

/-- non-vacuity: the insert ‖ clear schedule in an unbounded configuration ends quiescent -/
example : (run { nThreads := 2, nShards := 1, capacity := 18446744073709551615 } init
    Fv.Props.CacheConc.traceClearOverlap).map (fun s => (s.cur, residentCost s)) = some (0, 0) := by decide

end Fv.Props.C13Conc
