import Fv.Lemmas.RouteSpec
import Fv.Lemmas.Pipeline
/-!
# C19 — log events reach exactly the configured appenders, in order, none lost

Property theorems only. Models: `Fv/Log/Route.lean` (`RouteSpec` = the statement made formal,
`route` = what the code builds and evaluates, `emitLog` / `emitTracing` = the two entry points
with their pre-filters) and `Fv/Log/Pipeline.lean` (bounded FIFO per appender, overflow policy,
writer / stream consumer, shutdown). Helper lemmas: `Fv/Lemmas/Route.lean`, `RouteSpec.lean`,
`Pipeline.lean`.

Routing (for ALL configurations satisfying the HashMap/validation invariants `Config.WF`, all
targets, all event levels ERROR..TRACE, every iteration order of the hash maps):
* `C19_route_eq_spec_partial` — `a ∈ route cfg ev ↔ RouteSpec cfg ev a` whenever the most specific
  matching logger (if any) names at least one appender (`WinnerWired`);
  `C19_route_eq_spec_allWired_partial` — the configuration-wide corollary.
  The full statement is FALSE of the code: `C19_fails_F12a` (non-additive logger without
  appenders does not gate) and `C19_fails_F12c` (additive logger without appenders does not lift
  the gate of a less specific non-additive logger — so "every non-additive logger names an
  appender" is not a sufficient hypothesis).
* `C19_route_eq_codeSpec` — the exact (unconditional) description of what the code routes;
  `C19_route_order_independent` — hash-map iteration order does not matter.
* `C19_prefilters_never_reject` — `event_enabled`, the `max_level` hint and `log::max_level()`
  never reject an event `route` would deliver; `C19_log_tracing_same` — both entry points deliver
  exactly `route cfg (target, level)`.
* `C19_exactly_once` — no appender occurs twice in the delivery list.
Pipeline (every step sequence of emitters, consumer and shutdown, any capacity):
* `C19_fifo`, `C19_per_thread_order`, `C19_delivered_exactly_once`, `C19_block_never_drops`,
  `C19_drop_never_blocks`, `C19_disconnect_only_after_shutdown`;
* `C19_no_loss_at_shutdown_partial` — a consumer that has exited (writer thread finished its final
  drain / stream receiver saw `Disconnected`) has taken EVERY accepted event — also those accepted
  concurrently with shutdown — in per-thread issue order, exactly once, nothing is left in flight
  and nothing can be accepted afterwards; the one hypothesis is `graceEarly = false`: the writer's
  `FINAL_DRAIN_GRACE` deadline (environment step `graceExpired`) did not fire before the senders
  were closed and the in-flight sends had landed. `C19_no_loss_without_graceExpired_partial` — the
  same for every step sequence in which `graceExpired` does not occur;
  `C19_residual_graceExpired_early_loses` — the hypothesis is needed (the residual, documented
  limit: real time is not modelled);
  `C19_F12b_schedule_nothing_lost` — the schedule that lost an accepted event before the `fix:`
  commit (former `C19_fails_F12b`) cannot make the repaired writer exit early and loses nothing;
* `C19_no_loss_quiescent_shutdown_partial` — if no emit is concurrent with shutdown nothing is
  lost whether or not the grace deadline expires (senders never closed, slow close);
  `C19_every_guard_end_shuts_down`, `C19_no_loss_any_guard_end_partial` — explicit shutdown, drop on
  any thread and drop during panic unwinding all run the same flag-then-close sequence.
-/
namespace Fv.Props.C19
open Fv.Log

/-! ## Routing -/

/-- **Routing clause, partial.** For every well-formed configuration, every target and every
event level ≥ ERROR: if the most specific matching logger overall (when one exists) names at
least one appender, the code delivers to exactly the appenders the property selects. -/
theorem C19_route_eq_spec_partial (cfg : Config) (wf : cfg.WF) (ev : Event) (hev : 0 < ev.level)
    (hF12a : WinnerWired cfg ev) (a : Appender) :
    a ∈ route cfg ev ↔ RouteSpec cfg ev a :=
  mem_route_iff_spec wf hev hF12a a

/-- Configuration-wide form: if every logger other than `root` names at least one appender then
routing is exactly the specification for all events. -/
theorem C19_route_eq_spec_allWired_partial (cfg : Config) (wf : cfg.WF) (hall : AllWired cfg)
    (ev : Event) (hev : 0 < ev.level) (a : Appender) :
    a ∈ route cfg ev ↔ RouteSpec cfg ev a :=
  mem_route_iff_spec wf hev (allWired_winnerWired hall ev) a

/-- the configuration of the repository's additivity-matrix test, in model form -/
def exCfg : Config :=
  { appenders := [0, 1, 2]
    loggers := [ { name := ['a'], level := 4, appenders := [1], additive := true },
                 { name := ['a', ':', ':', 'b'], level := 2, appenders := [2], additive := false } ]
    rootLevel := 3, rootAppenders := [0] }

example : exCfg.WF := ⟨by decide, by decide, by decide⟩
example : AllWired exCfg := by decide
example : WinnerWired exCfg { target := ['a', ':', ':', 'b', ':', ':', 'c'], level := 2 } := by decide
-- additive `a`: root's appender and `a`'s appender; non-additive `a::b`: only its own appender
example : route exCfg { target := ['a', ':', ':', 'x'], level := 3 } = [0, 1] := by decide
example : route exCfg { target := ['a', ':', ':', 'b', ':', ':', 'c'], level := 2 } = [2] := by decide
example : RouteSpec exCfg { target := ['a', ':', ':', 'b', ':', ':', 'c'], level := 2 } 2 := by decide
example : ¬ RouteSpec exCfg { target := ['a', ':', ':', 'b', ':', ':', 'c'], level := 2 } 0 := by decide
-- `a::bc` is not under `a::b` (no `::` boundary): it falls to `a`
example : route exCfg { target := ['a', ':', ':', 'b', 'c'], level := 3 } = [0, 1] := by decide

/-- **What the code does, exactly** (no hypothesis on appender-less loggers): `route` selects `a`
iff `a`'s most specific logger admits the level and the most specific matching logger *among those
that name at least one appender* — the only ones `process_event` can see — does not gate it. The
difference to `RouteSpec` is precisely the words "among those that name at least one appender". -/
theorem C19_route_eq_codeSpec (cfg : Config) (wf : cfg.WF) (ev : Event) (hev : 0 < ev.level) (a : Appender) :
    a ∈ route cfg ev ↔ CodeSpec cfg ev a :=
  mem_route_iff_codeSpec wf hev a

/-- **Hash-map iteration order is irrelevant**: two configurations with the same appender set,
logger set and root (in any list order) route every event identically. (The differential feeds
the model declaration order while the implementation iterates `HashMap`s.) -/
theorem C19_route_order_independent (cfg cfg' : Config) (wf : cfg.WF) (wf' : cfg'.WF)
    (happ : ∀ x, x ∈ cfg'.appenders ↔ x ∈ cfg.appenders)
    (hlog : ∀ l, l ∈ cfg'.loggers ↔ l ∈ cfg.loggers)
    (hroot : cfg'.rootLevel = cfg.rootLevel ∧ ∀ x, x ∈ cfg'.rootAppenders ↔ x ∈ cfg.rootAppenders)
    (ev : Event) (hev : 0 < ev.level) (a : Appender) :
    a ∈ route cfg' ev ↔ a ∈ route cfg ev := by
  rw [mem_route_iff_codeSpec wf' hev, mem_route_iff_codeSpec wf hev]
  exact codeSpec_congr happ hlog hroot.1 hroot.2 ev a

example : route { exCfg with appenders := [2, 0, 1], loggers := exCfg.loggers.reverse }
    { target := ['a', ':', ':', 'x'], level := 3 } = [0, 1] := by decide

/-- **F12a on the model.** root → appender 0; non-additive logger `q` names no appender. Target
`q::i` at INFO: the property selects nobody, the code delivers to appender 0. Every non-additive
logger naming ≥ 1 appender is exactly what this configuration violates. -/
theorem C19_fails_F12a :
    ∃ (cfg : Config) (ev : Event) (a : Appender),
      cfg.WF ∧ 0 < ev.level ∧ ¬ NonAdditiveWired cfg ∧ a ∈ route cfg ev ∧ ¬ RouteSpec cfg ev a :=
  ⟨{ appenders := [0], loggers := [{ name := ['q'], level := 3, appenders := [], additive := false }],
     rootLevel := 3, rootAppenders := [0] },
   { target := ['q', ':', ':', 'i'], level := 3 }, 0,
   ⟨by decide, by decide, by decide⟩, by decide, by decide, by decide, by decide⟩

/-- **F12c on the model** (same root cause, opposite direction). Every non-additive logger names
an appender, yet routing differs from the property: `a` (non-additive → appender 1), `a::b`
(ADDITIVE, no appenders), root → appender 0. Target `a::b::c`: the most specific matching logger
is additive, so root's appender 0 must receive the event; the code gates it on `a`. -/
theorem C19_fails_F12c :
    ∃ (cfg : Config) (ev : Event) (a : Appender),
      cfg.WF ∧ 0 < ev.level ∧ NonAdditiveWired cfg ∧ RouteSpec cfg ev a ∧ a ∉ route cfg ev :=
  ⟨{ appenders := [0, 1],
     loggers := [ { name := ['a'], level := 3, appenders := [1], additive := false },
                  { name := ['a', ':', ':', 'b'], level := 3, appenders := [], additive := true } ],
     rootLevel := 3, rootAppenders := [0] },
   { target := ['a', ':', ':', 'b', ':', ':', 'c'], level := 3 }, 0,
   ⟨by decide, by decide, by decide⟩, by decide, by decide, by decide, by decide⟩

/-- **Pre-filters are sound.** Whatever `process_event` would deliver passes `event_enabled`
(the `tracing` layer's `enabled`), the `max_level_hint`, and `log::max_level()` as set by init. -/
theorem C19_prefilters_never_reject (cfg : Config) (ev : Event) (a : Appender) (h : a ∈ route cfg ev) :
    eventEnabled cfg ev = true ∧ ev.level ≤ maxLevel cfg ∧
      (ev.level ≤ 5 → ev.level ≤ logMaxLevel cfg) := by
  refine ⟨route_eventEnabled h, route_le_maxLevel h, ?_⟩
  intro h5
  have := route_le_maxLevel h
  unfold logMaxLevel tracingFilterToLogFilter
  repeat' split
  all_goals omega

example : 1 ∈ route exCfg { target := ['a'], level := 4 } := by decide

/-- **`log` and `tracing` entry points agree**: a `log::Record` and a `tracing` event with the
same target and corresponding level reach the same appenders, namely `route cfg (target, level)`
(the per-API pre-filters change nothing). -/
theorem C19_log_tracing_same (cfg : Config) (target : Name) (lvl : LogLevel) :
    emitLog cfg target lvl = route cfg { target := target, level := logLevelToTracing lvl } ∧
    emitTracing cfg target (logLevelToTracing lvl) = route cfg { target := target, level := logLevelToTracing lvl } := by
  constructor
  · unfold emitLog
    split
    · rename_i hlt
      symm; apply route_eq_nil_of_prefilter; left
      show maxLevel cfg < logLevelToTracing lvl
      unfold logMaxLevel tracingFilterToLogFilter at hlt
      cases lvl <;> simp only [LogLevel.toNat, logLevelToTracing] at hlt ⊢ <;>
        (repeat' split at hlt) <;> omega
    · rfl
  · unfold emitTracing
    simp only []
    split
    · rename_i hlt
      symm; exact route_eq_nil_of_prefilter (Or.inl hlt)
    · split
      · rename_i hne
        symm; apply route_eq_nil_of_prefilter; right
        simpa using hne
      · rfl

example : emitLog exCfg ['a', ':', ':', 'x'] .info = [0, 1] ∧ emitTracing exCfg ['a', ':', ':', 'x'] 3 = [0, 1] := by decide
example : emitLog exCfg ['a', ':', ':', 'x'] .trace = [] ∧ emitTracing exCfg ['a', ':', ':', 'x'] 5 = [] := by decide

/-- **Exactly once**: no appender is selected twice for one event (and each selected appender
gets one send in `process_event`). -/
theorem C19_exactly_once (cfg : Config) (wf : cfg.WF) (ev : Event) : (route cfg ev).Nodup :=
  route_nodup wf ev

/-! ## Pipeline -/

open Fv.Log.Pipeline

/-- **FIFO / no loss while running**: after any step sequence, what the consumer has taken
followed by what is still visible in the channel is exactly the accepted sequence. -/
theorem C19_fifo (cap : Nat) (pol : Overflow) (c : Consumer) (tr : List Step) (s : State)
    (h : run (init cap pol c) tr = some s) : s.out ++ s.buf = s.accepted :=
  (inv_run (inv_init cap pol c) h).fifo

/-- **Per-thread order**: per emitting thread, the delivered sequence is a prefix of the accepted
sequence, which is a prefix of the sequence in which that thread issued its sends. -/
theorem C19_per_thread_order (cap : Nat) (pol : Overflow) (c : Consumer) (tr : List Step) (s : State)
    (h : run (init cap pol c) tr = some s) (t : Nat) :
    ofThread t s.out <+: ofThread t s.accepted ∧ ofThread t s.accepted <+: ofThread t s.claimed := by
  have inv := inv_run (inv_init cap pol c) h
  constructor
  · rw [← inv.fifo, ofThread_append]; exact List.prefix_append _ _
  · rw [← inv.order t]; exact List.prefix_append _ _

/-- **Delivered exactly once**: the consumer never takes a message more often than it claimed a
slot; in particular, if every emitted event is sent once (distinct `(thread, seq)`), the delivered
sequence has no duplicates. -/
theorem C19_delivered_exactly_once (cap : Nat) (pol : Overflow) (c : Consumer) (tr : List Step) (s : State)
    (h : run (init cap pol c) tr = some s) :
    (∀ m, s.out.count m ≤ s.claimed.count m) ∧ ((∀ m, s.claimed.count m ≤ 1) → s.out.Nodup) := by
  have inv := inv_run (inv_init cap pol c) h
  have hc := countInv_run (inv_init cap pol c) (countInv_init cap pol c) h
  have h1 : ∀ m, s.out.count m ≤ s.claimed.count m := by
    intro m
    rw [← hc m, ← inv.fifo]
    simp only [List.count_append]
    omega
  refine ⟨h1, fun hone => ?_⟩
  rw [List.nodup_iff_count]
  intro m
  exact Nat.le_trans (h1 m) (hone m)

/-- **Disconnect only after shutdown, and only when drained**: a consumer that has left its loop
did so after the flag was set or the sender closed; a stream receiver that saw `Disconnected`
saw it on an empty, closed channel (what the step requires). -/
theorem C19_disconnect_only_after_shutdown (cap : Nat) (pol : Overflow) (c : Consumer) (tr : List Step) (s : State)
    (h : run (init cap pol c) tr = some s) (hleft : s.phase ≠ .running) :
    s.flag = true ∨ s.closed = true :=
  (inv_run (inv_init cap pol c) h).phase hleft

example (s : State) (h : (seeDisconnected s).isSome = true) :
    s.closed = true ∧ s.buf = [] ∧ s.inflight = [] := by
  unfold seeDisconnected at h
  split at h
  · rename_i hc; exact hc.2
  · cases h

/-- **Block never drops**: with the blocking overflow policy no event is discarded for lack of
room (a sender waits instead). -/
theorem C19_block_never_drops (cap : Nat) (c : Consumer) (tr : List Step) (s : State)
    (h : run (init cap .block c) tr = some s) : s.dropped = [] :=
  (inv_run (inv_init cap .block c) h).noDrop (by
    have : ∀ (s s' : State) (st : Step), step s st = some s' → s'.policy = s.policy := by
      intro s s' st hs
      cases st <;> simp only [step, sendBegin, sendEnd, consume, seeFlag, seeDisconnected, drainDisconnected, graceExpired] at hs
      all_goals (repeat' split at hs) <;> first | cases hs; rfl | cases hs
    have hrun : ∀ (tr : List Step) (s s' : State), run s tr = some s' → s'.policy = s.policy := by
      intro tr
      induction tr with
      | nil => intro s s' hs; simp [run] at hs; rw [hs]
      | cons st tr ih =>
        intro s s' hs
        simp only [run] at hs
        cases hst : step s st with
        | none => rw [hst] at hs; cases hs
        | some s1 => rw [hst] at hs; rw [ih s1 s' hs, this s s1 st hst]
    rw [hrun tr _ s h]; rfl)

/-- **DropNewest never blocks**: a thread that is not already inside a send can always start one. -/
theorem C19_drop_never_blocks (s : State) (m : Msg) (hp : s.policy = .dropNewest)
    (hidle : threadBusy s m.thread = false) : (step s (.sendBegin m)).isSome = true := by
  simp only [step, sendBegin, hidle, hp]
  repeat' split
  all_goals first | rfl | contradiction | simp_all

/-- **No loss at shutdown, partial** (the model of the repaired `run_byte_appender_writer`).
For EVERY step sequence — any number of emitting threads, sends begun before, during and after
`setFlag` / `close`, any capacity and policy — once the consumer has exited (the writer thread
left its final drain, or the stream receiver saw `Disconnected`):
every accepted event (its `send` returned `Ok`) has been taken by the consumer (`out = accepted`);
no send is left in flight and the channel is closed, so nothing can be accepted afterwards;
per emitting thread the delivered sequence is exactly the sequence in which that thread obtained
its slots; and each event is delivered exactly as often as it was sent.
Hypothesis (the part that is not proved, hence `_partial`): `graceEarly = false` — the writer's
`FINAL_DRAIN_GRACE` deadline, the environment step `graceExpired`, did not fire before the sender
handles were closed and the in-flight sends had landed. Real time is outside the model. -/
theorem C19_no_loss_at_shutdown_partial (cap : Nat) (pol : Overflow) (c : Consumer)
    (tr : List Step) (s : State)
    (hrun : run (init cap pol c) tr = some s)
    (hexit : s.phase = .exited)
    (hgrace_notEarly : s.graceEarly = false) :
    s.out = s.accepted ∧ s.inflight = [] ∧ s.buf = [] ∧ s.closed = true ∧
      (∀ t, ofThread t s.out = ofThread t s.claimed) ∧
      (∀ m, s.out.count m = s.claimed.count m) := by
  have inv := inv_run (inv_init cap pol c) hrun
  have hc := countInv_run (inv_init cap pol c) (countInv_init cap pol c) hrun
  obtain ⟨hcl, hbuf, hinf⟩ := settled_run (settled_init cap pol c) hrun hexit hgrace_notEarly
  have hout : s.out = s.accepted := by
    have := inv.fifo
    rw [hbuf, List.append_nil] at this
    exact this
  refine ⟨hout, hinf, hbuf, hcl, fun t => ?_, fun m => ?_⟩
  · have := inv.order t
    rw [hinf] at this
    rw [hout, ← this]; simp [ofThread]
  · have := hc m
    rw [hinf, List.append_nil] at this
    rw [hout]; exact this

/-- With the blocking policy "accepted" is everything that was emitted before the channel was
closed: under the hypotheses of `C19_no_loss_at_shutdown_partial` nothing was dropped, so every
emit that was not refused by the closed channel has been written. -/
theorem C19_no_loss_at_shutdown_block_partial (cap : Nat) (c : Consumer)
    (tr : List Step) (s : State)
    (hrun : run (init cap .block c) tr = some s)
    (hexit : s.phase = .exited)
    (hgrace_notEarly : s.graceEarly = false) :
    s.dropped = [] ∧ s.out = s.accepted ∧ ∀ t, ofThread t s.out = ofThread t s.claimed := by
  have h := C19_no_loss_at_shutdown_partial cap .block c tr s hrun hexit hgrace_notEarly
  exact ⟨C19_block_never_drops cap c tr s hrun, h.1, h.2.2.2.2.1⟩

/-- The same for every step sequence in which the grace deadline never expires: the hypothesis
on the ghost `graceEarly` follows from `graceExpired ∉ tr`. -/
theorem C19_no_loss_without_graceExpired_partial (cap : Nat) (pol : Overflow) (c : Consumer)
    (tr : List Step) (s : State)
    (hrun : run (init cap pol c) tr = some s)
    (hexit : s.phase = .exited)
    (hgrace_never : Step.graceExpired ∉ tr) :
    s.out = s.accepted ∧ s.inflight = [] ∧ s.buf = [] ∧ s.closed = true ∧
      (∀ t, ofThread t s.out = ofThread t s.claimed) ∧
      (∀ m, s.out.count m = s.claimed.count m) :=
  C19_no_loss_at_shutdown_partial cap pol c tr s hrun hexit
    (by rw [graceEarly_run hgrace_never hrun]; rfl)

/-- **No loss at a quiescent shutdown, partial** (independent of the grace deadline). `pre` is any
history before shutdown; at the moment shutdown begins no send is in flight (`s1.inflight = []`)
and no send starts between `setFlag` and `close` (`mid`): *no emit is concurrent with shutdown*
(sends after `close` are refused by the channel and are not "accepted"). Then, for every
continuation — including ones in which `graceExpired` fires, e.g. because `close` comes late —
once the consumer has exited it has taken exactly the events accepted before shutdown began, and
nothing was accepted afterwards. -/
theorem C19_no_loss_quiescent_shutdown_partial (cap : Nat) (pol : Overflow) (c : Consumer)
    (pre mid rest : List Step) (s1 s2 : State)
    (hpre : run (init cap pol c) pre = some s1)
    (hfresh : s1.flag = false ∧ s1.closed = false)
    (hquiet_noInflight : s1.inflight = [])
    (hquiet_noNewSend : ∀ st ∈ mid, st.isSendBegin = false)
    (hrun : run s1 (.setFlag :: mid ++ .close :: rest) = some s2)
    (hexit : s2.phase = .exited) :
    s2.out = s1.accepted ∧ s2.accepted = s1.accepted ∧
      ∀ t, ofThread t s2.out = ofThread t s1.accepted := by
  have inv1 := inv_run (inv_init cap pol c) hpre
  have hq1 : Quiet s1.accepted s1 := by
    refine ⟨hquiet_noInflight, rfl, ?_⟩
    intro hex
    have := inv1.phase (by rw [hex]; decide)
    rcases this with h | h
    · rw [hfresh.1] at h; cases h
    · rw [hfresh.2] at h; cases h
  have happ : (Step.setFlag :: mid ++ Step.close :: rest) = (Step.setFlag :: mid) ++ (Step.close :: rest) := by simp
  rw [happ, run_append] at hrun
  cases hsa : run s1 (Step.setFlag :: mid) with
  | none => rw [hsa] at hrun; cases hrun
  | some sa =>
    rw [hsa] at hrun
    simp only [Option.bind_some, run, step] at hrun
    have hqa := (quiet_run hq1 (Or.inl (by
      intro st hst
      rcases List.mem_cons.1 hst with rfl | hst
      · rfl
      · exact hquiet_noNewSend st hst)) hsa).1
    have hqb : Quiet s1.accepted { sa with closed := true } := ⟨hqa.noInflight, hqa.acc, hqa.exitedEmpty⟩
    have hq2 := (quiet_run hqb (Or.inr rfl) hrun).1
    have inv2 : Inv s2 := by
      have hb : Inv { sa with closed := true } := inv_step (inv_run inv1 hsa) (st := .close) rfl
      exact inv_run hb hrun
    have hout : s2.out = s1.accepted := by
      have := inv2.fifo
      rw [hq2.exitedEmpty hexit, List.append_nil, hq2.acc] at this
      exact this
    exact ⟨hout, hq2.acc, fun t => by rw [hout]⟩

/-- **Every end of the guard shuts down.** Explicit `shutdown`, a drop on any thread, and a drop
while the owning thread unwinds from a panic all run `shutdown_impl` (flag, then close): the
no-loss / disconnect statement below therefore applies to each of them. -/
theorem C19_every_guard_end_shuts_down (g : GuardEnd) : shutdownSteps g = [.setFlag, .close] := by
  cases g <;> rfl

/-- `C19_no_loss_at_shutdown_partial` instantiated for any way the guard ends, with emits
concurrent with it (`pre` may leave sends in flight, `rest` may begin new ones): afterwards an
exited consumer has taken exactly what was accepted, unless the grace deadline fired early. -/
theorem C19_no_loss_any_guard_end_partial (cap : Nat) (pol : Overflow) (c : Consumer) (g : GuardEnd)
    (pre rest : List Step) (s1 s2 : State)
    (hpre : run (init cap pol c) pre = some s1)
    (hrun : run s1 (shutdownSteps g ++ rest) = some s2)
    (hexit : s2.phase = .exited)
    (hgrace_notEarly : s2.graceEarly = false) :
    s2.out = s2.accepted ∧ s2.inflight = [] ∧ ∀ t, ofThread t s2.out = ofThread t s2.claimed := by
  have hall : run (init cap pol c) (pre ++ (shutdownSteps g ++ rest)) = some s2 := by
    rw [run_append, hpre]; exact hrun
  have h := C19_no_loss_at_shutdown_partial cap pol c _ s2 hall hexit hgrace_notEarly
  exact ⟨h.1, h.2.1, h.2.2.2.2.1⟩

/-- the quiescent form for any way the guard ends (no emit concurrent with it, grace deadline
irrelevant): an exited consumer has taken exactly what was accepted before. -/
theorem C19_no_loss_any_guard_end_quiescent_partial (cap : Nat) (pol : Overflow) (c : Consumer) (g : GuardEnd)
    (pre rest : List Step) (s1 s2 : State)
    (hpre : run (init cap pol c) pre = some s1)
    (hfresh : s1.flag = false ∧ s1.closed = false)
    (hquiet_noInflight : s1.inflight = [])
    (hrun : run s1 (shutdownSteps g ++ rest) = some s2)
    (hexit : s2.phase = .exited) :
    s2.out = s1.accepted ∧ s2.accepted = s1.accepted := by
  rw [C19_every_guard_end_shuts_down g] at hrun
  have := C19_no_loss_quiescent_shutdown_partial cap pol c pre [] rest s1 s2 hpre hfresh hquiet_noInflight
    (by intro st hst; cases hst) (by simpa using hrun) hexit
  exact ⟨this.1, this.2.1⟩

example :
    (run (init 4 .block .stream)
        ([.sendBegin ⟨0, 0⟩, .sendEnd ⟨0, 0⟩] ++ shutdownSteps (.drop true true) ++ [.consume, .seeDisconnected])).map
      (fun s => (s.phase, s.out, s.accepted)) = some (.exited, [⟨0, 0⟩], [⟨0, 0⟩]) := by decide

/-- non-vacuity: two threads emit, shutdown with nothing in flight, the writer drains and exits on `Disconnected`. -/
example :
    let pre : List Step := [.sendBegin ⟨0, 0⟩, .sendBegin ⟨1, 0⟩, .sendEnd ⟨1, 0⟩, .sendEnd ⟨0, 0⟩, .consume, .sendBegin ⟨0, 1⟩, .sendEnd ⟨0, 1⟩]
    let post : List Step := [.setFlag, .seeFlag, .close, .sendBegin ⟨1, 1⟩, .consume, .consume, .drainDisconnected]
    (run (init 2 .block .writer) (pre ++ post)).map (fun s => (s.phase, s.out, s.accepted, s.refused)) =
      some (.exited, [⟨1, 0⟩, ⟨0, 0⟩, ⟨0, 1⟩], [⟨1, 0⟩, ⟨0, 0⟩, ⟨0, 1⟩], [⟨1, 1⟩]) := by decide

/-- same for a custom stream: the receiver drains and then sees `Disconnected`. -/
example :
    (run (init 4 .block .stream)
        [.sendBegin ⟨0, 0⟩, .sendEnd ⟨0, 0⟩, .setFlag, .close, .consume, .seeDisconnected]).map
      (fun s => (s.phase, s.out, s.accepted)) = some (.exited, [⟨0, 0⟩], [⟨0, 0⟩]) := by decide

/-- non-vacuity of the strengthened theorem: thread 0's send is in flight across `setFlag`,
`seeFlag` AND `close`, thread 1 has an accepted event queued; the writer's final drain writes
thread 1's event, keeps polling (`Empty`, no step) until thread 0's send lands, writes it, and only
then sees `Disconnected`. A send begun after `close` is refused. -/
example :
    (run (init 4 .block .writer)
        [.sendBegin ⟨0, 0⟩, .sendBegin ⟨1, 0⟩, .sendEnd ⟨1, 0⟩, .setFlag, .seeFlag, .close, .consume,
         .sendBegin ⟨1, 1⟩, .sendEnd ⟨0, 0⟩, .consume, .drainDisconnected]).map
      (fun s => (s.phase, s.graceEarly, s.out, s.accepted, s.refused)) =
      some (.exited, false, [⟨1, 0⟩, ⟨0, 0⟩], [⟨1, 0⟩, ⟨0, 0⟩], [⟨1, 1⟩]) := by decide

/-- while a send is in flight the final drain cannot end on `Disconnected`, closed or not -/
example : run (init 4 .block .writer) [.sendBegin ⟨0, 0⟩, .setFlag, .seeFlag, .close, .drainDisconnected] = none := by decide

/-- **The F12b schedule on the repaired model.** Before the `fix:` commit the schedule
`sendBegin m, setFlag, seeFlag, ⟨writer exits: final try_recv found nothing visible⟩, close,
sendEnd m` ended with `m` accepted and never written (former theorem `C19_fails_F12b`). On the
repaired model (i) the writer cannot leave its final drain on `Disconnected` at that point, nor
after `close` while the send is still in flight, and (ii) the same schedule continued to the writer's exit
delivers `m`: nothing is lost. -/
theorem C19_F12b_schedule_nothing_lost :
    run (init 4 .block .writer) [.sendBegin ⟨0, 0⟩, .setFlag, .seeFlag, .drainDisconnected] = none ∧
    run (init 4 .block .writer) [.sendBegin ⟨0, 0⟩, .setFlag, .seeFlag, .close, .drainDisconnected] = none ∧
    ∃ s, run (init 4 .block .writer)
          [.sendBegin ⟨0, 0⟩, .setFlag, .seeFlag, .close, .sendEnd ⟨0, 0⟩, .consume, .drainDisconnected] = some s ∧
        s.phase = .exited ∧ s.graceEarly = false ∧ s.accepted = [⟨0, 0⟩] ∧ s.out = [⟨0, 0⟩] ∧
        s.dropped = [] ∧ s.refused = [] :=
  ⟨by decide, by decide, _, rfl, by decide, by decide, by decide, by decide, by decide, by decide⟩

/-- **Residual limit: the grace deadline.** If `FINAL_DRAIN_GRACE` expires while a send is still
in flight (the emitting thread is descheduled for more than 200 ms between claiming its slot and
publishing it, or `close_channels` is that late), the writer exits as before the repair and the
event — accepted, Block policy, nothing dropped or refused — is never written. `graceEarly`
records it: the hypothesis of `C19_no_loss_at_shutdown_partial` cannot be dropped. -/
theorem C19_residual_graceExpired_early_loses :
    ∃ (tr : List Step) (s : State),
      run (init 4 .block .writer) tr = some s ∧ s.phase = .exited ∧ s.graceEarly = true ∧
        s.accepted = [⟨0, 0⟩] ∧ s.out = [] ∧ s.dropped = [] ∧ s.refused = [] :=
  ⟨[.sendBegin ⟨0, 0⟩, .setFlag, .seeFlag, .graceExpired, .close, .sendEnd ⟨0, 0⟩], _, rfl,
    by decide, by decide, by decide, by decide, by decide, by decide⟩

/-- the shape of the observed F12b history under an early grace expiry: thread 1's completed send
is queued behind thread 0's unwritten slot, `try_recv` answers `Empty`, the deadline fires: both
accepted events are lost. Without `graceExpired` the writer cannot exit here. -/
example :
    (run (init 4 .block .writer)
        [.sendBegin ⟨0, 0⟩, .sendBegin ⟨1, 0⟩, .sendEnd ⟨1, 0⟩, .setFlag, .seeFlag, .graceExpired, .close, .sendEnd ⟨0, 0⟩]).map
      (fun s => (s.phase, s.graceEarly, s.out, s.accepted)) = some (.exited, true, [], [⟨1, 0⟩, ⟨0, 0⟩]) := by decide

/-- a grace expiry on an already drained, closed channel is harmless (`graceEarly` stays false) -/
example :
    (run (init 4 .block .writer)
        [.sendBegin ⟨0, 0⟩, .sendEnd ⟨0, 0⟩, .setFlag, .close, .seeFlag, .consume, .graceExpired]).map
      (fun s => (s.phase, s.graceEarly, s.out, s.accepted)) = some (.exited, false, [⟨0, 0⟩], [⟨0, 0⟩]) := by decide

/-- senders never closed (the crate's unit tests set only the flag): the writer still terminates,
by the grace deadline, and with no emit in flight nothing is lost (quiescent theorem) -/
example :
    (run (init 4 .block .writer)
        [.sendBegin ⟨0, 0⟩, .sendEnd ⟨0, 0⟩, .setFlag, .seeFlag, .consume, .graceExpired]).map
      (fun s => (s.phase, s.graceEarly, s.out, s.accepted)) = some (.exited, true, [⟨0, 0⟩], [⟨0, 0⟩]) := by decide

end Fv.Props.C19
