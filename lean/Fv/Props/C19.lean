import Fv.Log.Route
import Fv.Log.Pipeline
/-!
# C19 — log events reach exactly the configured appenders, in order, none lost
-/
namespace Fv.Props.C19
open Fv.Log

/-- F12a on the model: root → appender 0, non-additive logger `q` naming no appender; target
`q::i` at INFO is delivered to appender 0 by the code, the property says nobody receives it. -/
theorem C19_fails_F12a :
    ∃ (cfg : Config) (ev : Event) (a : Appender),
      cfg.WF ∧ NonAdditiveWired cfg = False ∧ a ∈ route cfg ev ∧ ¬ RouteSpec cfg ev a := by
  refine ⟨{ appenders := [0], loggers := [{ name := ['q'], level := 3, appenders := [], additive := false }],
            rootLevel := 3, rootAppenders := [0] },
          { target := ['q', ':', ':', 'i'], level := 3 }, 0, ⟨by decide, by decide, by decide⟩, ?_, by decide, by decide⟩
  simp [NonAdditiveWired]

end Fv.Props.C19
