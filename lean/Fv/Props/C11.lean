import Fv.Lemmas.CacheRegister
/-
C11 — cache reads return only the latest live value of their own key.

The cache model (`Fv.Cache.stepOp`, one public API call run to completion, generic in the eviction
policy and in the hash-order / victim oracles) REFINES a per-key register
(`Fv.Cache.Reg`, `specStep`, `admissible`, `Agree` in `Fv/Lemmas/CacheRegister.lean`):

* `C11_step`  : one call keeps `Agree` and hands only admissible values to its caller;
* `C11_run`   : so does every history from a fresh cache;
* corollaries : `no_cross_key`, `no_resurrection*`, `compute_atomic`, `orInsert_at_most_once*`.

"May forget": a read may return nothing although the register holds a value (expiry, eviction,
capacity maintenance) — the refinement is one-directional (map ⊆ register) on purpose.
-/
namespace Fv.Props.C11
open Fv.Cache
variable {P : Type}

/-- `get` / `fetch` return the value id of the binding of THAT key in the map -/
theorem get_reads_own_binding (cfg : Cfg) (s : State P) (k v : Nat) (h : (s.get cfg k).2 = some v) :
    ∃ e, (k, e) ∈ s.map ∧ e.vid = v := by
  unfold State.get at h
  split at h
  · next e he =>
    split at h
    · simp at h
    · simp at h; exact ⟨e, lookup_mem he, h⟩
  · simp at h

example : (State.get (P := Unit) {} { map := [(1, { vid := 7, cost := 1 })] } 1).2 = some 7 := by decide

/-! ### the refinement step -/

theorem specStep_orInsert_hit (sp : Spec) (k v c : Nat) :
    specStep sp (.orInsert k v c) (.val (some v)) = { sp with reg := sp.reg.set k v } := by
  simp [specStep]

theorem specStep_orInsert_other (sp : Spec) (k v c : Nat) {x : Nat} (h : x ≠ v) :
    specStep sp (.orInsert k v c) (.val (some x)) = sp := by
  simp [specStep, h]

theorem specStep_restore_some {sp : Spec} {l : List (Nat × Nat)} (h : sp.snap = some l) (r : Ret) :
    specStep sp .restore r = { sp with reg := Reg.ofPairs l } := by
  simp only [specStep, h]

theorem specStep_restore_none {sp : Spec} (h : sp.snap = none) (r : Ret) : specStep sp .restore r = sp := by
  simp only [specStep, h]

theorem stepOp_restore (cfg : Cfg) (ops : PolicyOps P) (p0 : P) (o : Oracle) (s : State P) :
    stepOp cfg ops p0 o s .restore =
      (match s.snap with
       | some sn => (State.restore cfg p0 s.now sn, .unit)
       | none => (s.resetLogs, .unit)) := rfl

/-- **C11, one step.**  For every configuration, policy, oracle, state and spec state that agree:
    the call hands only admissible values to its caller and the resulting states agree again. -/
theorem C11_step (cfg : Cfg) (ops : PolicyOps P) (p0 : P) (o : Oracle) (s : State P) (sp : Spec) (op : Op)
    (h : Agree s sp) :
    admissible sp op (stepOp cfg ops p0 o s op).2 ∧
      Agree (stepOp cfg ops p0 o s op).1 (specStep sp op (stepOp cfg ops p0 o s op).2) := by
  have h0 : Agree s.resetLogs sp := h.of_eq rfl rfl
  cases op with
  | get k =>
    obtain ⟨hag, hok⟩ := get_agree cfg k h0
    exact ⟨⟨(s.resetLogs.get cfg k).2, rfl, hok⟩, hag⟩
  | peek k => exact ⟨⟨s.resetLogs.peek cfg k, rfl, peek_ok cfg k h0⟩, h0⟩
  | occupied k => exact ⟨trivial, h0⟩
  | insert async k vid cost =>
    have h1 := insertCore_agree cfg k (Entry.mk' vid cost s.resetLogs.now cfg.ttl cfg.tti) cfg.ttl true h0
    refine ⟨trivial, ?_⟩
    cases async with
    | true => exact h1
    | false => exact h1.frame (opportunistic_frame ..) (opportunistic_snap ..)
  | insertTtl async k vid cost ttl =>
    have h1 := insertCore_agree cfg k (Entry.mkCustom vid cost s.resetLogs.now (s.resetLogs.now + ttl) cfg.tti)
      (some ttl) true h0
    refine ⟨trivial, ?_⟩
    cases async with
    | true => exact h1
    | false => exact h1.frame (opportunistic_frame ..) (opportunistic_snap ..)
  | remove k =>
    obtain ⟨hag, hok⟩ := removeKey_agree cfg ops k h0
    exact ⟨⟨(s.resetLogs.removeKey cfg ops k).2, rfl, hok⟩, hag⟩
  | invalidate k => exact ⟨trivial, (removeKey_agree cfg ops k h0).1⟩
  | clear =>
    refine ⟨trivial, ?_, ?_⟩
    · intro k e he
      have he' : (k, e) ∈ (s.resetLogs.clearAll cfg ops o).map := he
      rw [clearAll_map] at he'
      cases he'
    · show sp.snap = (s.resetLogs.clearAll cfg ops o).snap.map Snapshot.pairs
      rw [clearAll_snap]; exact h0.2
  | advance d => exact ⟨trivial, h0.of_eq rfl rfl⟩
  | runMaintenance => exact ⟨trivial, h0.frame (runMaintenance_frame ..) (runMaintenance_snap ..)⟩
  | metrics => exact ⟨trivial, h0.frame (flush_frame ..) (flush_snap ..)⟩
  | orInsert k vid cost =>
    show admissible sp (.orInsert k vid cost) (s.resetLogs.orInsert cfg k vid cost).2 ∧
      Agree (s.resetLogs.orInsert cfg k vid cost).1
        (specStep sp (.orInsert k vid cost) (s.resetLogs.orInsert cfg k vid cost).2)
    rcases orInsert_cases cfg s.resetLogs k vid cost with ⟨e, he, heq⟩ | ⟨hn, hret, hm, hs⟩
    · rw [heq]
      dsimp only
      refine ⟨⟨e.vid, rfl, .inl (h0.of_lookup he)⟩, ?_⟩
      by_cases hv : e.vid = vid
      · have hreg : sp.reg k = some vid := by rw [← hv]; exact h0.of_lookup he
        rw [hv, specStep_orInsert_hit, Reg.set_eq_self _ hreg]
        exact h0
      · rw [specStep_orInsert_other _ _ _ _ hv]; exact h0
    · rw [hret, specStep_orInsert_hit]
      exact ⟨⟨vid, rfl, .inr rfl⟩,
        h0.put_set (e := Entry.mk' vid cost s.resetLogs.now cfg.ttl cfg.tti) hm hs⟩
  | compute k vid =>
    show admissible sp (.compute k vid) (s.resetLogs.compute k vid).2 ∧
      Agree (s.resetLogs.compute k vid).1 (specStep sp (.compute k vid) (s.resetLogs.compute k vid).2)
    rcases compute_cases s.resetLogs k vid with ⟨hn, heq⟩ | ⟨e, he, hp, heq⟩ | ⟨e, he, hp, heq⟩
    · rw [heq]; exact ⟨⟨none, rfl, fun old ho => by cases ho⟩, h0⟩
    · rw [heq]; exact ⟨⟨some none, rfl, fun old ho => by cases ho⟩, h0⟩
    · rw [heq]
      refine ⟨⟨some (some e.vid), rfl, fun old ho => by cases ho; exact h0.of_lookup he⟩, ?_⟩
      exact h0.put_set (e := { e with vid := vid }) rfl rfl
  | fetchWith k vid cost =>
    show admissible sp (.fetchWith k vid cost) (s.resetLogs.fetchWith cfg k vid cost).2 ∧
      Agree (s.resetLogs.fetchWith cfg k vid cost).1
        (specStep sp (.fetchWith k vid cost) (s.resetLogs.fetchWith cfg k vid cost).2)
    rcases fetchWith_cases cfg s.resetLogs k vid cost with
      ⟨e, he, hret, hm, hs⟩ | ⟨hret, hm, hs⟩ | ⟨e, he, hret, hm, hs⟩
    · rw [hret]
      refine ⟨⟨e.vid, false, false, rfl, h0.of_lookup he⟩, ?_⟩
      exact h0.put_same (e := e.touch s.resetLogs.now cfg.tti) (by rw [touch_vid]; exact h0.of_lookup he) hm hs
    · rw [hret]
      exact ⟨⟨vid, false, true, rfl, rfl⟩,
        h0.put_set (e := Entry.mk' vid cost s.resetLogs.now cfg.ttl cfg.tti) hm hs⟩
    · rw [hret]
      exact ⟨⟨e.vid, true, true, rfl, h0.of_lookup he⟩,
        h0.put_set (e := Entry.mk' vid cost s.resetLogs.now cfg.ttl cfg.tti) hm hs⟩
  | multiget async ks =>
    have hr : ∀ r : State P × List (Nat × Nat), Agree r.1 sp → okPairs sp.reg r.2 → (∀ p, p ∈ r.2 → p.1 ∈ ks) →
        admissible sp (.multiget async ks) (.pairs r.2) ∧
          Agree (if ks.length > r.2.length then (r.1.hit r.2.length).miss (ks.length - r.2.length)
                 else r.1.hit r.2.length) sp := by
      intro r h1 h2 h3
      refine ⟨⟨r.2, rfl, h2, h3⟩, ?_⟩
      split <;> exact h1.of_eq rfl rfl
    cases async with
    | true =>
      obtain ⟨h1, h2, h3⟩ := multigetAsync_agree cfg ops sp ks (groupByShard cfg ks) s.resetLogs [] h0
        (fun p hp => absurd hp List.not_mem_nil) (fun p hp => absurd hp List.not_mem_nil) (groupByShard_sub cfg ks)
      exact hr (multigetAsync cfg ops s.resetLogs (groupByShard cfg ks) []) h1 h2 h3
    | false =>
      obtain ⟨h1, h2, h3⟩ := multigetSync_agree cfg sp ks ks s.resetLogs [] h0
        (fun p hp => absurd hp List.not_mem_nil) (fun p hp => absurd hp List.not_mem_nil) (fun _ hk => hk)
      exact hr (multigetSync cfg s.resetLogs ks []) h1 h2 h3
  | multiInsert items => exact ⟨trivial, multiInsert_agree cfg items _ _ h0⟩
  | multiRemove ks =>
    obtain ⟨h1, h2, h3⟩ := multiRemoveLoop_agree cfg ops ks ks s.resetLogs sp sp.reg [] h0
      (fun p hp => absurd hp List.not_mem_nil) (fun _ _ hx => hx) (fun p hp => absurd hp List.not_mem_nil)
      (fun _ hk => hk)
    exact ⟨⟨(multiRemoveLoop cfg ops s.resetLogs ks []).2, rfl, h2, h3⟩, h1⟩
  | iter batch inter =>
    obtain ⟨h1, h2⟩ := iterAll_agree cfg ops o batch inter h0
    exact ⟨⟨(s.resetLogs.iterAll cfg ops o batch inter).2, rfl, h2⟩, h1⟩
  | iterSnapshot inter =>
    obtain ⟨h1, h2⟩ := iterSnapshotAll_agree cfg ops o inter h0
    exact ⟨⟨(s.resetLogs.iterSnapshotAll cfg ops o inter).2, rfl, h2⟩, h1⟩
  | snapshot =>
    obtain ⟨h1, h2⟩ := toSnapshot_agree cfg ops o h0
    exact ⟨⟨(s.resetLogs.toSnapshot cfg ops o).2, rfl, h1⟩, h2⟩
  | restore =>
    rw [stepOp_restore]
    cases hsn : s.snap with
    | none =>
      have hsp : sp.snap = none := by rw [h.2, hsn]; rfl
      refine ⟨trivial, ?_⟩
      rw [specStep_restore_none hsp]
      exact h0
    | some sn =>
      have hsp : sp.snap = some sn.pairs := by rw [h.2, hsn]; rfl
      refine ⟨trivial, ?_⟩
      rw [specStep_restore_some hsp]
      exact restore_agree cfg p0 s.now sn sp hsp
  | hold k =>
    show admissible sp (.hold k) (holdOf k (s.resetLogs.get cfg k)).2 ∧
      Agree (holdOf k (s.resetLogs.get cfg k)).1 sp
    obtain ⟨hag, hok⟩ := get_agree cfg k h0
    obtain ⟨h1, h2⟩ := holdOf_agree k (s.resetLogs.get cfg k) hag
    exact ⟨⟨(s.resetLogs.get cfg k).2, h2, hok⟩, h1⟩
  | release => exact ⟨trivial, release_agree h0⟩
  | gate closed => cases closed <;> exact ⟨trivial, h0.of_eq rfl rfl⟩

/-! ### histories -/

/-- the spec state reached by folding `specStep` over a history and its outputs -/
def specRun (sp : Spec) : List (Op × Oracle) → List Ret → Spec
  | (op, _) :: rest, r :: rs => specRun (specStep sp op r) rest rs
  | _, _ => sp

/-- every output of the history is admissible for the spec state reached before its call -/
def runAdmissible (sp : Spec) : List (Op × Oracle) → List Ret → Prop
  | [], [] => True
  | (op, _) :: rest, r :: rs => admissible sp op r ∧ runAdmissible (specStep sp op r) rest rs
  | _, _ => False

theorem fresh_agree (cfg : Cfg) (p0 : P) (t0 : Nat) : Agree (State.fresh cfg p0 t0) Spec.empty :=
  ⟨fun _ _ he => absurd he List.not_mem_nil, rfl⟩

/-- C11 along a history, from any agreeing pair of states -/
theorem C11_run_from (cfg : Cfg) (ops : PolicyOps P) (p0 : P) :
    ∀ (hist : List (Op × Oracle)) (s : State P) (sp : Spec), Agree s sp →
      runAdmissible sp hist (run cfg ops p0 s hist).2 ∧
        Agree (run cfg ops p0 s hist).1 (specRun sp hist (run cfg ops p0 s hist).2) := by
  intro hist
  induction hist with
  | nil => intro s sp h; exact ⟨trivial, h⟩
  | cons a rest ih =>
    intro s sp h
    obtain ⟨op, o⟩ := a
    obtain ⟨hadm, hag⟩ := C11_step cfg ops p0 o s sp op h
    obtain ⟨h1, h2⟩ := ih _ _ hag
    exact ⟨⟨hadm, h1⟩, h2⟩

theorem runAdmissible_pointwise :
    ∀ (hist : List (Op × Oracle)) (sp : Spec) (outs : List Ret), runAdmissible sp hist outs →
      outs.length = hist.length ∧
      ∀ (i : Nat) (op : Op) (o : Oracle) (r : Ret), hist[i]? = some (op, o) → outs[i]? = some r →
        admissible (specRun sp (hist.take i) (outs.take i)) op r := by
  intro hist
  induction hist with
  | nil =>
    intro sp outs h
    cases outs with
    | nil => exact ⟨rfl, fun i op o r hi _ => by simp at hi⟩
    | cons r rs => exact h.elim
  | cons a rest ih =>
    intro sp outs h
    obtain ⟨op0, o0⟩ := a
    cases outs with
    | nil => exact h.elim
    | cons r0 rs =>
      obtain ⟨hadm, hrest⟩ := h
      obtain ⟨hlen, hpt⟩ := ih _ _ hrest
      refine ⟨by simp [hlen], ?_⟩
      intro i op o r hi ho
      cases i with
      | zero =>
        simp at hi ho
        obtain ⟨rfl, rfl⟩ := hi
        subst ho
        exact hadm
      | succ j =>
        simp at hi ho
        exact hpt j op o r hi ho

/-- **C11, whole histories.**  For every history from a fresh cache (any configuration, any policy,
    any oracles): there is one output per call, and the output of the `i`-th call is admissible for
    the register obtained by folding `specStep` over the first `i` calls and their outputs. -/
theorem C11_run (cfg : Cfg) (ops : PolicyOps P) (p0 : P) (t0 : Nat) (hist : List (Op × Oracle)) :
    let outs := (run cfg ops p0 (State.fresh cfg p0 t0) hist).2
    outs.length = hist.length ∧
    ∀ (i : Nat) (op : Op) (o : Oracle) (r : Ret), hist[i]? = some (op, o) → outs[i]? = some r →
      admissible (specRun Spec.empty (hist.take i) (outs.take i)) op r :=
  runAdmissible_pointwise hist Spec.empty _ (C11_run_from cfg ops p0 hist _ _ (fresh_agree cfg p0 t0)).1

/-! ### corollary (a): no cross-key reads -/

/-- `(k, v)` is a value of the PRE-call cache content that the call `op` with outcome `ret` handed to
    its caller (reads, the value returned by `remove`, the old value of `compute`, the hit / stale
    value of `fetch_with`, an `or_insert` that returned something else than its argument) -/
def readsOld (op : Op) (ret : Ret) (k v : Nat) : Prop :=
  match op with
  | .get k' => k = k' ∧ ret = .val (some v)
  | .peek k' => k = k' ∧ ret = .val (some v)
  | .hold k' => k = k' ∧ ret = .val (some v)
  | .remove k' => k = k' ∧ ret = .val (some v)
  | .multiget _ _ => ∃ l, ret = .pairs l ∧ (k, v) ∈ l
  | .multiRemove _ => ∃ l, ret = .pairs l ∧ (k, v) ∈ l
  | .iter _ _ => ∃ l, ret = .pairs l ∧ (k, v) ∈ l
  | .iterSnapshot _ => ∃ l, ret = .pairs l ∧ (k, v) ∈ l
  | .snapshot => ∃ sn, ret = .snap sn ∧ (k, v) ∈ sn.pairs
  | .compute k' _ => k = k' ∧ ret = .computed (some (some v))
  | .fetchWith k' _ _ => k = k' ∧ ∃ stale loader, ret = .loaded v stale loader ∧ (stale || !loader) = true
  | .orInsert k' w _ => k = k' ∧ ret = .val (some v) ∧ v ≠ w
  | _ => False

theorem admissible_readsOld {sp : Spec} {op : Op} {ret : Ret} {k v : Nat}
    (ha : admissible sp op ret) (hr : readsOld op ret k v) : sp.reg k = some v := by
  cases op <;> first | exact False.elim hr | skip
  case get k' =>
    obtain ⟨rfl, hret⟩ := hr
    obtain ⟨x, hx, hok⟩ := ha
    rw [hret] at hx; cases hx; exact hok v rfl
  case peek k' =>
    obtain ⟨rfl, hret⟩ := hr
    obtain ⟨x, hx, hok⟩ := ha
    rw [hret] at hx; cases hx; exact hok v rfl
  case hold k' =>
    obtain ⟨rfl, hret⟩ := hr
    obtain ⟨x, hx, hok⟩ := ha
    rw [hret] at hx; cases hx; exact hok v rfl
  case remove k' =>
    obtain ⟨rfl, hret⟩ := hr
    obtain ⟨x, hx, hok⟩ := ha
    rw [hret] at hx; cases hx; exact hok v rfl
  case multiget a ks =>
    obtain ⟨l, hret, hm⟩ := hr
    obtain ⟨l', hx, hok, _⟩ := ha
    rw [hret] at hx; cases hx; exact hok _ hm
  case multiRemove ks =>
    obtain ⟨l, hret, hm⟩ := hr
    obtain ⟨l', hx, hok, _⟩ := ha
    rw [hret] at hx; cases hx; exact hok _ hm
  case iter b i =>
    obtain ⟨l, hret, hm⟩ := hr
    obtain ⟨l', hx, hok⟩ := ha
    rw [hret] at hx; cases hx; exact hok _ hm
  case iterSnapshot i =>
    obtain ⟨l, hret, hm⟩ := hr
    obtain ⟨l', hx, hok⟩ := ha
    rw [hret] at hx; cases hx; exact hok _ hm
  case snapshot =>
    obtain ⟨sn, hret, hm⟩ := hr
    obtain ⟨sn', hx, hok⟩ := ha
    rw [hret] at hx; cases hx; exact hok _ hm
  case compute k' w =>
    obtain ⟨rfl, hret⟩ := hr
    obtain ⟨x, hx, hok⟩ := ha
    rw [hret] at hx; cases hx; exact hok v rfl
  case fetchWith k' w c =>
    obtain ⟨rfl, stale, loader, hret, hc⟩ := hr
    obtain ⟨x, st, ld, hx, hok⟩ := ha
    rw [hret] at hx; cases hx
    rw [if_pos hc] at hok; exact hok
  case orInsert k' w c =>
    obtain ⟨rfl, hret, hne⟩ := hr
    obtain ⟨x, hx, hok⟩ := ha
    rw [hret] at hx; cases hx
    rcases hok with hok | hok
    · exact hok
    · exact absurd hok hne

/-- **no cross-key reads**: whatever a call returns for key `k` out of the cache content is the
    register content of `k` — the latest un-removed write of `k` itself -/
theorem no_cross_key (cfg : Cfg) (ops : PolicyOps P) (p0 : P) (o : Oracle) (s : State P) (sp : Spec) (op : Op)
    (h : Agree s sp) (k v : Nat) (hr : readsOld op (stepOp cfg ops p0 o s op).2 k v) : sp.reg k = some v :=
  admissible_readsOld (C11_step cfg ops p0 o s sp op h).1 hr

/-- … so, when distinct keys hold distinct value ids (the harness writes a fresh id every time), it is
    never the binding of another key -/
theorem no_cross_key_distinct (cfg : Cfg) (ops : PolicyOps P) (p0 : P) (o : Oracle) (s : State P) (sp : Spec)
    (op : Op) (h : Agree s sp) (hinj : ∀ k1 k2 x, sp.reg k1 = some x → sp.reg k2 = some x → k1 = k2)
    (k v : Nat) (hr : readsOld op (stepOp cfg ops p0 o s op).2 k v) :
    ∀ k', k' ≠ k → sp.reg k' ≠ some v :=
  fun k' hne hk' => hne (hinj k' k v hk' (no_cross_key cfg ops p0 o s sp op h k v hr))

/-! ### corollary (b): no resurrection -/

/-- after `remove k` the key is not resident -/
theorem remove_absent (cfg : Cfg) (ops : PolicyOps P) (p0 : P) (o : Oracle) (s : State P) (k : Nat) :
    lookup (stepOp cfg ops p0 o s (.remove k)).1.map k = none := removeKey_absent cfg ops s.resetLogs k

theorem invalidate_absent (cfg : Cfg) (ops : PolicyOps P) (p0 : P) (o : Oracle) (s : State P) (k : Nat) :
    lookup (stepOp cfg ops p0 o s (.invalidate k)).1.map k = none := removeKey_absent cfg ops s.resetLogs k

theorem clear_empty (cfg : Cfg) (ops : PolicyOps P) (p0 : P) (o : Oracle) (s : State P) :
    (stepOp cfg ops p0 o s .clear).1.map = [] := clearAll_map cfg ops o s.resetLogs

theorem multiRemove_absent (cfg : Cfg) (ops : PolicyOps P) (p0 : P) (o : Oracle) (s : State P) (ks : List Nat)
    (k : Nat) (hk : k ∈ ks) : lookup (stepOp cfg ops p0 o s (.multiRemove ks)).1.map k = none :=
  multiRemoveLoop_absent cfg ops ks s.resetLogs [] k (.inl hk)

theorem get_of_absent (cfg : Cfg) (s : State P) (k : Nat) (h : lookup s.map k = none) :
    s.get cfg k = (s.miss 1, none) := by
  unfold State.get; rw [h]

/-- a key that is not resident is read as absent by every single-key read -/
theorem absent_reads_none (cfg : Cfg) (ops : PolicyOps P) (p0 : P) (o : Oracle) (s : State P) (k : Nat)
    (h : lookup s.map k = none) :
    (stepOp cfg ops p0 o s (.get k)).2 = .val none ∧ (stepOp cfg ops p0 o s (.peek k)).2 = .val none ∧
    (stepOp cfg ops p0 o s (.hold k)).2 = .val none ∧ (stepOp cfg ops p0 o s (.occupied k)).2 = .flag false ∧
    (stepOp cfg ops p0 o s (.compute k 0)).2 = .computed none := by
  have h' : lookup s.resetLogs.map k = none := h
  refine ⟨?_, ?_, ?_, ?_, ?_⟩
  · show Ret.val (s.resetLogs.get cfg k).2 = _
    rw [get_of_absent cfg _ k h']
  · show Ret.val (s.resetLogs.peek cfg k) = _
    rw [peek_absent cfg _ k h']
  · show (holdOf k (s.resetLogs.get cfg k)).2 = _
    rw [get_of_absent cfg _ k h']; rfl
  · show Ret.flag (s.resetLogs.occupied k) = _
    unfold State.occupied; rw [h']; rfl
  · show (s.resetLogs.compute k 0).2 = _
    unfold State.compute; rw [h']

/-- the call may (re)bind key `k` in the register -/
def writesKey (op : Op) (k : Nat) : Prop :=
  match op with
  | .insert _ k' _ _ => k' = k
  | .insertTtl _ k' _ _ _ => k' = k
  | .multiInsert items => ∃ it, it ∈ items ∧ it.1 = k
  | .orInsert k' _ _ => k' = k
  | .compute k' _ => k' = k
  | .fetchWith k' _ _ => k' = k
  | .restore => True
  | _ => False

/-- `remove k` / `invalidate k` / `clear` / `multi_remove ∋ k` empty the register at `k` -/
theorem specStep_unsets (sp : Spec) (k : Nat) (r : Ret) :
    (specStep sp (.remove k) r).reg k = none ∧ (specStep sp (.invalidate k) r).reg k = none ∧
    (specStep sp .clear r).reg k = none ∧
    ∀ ks, k ∈ ks → (specStep sp (.multiRemove ks) r).reg k = none :=
  ⟨Reg.unset_same _ _, Reg.unset_same _ _, rfl, fun ks hk => Reg.unsetAll_mem ks _ _ hk⟩

/-- an empty register cell stays empty until a call that writes that key -/
theorem specStep_keeps_absent (sp : Spec) (op : Op) (r : Ret) (k : Nat) (hk : sp.reg k = none)
    (hw : ¬ writesKey op k) : (specStep sp op r).reg k = none := by
  cases op <;> first | exact hk | skip
  case insert a k' v c =>
    show sp.reg.set k' v k = none
    rw [Reg.set_other _ _ (fun e => hw e.symm)]; exact hk
  case insertTtl a k' v c t =>
    show sp.reg.set k' v k = none
    rw [Reg.set_other _ _ (fun e => hw e.symm)]; exact hk
  case multiInsert items =>
    show sp.reg.setAll (items.map (fun it => (it.1, it.2.1))) k = none
    rw [Reg.setAll_not_mem _ _ _ ?_]; exact hk
    intro p hp hpk
    obtain ⟨it, hit, rfl⟩ := List.mem_map.1 hp
    exact hw ⟨it, hit, hpk⟩
  case remove k' =>
    show sp.reg.unset k' k = none
    by_cases hkk : k = k'
    · subst hkk; simp
    · rw [Reg.unset_other _ hkk]; exact hk
  case invalidate k' =>
    show sp.reg.unset k' k = none
    by_cases hkk : k = k'
    · subst hkk; simp
    · rw [Reg.unset_other _ hkk]; exact hk
  case multiRemove ks => exact Reg.unsetAll_none ks _ _ hk
  case clear => rfl
  case orInsert k' v c =>
    unfold specStep
    dsimp only
    split
    · show sp.reg.set k' v k = none
      rw [Reg.set_other _ _ (fun e => hw e.symm)]; exact hk
    · exact hk
  case compute k' v =>
    unfold specStep
    dsimp only
    split
    · show sp.reg.set k' v k = none
      rw [Reg.set_other _ _ (fun e => hw e.symm)]; exact hk
    · exact hk
  case fetchWith k' v c =>
    unfold specStep
    dsimp only
    split
    · show sp.reg.set k' v k = none
      rw [Reg.set_other _ _ (fun e => hw e.symm)]; exact hk
    · exact hk
  case snapshot =>
    unfold specStep
    dsimp only
    split <;> exact hk
  case restore => exact absurd trivial hw

/-- while the register holds nothing for `k`, no call returns a value for `k` out of the cache -/
theorem no_resurrection (cfg : Cfg) (ops : PolicyOps P) (p0 : P) (o : Oracle) (s : State P) (sp : Spec) (op : Op)
    (h : Agree s sp) (k : Nat) (hk : sp.reg k = none) (v : Nat) :
    ¬ readsOld op (stepOp cfg ops p0 o s op).2 k v := by
  intro hr
  rw [no_cross_key cfg ops p0 o s sp op h k v hr] at hk
  cases hk

/-- **no resurrection**: once the register is empty at `k` (e.g. right after `remove k`, `invalidate k`,
    `clear`, `multi_remove ∋ k`: `specStep_unsets`), after ANY further calls `mid` none of which writes
    `k` (and none is `restore`), `k` is not resident and no call returns a value for `k` -/
theorem no_resurrection_run (cfg : Cfg) (ops : PolicyOps P) (p0 : P) (k : Nat) :
    ∀ (mid : List (Op × Oracle)) (s : State P) (sp : Spec), Agree s sp → sp.reg k = none →
      (∀ x, x ∈ mid → ¬ writesKey x.1 k) →
      lookup (run cfg ops p0 s mid).1.map k = none ∧
      ∀ (op : Op) (o : Oracle) (v : Nat), ¬ readsOld op (stepOp cfg ops p0 o (run cfg ops p0 s mid).1 op).2 k v := by
  intro mid
  induction mid with
  | nil =>
    intro s sp h hk _
    exact ⟨h.absent hk, fun op o v => no_resurrection cfg ops p0 o s sp op h k hk v⟩
  | cons a rest ih =>
    intro s sp h hk hmid
    obtain ⟨op0, o0⟩ := a
    obtain ⟨_, hag⟩ := C11_step cfg ops p0 o0 s sp op0 h
    have hk' := specStep_keeps_absent sp op0 (stepOp cfg ops p0 o0 s op0).2 k hk (hmid (op0, o0) List.mem_cons_self)
    exact ih _ _ hag hk' (fun x hx => hmid x (List.mem_cons_of_mem _ hx))

/-! ### corollary (c): `compute` is one atomic step -/

/-- What is modelled: in the sequential model Q the whole `try_compute_val` call is one critical
    section (one `stepOp`).  On a resident, un-pinned key it returns the old value id, re-binds
    exactly that key to the same entry with the new value id, and leaves every other binding
    untouched.  (No expiry check — the code does none.) -/
theorem compute_atomic (s : State P) (k vid : Nat) (e : Entry) (he : lookup s.map k = some e)
    (hp : e.pinned = false) :
    (s.compute k vid).2 = .computed (some (some e.vid)) ∧
    lookup (s.compute k vid).1.map k = some { e with vid := vid } ∧
    (∀ k', k' ≠ k → lookup (s.compute k vid).1.map k' = lookup s.map k') ∧
    (∀ k' e', k' ≠ k → ((k', e') ∈ (s.compute k vid).1.map ↔ (k', e') ∈ s.map)) := by
  rcases compute_cases s k vid with ⟨hn, _⟩ | ⟨e1, he1, hp1, _⟩ | ⟨e1, he1, _, heq⟩
  · rw [hn] at he; cases he
  · rw [he1] at he; cases he; rw [hp1] at hp; cases hp
  · rw [he1] at he; cases he
    rw [heq]
    refine ⟨rfl, lookup_put_same _ _ _, fun k' hk' => lookup_put_other _ _ hk', ?_⟩
    intro k' e' hk'
    show (k', e') ∈ put s.map k _ ↔ _
    rw [mem_put]
    constructor
    · intro hx
      rcases hx with hx | hx
      · exact absurd hx.1 hk'
      · exact hx.1
    · intro hx; exact .inr ⟨hx, hk'⟩

/-- the other outcomes: absent key → NotFound, pinned value → Fail; the state is unchanged -/
theorem compute_no_effect (s : State P) (k vid : Nat)
    (h : lookup s.map k = none ∨ ∃ e, lookup s.map k = some e ∧ e.pinned = true) :
    (s.compute k vid).1 = s ∧
      ((s.compute k vid).2 = .computed none ∨ (s.compute k vid).2 = .computed (some none)) := by
  rcases compute_cases s k vid with ⟨_, heq⟩ | ⟨_, _, _, heq⟩ | ⟨e1, he1, hp1, _⟩
  · rw [heq]; exact ⟨rfl, .inl rfl⟩
  · rw [heq]; exact ⟨rfl, .inr rfl⟩
  · rcases h with h | ⟨e, he, hp⟩
    · rw [h] at he1; cases he1
    · rw [he] at he1; cases he1; rw [hp] at hp1; cases hp1

/-! ### corollary (d): `or_insert` inserts at most once -/

theorem orInsert_resident (cfg : Cfg) (s : State P) (k v c : Nat) (e : Entry) (he : lookup s.map k = some e) :
    s.orInsert cfg k v c = (s, .val (some e.vid)) := by
  rcases orInsert_cases cfg s k v c with ⟨e1, he1, heq⟩ | ⟨hn, _⟩
  · rw [he1] at he; cases he; exact heq
  · rw [hn] at he; cases he

/-- after `or_insert` the key is resident with the value the call returned -/
theorem orInsert_makes_resident (cfg : Cfg) (s : State P) (k v c : Nat) :
    ∃ e, lookup (s.orInsert cfg k v c).1.map k = some e ∧ (s.orInsert cfg k v c).2 = .val (some e.vid) := by
  rcases orInsert_cases cfg s k v c with ⟨e1, he1, heq⟩ | ⟨_, hret, hm, _⟩
  · rw [heq]; exact ⟨e1, he1, rfl⟩
  · rw [hm, hret]; exact ⟨_, lookup_put_same _ _ _, rfl⟩

/-- **at most once**: a second `or_insert` on the same key (nothing in between) returns what the
    first returned and changes nothing at all -/
theorem orInsert_at_most_once (cfg : Cfg) (s : State P) (k v1 c1 v2 c2 : Nat) :
    ((s.orInsert cfg k v1 c1).1.orInsert cfg k v2 c2).2 = (s.orInsert cfg k v1 c1).2 ∧
    ((s.orInsert cfg k v1 c1).1.orInsert cfg k v2 c2).1 = (s.orInsert cfg k v1 c1).1 := by
  obtain ⟨e, he, hret⟩ := orInsert_makes_resident cfg s k v1 c1
  rw [orInsert_resident cfg _ k v2 c2 e he, hret]
  exact ⟨rfl, rfl⟩

/-- the same as two consecutive API calls: same returned value, same bindings -/
theorem orInsert_at_most_once_step (cfg : Cfg) (ops : PolicyOps P) (p0 : P) (o1 o2 : Oracle) (s : State P)
    (k v1 c1 v2 c2 : Nat) :
    (stepOp cfg ops p0 o2 (stepOp cfg ops p0 o1 s (.orInsert k v1 c1)).1 (.orInsert k v2 c2)).2 =
      (stepOp cfg ops p0 o1 s (.orInsert k v1 c1)).2 ∧
    (stepOp cfg ops p0 o2 (stepOp cfg ops p0 o1 s (.orInsert k v1 c1)).1 (.orInsert k v2 c2)).1.map =
      (stepOp cfg ops p0 o1 s (.orInsert k v1 c1)).1.map := by
  obtain ⟨e, he, hret⟩ := orInsert_makes_resident cfg s.resetLogs k v1 c1
  show ((s.resetLogs.orInsert cfg k v1 c1).1.resetLogs.orInsert cfg k v2 c2).2 = (s.resetLogs.orInsert cfg k v1 c1).2 ∧
    ((s.resetLogs.orInsert cfg k v1 c1).1.resetLogs.orInsert cfg k v2 c2).1.map = (s.resetLogs.orInsert cfg k v1 c1).1.map
  rw [orInsert_resident cfg (s.resetLogs.orInsert cfg k v1 c1).1.resetLogs k v2 c2 e he, hret]
  exact ⟨rfl, rfl⟩

/-! ### non-vacuity: concrete runs (null policy, default configuration) -/
section Examples

def cfg0 : Cfg := {}
def s0 : State Unit := State.fresh cfg0 () 0
def o0 : Oracle := {}

/-- insert, read it back, overwrite, read the NEW value (never the overwritten one), another key
    misses, remove returns the latest value, then the key reads as absent -/
def hist1 : List (Op × Oracle) :=
  [(.insert false 1 10 1, o0), (.get 1, o0), (.insert false 1 11 1, o0), (.get 1, o0), (.get 2, o0),
   (.remove 1, o0), (.get 1, o0), (.peek 1, o0)]

example : (run cfg0 nullOps () s0 hist1).2 =
    [.unit, .val (some 10), .unit, .val (some 11), .val none, .val (some 11), .val none, .val none] := by decide

/-- the register after that history: key 1 written twice then removed -/
example : (specRun Spec.empty hist1 (run cfg0 nullOps () s0 hist1).2).reg 1 = none := by decide
example : (specRun Spec.empty (hist1.take 4) ((run cfg0 nullOps () s0 hist1).2.take 4)).reg 1 = some 11 := by decide

/-- entry API, compute, fetch_with, multiget, iterators, snapshot / restore -/
def hist2 : List (Op × Oracle) :=
  [(.orInsert 1 20 1, o0), (.orInsert 1 21 1, o0), (.compute 1 22, o0), (.get 1, o0),
   (.fetchWith 2 30 1, o0), (.fetchWith 2 31 1, o0), (.multiget false [1, 2, 3], o0),
   (.iter 2 none, o0), (.snapshot, o0), (.clear, o0), (.get 1, o0), (.restore, o0), (.get 1, o0),
   (.multiRemove [1, 2], o0), (.iterSnapshot none, o0)]

example : ((run cfg0 nullOps () s0 hist2).2.take 8) =
    [.val (some 20), .val (some 20), .computed (some (some 20)), .val (some 22),
     .loaded 30 false true, .loaded 30 false false, .pairs [(1, 22), (2, 30)], .pairs [(2, 30), (1, 22)]] := by
  decide

example : ((run cfg0 nullOps () s0 hist2).2.drop 9) =
    [.unit, .val none, .unit, .val (some 22), .pairs [(1, 22), (2, 30)], .pairs []] := by decide

/-- hypotheses of `C11_step` are satisfiable on a non-empty state -/
example : Agree (P := Unit) { map := [(1, { vid := 7, cost := 1 })] } { reg := Reg.empty.set 1 7 } := by
  refine ⟨?_, rfl⟩
  intro k e he
  simp at he
  obtain ⟨rfl, rfl⟩ := he
  simp

/-- `readsOld` / `no_cross_key` are not vacuous: the second `get` of `hist1` reads `(1, 11)` -/
example : readsOld (.get 1) (.val (some 11)) 1 11 := ⟨rfl, rfl⟩

/-- `compute_atomic` hypotheses hold on a concrete state -/
example : lookup (State.map (P := Unit) { map := [(1, { vid := 7, cost := 1 })] }) 1 = some { vid := 7, cost := 1 } ∧
    ({ vid := 7, cost := 1 } : Entry).pinned = false := by decide

/-- `no_resurrection_run` hypotheses: empty register cell, a non-writing middle section -/
example : ¬ writesKey (.get 1) 1 ∧ ¬ writesKey (.insert false 2 5 1) 1 := by
  refine ⟨fun h => h, fun h => ?_⟩
  exact absurd (show (2 : Nat) = 1 from h) (by decide)

end Examples

end Fv.Props.C11
