import Fv.Lemmas.CacheFrame
/-
C11 — cache reads return only the latest live value of their own key.
-/
namespace Fv.Props.C11
open Fv.Cache
variable {P : Type}

/-- `get` / `fetch` return the value id of the binding of THAT key in the map -/
theorem get_reads_own_binding (cfg : Cfg) (s : State P) (k v : Nat) (h : (s.get cfg k).2 = some v) :
    ∃ e, (k, e) ∈ s.map ∧ e.vid = v := by
  unfold State.get at h
  split at h
  · next e he =>
    split at h
    · simp at h
    · simp at h; exact ⟨e, lookup_mem he, h⟩
  · simp at h

example : (State.get (P := Unit) {} { map := [(1, { vid := 7, cost := 1 })] } 1).2 = some 7 := by decide

end Fv.Props.C11
