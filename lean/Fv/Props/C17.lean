import Fv.Lemmas.CacheFrame
import Fv.Props.C13
/-
C17 — iteration and snapshots enumerate exactly the live entries.
-/
namespace Fv.Props.C17
open Fv.Cache
open Fv.Cache.Policy
open Fv.Props.C13 (lruOps residentCost)

/-- `to_snapshot` lists exactly the entries that are not expired -/
theorem snapshot_entries (cfg : Cfg) (m : List (Nat × Entry)) (now : Nat) (p : SnapEntry) :
    p ∈ (snapshotOf cfg m now).entries ↔
      ∃ k e, (k, e) ∈ m ∧ e.isExpired now cfg.tti = false ∧ p.key = k ∧ p.vid = e.vid ∧ p.cost = e.cost ∧
        p.ttlRemaining = (if e.expiresAt = 0 then none else if now ≤ e.expiresAt then some (e.expiresAt - now) else none) := by
  unfold snapshotOf
  simp only [List.mem_filterMap]
  constructor
  · rintro ⟨⟨k, e⟩, hm, hp⟩
    split at hp
    · simp at hp
    · next hx =>
      simp at hp
      subst hp
      exact ⟨k, e, hm, by simpa using hx, rfl, rfl, rfl, rfl⟩
  · rintro ⟨k, e, hm, hx, hk, hv, hc, ht⟩
    refine ⟨(k, e), hm, ?_⟩
    simp [hx]
    cases p; simp_all

def cfgLru3 : Cfg := { capacity := 3, trackReads := true }

/-- F11: five unit entries, snapshot, restore: the restored cache (capacity 3) holds cost 5 and
    two maintenance passes evict nothing, because no policy knows the restored keys. -/
def f11Run : State Lru.State × List Ret :=
  run cfgLru3 lruOps Lru.init (State.fresh cfgLru3 Lru.init 0)
    [(.insert false 0 100 1, {}), (.insert false 1 101 1, {}), (.insert false 2 102 1, {}), (.insert false 3 103 1, {}),
     (.insert false 4 104 1, {}), (.snapshot, {}), (.restore, {}), (.runMaintenance, {}), (.runMaintenance, {})]

theorem C17_fails_F11 : residentCost f11Run.1 = 5 ∧ f11Run.1.met.currentCost = 5 ∧ cfgLru3.capacity = 3 := by decide

end Fv.Props.C17
