import Fv.Lemmas.CacheFrame
import Fv.Lemmas.CacheIter
import Fv.Lemmas.CacheIterStream
import Fv.Props.C13
/-
C17 — iteration and snapshots enumerate exactly the live entries.

* `C17_cursor_exact`, `C17_cursor_fuel_ok`: the batching cursor of `Iter` / `IterStream`, for all
  shard counts, shard contents, batch sizes and key orders.
* `C17_iter_exact`, `C17_iter_each_live_once`: `iter_with_batch_size` consumed to the end.
* `C17_stream_exact`, `C17_stream_prefix`, `C17_stream_pending_only_when_locked`,
  `C17_stream_each_live_once`: the async stream polled by hand while other parties hold shard write
  locks at arbitrary moments (a refill future parked at its `read_async().await` and resumed later,
  on the first refill, on a middle shard or on the last shard).
* `C17_snapshot_iter_exact`, `C17_snapshot_iter_each_live_once`: `SnapshotIter` consumed to the end.
* `C17_restore_roundtrip`, `C17_restore_fields`, `C17_restore_nodup`, `C17_restore_cost`,
  `C17_snapshot_restore_api`: `to_snapshot` followed by `build_from_snapshot`.
* `C17_restore_policy_fresh` (+ witness `C17_fails_F11`): restored entries are known to no policy.

"No clock advance in between" is `inter = none`.  With a clock advance between two `next()`
calls the batching iterator yields entries that were live when their batch was buffered, which
the tie (harness vs. model) covers; the theorems here are about an iteration at one instant.
-/
namespace Fv.Props.C17
open Fv.Cache
open Fv.Cache.Policy
open Fv.Props.C13 (lruOps residentCost)

/-- `to_snapshot` lists exactly the entries that are not expired -/
theorem snapshot_entries (cfg : Cfg) (m : List (Nat × Entry)) (now : Nat) (p : SnapEntry) :
    p ∈ (snapshotOf cfg m now).entries ↔
      ∃ k e, (k, e) ∈ m ∧ e.isExpired now cfg.tti = false ∧ p.key = k ∧ p.vid = e.vid ∧ p.cost = e.cost ∧
        p.ttlRemaining = (if e.expiresAt = 0 then none else if now ≤ e.expiresAt then some (e.expiresAt - now) else none) := by
  unfold snapshotOf
  simp only [List.mem_filterMap]
  constructor
  · rintro ⟨⟨k, e⟩, hm, hp⟩
    split at hp
    · simp at hp
    · next hx =>
      simp at hp
      subst hp
      exact ⟨k, e, hm, by simpa using hx, rfl, rfl, rfl, rfl⟩
  · rintro ⟨k, e, hm, hx, hk, hv, hc, ht⟩
    refine ⟨(k, e), hm, ?_⟩
    simp [hx]
    cases p; simp_all

variable {P : Type}

/-! ### 1. cursor arithmetic -/

/-- CURSOR ARITHMETIC.  For every shard count `nshards` (0 included), every per-shard key order
    `keysOf` (shards may be empty, keys may repeat), every batch size `≥ 1`, every map and every
    start time: driving `next()` to the end with no clock advance in between leaves the clock
    alone and yields exactly the live entries of `(range nshards).flatMap keysOf`, in that order.
    Sufficient-fuel conditions, stated explicitly: the key lists are together no longer than the
    map (this is what makes `refill`'s hard-wired loop bound `nshards + m.length + 1` enough:
    the measure `(nshards - shard) + remaining keys` drops on every loop iteration) and the
    driver's fuel exceeds their total length (one `next()` per yielded item plus the final one).
    A batch that ends exactly at a shard end, empty shards, and batches that consist only of
    expired entries (the loop keeps going until the buffer has `batch` items or the shards are
    exhausted) are all instances of this one statement. -/
theorem C17_cursor_exact (nshards batch : Nat) (keysOf : Nat → List Nat) (m : List (Nat × Entry)) (tti : Option Nat)
    (now fuel : Nat) (hb : 1 ≤ batch)
    (hall : ((List.range nshards).flatMap keysOf).length ≤ m.length)
    (hfuel : ((List.range nshards).flatMap keysOf).length + 1 ≤ fuel) :
    iterDrive nshards batch keysOf m tti fuel now none {} [] =
      (now, liveOf m now tti ((List.range nshards).flatMap keysOf)) :=
  C17L.iterDrive_exact nshards batch keysOf m tti now fuel hb hall hfuel

/-- the fuel the model passes (`2 * m.length + 2` to `iterDrive`, `nshards + m.length + 1` to the
    refill loop) meets the conditions of `C17_cursor_exact` for the real key lists
    `State.shardKeys`, whatever the hash-order oracle says and even if the map had duplicate keys -/
theorem C17_cursor_fuel_ok (cfg : Cfg) (s : State P) (ord : List Nat) :
    ((List.range cfg.nshards).flatMap (fun i => s.shardKeys cfg ord i)).length ≤ s.map.length ∧
    ((List.range cfg.nshards).flatMap (fun i => s.shardKeys cfg ord i)).length + 1 ≤ 2 * s.map.length + 2 := by
  have h := C17L.shardKeys_allKeys_length_le cfg s ord
  unfold C17L.allKeys at h
  omega

/-- the example map: keys 0, 4, 8 hash to shard 0 of 4, key 1 to shard 1, shards 2 and 3 are
    empty; key 4 (in the middle of shard 0) has a TTL deadline of 5 -/
def exMap : List (Nat × Entry) :=
  [(0, { vid := 10, cost := 1 }), (4, { vid := 14, cost := 2, expiresAt := 5 }),
   (8, { vid := 18, cost := 3, expiresAt := 30 }), (1, { vid := 11, cost := 4 })]

def exKeys (i : Nat) : List Nat := if i = 0 then [8, 4, 0] else if i = 1 then [1] else []

-- non-vacuity of `C17_cursor_exact`: batch size 1, 4 shards two of them empty, expired entry in the middle
example : 1 ≤ 1 ∧ ((List.range 4).flatMap exKeys).length ≤ exMap.length ∧ ((List.range 4).flatMap exKeys).length + 1 ≤ 10 := by decide
example : iterDrive 4 1 exKeys exMap none 10 7 none {} [] = (7, [(8, 18), (0, 10), (1, 11)]) := by decide
-- batch = shard size (the batch ends exactly at the end of shard 0)
example : iterDrive 4 3 exKeys exMap none 10 7 none {} [] = (7, [(8, 18), (0, 10), (1, 11)]) := by decide
-- batch larger than everything; nothing expired yet at time 3
example : iterDrive 4 64 exKeys exMap none 10 3 none {} [] = (3, [(8, 18), (4, 14), (0, 10), (1, 11)]) := by decide
-- a batch consisting only of expired entries (time 40: keys 4 and 8 are expired), batch size 2
example : iterDrive 4 2 (fun i => if i = 0 then [8, 4, 0] else if i = 1 then [1] else []) exMap none 10 40 none {} [] =
    (40, [(0, 10), (1, 11)]) := by decide

/-! ### 2./3. `iter_with_batch_size` consumed to the end -/

/-- `iter()` / `iter_with_batch_size(batch)` (any batch, `0` is clamped to 1) driven to the end
    at one instant returns the flushed state unchanged and yields exactly the live entries of the
    flushed map, shard by shard, each shard in the oracle's hash order.  No hypothesis at all. -/
theorem C17_iter_all (cfg : Cfg) (ops : PolicyOps P) (o : Oracle) (s : State P) (batch : Nat) :
    s.iterAll cfg ops o batch none =
      (s.flush cfg ops o,
       liveOf (s.flush cfg ops o).map (s.flush cfg ops o).now cfg.tti
         ((List.range cfg.nshards).flatMap (fun i => (s.flush cfg ops o).shardKeys cfg o.ord i))) := by
  have hf := C17_cursor_fuel_ok cfg (s.flush cfg ops o) o.ord
  have h := C17_cursor_exact cfg.nshards (max batch 1) (fun i => (s.flush cfg ops o).shardKeys cfg o.ord i)
    (s.flush cfg ops o).map cfg.tti (s.flush cfg ops o).now (2 * (s.flush cfg ops o).map.length + 2)
    (Nat.le_max_right _ _) hf.1 hf.2
  unfold State.iterAll
  simp only [h]

theorem C17_iter_exact (cfg : Cfg) (ops : PolicyOps P) (o : Oracle) (s : State P) (batch : Nat) :
    (s.iterAll cfg ops o batch none).2 =
      liveOf (s.flush cfg ops o).map (s.flush cfg ops o).now cfg.tti
        ((List.range cfg.nshards).flatMap (fun i => (s.flush cfg ops o).shardKeys cfg o.ord i)) := by
  rw [C17_iter_all]

/-- what the live entries of the walked keys are, for a map with distinct keys and at least one
    shard: distinct keys, and `(k, v)` is listed iff `k` is bound to a non-expired entry with value `v` -/
theorem live_walk_spec (cfg : Cfg) (s1 : State P) (ord : List Nat) (hn : 0 < cfg.nshards)
    (hwf : (s1.map.map (·.1)).Nodup) :
    ((liveOf s1.map s1.now cfg.tti
        ((List.range cfg.nshards).flatMap (fun i => s1.shardKeys cfg ord i))).map (·.1)).Nodup ∧
    ∀ k v, (k, v) ∈ liveOf s1.map s1.now cfg.tti
        ((List.range cfg.nshards).flatMap (fun i => s1.shardKeys cfg ord i)) ↔
      ∃ e, (k, e) ∈ s1.map ∧ e.vid = v ∧ e.isExpired s1.now cfg.tti = false := by
  refine ⟨List.Nodup.sublist (C17L.liveOf_keys_sublist ..) (C17L.shardKeys_allKeys_nodup cfg s1 ord hwf), ?_⟩
  intro k v
  rw [C17L.mem_liveOf]
  have hmem := C17L.mem_shardKeys_allKeys cfg s1 ord hn k
  unfold C17L.allKeys at hmem
  rw [hmem]
  constructor
  · rintro ⟨_, e, he, hx, hv⟩
    exact ⟨e, lookup_mem he, hv, hx⟩
  · rintro ⟨e, he, hv, hx⟩
    exact ⟨List.mem_map.2 ⟨(k, e), he, rfl⟩, e, C17L.lookup_of_mem_nodup hwf he, hx, hv⟩

/-- every live entry exactly once with its current value, expired ones omitted, whatever the
    hash-order oracle and the batch size are (`s1` = the state after the introspection flush,
    whose map has distinct keys) -/
theorem C17_iter_each_live_once (cfg : Cfg) (ops : PolicyOps P) (o : Oracle) (s : State P) (batch : Nat)
    (hn : 0 < cfg.nshards) (hwf : ((s.flush cfg ops o).map.map (·.1)).Nodup) :
    ((s.iterAll cfg ops o batch none).2.map (·.1)).Nodup ∧
    ∀ k v, (k, v) ∈ (s.iterAll cfg ops o batch none).2 ↔
      ∃ e, (k, e) ∈ (s.flush cfg ops o).map ∧ e.vid = v ∧
        e.isExpired (s.flush cfg ops o).now cfg.tti = false := by
  rw [C17_iter_exact]
  exact live_walk_spec cfg (s.flush cfg ops o) o.ord hn hwf

def exCfg : Cfg := { nshards := 4 }
def exState : State Unit := { State.fresh exCfg () 7 with map := exMap }

-- non-vacuity: 4 shards (two empty), expired key 4 in the middle of shard 0, hash order from the oracle
example : 0 < exCfg.nshards ∧ ((exState.flush exCfg nullOps { ord := [8, 4, 0, 1] }).map.map (·.1)).Nodup := by decide
example : (exState.iterAll exCfg nullOps { ord := [8, 4, 0, 1] } 1 none).2 = [(8, 18), (0, 10), (1, 11)] := by decide
example : (exState.iterAll exCfg nullOps { ord := [8, 4, 0, 1] } 3 none).2 = [(8, 18), (0, 10), (1, 11)] := by decide
example : (exState.iterAll exCfg nullOps { ord := [] } 0 none).2 = [(0, 10), (8, 18), (1, 11)] := by decide

/-! ### 3b. the async stream with a contended refill

`streamPoll` is one `IterStream::poll_next` call; its `locked` argument says which shards' write
locks are held by somebody else during that poll, so the refill future's `read_async().await`
on such a shard is `Pending` and the future is parked (`StreamSt.inflight`) holding its own local
cursor and the batch collected so far; the stream's cursor is taken over from the future when —
and only when — the future completes (`streamAbsorb`). -/

/-- THE STREAM WITH ARBITRARY PENDING / RESUME POINTS.  For every shard count, per-shard key order,
    batch size `≥ 1`, map and time: poll the stream under ANY list `locks` of lock situations (every
    poll may find any set of shards locked, so refills are parked and resumed at arbitrary points),
    then poll with no lock held `n ≥ (number of live entries) + 1` times.  The stream reports its
    end and has handed out exactly the live entries of `(range nshards).flatMap keysOf` in that
    order — which is exactly what the uncontended cursor `iterDrive` yields: every live entry once,
    none skipped, none twice, whatever the Pending / resume points were.  (The same fuel condition
    as `C17_cursor_exact`: the key lists are together no longer than the map.) -/
theorem C17_stream_exact (nshards batch : Nat) (keysOf : Nat → List Nat) (m : List (Nat × Entry)) (tti : Option Nat)
    (now : Nat) (hb : 1 ≤ batch)
    (hall : ((List.range nshards).flatMap keysOf).length ≤ m.length)
    (locks : List (Nat → Bool)) (n : Nat)
    (hn : (liveOf m now tti ((List.range nshards).flatMap keysOf)).length + 1 ≤ n) :
    (streamRun nshards batch keysOf m now tti {} (locks ++ List.replicate n noLock) []).2 =
      (liveOf m now tti ((List.range nshards).flatMap keysOf), true) ∧
    (streamRun nshards batch keysOf m now tti {} (locks ++ List.replicate n noLock) []).2.1 =
      (iterDrive nshards batch keysOf m tti (((List.range nshards).flatMap keysOf).length + 1) now none {} []).2 := by
  have h := C17L.streamRun_exact nshards batch keysOf m now tti hall hb locks n hn
  unfold C17L.allKeys at h
  refine ⟨h, ?_⟩
  rw [h, C17_cursor_exact nshards batch keysOf m tti now _ hb hall (Nat.le_refl _)]

/-- at EVERY moment of a hand-polled stream (after any list of polls under any lock situations, ended
    or not) the items handed out so far are a prefix of the live entries in cursor order: nothing
    is yielded twice, nothing is skipped, and if the end has been reported nothing is missing -/
theorem C17_stream_prefix (nshards batch : Nat) (keysOf : Nat → List Nat) (m : List (Nat × Entry)) (tti : Option Nat)
    (now : Nat) (hb : 1 ≤ batch)
    (hall : ((List.range nshards).flatMap keysOf).length ≤ m.length) (locks : List (Nat → Bool)) :
    (∃ t, liveOf m now tti ((List.range nshards).flatMap keysOf) =
        (streamRun nshards batch keysOf m now tti {} locks []).2.1 ++ t) ∧
    ((streamRun nshards batch keysOf m now tti {} locks []).2.2 = true →
      (streamRun nshards batch keysOf m now tti {} locks []).2.1 = liveOf m now tti ((List.range nshards).flatMap keysOf)) := by
  have h := C17L.streamRun_spec nshards batch keysOf m now tti hall hb locks {} [] (C17L.SInv_init ..)
  have hp := h.1.prefix
  unfold C17L.allKeys at h hp
  exact ⟨hp, h.2⟩

/-- a poll returns `Pending` only while some shard is locked by somebody else: once the locks
    are released the parked refill completes on the next poll (no lost progress) -/
theorem C17_stream_pending_only_when_locked (nshards batch : Nat) (keysOf : Nat → List Nat) (m : List (Nat × Entry))
    (tti : Option Nat) (now : Nat) (hb : 1 ≤ batch)
    (hall : ((List.range nshards).flatMap keysOf).length ≤ m.length) (locks : List (Nat → Bool)) :
    (streamPoll nshards batch keysOf m now tti noLock (streamRun nshards batch keysOf m now tti {} locks []).1).2 ≠ .pending := by
  have h := C17L.streamRun_spec nshards batch keysOf m now tti hall hb locks {} [] (C17L.SInv_init ..)
  exact C17L.streamPoll_noLock nshards batch keysOf m now tti _ _ hall hb h.1

/-- `iter_stream_with_batch_size(batch)` (any batch, `0` clamped to 1) of the cache, polled under
    arbitrary lock situations and then freely `n ≥ map size + 1` times: the flushed state is
    returned unchanged, the stream has ended and yielded exactly what `iter_with_batch_size`
    yields (`C17_iter_all`). -/
theorem C17_stream_all (cfg : Cfg) (ops : PolicyOps P) (o : Oracle) (s : State P) (batch : Nat)
    (locks : List (Nat → Bool)) (n : Nat) (hn : (s.flush cfg ops o).map.length + 1 ≤ n) :
    s.streamAll cfg ops o batch locks n = (s.flush cfg ops o, (s.iterAll cfg ops o batch none).2, true) := by
  have hf := C17_cursor_fuel_ok cfg (s.flush cfg ops o) o.ord
  have hlen : (liveOf (s.flush cfg ops o).map (s.flush cfg ops o).now cfg.tti
      ((List.range cfg.nshards).flatMap (fun i => (s.flush cfg ops o).shardKeys cfg o.ord i))).length ≤
      ((List.range cfg.nshards).flatMap (fun i => (s.flush cfg ops o).shardKeys cfg o.ord i)).length := by
    unfold liveOf; exact List.length_filterMap_le _ _
  have h := (C17_stream_exact cfg.nshards (max batch 1) (fun i => (s.flush cfg ops o).shardKeys cfg o.ord i)
    (s.flush cfg ops o).map cfg.tti (s.flush cfg ops o).now (Nat.le_max_right _ _) hf.1 locks n (by omega)).1
  unfold State.streamAll
  simp only [h, C17_iter_exact]

/-- the contended stream yields every live entry exactly once with its current value, expired
    ones omitted — whatever the hash order, the batch size and the Pending / resume points are -/
theorem C17_stream_each_live_once (cfg : Cfg) (ops : PolicyOps P) (o : Oracle) (s : State P) (batch : Nat)
    (locks : List (Nat → Bool)) (n : Nat) (hlen : (s.flush cfg ops o).map.length + 1 ≤ n)
    (hn : 0 < cfg.nshards) (hwf : ((s.flush cfg ops o).map.map (·.1)).Nodup) :
    (s.streamAll cfg ops o batch locks n).2.2 = true ∧
    ((s.streamAll cfg ops o batch locks n).2.1.map (·.1)).Nodup ∧
    ∀ k v, (k, v) ∈ (s.streamAll cfg ops o batch locks n).2.1 ↔
      ∃ e, (k, e) ∈ (s.flush cfg ops o).map ∧ e.vid = v ∧
        e.isExpired (s.flush cfg ops o).now cfg.tti = false := by
  rw [C17_stream_all cfg ops o s batch locks n hlen]
  exact ⟨rfl, C17_iter_each_live_once cfg ops o s batch hn hwf⟩


def lockShard (j : Nat) : Nat → Bool := fun i => i == j

-- non-vacuity / the three positions of a parked refill on `exMap` (4 shards: [8,4,0], [1], [], []; key 4 expired at 7).
-- Pending on the FIRST refill (shard 0 locked before the first poll), resumed two polls later:
example : (streamRun 4 2 exKeys exMap 7 none {} [lockShard 0, lockShard 0, noLock, noLock, noLock, noLock] []).2 =
    ([(8, 18), (0, 10), (1, 11)], true) := by decide
example : (streamPoll 4 2 exKeys exMap 7 none (lockShard 0) {}) = ({ inflight := some {} }, .pending) := by decide
-- Pending on a MIDDLE shard: with batch 3 the refill future has already collected keys 8 and 0 of shard 0 in
-- its local buffer when it is parked at locked shard 1; the stream's own cursor is still at the start
example : (streamPoll 4 3 exKeys exMap 7 none (lockShard 1) {}) =
    ({ cur := {}, inflight := some { shard := 1, seen := 0, buffer := [(8, 18), (0, 10)], finished := false } }, .pending) := by decide
example : (streamRun 4 3 exKeys exMap 7 none {} [lockShard 1, lockShard 1, noLock, noLock, noLock, noLock] []).2 =
    ([(8, 18), (0, 10), (1, 11)], true) := by decide
-- ... and with batch 2: two items from shard 0 first, then the next refill is parked at shard 1
example : (streamRun 4 2 exKeys exMap 7 none {} [noLock, noLock, lockShard 1, lockShard 1, noLock, noLock] []).2 =
    ([(8, 18), (0, 10), (1, 11)], true) := by decide
-- Pending on the LAST shard (empty, but its lock is still taken by the loop), batch larger than everything
example : (streamRun 4 64 exKeys exMap 7 none {} [lockShard 3, lockShard 3, noLock, noLock, noLock, noLock] []).2 =
    ([(8, 18), (0, 10), (1, 11)], true) := by decide
example : (streamRun 4 64 exKeys exMap 7 none {} [lockShard 3, lockShard 3] []).2 = ([], false) := by decide
-- what would go wrong if the parked future's cursor were NOT taken over on completion: the batch is read again
example : (streamRun 4 1 exKeys exMap 7 none
      ({ (streamRun 4 1 exKeys exMap 7 none {} [lockShard 0, noLock] []).1 with cur := {} }) [noLock] [(8, 18)]).2.1 =
    [(8, 18), (8, 18)] := by decide
example : 1 ≤ 2 ∧ ((List.range 4).flatMap exKeys).length ≤ exMap.length ∧
    (liveOf exMap 7 none ((List.range 4).flatMap exKeys)).length + 1 ≤ 4 := by decide
example : (exState.streamAll exCfg nullOps { ord := [8, 4, 0, 1] } 2 [lockShard 0, lockShard 1] 5).2 =
    ([(8, 18), (0, 10), (1, 11)], true) := by decide

/-! ### 4. `SnapshotIter` consumed to the end -/

/-- the per-shard key-snapshot iterator looks every key up with `fetch`, which re-`put`s the key
    it hits (same value, refreshed idle clock) — the bindings and expiry status of the OTHER keys
    do not change while iterating, and with distinct keys every key is visited once.  So at one
    instant it yields the same list as the batching iterator, and the clock is left alone. -/
theorem C17_snapshot_iter_exact (cfg : Cfg) (ops : PolicyOps P) (o : Oracle) (s : State P)
    (hwf : ((s.flush cfg ops o).map.map (·.1)).Nodup) :
    (s.iterSnapshotAll cfg ops o none).2 =
      liveOf (s.flush cfg ops o).map (s.flush cfg ops o).now cfg.tti
        ((List.range cfg.nshards).flatMap (fun i => (s.flush cfg ops o).shardKeys cfg o.ord i)) ∧
    (s.iterSnapshotAll cfg ops o none).1.now = (s.flush cfg ops o).now := by
  have hnd := C17L.shardKeys_allKeys_nodup cfg (s.flush cfg ops o) o.ord hwf
  unfold C17L.allKeys at hnd
  have h := C17L.snapDrive_none cfg _ (s.flush cfg ops o) [] hnd
  unfold State.iterSnapshotAll
  simpa using h

theorem C17_snapshot_iter_each_live_once (cfg : Cfg) (ops : PolicyOps P) (o : Oracle) (s : State P)
    (hn : 0 < cfg.nshards) (hwf : ((s.flush cfg ops o).map.map (·.1)).Nodup) :
    ((s.iterSnapshotAll cfg ops o none).2.map (·.1)).Nodup ∧
    ∀ k v, (k, v) ∈ (s.iterSnapshotAll cfg ops o none).2 ↔
      ∃ e, (k, e) ∈ (s.flush cfg ops o).map ∧ e.vid = v ∧
        e.isExpired (s.flush cfg ops o).now cfg.tti = false := by
  rw [(C17_snapshot_iter_exact cfg ops o s hwf).1]
  exact live_walk_spec cfg (s.flush cfg ops o) o.ord hn hwf

def exCfgTti : Cfg := { nshards := 4, tti := some 100, trackReads := true }
def exStateTti : State Unit := { State.fresh exCfgTti () 7 with map := exMap }

example : 0 < exCfgTti.nshards ∧ ((exStateTti.flush exCfgTti nullOps { ord := [8, 4, 0, 1] }).map.map (·.1)).Nodup := by decide
example : (exStateTti.iterSnapshotAll exCfgTti nullOps { ord := [8, 4, 0, 1] } none).2 = [(8, 18), (0, 10), (1, 11)] := by decide
-- the hits refreshed the idle clocks of exactly the yielded keys
example : (exStateTti.iterSnapshotAll exCfgTti nullOps { ord := [8, 4, 0, 1] } none).1.map.map (fun p => (p.1, p.2.lastAccessed)) =
    [(1, 7), (0, 7), (8, 7), (4, 0)] := by decide

/-! ### 5. snapshot round trip

`to_snapshot` is `snapshotOf` applied to the flushed map (`C17_snapshot_restore_api`); the
serialisation round trip between `to_snapshot` and `build_from_snapshot` is the identity in the
model (the harness performs the real bincode round trip and the tie compares the results). -/

/-- ROUND TRIP.  Snapshot a map with distinct keys at `now`, restore at `now'`: the restored map
    binds `k` to `e'` iff the original bound `k` to some non-expired `e` and `e'` is `e` with the
    same value and cost, no timer, not pinned, a fresh idle clock, and a TTL deadline that leaves
    exactly the lifetime that was left at snapshot time (`restoredOf`). -/
theorem C17_restore_roundtrip (cfg : Cfg) (p0 : P) (m : List (Nat × Entry)) (now now' : Nat)
    (hn : (m.map (·.1)).Nodup) (k : Nat) (e' : Entry) :
    (k, e') ∈ (State.restore cfg p0 now' (snapshotOf cfg m now)).map ↔
      ∃ e, (k, e) ∈ m ∧ e.isExpired now cfg.tti = false ∧ e' = C17L.restoredOf cfg now now' e :=
  C17L.mem_restore_snapshot cfg p0 m now now' hn k e'

/-- the fields of a restored entry, spelled out: same key ↦ value mapping, same cost, no TTL stays
    no TTL, a TTL keeps its remaining lifetime (so it is no longer than the original: the restored
    deadline is `now' + (expiresAt - now)` with `now < expiresAt`), no timer handle -/
theorem C17_restore_fields (cfg : Cfg) (p0 : P) (m : List (Nat × Entry)) (now now' : Nat)
    (hn : (m.map (·.1)).Nodup) (k : Nat) (e' : Entry)
    (h : (k, e') ∈ (State.restore cfg p0 now' (snapshotOf cfg m now)).map) :
    ∃ e, (k, e) ∈ m ∧ e.isExpired now cfg.tti = false ∧ e'.vid = e.vid ∧ e'.cost = e.cost ∧
      (e.expiresAt = 0 → e'.expiresAt = 0) ∧
      (e.expiresAt ≠ 0 → e'.expiresAt = now' + (e.expiresAt - now) ∧ now < e.expiresAt ∧
        e'.expiresAt - now' = e.expiresAt - now) ∧
      e'.timer = none ∧ e'.pinned = false ∧ e'.isExpired now' none = false := by
  obtain ⟨e, hm, hx, rfl⟩ := (C17_restore_roundtrip cfg p0 m now now' hn k e').1 h
  have hx' := (isExpired_false_iff e now cfg.tti).1 hx
  refine ⟨e, hm, hx, rfl, rfl, ?_, ?_, rfl, rfl, ?_⟩
  · intro h0; simp [C17L.restoredOf, h0]
  · intro h0
    have : now < e.expiresAt := by omega
    simp only [C17L.restoredOf, h0, if_false]
    exact ⟨trivial, this, by omega⟩
  · rw [isExpired_false_iff]
    refine ⟨?_, by intro d hd; cases hd⟩
    by_cases h0 : e.expiresAt = 0
    · simp [C17L.restoredOf, h0]
    · simp only [C17L.restoredOf, h0, if_false]; omega

/-- every live binding of the original comes back (the `←` direction of the round trip, spelled out) -/
theorem C17_restore_complete (cfg : Cfg) (p0 : P) (m : List (Nat × Entry)) (now now' : Nat)
    (hn : (m.map (·.1)).Nodup) (k : Nat) (e : Entry) (hm : (k, e) ∈ m) (hx : e.isExpired now cfg.tti = false) :
    ∃ e', (k, e') ∈ (State.restore cfg p0 now' (snapshotOf cfg m now)).map ∧ e'.vid = e.vid ∧ e'.cost = e.cost :=
  ⟨C17L.restoredOf cfg now now' e, (C17_restore_roundtrip cfg p0 m now now' hn k _).2 ⟨e, hm, hx, rfl⟩, rfl, rfl⟩

/-- the restored map has distinct keys (for every snapshot, even one with repeated keys) -/
theorem C17_restore_nodup (cfg : Cfg) (p0 : P) (now : Nat) (sn : Snapshot) :
    ((State.restore cfg p0 now sn).map.map (·.1)).Nodup :=
  C17L.restore_keys_nodup cfg p0 now sn

/-- `current_cost` of the restored cache is the (wrapping) cost sum of the snapshot's entries -/
theorem C17_restore_cost (cfg : Cfg) (p0 : P) (now : Nat) (sn : Snapshot) :
    (State.restore cfg p0 now sn).met.currentCost = ((sn.entries.map (·.cost)).sum) % U64 :=
  C17L.restore_currentCost cfg p0 now sn

/-- the API-level composition: `to_snapshot` is `snapshotOf` of the flushed map at the flushed
    clock, so the round-trip theorems apply to `restore (toSnapshot s).2` verbatim -/
theorem C17_snapshot_restore_api (cfg : Cfg) (ops : PolicyOps P) (o : Oracle) (s : State P) (p0 : P) (now' : Nat)
    (hwf : ((s.flush cfg ops o).map.map (·.1)).Nodup) (k : Nat) (e' : Entry) :
    (k, e') ∈ (State.restore cfg p0 now' (s.toSnapshot cfg ops o).2).map ↔
      ∃ e, (k, e) ∈ (s.flush cfg ops o).map ∧ e.isExpired (s.flush cfg ops o).now cfg.tti = false ∧
        e' = C17L.restoredOf cfg (s.flush cfg ops o).now now' e :=
  C17_restore_roundtrip cfg p0 (s.flush cfg ops o).map (s.flush cfg ops o).now now' hwf k e'

-- non-vacuity: snapshot at 7 (key 4 expired), restore at 20: key 8 had 23 left, gets deadline 43
example : (exMap.map (·.1)).Nodup := by decide
example : (State.restore exCfg () 20 (snapshotOf exCfg exMap 7)).map =
    [(1, { vid := 11, cost := 4 }), (8, { vid := 18, cost := 3, expiresAt := 43 }), (0, { vid := 10, cost := 1 })] := by decide
example : (State.restore exCfg () 20 (snapshotOf exCfg exMap 7)).met.currentCost = 8 := by decide
-- hypotheses of `C17_restore_complete`: a live binding of the original
example : (8, ({ vid := 18, cost := 3, expiresAt := 30 } : Entry)) ∈ exMap ∧
    ({ vid := 18, cost := 3, expiresAt := 30 } : Entry).isExpired 7 exCfg.tti = false := by decide
example : (State.restore exCfg () 20 (exState.toSnapshot exCfg nullOps {}).2).map.map (·.1) = [1, 8, 0] := by decide

/-! ### 6. F11: restored entries are never admitted to a policy -/

/-- in the state `build_from_snapshot` produces, every shard has an empty write-event buffer, an
    empty read batch and a FRESH policy `p0`, and no policy call was made: nothing will ever tell a
    policy about the restored keys, so capacity eviction cannot choose them (`C17_fails_F11`) -/
theorem C17_restore_policy_fresh (cfg : Cfg) (p0 : P) (now : Nat) (sn : Snapshot) :
    (∀ a, a ∈ (State.restore cfg p0 now sn).aux → a.events = [] ∧ a.batch = [] ∧ a.policy = p0) ∧
    (State.restore cfg p0 now sn).plog = [] ∧ (State.restore cfg p0 now sn).aux.length = cfg.nshards :=
  ⟨C17L.restore_aux cfg p0 now sn, rfl, by simp [State.restore, State.fresh, freshAux]⟩

example : (State.restore exCfg () 20 (snapshotOf exCfg exMap 7)).aux.length = 4 := by decide

theorem lru_evict_init (n : Nat) : Lru.evict Lru.init n = (Lru.init, [], 0) := by
  cases n with
  | zero => rfl
  | succ n => simp [Lru.evict, Lru.init, Lru.evictLoop, LruList.popBack]

/-- the capacity pass on a state whose LRU policies are all still fresh finds no victim: the map
    is left alone however far `current_cost` is above the capacity -/
theorem cleanupCapacity_fresh_lru (cfg : Cfg) (o : Oracle) (s : State Lru.State) (i : Nat)
    (hp : ∀ a, a ∈ s.aux → a.policy = Lru.init) :
    (s.cleanupCapacity cfg lruOps o i).map = s.map := by
  unfold State.cleanupCapacity
  dsimp only
  split
  · rfl
  · unfold State.polEvict
    cases ha : s.aux[i]? with
    | none => rfl
    | some a =>
      have : a.policy = Lru.init := hp a (List.mem_of_getElem? ha)
      simp [lruOps, this, lru_evict_init]

/-- F11 explained for LRU: in a freshly restored cache the capacity pass of every shard removes
    nothing, whatever the restored cost and the capacity are (the general statement behind the
    witness `C17_fails_F11` below) -/
theorem C17_restore_capacity_pass_noop (cfg : Cfg) (o : Oracle) (now : Nat) (sn : Snapshot) (i : Nat) :
    ((State.restore cfg Lru.init now sn).cleanupCapacity cfg lruOps o i).map =
      (State.restore cfg Lru.init now sn).map :=
  cleanupCapacity_fresh_lru cfg o _ i (fun a ha => (C17L.restore_aux cfg Lru.init now sn a ha).2.2)

-- non-vacuity: five unit entries restored into a capacity-3 cache: over capacity, nothing removed
example : (State.restore { capacity := 3 } Lru.init 0 (snapshotOf { capacity := 3 }
      [(0, { vid := 100, cost := 1 }), (1, { vid := 101, cost := 1 }), (2, { vid := 102, cost := 1 }),
       (3, { vid := 103, cost := 1 }), (4, { vid := 104, cost := 1 })] 0)).met.currentCost = 5 := by decide
example : (State.restore { capacity := 3 } Lru.init 0 (snapshotOf { capacity := 3 }
      [(0, { vid := 100, cost := 1 })] 0)).aux.map (·.policy) = [Lru.init] := by decide

def cfgLru3 : Cfg := { capacity := 3, trackReads := true }

/-- F11: five unit entries, snapshot, restore: the restored cache (capacity 3) holds cost 5 and
    two maintenance passes evict nothing, because no policy knows the restored keys. -/
def f11Run : State Lru.State × List Ret :=
  run cfgLru3 lruOps Lru.init (State.fresh cfgLru3 Lru.init 0)
    [(.insert false 0 100 1, {}), (.insert false 1 101 1, {}), (.insert false 2 102 1, {}), (.insert false 3 103 1, {}),
     (.insert false 4 104 1, {}), (.snapshot, {}), (.restore, {}), (.runMaintenance, {}), (.runMaintenance, {})]

theorem C17_fails_F11 : residentCost f11Run.1 = 5 ∧ f11Run.1.met.currentCost = 5 ∧ cfgLru3.capacity = 3 := by decide

/-- every shard is as `build_from_snapshot` left it: nothing queued, fresh LRU policy, no wheel -/
def FreshLru (s : State Lru.State) : Prop :=
  ∀ a, a ∈ s.aux → a.events = [] ∧ a.batch = [] ∧ a.policy = Lru.init ∧ a.wheel = none

theorem mem_modAt {α} (f : α → α) (a : α) : ∀ (l : List α) (i : Nat), a ∈ modAt l i f → a ∈ l ∨ ∃ b, b ∈ l ∧ a = f b := by
  intro l
  induction l with
  | nil => intro i h; simp [modAt] at h
  | cons x rest ih =>
    intro i h
    cases i with
    | zero =>
      simp only [modAt, List.mem_cons] at h
      rcases h with h | h
      · exact Or.inr ⟨x, List.mem_cons_self .., h⟩
      · exact Or.inl (List.mem_cons_of_mem _ h)
    | succ i =>
      simp only [modAt, List.mem_cons] at h
      rcases h with h | h
      · exact Or.inl (h ▸ List.mem_cons_self ..)
      · rcases ih i h with h | ⟨b, hb, hab⟩
        · exact Or.inl (List.mem_cons_of_mem _ h)
        · exact Or.inr ⟨b, List.mem_cons_of_mem _ hb, hab⟩

theorem FreshLru.modAux {s : State Lru.State} (h : FreshLru s) (i : Nat) (f : Aux Lru.State → Aux Lru.State)
    (hf : ∀ b, (b.events = [] ∧ b.batch = [] ∧ b.policy = Lru.init ∧ b.wheel = none) →
      ((f b).events = [] ∧ (f b).batch = [] ∧ (f b).policy = Lru.init ∧ (f b).wheel = none)) :
    FreshLru (s.modAux i f) := by
  intro a ha
  rcases mem_modAt f a s.aux i ha with h1 | ⟨b, hb, rfl⟩
  · exact h a h1
  · exact hf b (h b hb)

theorem performShard_fresh (cfg : Cfg) (o : Oracle) (s : State Lru.State) (i limit : Nat) (h : FreshLru s) :
    (s.performShard cfg lruOps o i limit).map = s.map ∧ FreshLru (s.performShard cfg lruOps o i limit) := by
  unfold State.performShard
  cases ha : s.aux[i]? with
  | none => exact ⟨rfl, h⟩
  | some a =>
    obtain ⟨he, hb, _, _⟩ := h a (List.mem_of_getElem? ha)
    have hfm : ∀ l : List Nat, l.filterMap (fun _ => (none : Option (Nat × Nat))) = [] := by
      intro l; induction l <;> simp [*]
    simp only [he, hb, List.take_nil, List.map_nil, List.find?_nil, hfm, List.filter_nil,
      State.applyAccesses, State.applyWrites]
    exact ⟨rfl, h.modAux i _ (fun b hb => ⟨by simp [hb.1], rfl, hb.2.2.1, hb.2.2.2⟩)⟩

theorem cleanupTtl_fresh (cfg : Cfg) (o : Oracle) (s : State Lru.State) (i : Nat) (h : FreshLru s) :
    s.cleanupTtl cfg lruOps o i = s := by
  unfold State.cleanupTtl
  cases ha : s.aux[i]? with
  | none => rfl
  | some a =>
    have := (h a (List.mem_of_getElem? ha)).2.2.2
    simp [this]

theorem cleanupTti_none (cfg : Cfg) (o : Oracle) (s : State Lru.State) (i : Nat) (htti : cfg.tti = none) :
    s.cleanupTti cfg lruOps o i = s := by
  unfold State.cleanupTti
  rw [htti]

theorem cleanupCapacity_fresh (cfg : Cfg) (o : Oracle) (s : State Lru.State) (i : Nat) (h : FreshLru s) :
    (s.cleanupCapacity cfg lruOps o i).map = s.map ∧ FreshLru (s.cleanupCapacity cfg lruOps o i) := by
  unfold State.cleanupCapacity
  dsimp only
  split
  · exact ⟨rfl, h⟩
  · unfold State.polEvict
    cases ha : s.aux[i]? with
    | none => exact ⟨rfl, h⟩
    | some a =>
      have hp : a.policy = Lru.init := (h a (List.mem_of_getElem? ha)).2.2.1
      simp only [lruOps, hp, lru_evict_init, List.isEmpty_nil, if_true]
      exact ⟨rfl, h.modAux i _ (fun b hb => ⟨hb.1, hb.2.1, rfl, hb.2.2.2⟩)⟩

theorem runMaintenance_fresh (cfg : Cfg) (o : Oracle) (htti : cfg.tti = none) :
    ∀ (l : List Nat) (s : State Lru.State), FreshLru s →
      (l.foldl (fun s i =>
        let s := s.performShard cfg lruOps o i cfg.drainLimit
        let s := s.cleanupTtl cfg lruOps o i
        let s := s.cleanupTti cfg lruOps o i
        s.cleanupCapacity cfg lruOps o i) s).map = s.map := by
  intro l
  induction l with
  | nil => intro s _; rfl
  | cons i rest ih =>
    intro s h
    rw [List.foldl_cons]
    dsimp only
    obtain ⟨hm1, hf1⟩ := performShard_fresh cfg o s i cfg.drainLimit h
    rw [cleanupTtl_fresh cfg o _ i hf1, cleanupTti_none cfg o _ i htti]
    obtain ⟨hm2, hf2⟩ := cleanupCapacity_fresh cfg o _ i hf1
    rw [ih _ hf2, hm2, hm1]

theorem restore_freshLru (cfg : Cfg) (now : Nat) (sn : Snapshot) (httl : cfg.ttl = none) (htti : cfg.tti = none) :
    FreshLru (State.restore cfg Lru.init now sn) := by
  intro a ha
  have h' : a ∈ List.replicate cfg.nshards
      ({ wheel := if cfg.hasWheel then some (Wheel.new cfg.wheelSize cfg.tickDur) else none, policy := Lru.init } : Aux Lru.State) := ha
  rw [List.mem_replicate] at h'
  rw [h'.2]
  simp [Cfg.hasWheel, httl, htti]

/-- F11, general form for LRU on a cache without TTL / TTI: a whole `run_maintenance` pass on a
    freshly restored cache removes nothing from the map — for every snapshot, capacity, shard
    count and oracle, however far over capacity the restored entries are.
    `_partial`: caches with a TTL or a TTI are excluded (hypotheses `cfg.ttl = none`,
    `cfg.tti = none`); there the expiry passes of the same call may legitimately remove restored
    entries whose deadline has passed, so "removes nothing" is not the right statement. -/
theorem C17_restore_maintenance_removes_nothing_partial (cfg : Cfg) (o : Oracle) (now : Nat) (sn : Snapshot)
    (httl : cfg.ttl = none) (htti : cfg.tti = none) :
    ((State.restore cfg Lru.init now sn).runMaintenance cfg lruOps o).map = (State.restore cfg Lru.init now sn).map := by
  unfold State.runMaintenance
  exact runMaintenance_fresh cfg o htti _ _ (restore_freshLru cfg now sn httl htti)

-- non-vacuity: the F11 configuration has neither TTL nor TTI, and its restored cache is over capacity
example : cfgLru3.ttl = none ∧ cfgLru3.tti = none := by decide

/-! ### 7. reachable states: the distinct-keys hypothesis is discharged

`WF` (distinct keys) is an invariant of every history of a fresh cache, for every policy
(`Fv.Cache.WF_run`), and the introspection flush preserves it (`flush_wf`).  So for every state a
program can actually reach, the `hwf` hypothesis of the iteration theorems holds. -/

/-- the flushed state of a reachable state has distinct keys -/
theorem flush_nodup_of_reachable (cfg : Cfg) (ops : PolicyOps P) (p0 : P) (t0 : Nat) (o : Oracle) (s : State P)
    (hr : Reachable cfg ops p0 t0 s) : ((s.flush cfg ops o).map.map (·.1)).Nodup :=
  (flush_wf cfg ops o s (WF_reachable hr)).1

/-- `C17_iter_each_live_once` for every reachable state: the batching iterator yields every live
    entry exactly once with its current value, expired ones omitted -/
theorem C17_iter_each_live_once_reachable (cfg : Cfg) (ops : PolicyOps P) (p0 : P) (t0 : Nat) (o : Oracle)
    (s : State P) (batch : Nat) (hr : Reachable cfg ops p0 t0 s) (hn : 0 < cfg.nshards) :
    ((s.iterAll cfg ops o batch none).2.map (·.1)).Nodup ∧
    ∀ k v, (k, v) ∈ (s.iterAll cfg ops o batch none).2 ↔
      ∃ e, (k, e) ∈ (s.flush cfg ops o).map ∧ e.vid = v ∧
        e.isExpired (s.flush cfg ops o).now cfg.tti = false :=
  C17_iter_each_live_once cfg ops o s batch hn (flush_nodup_of_reachable cfg ops p0 t0 o s hr)

/-- `C17_snapshot_iter_exact` for every reachable state -/
theorem C17_snapshot_iter_exact_reachable (cfg : Cfg) (ops : PolicyOps P) (p0 : P) (t0 : Nat) (o : Oracle)
    (s : State P) (hr : Reachable cfg ops p0 t0 s) :
    (s.iterSnapshotAll cfg ops o none).2 =
      liveOf (s.flush cfg ops o).map (s.flush cfg ops o).now cfg.tti
        ((List.range cfg.nshards).flatMap (fun i => (s.flush cfg ops o).shardKeys cfg o.ord i)) ∧
    (s.iterSnapshotAll cfg ops o none).1.now = (s.flush cfg ops o).now :=
  C17_snapshot_iter_exact cfg ops o s (flush_nodup_of_reachable cfg ops p0 t0 o s hr)

/-- `C17_snapshot_iter_each_live_once` for every reachable state -/
theorem C17_snapshot_iter_each_live_once_reachable (cfg : Cfg) (ops : PolicyOps P) (p0 : P) (t0 : Nat) (o : Oracle)
    (s : State P) (hr : Reachable cfg ops p0 t0 s) (hn : 0 < cfg.nshards) :
    ((s.iterSnapshotAll cfg ops o none).2.map (·.1)).Nodup ∧
    ∀ k v, (k, v) ∈ (s.iterSnapshotAll cfg ops o none).2 ↔
      ∃ e, (k, e) ∈ (s.flush cfg ops o).map ∧ e.vid = v ∧
        e.isExpired (s.flush cfg ops o).now cfg.tti = false :=
  C17_snapshot_iter_each_live_once cfg ops o s hn (flush_nodup_of_reachable cfg ops p0 t0 o s hr)

/-- `C17_stream_each_live_once` for every reachable state -/
theorem C17_stream_each_live_once_reachable (cfg : Cfg) (ops : PolicyOps P) (p0 : P) (t0 : Nat) (o : Oracle)
    (s : State P) (batch : Nat) (locks : List (Nat → Bool)) (n : Nat) (hr : Reachable cfg ops p0 t0 s)
    (hlen : (s.flush cfg ops o).map.length + 1 ≤ n) (hn : 0 < cfg.nshards) :
    (s.streamAll cfg ops o batch locks n).2.2 = true ∧
    ((s.streamAll cfg ops o batch locks n).2.1.map (·.1)).Nodup ∧
    ∀ k v, (k, v) ∈ (s.streamAll cfg ops o batch locks n).2.1 ↔
      ∃ e, (k, e) ∈ (s.flush cfg ops o).map ∧ e.vid = v ∧
        e.isExpired (s.flush cfg ops o).now cfg.tti = false :=
  C17_stream_each_live_once cfg ops o s batch locks n hlen hn (flush_nodup_of_reachable cfg ops p0 t0 o s hr)

-- non-vacuity: a reachable state with content (overwrite, removal, maintenance in its history), 4 shards
def exReach : State Unit :=
  (run exCfg nullOps () (State.fresh exCfg () 7)
    [(.insert false 0 10 1, {}), (.insert false 8 18 1, {}), (.insert false 1 11 1, {}), (.insert false 8 19 1, {}),
     (.remove 0, {}), (.runMaintenance, {})]).1

example : Reachable exCfg nullOps () 7 exReach ∧ 0 < exCfg.nshards := ⟨⟨_, rfl⟩, by decide⟩
example : (exReach.iterAll exCfg nullOps { ord := [8, 1] } 2 none).2 = [(8, 19), (1, 11)] := by decide
example : (exReach.streamAll exCfg nullOps { ord := [8, 1] } 1 [lockShard 1, lockShard 0, lockShard 1] 3).2 =
    ([(8, 19), (1, 11)], true) := by decide

end Fv.Props.C17
