import Fv.Lemmas.Mpmc2BSafeStep
/-!
# mpmc bounded v2 — B-model theorems (feed C01, C02, C03, C05, C06)

Model: `Fv.Chan.Mpmc2B` (critical-section granularity small-step model of
`mpmc_v2/{core,sync_impl,async_impl,mod}.rs`). Every theorem quantifies over every capacity,
every number of threads/tasks, every program (the environment's `call` / `poll` / `dropFut`
labels are unconstrained) and every interleaving.
-/
namespace Fv.Props.Mpmc2B
open Fv.Chan.Mpmc2B

/-! ## Safety (all reachable states, no hypothesis) -/

/-- **C03** `queue_len ≤ capacity` in every reachable state. -/
theorem mpmc2_capacity {cap s} (h : Reach cap s) : s.queue.length ≤ cap := by
  have := (invS_reach h).cap_ok; rwa [reach_cap h] at this

/-- **C01/C02** the linearised successful sends are exactly the received tokens followed by the
buffer, in order. -/
theorem mpmc2_linearised {cap s} (h : Reach cap s) : s.sent = s.recvd ++ s.queue := (invS_reach h).lin

/-- **C01** exactly-once: no token is linearised twice, hence none is received twice and none sits in
the buffer twice; everything received or buffered was offered to a send. -/
theorem mpmc2_exactly_once {cap s} (h : Reach cap s) :
    (s.recvd ++ s.queue).Nodup ∧ ∀ v, v ∈ s.recvd ++ s.queue → v ∈ s.offered := by
  have hi := invS_reach h
  rw [← hi.lin]; exact ⟨hi.sent_nodup, hi.sent_off⟩

/-- **C02** dequeue order is enqueue order. -/
theorem mpmc2_dequeue_order {cap s} (h : Reach cap s) : s.recvd <+: s.sent := by
  rw [mpmc2_linearised h]; exact List.prefix_append _ _

/-- **C01** a send that reported Ok is in `received ++ buffered` (exactly once, by `mpmc2_exactly_once`). -/
theorem mpmc2_send_ok_delivered {cap s} (h : Reach cap s) {t v} (hp : s.pc t = .done (.sendOk v)) :
    v ∈ s.recvd ++ s.queue := by
  have hi := invS_reach h; rw [← hi.lin]; exact hi.res_ok t v hp

/-- **C01** a failed `try_send` (Full / Closed) hands the token back and the token is never delivered. -/
theorem mpmc2_failed_try_send_returns_token {cap s} (h : Reach cap s) {t v}
    (hp : s.pc t = .done (.sendFull v) ∨ s.pc t = .done (.sendClosed v)) :
    v ∈ s.returned ∧ v ∉ s.recvd ++ s.queue := by
  have hi := invS_reach h
  have hr : v ∈ s.returned := by
    cases hp with
    | inl hp => exact hi.res_full t v hp
    | inr hp => exact hi.res_closed t v hp
  refine ⟨hr, ?_⟩
  rw [← hi.lin]; intro hs; exact (hi.disj_sent v hs).1 hr

/-- **C01** a blocking / async send that reported Closed dropped its token; the token is never delivered. -/
theorem mpmc2_closed_send_not_delivered {cap s} (h : Reach cap s) {t v}
    (hp : s.pc t = .done (.sendClosedDrop v)) : v ∈ s.dropped ∧ v ∉ s.recvd ++ s.queue := by
  have hi := invS_reach h
  have hr := hi.res_drop t v hp
  refine ⟨hr, ?_⟩
  rw [← hi.lin]; intro hs; exact (hi.disj_sent v hs).2 hr

/-- **C01** a receive returns only a token that was popped from the buffer (hence sent). -/
theorem mpmc2_recv_ok_was_sent {cap s} (h : Reach cap s) {t v} (hp : s.pc t = .done (.recvOk v)) :
    v ∈ s.recvd ∧ v ∈ s.sent ∧ v ∈ s.offered := by
  have hi := invS_reach h
  have hr := hi.res_recv t v hp
  have hs : v ∈ s.sent := by rw [hi.lin]; exact List.mem_append_left _ hr
  exact ⟨hr, hs, hi.sent_off v hs⟩

/-- **C01 / C06** token accounting, cancellation included: a token held by an operation or a live
future is in none of the histories, no two agents hold the same token, and the four histories
`sent` / `returned` / `dropped` are pairwise disjoint and duplicate-free. Dropping a future
(`dropFut`, at any poll boundary) is a step like any other, so cancellation neither loses nor
duplicates a token. -/
theorem mpmc2_token_accounting {cap s} (h : Reach cap s) :
    (∀ t v, holds (s.pc t) = some v → v ∈ s.offered ∧ v ∉ s.sent ∧ v ∉ s.returned ∧ v ∉ s.dropped) ∧
    (∀ t1 t2 v, holds (s.pc t1) = some v → holds (s.pc t2) = some v → t1 = t2) ∧
    s.sent.Nodup ∧ s.returned.Nodup ∧ s.dropped.Nodup ∧
    (∀ v, v ∈ s.sent → v ∉ s.returned ∧ v ∉ s.dropped) ∧ (∀ v, v ∈ s.returned → v ∉ s.dropped) := by
  have hi := invS_reach h
  exact ⟨hi.held_fresh, hi.held_unique, hi.sent_nodup, hi.ret_nodup, hi.drop_nodup, hi.disj_sent, hi.disj_ret⟩

/-- **C01/C03** effect of any single step on the abstract channel: nothing; or the push of exactly
the token the stepping agent holds, and that is the step in which its send returns Ok; or the pop of
the front, returned by that very step. -/
theorem mpmc2_step_effect {s s' : State} {t : Nat} {l : Label} (h : step s t l = some s') : Eff s s' t :=
  step_eff h

/-- **C01** failed operations have no effect: a step after which the agent has any result other than
`Ok` (Full, Closed, Empty, Disconnected, Timeout, future dropped, …) leaves buffer and histories unchanged. -/
theorem mpmc2_failed_op_no_effect {s s' : State} {t : Nat} {l : Label} (h : step s t l = some s')
    (hf : ∀ v, s'.pc t ≠ .done (.sendOk v) ∧ s'.pc t ≠ .done (.recvOk v)) :
    s'.queue = s.queue ∧ s'.sent = s.sent ∧ s'.recvd = s.recvd := by
  rcases step_eff h with h1 | ⟨v, _, _, _, _, hp⟩ | ⟨v, _, _, _, _, hp⟩
  · exact ⟨h1.1, h1.2.1, h1.2.2.1⟩
  · exact absurd hp (hf v).1
  · exact absurd hp (hf v).2

/-- **C03** a send returns Ok only in the very step that appends its token to the buffer, and that
step found `queue_len < capacity`. -/
theorem mpmc2_send_ok_only_by_push {cap s s'} (hr : Reach cap s) {t u : Nat} {l : Label} {v : Nat}
    (h : step s t l = some s') (h0 : s.pc u ≠ .done (.sendOk v)) (h1 : s'.pc u = .done (.sendOk v)) :
    u = t ∧ holds (s.pc t) = some v ∧ s'.queue = s.queue ++ [v] ∧ s.queue.length < cap := by
  have hut : u = t := by
    by_cases hne : u = t
    · exact hne
    · rw [step_pc_other h hne] at h1; exact absurd h1 h0
  subst hut
  rcases step_eff h with h2 | ⟨w, hw, hq, _, _, hp⟩ | ⟨w, _, _, _, _, hp⟩
  · exact absurd h1 (h2.2.2.2 v).1
  · rw [h1] at hp; injection hp with hp; injection hp with hp; subst hp
    refine ⟨rfl, hw, hq, ?_⟩
    have := mpmc2_capacity (Reach.step hr h); rw [hq] at this; simp at this; omega
  · rw [h1] at hp; injection hp with hp; cases hp

/-- **C02** per-producer FIFO: the linearisation order only grows at its end, and each new entry is
the token the stepping agent currently holds, which was not linearised before — so a producer's
tokens enter `sent` (and by `mpmc2_dequeue_order` leave the channel) in the order it sent them. -/
theorem mpmc2_fifo_per_producer {cap s s'} (hr : Reach cap s) {t : Nat} {l : Label} (h : step s t l = some s') :
    s'.sent = s.sent ∨ ∃ v, s'.sent = s.sent ++ [v] ∧ holds (s.pc t) = some v ∧ v ∉ s.sent := by
  rcases step_eff h with h2 | ⟨w, hw, _, hs, _, _⟩ | ⟨w, _, _, _, hs, _⟩
  · exact Or.inl h2.2.1
  · exact Or.inr ⟨w, hs, hw, ((invS_reach hr).held_fresh t w hw).2.1⟩
  · exact Or.inl hs

/-- **C01** an agent that gets Disconnected from `try_recv_core` saw an empty buffer with no sender
left: at that moment every token ever sent has been received. -/
theorem mpmc2_disconnected_means_drained {cap s} (hr : Reach cap s) {t : Nat}
    (_hpc : s.pc t = .trTry) (hd : (stepTrTry s t).pc t = .done .recvDisc) : s.queue = [] ∧ s.sent = s.recvd := by
  have hq : s.queue = [] := by
    unfold stepTrTry at hd
    split at hd
    · rename_i v s1 hs; simp [recvCore_pc hs] at hd
    · rename_i hs
      unfold recvCore at hs
      split at hs
      · assumption
      · repeat' split at hs
        all_goals simp at hs
  exact ⟨hq, by rw [mpmc2_linearised hr, hq]; simp⟩

/-! ### non-vacuity -/

/-- a reachable state with a full buffer of capacity 2, one token received, in FIFO order -/
example : ∃ s, Reach 2 s ∧ s.queue = [8, 9] ∧ s.recvd = [7] ∧ s.pc 0 = .done (.sendOk 9) := by
  let tr : List (Nat × Label) :=
    [(0, .call (.trySend 7)), (0, .adv), (0, .call (.send 8)), (0, .adv), (1, .call .tryRecv), (1, .adv),
     (0, .call (.trySend 9)), (0, .adv)]
  cases hr : run (init 2) tr with
  | none => exact absurd hr (by decide)
  | some s =>
    refine ⟨s, reach_of_run tr _ s .init hr, ?_, ?_, ?_⟩
    · have : (run (init 2) tr).map (·.queue) = some [8, 9] := by decide
      rw [hr] at this; simpa using this
    · have : (run (init 2) tr).map (·.recvd) = some [7] := by decide
      rw [hr] at this; simpa using this
    · have : (run (init 2) tr).map (fun s => s.pc 0) = some (.done (.sendOk 9)) := by decide
      rw [hr] at this; simpa using this

/-- a failed try_send on a full channel: the token comes back -/
example : ((run (init 1) [(0, .call (.trySend 7)), (0, .adv), (0, .call (.trySend 8)), (0, .adv)]).map
    (fun s => (s.pc 0, s.queue, s.returned))) = some (.done (.sendFull 8), [7], [8]) := by decide

end Fv.Props.Mpmc2B
