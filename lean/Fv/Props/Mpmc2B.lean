import Fv.Lemmas.Mpmc2BSafeStep
import Fv.Lemmas.Mpmc2BWakeA
import Fv.Lemmas.Mpmc2BWakeW
import Fv.Lemmas.Mpmc2BWakeD
/-!
# mpmc bounded v2 — B-model theorems (feed C01, C02, C03, C05, C06)

Model: `Fv.Chan.Mpmc2B` (critical-section granularity small-step model of
`mpmc_v2/{core,sync_impl,async_impl,mod}.rs`). Every theorem quantifies over every capacity,
every number of threads/tasks, every program (the environment's `call` / `poll` / `dropFut`
labels are unconstrained) and every interleaving.
-/
namespace Fv.Props.Mpmc2B
open Fv.Chan.Mpmc2B

/-! ## Safety (all reachable states, no hypothesis) -/

/-- **C03** `queue_len ≤ capacity` in every reachable state. -/
theorem mpmc2_capacity {cap s} (h : Reach cap s) : s.queue.length ≤ cap := by
  have := (invS_reach h).cap_ok; rwa [reach_cap h] at this

/-- **C01/C02** the linearised successful sends are exactly the received tokens followed by the
buffer, in order. -/
theorem mpmc2_linearised {cap s} (h : Reach cap s) : s.sent = s.recvd ++ s.queue := (invS_reach h).lin

/-- **C01** exactly-once: no token is linearised twice, hence none is received twice and none sits in
the buffer twice; everything received or buffered was offered to a send. -/
theorem mpmc2_exactly_once {cap s} (h : Reach cap s) :
    (s.recvd ++ s.queue).Nodup ∧ ∀ v, v ∈ s.recvd ++ s.queue → v ∈ s.offered := by
  have hi := invS_reach h
  rw [← hi.lin]; exact ⟨hi.sent_nodup, hi.sent_off⟩

/-- **C02** dequeue order is enqueue order. -/
theorem mpmc2_dequeue_order {cap s} (h : Reach cap s) : s.recvd <+: s.sent := by
  rw [mpmc2_linearised h]; exact List.prefix_append _ _

/-- **C01** a send that reported Ok is in `received ++ buffered` (exactly once, by `mpmc2_exactly_once`). -/
theorem mpmc2_send_ok_delivered {cap s} (h : Reach cap s) {t v} (hp : s.pc t = .done (.sendOk v)) :
    v ∈ s.recvd ++ s.queue := by
  have hi := invS_reach h; rw [← hi.lin]; exact hi.res_ok t v hp

/-- **C01** a failed `try_send` (Full / Closed) hands the token back and the token is never delivered. -/
theorem mpmc2_failed_try_send_returns_token {cap s} (h : Reach cap s) {t v}
    (hp : s.pc t = .done (.sendFull v) ∨ s.pc t = .done (.sendClosed v)) :
    v ∈ s.returned ∧ v ∉ s.recvd ++ s.queue := by
  have hi := invS_reach h
  have hr : v ∈ s.returned := by
    cases hp with
    | inl hp => exact hi.res_full t v hp
    | inr hp => exact hi.res_closed t v hp
  refine ⟨hr, ?_⟩
  rw [← hi.lin]; intro hs; exact (hi.disj_sent v hs).1 hr

/-- **C01** a blocking / async send that reported Closed dropped its token; the token is never delivered. -/
theorem mpmc2_closed_send_not_delivered {cap s} (h : Reach cap s) {t v}
    (hp : s.pc t = .done (.sendClosedDrop v)) : v ∈ s.dropped ∧ v ∉ s.recvd ++ s.queue := by
  have hi := invS_reach h
  have hr := hi.res_drop t v hp
  refine ⟨hr, ?_⟩
  rw [← hi.lin]; intro hs; exact (hi.disj_sent v hs).2 hr

/-- **C01** a receive returns only a token that was popped from the buffer (hence sent). -/
theorem mpmc2_recv_ok_was_sent {cap s} (h : Reach cap s) {t v} (hp : s.pc t = .done (.recvOk v)) :
    v ∈ s.recvd ∧ v ∈ s.sent ∧ v ∈ s.offered := by
  have hi := invS_reach h
  have hr := hi.res_recv t v hp
  have hs : v ∈ s.sent := by rw [hi.lin]; exact List.mem_append_left _ hr
  exact ⟨hr, hs, hi.sent_off v hs⟩

/-- **C01 / C06** token accounting, cancellation included: a token held by an operation or a live
future is in none of the histories, no two agents hold the same token, and the four histories
`sent` / `returned` / `dropped` are pairwise disjoint and duplicate-free. Dropping a future
(`dropFut`, at any poll boundary) is a step like any other, so cancellation neither loses nor
duplicates a token. -/
theorem mpmc2_token_accounting {cap s} (h : Reach cap s) :
    (∀ t v, holds (s.pc t) = some v → v ∈ s.offered ∧ v ∉ s.sent ∧ v ∉ s.returned ∧ v ∉ s.dropped) ∧
    (∀ t1 t2 v, holds (s.pc t1) = some v → holds (s.pc t2) = some v → t1 = t2) ∧
    s.sent.Nodup ∧ s.returned.Nodup ∧ s.dropped.Nodup ∧
    (∀ v, v ∈ s.sent → v ∉ s.returned ∧ v ∉ s.dropped) ∧ (∀ v, v ∈ s.returned → v ∉ s.dropped) := by
  have hi := invS_reach h
  exact ⟨hi.held_fresh, hi.held_unique, hi.sent_nodup, hi.ret_nodup, hi.drop_nodup, hi.disj_sent, hi.disj_ret⟩

/-- **C01/C03** effect of any single step on the abstract channel: nothing; or the push of exactly
the token the stepping agent holds, and that is the step in which its send returns Ok; or the pop of
the front, returned by that very step. -/
theorem mpmc2_step_effect {s s' : State} {t : Nat} {l : Label} (h : step s t l = some s') : Eff s s' t :=
  step_eff h

/-- **C01** failed operations have no effect: a step after which the agent has any result other than
`Ok` (Full, Closed, Empty, Disconnected, Timeout, future dropped, …) leaves buffer and histories unchanged. -/
theorem mpmc2_failed_op_no_effect {s s' : State} {t : Nat} {l : Label} (h : step s t l = some s')
    (hf : ∀ v, s'.pc t ≠ .done (.sendOk v) ∧ s'.pc t ≠ .done (.recvOk v)) :
    s'.queue = s.queue ∧ s'.sent = s.sent ∧ s'.recvd = s.recvd := by
  rcases step_eff h with h1 | ⟨v, _, _, _, _, hp⟩ | ⟨v, _, _, _, _, hp⟩
  · exact ⟨h1.1, h1.2.1, h1.2.2.1⟩
  · exact absurd hp (hf v).1
  · exact absurd hp (hf v).2

/-- **C03** a send returns Ok only in the very step that appends its token to the buffer, and that
step found `queue_len < capacity`. -/
theorem mpmc2_send_ok_only_by_push {cap s s'} (hr : Reach cap s) {t u : Nat} {l : Label} {v : Nat}
    (h : step s t l = some s') (h0 : s.pc u ≠ .done (.sendOk v)) (h1 : s'.pc u = .done (.sendOk v)) :
    u = t ∧ holds (s.pc t) = some v ∧ s'.queue = s.queue ++ [v] ∧ s.queue.length < cap := by
  have hut : u = t := by
    by_cases hne : u = t
    · exact hne
    · rw [step_pc_other h hne] at h1; exact absurd h1 h0
  subst hut
  rcases step_eff h with h2 | ⟨w, hw, hq, _, _, hp⟩ | ⟨w, _, _, _, _, hp⟩
  · exact absurd h1 (h2.2.2.2 v).1
  · rw [h1] at hp; injection hp with hp; injection hp with hp; subst hp
    refine ⟨rfl, hw, hq, ?_⟩
    have := mpmc2_capacity (Reach.step hr h); rw [hq] at this; simp at this; omega
  · rw [h1] at hp; injection hp with hp; cases hp

/-- **C02** per-producer FIFO: the linearisation order only grows at its end, and each new entry is
the token the stepping agent currently holds, which was not linearised before — so a producer's
tokens enter `sent` (and by `mpmc2_dequeue_order` leave the channel) in the order it sent them. -/
theorem mpmc2_fifo_per_producer {cap s s'} (hr : Reach cap s) {t : Nat} {l : Label} (h : step s t l = some s') :
    s'.sent = s.sent ∨ ∃ v, s'.sent = s.sent ++ [v] ∧ holds (s.pc t) = some v ∧ v ∉ s.sent := by
  rcases step_eff h with h2 | ⟨w, hw, _, hs, _, _⟩ | ⟨w, _, _, _, hs, _⟩
  · exact Or.inl h2.2.1
  · exact Or.inr ⟨w, hs, hw, ((invS_reach hr).held_fresh t w hw).2.1⟩
  · exact Or.inl hs

/-- **C01** an agent that gets Disconnected from `try_recv_core` saw an empty buffer with no sender
left: at that moment every token ever sent has been received. -/
theorem mpmc2_disconnected_means_drained {cap s} (hr : Reach cap s) {t : Nat}
    (_hpc : s.pc t = .trTry) (hd : (stepTrTry s t).pc t = .done .recvDisc) : s.queue = [] ∧ s.sent = s.recvd := by
  have hq : s.queue = [] := by
    unfold stepTrTry at hd
    split at hd
    · rename_i v s1 hs; simp [recvCore_pc hs] at hd
    · rename_i hs
      unfold recvCore at hs
      split at hs
      · assumption
      · repeat' split at hs
        all_goals simp at hs
  exact ⟨hq, by rw [mpmc2_linearised hr, hq]; simp⟩

/-! ## No dangling waiter record (all reachable states, no hypothesis) — finding F17, repaired -/

/-- **No dangling waiter record**: every record queued in `waiting_async_receivers` belongs to a live
`RecvFuture` of its owner — the owner is inside a poll of that future, Pending on it, or inside its unlink /
`Drop` path. The raw state pointer a sender CASes and wakes through therefore always points into a live future,
whatever the environment does (spurious polls of registered futures, drops of woken futures, any interleaving).
This is the invariant finding F17 broke (a re-polled registered future took an item and returned Ready leaving
its WAITING record queued: use-after-free on the next send); it holds since fix cd494c8. -/
theorem mpmc2_no_dangling_waiter_record {cap s} (h : Reach cap s) {r : Nat} (hr : r ∈ s.war) :
    liveFutR (s.pc (s.owner r)) = some r := (invD_reach h).live_war r hr

/-- … in particular an agent whose operation has returned (or that has none) owns no queued receiver record:
a future that resolved — by taking an item in a spurious re-poll, by Disconnected, by being dropped — left none. -/
theorem mpmc2_resolved_future_leaves_no_record {cap s} (h : Reach cap s) {t : Nat} (hp : (s.pc t).atRest = true)
    {r : Nat} (hr : r ∈ s.war) : s.owner r ≠ t := by
  intro ho
  have := mpmc2_no_dangling_waiter_record h hr
  rw [ho] at this
  cases hpc : s.pc t <;> simp [hpc, PC.atRest, liveFutR] at hp this

/-- the step that used to leave the record: the locked section of a re-polled, still registered future that
takes an item (or sees Disconnected) removes its own record, whatever the state. -/
theorem mpmc2_repoll_ready_unlinks (s : State) (t r : Nat) (hd : ∃ x, (stepArTry s t r).pc t = .done x) :
    r ∉ (stepArTry s t r).war := by
  obtain ⟨x, hx⟩ := hd
  unfold stepArTry at hx ⊢
  split
  · rename_i v s1 hs
    simp [List.mem_filter]
  · split
    · simp [List.mem_filter]
    · rename_i hs h0
      simp [hs, h0, upd_apply] at hx

/-! ## Wake-ups (C05 / C06), proved for runs satisfying `Benign` at every step:
no future is dropped between being woken and its next poll (F2). Blocking (thread) operations need no
hypothesis of their own; the hypothesis only restricts the environment label `dropFut` (spurious polls of a
registered `RecvFuture` are unrestricted since the repair of F17). -/

/-- **Q1** (DESIGN A.5): while some receiver record is still WAITING, every buffered item is matched
by a distinct receiver that was CASed to SUCCESS and woken in the same locked section and has not
yet re-entered `try_recv_core` (it is at a wait / pending / retry control state of that record). -/
theorem mpmc2_Q1 {cap s} (h : ReachB cap s) {r : Nat} (hr : r ∈ s.wsr ∨ r ∈ s.war) (hw : s.st r = .waiting) :
    s.queue.length ≤ s.ar.length ∧ s.ar.Nodup ∧
    ∀ r', r' ∈ s.ar → s.st r' = .success ∧ wokenRecv (s.pc (s.owner r')) = some r' :=
  have hA := invA_reach h
  ⟨hA.q1 r hr hw, hA.a2, hA.a1⟩

/-- **Q2** mirror image for senders: while some sender record is WAITING, every free slot is matched by
a distinct woken sender that has not yet re-entered `try_send_core`. -/
theorem mpmc2_Q2 {cap s} (h : ReachB cap s) {r : Nat} (hr : r ∈ s.wss ∨ r ∈ s.was) (hw : s.st r = .waiting) :
    cap - s.queue.length ≤ s.asg.length ∧ s.asg.Nodup ∧
    ∀ r', r' ∈ s.asg → s.st r' = .success ∧ wokenSend (s.pc (s.owner r')) = some r' := by
  have hA := invA_reach h
  have := hA.q2 r hr hw
  rw [reach_cap h.reach] at this
  exact ⟨this, hA.b2, hA.b1⟩

/-- A blocked thread / Pending task whose waiter state is still WAITING is enqueued (so Q1 / Q2 speak
about it), and no such record exists once the other side is gone. -/
theorem mpmc2_waiting_is_registered {cap s} (h : ReachB cap s) :
    (∀ t r, blockR (s.pc t) = some r → s.st r = .waiting → (r ∈ s.wsr ∨ r ∈ s.war) ∧ s.senders ≠ 0) ∧
    (∀ t r, blockS (s.pc t) = some r → s.st r = .waiting → (r ∈ s.wss ∨ r ∈ s.was) ∧ s.receivers ≠ 0) := by
  have hR := invR_reach h
  refine ⟨fun t r hb hw => ?_, fun t r hb hw => ?_⟩
  · have hm := hR.k4r t r hb hw
    exact ⟨hm, fun h0 => hR.d1 h0 r hm hw⟩
  · have hm := hR.k4s t r hb hw
    exact ⟨hm, fun h0 => hR.d2 h0 r hm hw⟩

/-- **Wake delivery** (C05 park level / C06 waker level): an agent parked or Pending on a record whose
state byte is already terminal (SUCCESS or CLOSED) has a park token / a counted wake, or a closing
thread that has already left the lock still holds that wake in its `to_wake` list. -/
theorem mpmc2_wake_owed {cap s} (h : ReachB cap s) {t r : Nat} (hw : waitish (s.pc t) = some r)
    (hf : s.st r = .success ∨ s.st r = .closed) : 0 < s.wakes t ∨ t ∈ wl (s.pc (s.wakeBy r)) := by
  by_cases h0 : s.wakes t = 0
  · exact Or.inr ((invW_reach h).k3 t r hw hf h0)
  · exact Or.inl (Nat.pos_of_ne_zero h0)

/-- an agent that can take a protocol step by itself, or a Pending task that has been woken
(an executor that polls woken tasks will poll it) -/
def Runnable (s : State) (u : Nat) : Prop :=
  (stepAdv s u).isSome = true ∨ (∃ r, waitish (s.pc u) = some r ∧ 0 < s.wakes u)

theorem hWake_runnable {s : State} {c t : Nat} (h : t ∈ wl (s.pc c)) : Runnable s c := by
  left
  cases hp : s.pc c <;> simp [hp, wl] at h
  simp [stepAdv, hp]

theorem woken_recv_runnable {cap s} (h : ReachB cap s) {r : Nat} (hr : r ∈ s.ar) : ∃ u, Runnable s u := by
  have ⟨hs, hw⟩ := (invA_reach h).a1 r hr
  by_cases h0 : s.wakes (s.owner r) = 0
  · cases hp : s.pc (s.owner r) <;> simp [hp, wokenRecv] at hw
    case rWait r' => exact ⟨s.owner r, Or.inl (by simp [stepAdv, hp])⟩
    case rTry r' => exact ⟨s.owner r, Or.inl (by simp [stepAdv, hp])⟩
    case toCas r' => exact ⟨s.owner r, Or.inl (by simp [stepAdv, hp])⟩
    case toFin r' => exact ⟨s.owner r, Or.inl (by simp [stepAdv, hp])⟩
    case arTry r' => exact ⟨s.owner r, Or.inl (by simp [stepAdv, hp])⟩
    case arReg r' => exact ⟨s.owner r, Or.inl (by simp [stepAdv, hp])⟩
    case rPark r' =>
      subst hw
      exact ⟨_, hWake_runnable ((invW_reach h).k3 (s.owner r') r' (by simp [hp, waitish]) (Or.inl hs) h0)⟩
    case arPend r' =>
      subst hw
      exact ⟨_, hWake_runnable ((invW_reach h).k3 (s.owner r') r' (by simp [hp, waitish]) (Or.inl hs) h0)⟩
  · have hpos := Nat.pos_of_ne_zero h0
    cases hp : s.pc (s.owner r) <;> simp [hp, wokenRecv] at hw
    case rWait r' => exact ⟨s.owner r, Or.inl (by simp [stepAdv, hp])⟩
    case rTry r' => exact ⟨s.owner r, Or.inl (by simp [stepAdv, hp])⟩
    case toCas r' => exact ⟨s.owner r, Or.inl (by simp [stepAdv, hp])⟩
    case toFin r' => exact ⟨s.owner r, Or.inl (by simp [stepAdv, hp])⟩
    case arTry r' => exact ⟨s.owner r, Or.inl (by simp [stepAdv, hp])⟩
    case arReg r' => exact ⟨s.owner r, Or.inl (by simp [stepAdv, hp])⟩
    case rPark r' => exact ⟨s.owner r, Or.inl (by simp [stepAdv, hp, stepRPark, hpos])⟩
    case arPend r' => exact ⟨s.owner r, Or.inr ⟨r', by simp [hp, waitish], hpos⟩⟩

theorem woken_send_runnable {cap s} (h : ReachB cap s) {r : Nat} (hr : r ∈ s.asg) : ∃ u, Runnable s u := by
  have ⟨hs, hw⟩ := (invA_reach h).b1 r hr
  by_cases h0 : s.wakes (s.owner r) = 0
  · cases hp : s.pc (s.owner r) <;> simp [hp, wokenSend] at hw
    case sWait v' r' => exact ⟨s.owner r, Or.inl (by simp [stepAdv, hp])⟩
    case sTry v' r' => exact ⟨s.owner r, Or.inl (by simp [stepAdv, hp])⟩
    case sUnl v' r' c' => exact ⟨s.owner r, Or.inl (by simp [stepAdv, hp])⟩
    case asUnl v' r' c' => exact ⟨s.owner r, Or.inl (by simp [stepAdv, hp])⟩
    case asTry v' r' => exact ⟨s.owner r, Or.inl (by simp [stepAdv, hp])⟩
    case asRef v' r' => exact ⟨s.owner r, Or.inl (by simp [stepAdv, hp])⟩
    case sPark v' r' =>
      subst hw
      exact ⟨_, hWake_runnable ((invW_reach h).k3 (s.owner r') r' (by simp [hp, waitish]) (Or.inl hs) h0)⟩
    case asPend v' r' =>
      subst hw
      exact ⟨_, hWake_runnable ((invW_reach h).k3 (s.owner r') r' (by simp [hp, waitish]) (Or.inl hs) h0)⟩
  · have hpos := Nat.pos_of_ne_zero h0
    cases hp : s.pc (s.owner r) <;> simp [hp, wokenSend] at hw
    case sWait v' r' => exact ⟨s.owner r, Or.inl (by simp [stepAdv, hp])⟩
    case sTry v' r' => exact ⟨s.owner r, Or.inl (by simp [stepAdv, hp])⟩
    case sUnl v' r' c' => exact ⟨s.owner r, Or.inl (by simp [stepAdv, hp])⟩
    case asUnl v' r' c' => exact ⟨s.owner r, Or.inl (by simp [stepAdv, hp])⟩
    case asTry v' r' => exact ⟨s.owner r, Or.inl (by simp [stepAdv, hp])⟩
    case asRef v' r' => exact ⟨s.owner r, Or.inl (by simp [stepAdv, hp])⟩
    case sPark v' r' => exact ⟨s.owner r, Or.inl (by simp [stepAdv, hp, stepSPark, hpos])⟩
    case asPend v' r' => exact ⟨s.owner r, Or.inr ⟨r', by simp [hp, waitish], hpos⟩⟩

/-- **C05 / C06 no lost wakeup, receivers** (safety form): if a thread is parked in `recv` without a
token, or a `RecvFuture` is Pending without a counted wake, while an item is buffered or every sender is
gone, then some agent is runnable whose remaining straight-line steps deliver the wake or consume the
item. Hence no quiescent state leaves a receiver asleep while its operation is possible. -/
theorem mpmc2_no_lost_wakeup_recv {cap s} (h : ReachB cap s) {t r : Nat}
    (hb : s.pc t = .rPark r ∨ s.pc t = .arPend r) (h0 : s.wakes t = 0)
    (hen : s.queue ≠ [] ∨ s.senders = 0) : ∃ u, Runnable s u := by
  have hW := invW_reach h
  have hK := invK_reach h.reach
  have hwt : waitish (s.pc t) = some r := by rcases hb with hb | hb <;> simp [hb, waitish]
  have hbr : blockR (s.pc t) = some r := by rcases hb with hb | hb <;> simp [hb, blockR]
  cases hst : s.st r with
  | success => exact ⟨_, hWake_runnable (hW.k3 t r hwt (Or.inl hst) h0)⟩
  | closed => exact ⟨_, hWake_runnable (hW.k3 t r hwt (Or.inr hst) h0)⟩
  | cancelled =>
    rcases hb with hb | hb
    · exact absurd hst (hW.k5 t r (by simp [hb, liveWait]))
    · exact absurd hst (hK.not_canc t r (by simp [hb, recvFutRec]))
  | waiting =>
    have ⟨hm, hs0⟩ := (mpmc2_waiting_is_registered h).1 t r hbr hst
    rcases hen with hq | hs
    · have hq1 := (invA_reach h).q1 r hm hst
      cases har : s.ar with
      | nil => rw [har] at hq1; simp at hq1; exact absurd hq1 hq
      | cons a rest => exact woken_recv_runnable h (r := a) (by rw [har]; simp)
    · exact absurd hs hs0

/-- **C05 / C06 no lost wakeup, senders**: same for a thread parked in `send` / a Pending `SendFuture`
while the buffer has a free slot or every receiver is gone. -/
theorem mpmc2_no_lost_wakeup_send {cap s} (h : ReachB cap s) {t v r : Nat}
    (hb : s.pc t = .sPark v r ∨ s.pc t = .asPend v r) (h0 : s.wakes t = 0)
    (hen : s.queue.length < cap ∨ s.receivers = 0) : ∃ u, Runnable s u := by
  have hW := invW_reach h
  have hwt : waitish (s.pc t) = some r := by rcases hb with hb | hb <;> simp [hb, waitish]
  have hbr : blockS (s.pc t) = some r := by rcases hb with hb | hb <;> simp [hb, blockS]
  cases hst : s.st r with
  | success => exact ⟨_, hWake_runnable (hW.k3 t r hwt (Or.inl hst) h0)⟩
  | closed => exact ⟨_, hWake_runnable (hW.k3 t r hwt (Or.inr hst) h0)⟩
  | cancelled =>
    exact absurd hst (hW.k5 t r (by rcases hb with hb | hb <;> simp [hb, liveWait]))
  | waiting =>
    have ⟨hm, hs0⟩ := (mpmc2_waiting_is_registered h).2 t r hbr hst
    rcases hen with hq | hs
    · have hq2 := (mpmc2_Q2 h hm hst).1
      cases har : s.asg with
      | nil => rw [har] at hq2; simp at hq2; omega
      | cons a rest => exact woken_send_runnable h (r := a) (by rw [har]; simp)
    · exact absurd hs hs0

/-- **C05 deadlock freedom / C06 executor never stalls** (corollary): in a quiescent state — no agent can
take a protocol step and no Pending task has an unconsumed wake — nobody sleeps while its operation is
possible: parked receivers / Pending recv futures see an empty buffer with a live sender, parked senders /
Pending send futures see a full buffer with a live receiver. -/
theorem mpmc2_quiescent_nobody_stuck {cap s} (h : ReachB cap s) (hq : ∀ u, ¬ Runnable s u) :
    (∀ t r, (s.pc t = .rPark r ∨ s.pc t = .arPend r) → s.queue = [] ∧ s.senders ≠ 0) ∧
    (∀ t v r, (s.pc t = .sPark v r ∨ s.pc t = .asPend v r) → cap ≤ s.queue.length ∧ s.receivers ≠ 0) := by
  refine ⟨fun t r hb => ?_, fun t v r hb => ?_⟩
  · have h0 : s.wakes t = 0 := by
      cases hw : s.wakes t with
      | zero => rfl
      | succ n =>
        exfalso; apply hq t
        rcases hb with hb | hb
        · exact Or.inl (by simp [stepAdv, hb, stepRPark, hw])
        · exact Or.inr ⟨r, by simp [hb, waitish], by omega⟩
    refine ⟨?_, ?_⟩
    · cases hqq : s.queue with
      | nil => rfl
      | cons a q =>
        obtain ⟨u, hu⟩ := mpmc2_no_lost_wakeup_recv h hb h0 (Or.inl (by simp [hqq]))
        exact absurd hu (hq u)
    · intro hs
      obtain ⟨u, hu⟩ := mpmc2_no_lost_wakeup_recv h hb h0 (Or.inr hs)
      exact absurd hu (hq u)
  · have h0 : s.wakes t = 0 := by
      cases hw : s.wakes t with
      | zero => rfl
      | succ n =>
        exfalso; apply hq t
        rcases hb with hb | hb
        · exact Or.inl (by simp [stepAdv, hb, stepSPark, hw])
        · exact Or.inr ⟨r, by simp [hb, waitish], by omega⟩
    refine ⟨?_, ?_⟩
    · apply Nat.le_of_not_lt
      intro hlt
      obtain ⟨u, hu⟩ := mpmc2_no_lost_wakeup_send h hb h0 (Or.inl hlt)
      exact absurd hu (hq u)
    · intro hs
      obtain ⟨u, hu⟩ := mpmc2_no_lost_wakeup_send h hb h0 (Or.inr hs)
      exact absurd hu (hq u)

instance (s : State) (t : Nat) (l : Label) : Decidable (Benign s t l) := by
  unfold Benign; split <;> infer_instance

/-- run a schedule, checking the `Benign` hypothesis at every step -/
def runB (s : State) : List (Nat × Label) → Option State
  | [] => some s
  | (t, l) :: rest => if Benign s t l then (step s t l).bind (fun s' => runB s' rest) else none

theorem reachB_of_runB {cap : Nat} (tr : List (Nat × Label)) (s0 s : State) (h0 : ReachB cap s0)
    (h : runB s0 tr = some s) : ReachB cap s := by
  induction tr generalizing s0 with
  | nil => simp [runB] at h; subst h; exact h0
  | cons a rest ih =>
    obtain ⟨t, l⟩ := a
    simp only [runB] at h
    split at h
    · rename_i hb
      simp only [Option.bind] at h
      split at h
      · simp at h
      · rename_i s1 hs1; exact ih s1 (ReachB.step h0 hb hs1) h
    · simp at h

/-! ## What is false of the code today (witnesses by `decide`) -/

/-- Full C06 wake statement for receive futures: a Pending `RecvFuture` whose record is still
WAITING while an item is buffered is covered by a woken receiver that is still going to consume it.
FALSE on `Reach` for the code as it stands (F2); true on `ReachB` (`…_partial`). -/
def C06_mpmc2_recv_statement : Prop :=
  ∀ cap s, Reach cap s → ∀ t r, s.pc t = .arPend r → s.st r = .waiting → s.queue ≠ [] →
    ∃ r', r' ∈ s.ar ∧ wokenRecv (s.pc (s.owner r')) = some r'

def C06_mpmc2_send_statement : Prop :=
  ∀ cap s, Reach cap s → ∀ t v r, s.pc t = .asPend v r → s.st r = .waiting → s.queue.length < cap →
    ∃ r', r' ∈ s.asg ∧ wokenSend (s.pc (s.owner r')) = some r'

theorem C06_mpmc2_recv_partial {cap s} (h : ReachB cap s) {t r : Nat} (hp : s.pc t = .arPend r)
    (hw : s.st r = .waiting) (hq : s.queue ≠ []) : ∃ r', r' ∈ s.ar ∧ wokenRecv (s.pc (s.owner r')) = some r' := by
  have ⟨hm, _⟩ := (mpmc2_waiting_is_registered h).1 t r (by simp [hp, blockR]) hw
  have ⟨hl, _, ha⟩ := mpmc2_Q1 h hm hw
  cases har : s.ar with
  | nil => rw [har] at hl; simp at hl; exact absurd hl hq
  | cons a rest => exact ⟨a, by simp, (ha a (by rw [har]; simp)).2⟩

theorem C06_mpmc2_send_partial {cap s} (h : ReachB cap s) {t v r : Nat} (hp : s.pc t = .asPend v r)
    (hw : s.st r = .waiting) (hq : s.queue.length < cap) : ∃ r', r' ∈ s.asg ∧ wokenSend (s.pc (s.owner r')) = some r' := by
  have ⟨hm, _⟩ := (mpmc2_waiting_is_registered h).2 t r (by simp [hp, blockS]) hw
  have ⟨hl, _, ha⟩ := mpmc2_Q2 h hm hw
  cases har : s.asg with
  | nil => rw [har] at hl; simp at hl; omega
  | cons a rest => exact ⟨a, by simp, (ha a (by rw [har]; simp)).2⟩

/-- all agents of a finite list are stuck: no protocol step enabled, and no Pending task has a wake -/
def stuck (s : State) (agents : List Nat) : Bool :=
  agents.all (fun a => (stepAdv s a).isNone && ((waitish (s.pc a)).isNone || s.wakes a == 0))

/-- **F2 (receive side)**: tasks 1 and 2 are Pending in `recv()`; `try_send(7)` CASes task 1 to SUCCESS
and wakes it; task 1 is dropped before it is polled (`Drop`: the cancel CAS fails, the future just
unlinks). The wake is swallowed: task 2 stays Pending with zero wakes while 7 sits in the buffer and
nothing in the system can move. -/
def trF2recv : List (Nat × Label) :=
  [(1, .call .recvFut), (1, .poll), (1, .adv), (1, .adv),
   (2, .call .recvFut), (2, .poll), (2, .adv), (2, .adv),
   (0, .call (.trySend 7)), (0, .adv),
   (1, .dropFut), (1, .adv)]

theorem F2_recv_run_a : (run (init 2) trF2recv).map (fun s => (s.pc 2, s.st 1, s.wakes 2)) =
    some (.arPend 1, .waiting, 0) := by decide
theorem F2_recv_run_b : (run (init 2) trF2recv).map (fun s => (s.queue, s.ar, s.pc (s.owner 0))) =
    some ([7], [0], .done .futDropped) := by decide
theorem F2_recv_run_c : (run (init 2) trF2recv).map (fun s => stuck s [0, 1, 2]) = some true := by decide

theorem C06_fails_F2_mpmc2_recv : ¬ C06_mpmc2_recv_statement := by
  intro hC
  cases hr : run (init 2) trF2recv with
  | none => exact absurd hr (by decide)
  | some s =>
    have ha := F2_recv_run_a; have hb := F2_recv_run_b
    rw [hr] at ha hb; simp at ha hb
    obtain ⟨r', hm, hw⟩ := hC 2 s (reach_of_run _ _ s .init hr) 2 1 ha.1 ha.2.1 (by simp [hb.1])
    rw [hb.2.1] at hm; simp at hm; subst hm
    rw [hb.2.2] at hw; simp [wokenRecv] at hw

/-- **F2 (send side)**: capacity 1, buffer full; tasks 1 and 2 are Pending in `send()`; `try_recv` frees the
slot and wakes task 1, which is dropped before its poll. Task 2 stays Pending, un-woken, with a free slot. -/
def trF2send : List (Nat × Label) :=
  [(0, .call (.trySend 7)), (0, .adv),
   (1, .call (.sendFut 8)), (1, .poll), (1, .adv), (1, .adv),
   (2, .call (.sendFut 9)), (2, .poll), (2, .adv), (2, .adv),
   (0, .call .tryRecv), (0, .adv),
   (1, .dropFut), (1, .adv)]

theorem F2_send_run_a : (run (init 1) trF2send).map (fun s => (s.pc 2, s.st 1, s.wakes 2)) =
    some (.asPend 9 1, .waiting, 0) := by decide
theorem F2_send_run_b : (run (init 1) trF2send).map (fun s => (s.queue, s.asg, s.pc (s.owner 0))) =
    some ([], [0], .done .futDropped) := by decide
theorem F2_send_run_c : (run (init 1) trF2send).map (fun s => stuck s [0, 1, 2]) = some true := by decide

theorem C06_fails_F2_mpmc2_send : ¬ C06_mpmc2_send_statement := by
  intro hC
  cases hr : run (init 1) trF2send with
  | none => exact absurd hr (by decide)
  | some s =>
    have ha := F2_send_run_a; have hb := F2_send_run_b
    rw [hr] at ha hb; simp at ha hb
    obtain ⟨r', hm, hw⟩ := hC 1 s (reach_of_run _ _ s .init hr) 2 9 1 ha.1 ha.2.1 (by simp [hb.1])
    rw [hb.2.1] at hm; simp at hm; subst hm
    rw [hb.2.2] at hw; simp [wokenSend] at hw

/-- **F17 (repaired by cd494c8)**: no future is dropped at all. Tasks 1 and 2 are Pending in `recv()`;
`try_send(7)` wakes task 1; task 2 is re-polled although it was not woken (`select!` / `join!` do that):
`poll_recv_internal` runs `try_recv_core_for` first, takes 7 and returns Ready — and unlinks its own WAITING record
in that locked section. Task 1 is polled, finds nothing, re-registers. `try_send(8)` CASes task 1's record and
wakes task 1. (Before the fix the stale record of the finished task 2 was CASed instead: task 1 stayed Pending,
un-woken, with 8 buffered — `C06_fails_F17_mpmc2_spurious_repoll`, and in the real code a use-after-free.) -/
def trF17 : List (Nat × Label) :=
  [(1, .call .recvFut), (1, .poll), (1, .adv), (1, .adv),
   (2, .call .recvFut), (2, .poll), (2, .adv), (2, .adv),
   (0, .call (.trySend 7)), (0, .adv),
   (2, .poll), (2, .adv),
   (1, .poll), (1, .adv), (1, .adv),
   (0, .call (.trySend 8)), (0, .adv)]

/-- the steal: after task 2's spurious re-poll it has 7, and no record is queued any more (task 1's was consumed
by the wake, task 2's own is unlinked by the section that took the item) -/
theorem F17_fixed_steal_unlinks : (run (init 2) (trF17.take 12)).map (fun s => (s.pc 2, s.war, s.queue)) =
    some (.done (.recvOk 7), [], []) := by decide
/-- the end of the run: task 1 is Pending, its record CASed to SUCCESS, one counted wake, 8 buffered for it -/
theorem F17_fixed_run : (run (init 2) trF17).map (fun s => (s.pc 1, s.st 0, s.wakes 1)) =
    some (.arPend 0, .success, 1) := by decide
theorem F17_fixed_run_b : (run (init 2) trF17).map (fun s => (s.queue, s.ar, s.war)) = some ([8], [0], []) := by decide
/-- the finished task 2 is not woken, and the system is not stuck (task 1 has its wake) -/
theorem F17_fixed_run_c : (run (init 2) trF17).map (fun s => (s.wakes 2, stuck s [0, 1, 2])) = some (0, false) := by decide
/-- … and the whole run satisfies the hypothesis of the `_partial` theorems (the spurious re-poll is benign now) -/
theorem F17_fixed_run_benign : (runB (init 2) trF17).isSome = true := by decide

/-- non-vacuity of `C06_mpmc2_recv_partial` on a run WITH a spurious re-poll (`ReachB` no longer excludes it): tasks 1
and 2 Pending, `try_send(7)` wakes task 1, task 2 is polled spuriously between its two locked sections … here it is
stopped right after the poll boundary: task 2 is inside `poll` on a record that is still queued and WAITING. -/
example : ∃ s, ReachB 2 s ∧ s.pc 2 = .arTry 1 ∧ s.st 1 = .waiting ∧ s.war = [1] ∧ s.queue = [7] ∧ s.ar = [0] := by
  cases hr : runB (init 2) (trF17.take 11) with
  | none => exact absurd hr (by decide)
  | some s =>
    have h1 : (runB (init 2) (trF17.take 11)).map (fun s => (s.pc 2, s.st 1, s.war, s.queue, s.ar)) =
        some (.arTry 1, .waiting, [1], [7], [0]) := by decide
    rw [hr] at h1; simp at h1
    exact ⟨s, reachB_of_runB _ _ s .init hr, h1.1, h1.2.1, h1.2.2.1, h1.2.2.2.1, h1.2.2.2.2⟩

/-- Full C05 statement for the timed receive: `recv_timeout` always returns. FALSE (F5). -/
def C05_mpmc2_timed_statement : Prop :=
  ∀ cap s, Reach cap s → ∀ t, s.pc t ≠ .done .panicked

/-- **F5**: thread 1 is enqueued in `recv_timeout(0)`; `try_send(7)` CASes it to SUCCESS; thread 2's
`try_recv` barges in and takes 7; thread 1's cancel CAS fails ("a sender committed the handoff"), its final
`try_recv_core` finds the buffer empty and hits `unreachable!("state was finished but channel empty")`. -/
def trF5 : List (Nat × Label) :=
  [(1, .call .recvTimeout0), (1, .adv), (1, .adv),
   (0, .call (.trySend 7)), (0, .adv),
   (2, .call .tryRecv), (2, .adv),
   (1, .adv), (1, .adv)]

theorem F5_run : (run (init 2) trF5).map (fun s => (s.pc 1, s.pc 2, s.pc 0)) =
    some (.done .panicked, .done (.recvOk 7), .done (.sendOk 7)) := by decide

theorem C05_fails_F5 : ¬ C05_mpmc2_timed_statement := by
  intro hC
  cases hr : run (init 2) trF5 with
  | none => exact absurd hr (by decide)
  | some s =>
    have ha := F5_run
    rw [hr] at ha; simp at ha
    exact hC 2 s (reach_of_run _ _ s .init hr) 1 ha.1

/-- the only way into the panic: the final `try_recv_core` of a timed receive whose cancel CAS lost,
with an empty buffer and a live sender — i.e. its item was taken by a barging receiver. -/
theorem C05_mpmc2_timed_partial {s s' : State} {t : Nat} {l : Label} (h : step s t l = some s')
    (h0 : s.pc t ≠ .done .panicked) (h1 : s'.pc t = .done .panicked) :
    ∃ r, s.pc t = .toFin r ∧ l = .adv ∧ s.queue = [] ∧ s.senders ≠ 0 := by
  cases l <;> simp only [step] at h
  case call op =>
    unfold stepCall at h
    repeat' split at h
    all_goals (simp at h; try subst h)
    all_goals simp [upd_apply] at h1
  case poll =>
    unfold stepPoll at h
    repeat' split at h
    all_goals (simp at h; try subst h)
    all_goals simp [upd_apply] at h1
  case dropFut =>
    unfold stepDropFut at h
    repeat' split at h
    all_goals (simp at h; try subst h)
    all_goals simp [upd_apply] at h1
  case spurious =>
    unfold stepSpurious at h
    repeat' split at h
    all_goals (simp at h; try subst h)
    all_goals simp [upd_apply] at h1
  case adv =>
    unfold stepAdv at h
    split at h
    all_goals (first | (simp at h; done) | skip)
    all_goals (try simp only [stepSTry, stepSReg, stepSWait, stepSPark, stepSUnl, stepTsTry, stepRTry, stepRReg, stepRWait,
               stepRPark, stepRUnl, stepTrTry, stepToTry, stepToReg, stepToRetry, stepToCas, stepToUnl, stepToFin, stepAsTry,
               stepAsReg, stepAsUnl, stepAsRef, stepFdUnlS, stepArTry, stepArReg, stepArUnl, stepFdUnlR, stepCloseS, stepCloseR,
               stepHWake] at h)
    all_goals (repeat' split at h)
    all_goals (simp at h; try subst h)
    all_goals (first
      | (simp [upd_apply] at h1; done)
      | (have e := sendCore_pc ‹sendCore _ _ = some _›; simp [upd_apply, e] at h1; done)
      | (have e := recvCore_pc ‹recvCore _ = some _›; simp [upd_apply, e] at h1; done)
      | (have hq := recvCore_none ‹recvCore _ = none›
         exact ⟨_, ‹s.pc t = PC.toFin _›, rfl, hq, ‹¬ s.senders = 0›⟩))

/-! ### non-vacuity -/

/-- a reachable state with a full buffer of capacity 2, one token received, in FIFO order -/
example : ∃ s, Reach 2 s ∧ s.queue = [8, 9] ∧ s.recvd = [7] ∧ s.pc 0 = .done (.sendOk 9) := by
  let tr : List (Nat × Label) :=
    [(0, .call (.trySend 7)), (0, .adv), (0, .call (.send 8)), (0, .adv), (1, .call .tryRecv), (1, .adv),
     (0, .call (.trySend 9)), (0, .adv)]
  cases hr : run (init 2) tr with
  | none => exact absurd hr (by decide)
  | some s =>
    refine ⟨s, reach_of_run tr _ s .init hr, ?_, ?_, ?_⟩
    · have : (run (init 2) tr).map (·.queue) = some [8, 9] := by decide
      rw [hr] at this; simpa using this
    · have : (run (init 2) tr).map (·.recvd) = some [7] := by decide
      rw [hr] at this; simpa using this
    · have : (run (init 2) tr).map (fun s => s.pc 0) = some (.done (.sendOk 9)) := by decide
      rw [hr] at this; simpa using this

/-- non-vacuity of `mpmc2_no_lost_wakeup_recv` / `mpmc2_Q1`: two threads parked in `recv`, one item sent:
thread 2 is parked without token on a WAITING record while 7 is buffered; the theorem's conclusion is
witnessed by thread 1 (woken, token set). -/
example : ∃ s, ReachB 2 s ∧ s.pc 2 = .rPark 3 ∧ s.wakes 2 = 0 ∧ s.st 3 = .waiting ∧ s.queue = [7] ∧ s.ar = [1] := by
  let tr : List (Nat × Label) :=
    [(1, .call .recv), (1, .adv), (1, .adv), (1, .adv), (2, .call .recv), (2, .adv), (2, .adv), (2, .adv),
     (0, .call (.trySend 7)), (0, .adv)]
  cases hr : runB (init 2) tr with
  | none => exact absurd hr (by decide)
  | some s =>
    have h1 : (runB (init 2) tr).map (fun s => (s.pc 2, s.wakes 2, s.st 3)) = some (.rPark 3, 0, .waiting) := by decide
    have h2 : (runB (init 2) tr).map (fun s => (s.queue, s.ar)) = some ([7], [1]) := by decide
    rw [hr] at h1 h2; simp at h1 h2
    exact ⟨s, reachB_of_runB tr _ s .init hr, h1.1, h1.2.1, h1.2.2, h2.1, h2.2⟩

/-- non-vacuity of the sender side: capacity 1, a parked sender, then a `try_recv` frees the slot and wakes it -/
example : ∃ s, ReachB 1 s ∧ s.pc 1 = .sPark 8 1 ∧ 0 < s.wakes 1 ∧ s.st 1 = .success ∧ s.queue = [] ∧ s.asg = [1] := by
  let tr : List (Nat × Label) :=
    [(0, .call (.trySend 7)), (0, .adv), (1, .call (.send 8)), (1, .adv), (1, .adv), (1, .adv),
     (0, .call .tryRecv), (0, .adv)]
  cases hr : runB (init 1) tr with
  | none => exact absurd hr (by decide)
  | some s =>
    have h1 : (runB (init 1) tr).map (fun s => (s.pc 1, s.wakes 1, s.st 1)) = some (.sPark 8 1, 1, .success) := by decide
    have h2 : (runB (init 1) tr).map (fun s => (s.queue, s.asg)) = some ([], [1]) := by decide
    rw [hr] at h1 h2; simp at h1 h2
    exact ⟨s, reachB_of_runB tr _ s .init hr, h1.1, by omega, h1.2.2, h2.1, h2.2⟩

/-- a failed try_send on a full channel: the token comes back -/
example : ((run (init 1) [(0, .call (.trySend 7)), (0, .adv), (0, .call (.trySend 8)), (0, .adv)]).map
    (fun s => (s.pc 0, s.queue, s.returned))) = some (.done (.sendFull 8), [7], [8]) := by decide

end Fv.Props.Mpmc2B
