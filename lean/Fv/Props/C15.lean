import Fv.Lemmas.Loader
/-!
# C15 — loader single-flight: one load per miss, shared by all callers

Model: `Fv.Cache.Loader` (critical-section granularity small-step model of `fetch_with`,
`load_value_blocking`, `trigger_background_load`, `spawn_loader_task`, `LoadFuture`).
All theorems quantify over every number of callers, every program of `fetch_with` calls,
every key, every interleaving (schedule) of the modelled steps, spurious park returns,
and environment invalidations / expirations at any point.
-/
namespace Fv.Props.C15
open Fv.Cache.Loader

/-- A thread is "loading key k" from the moment it is elected leader until its loader task has
removed the pending marker. -/
def Loading (s : State) (t k : Nat) : Prop := ∃ f, ownerOf (s.pc t) = some (k, f)

/-- **At most one load of a key is in flight at any time**, under every schedule. -/
theorem C15_one_load_in_flight {n g s} (h : Reach n g s) (t1 t2 k : Nat)
    (h1 : Loading s t1 k) (h2 : Loading s t2 k) : t1 = t2 := by
  have hi := inv_reach h
  obtain ⟨f1, h1⟩ := h1
  obtain ⟨f2, h2⟩ := h2
  have e1 := hi.owner_marker _ _ _ h1
  have e2 := hi.owner_marker _ _ _ h2
  have : f1 = f2 := by rw [e1] at e2; exact Option.some.inj e2
  subst this
  exact hi.completer_unique _ _ _ (completer_of_owner h1) (completer_of_owner h2)

/-- While a marker for `k` is pending, a caller that reaches the pending-loads critical section
joins the existing load instead of starting one (it becomes a waiter on that very future). -/
theorem C15_joins_pending_load {s s' : State} {t k f : Nat}
    (hpc : s.pc t = .atPending k) (hp : s.pending k = some f)
    (h : step s t .pendingCS = some s') : s'.pc t = .waitFut f ∧ s'.loads = s.loads ∧ s'.nextFut = s.nextFut := by
  simp [step, stepPendingCS, hpc, hp] at h
  subst h; simp

/-- A completed future never changes its value: **every caller that joined one load gets that one
loaded value**. -/
theorem C15_future_value_stable {n g s s'} (hr : Reach n g s) {t l f v}
    (hv : (s.futs f).value = some v) (h : step s t l = some s') : (s'.futs f).value = some v := by
  have hi := inv_reach hr
  have hf := hi.valued_known f v hv
  have hco := hi.completer_open
  cases l <;> simp only [step] at h
  case call k => unfold stepCall at h; repeat' split at h
                 all_goals (simp at h; try subst h)
                 all_goals exact hv
  case mapRead => unfold stepMapRead at h; repeat' split at h
                  all_goals (simp at h; try subst h)
                  all_goals first | exact hv | (simp [upd_apply]; split <;> first | omega | exact hv)
  case pendingCS => unfold stepPendingCS at h; repeat' split at h
                    all_goals (simp at h; try subst h)
                    all_goals first | exact hv | (simp [upd_apply]; split <;> first | omega | exact hv)
  case spawn => unfold stepSpawn at h; repeat' split at h
                all_goals (simp at h; try subst h)
                all_goals exact hv
  case futCS => unfold stepFutCS at h; repeat' split at h
                all_goals (simp at h; try subst h)
                all_goals first | exact hv | (simp [upd_apply]; split <;> simp_all)
  case park => unfold stepPark at h; repeat' split at h
               all_goals (simp at h; try subst h)
               all_goals exact hv
  case spurious => unfold stepSpurious at h; repeat' split at h
                   all_goals (simp at h; try subst h)
                   all_goals exact hv
  case load => unfold stepLoad at h; repeat' split at h
               all_goals (simp at h; try subst h)
               all_goals exact hv
  case mapInsert => unfold stepMapInsert at h; repeat' split at h
                    all_goals (simp at h; try subst h)
                    all_goals exact hv
  case pendRemove => unfold stepPendRemove at h; repeat' split at h
                     all_goals (simp at h; try subst h)
                     all_goals exact hv
  case complete =>
    unfold stepComplete at h; repeat' split at h
    all_goals (simp at h; try subst h)
    rename_i k' f' v' hpc
    have := (hco t f' (by simp [hpc, completerOf])).2
    simp [upd_apply]; split
    · rename_i e; subst e; simp [hv] at this
    · exact hv
  case invalidate k => simp at h; subst h; exact hv
  case expire k => split at h <;> (simp at h; subst h; exact hv)

/-- A caller leaves the wait loop only with the value of the future it joined. -/
theorem C15_returns_joined_value {s s' : State} {t f : Nat}
    (hpc : s.pc t = .waitFut f) (h : step s t .futCS = some s') :
    (∃ v, (s.futs f).value = some v ∧ s'.pc t = .done v) ∨ s'.pc t = .parking f := by
  simp only [step, stepFutCS, hpc] at h
  split at h <;> (simp at h; subst h; simp_all)

/-- **No lost wakeup**: in every reachable state a caller that is parked without a wake token is
registered on a future that is still computing, and some thread is committed to completing that
future (all of that thread's remaining steps are non-blocking). -/
theorem C15_no_lost_wakeup {n g s} (h : Reach n g s) (t f : Nat)
    (hp : s.pc t = .parking f) (ht : s.token t = false) :
    (s.futs f).value = none ∧ t ∈ (s.futs f).waiters ∧ ∃ u, completerOf (s.pc u) = some f := by
  have hi := inv_reach h
  obtain ⟨hv, hm⟩ := hi.parked_registered t f hp ht
  exact ⟨hv, hm, hi.open_has_completer f (hi.waiting_known t f (Or.inr hp)) hv⟩

/-- A protocol (non-environment) step of thread `t` is enabled. -/
def Enabled (s : State) (t : Nat) : Prop :=
  ∃ l, (∀ k, l ≠ .call k ∧ l ≠ .invalidate k ∧ l ≠ .expire k) ∧ l ≠ .spurious ∧ (step s t l).isSome = true

/-- A thread committed to completing a future always has an enabled step. -/
theorem completer_enabled {s : State} {u f : Nat} (h : completerOf (s.pc u) = some f) : Enabled s u := by
  unfold Enabled
  cases hpc : s.pc u <;> simp [hpc, completerOf] at h
  case spawning k f' => exact ⟨.spawn, by simp, by simp, by simp [step, stepSpawn, hpc]⟩
  case ldStart k f' => exact ⟨.load, by simp, by simp, by simp [step, stepLoad, hpc]⟩
  case ldInsert k f' v => exact ⟨.mapInsert, by simp, by simp, by simp [step, stepMapInsert, hpc]⟩
  case ldRemove k f' v => exact ⟨.pendRemove, by simp, by simp, by simp [step, stepPendRemove, hpc]⟩
  case ldComplete k f' v => exact ⟨.complete, by simp, by simp, by simp [step, stepComplete, hpc]⟩

/-- **Deadlock freedom**: if no thread has an enabled protocol step (no spurious wakeups needed),
then every thread has returned (or never started): nobody is parked forever while the loader has
returned. -/
theorem C15_quiescent_all_returned {n g s} (h : Reach n g s) (hq : ∀ t, ¬ Enabled s t) (t : Nat) :
    s.pc t = .idle ∨ (∃ v, s.pc t = .done v) ∨ s.pc t = .ldDone := by
  have hi := inv_reach h
  cases hpc : s.pc t
  case idle => simp
  case done v => simp
  case ldDone => simp
  case start k =>
    exfalso; apply hq t
    unfold Enabled
    refine ⟨.mapRead, by simp, by simp, ?_⟩
    simp only [step, stepMapRead, hpc]
    repeat' split
    all_goals rfl
  case atPending k =>
    exfalso; apply hq t
    unfold Enabled
    refine ⟨.pendingCS, by simp, by simp, ?_⟩
    simp only [step, stepPendingCS, hpc]
    repeat' split
    all_goals rfl
  case waitFut f =>
    exfalso; apply hq t
    unfold Enabled
    refine ⟨.futCS, by simp, by simp, ?_⟩
    simp only [step, stepFutCS, hpc]
    repeat' split
    all_goals rfl
  case parking f =>
    exfalso
    cases htk : s.token t
    · obtain ⟨_, _, u, hu⟩ := C15_no_lost_wakeup h t f hpc htk
      exact hq u (completer_enabled hu)
    · apply hq t
      exact ⟨.park, by simp, by simp, by simp [step, stepPark, hpc, htk]⟩
  case spawning k f => exact absurd (completer_enabled (u := t) (f := f) (by simp [hpc, completerOf])) (hq t)
  case ldStart k f => exact absurd (completer_enabled (u := t) (f := f) (by simp [hpc, completerOf])) (hq t)
  case ldInsert k f v => exact absurd (completer_enabled (u := t) (f := f) (by simp [hpc, completerOf])) (hq t)
  case ldRemove k f v => exact absurd (completer_enabled (u := t) (f := f) (by simp [hpc, completerOf])) (hq t)
  case ldComplete k f v => exact absurd (completer_enabled (u := t) (f := f) (by simp [hpc, completerOf])) (hq t)

/-- The loaded value is inserted into the map before the future is completed (program order of the
loader task): at the `complete` step the value was written by `mapInsert` two steps earlier. -/
theorem C15_insert_before_complete {s s' : State} {t k f v : Nat}
    (hpc : s.pc t = .ldInsert k f v) (h : step s t .mapInsert = some s') :
    s'.resident k = some (v, false) ∧ s'.pc t = .ldRemove k f v := by
  simp [step, stepMapInsert, hpc] at h; subst h; simp

/-- **F10 (known finding)**: "the loader runs exactly once per miss" is false of the code. Two callers
miss on key 7 before any value is resident; the first is elected, its loader task inserts the value
and removes the marker; the second caller, which had already missed, then takes the pending lock,
finds no marker and starts a second load of the same miss generation. -/
theorem C15_fails_F10 :
    ((run (init 2 false)
      [(0, .call 7), (1, .call 7), (0, .mapRead), (1, .mapRead), (0, .pendingCS), (0, .spawn),
       (2, .load), (2, .mapInsert), (2, .pendRemove), (1, .pendingCS), (1, .spawn), (3, .load)]).map
      (fun s => s.loads 7)) = some 2 := by decide

/-- Non-vacuity: a reachable state with a parked, unwoken caller (hypotheses of `C15_no_lost_wakeup`). -/
example : ∃ s, Reach 2 false s ∧ s.pc 1 = .parking 0 ∧ s.token 1 = false := by
  have : ∀ (tr : List (Nat × Label)) (s0 s : State), Reach 2 false s0 → run s0 tr = some s → Reach 2 false s := by
    intro tr; induction tr with
    | nil => intro s0 s h0 h; simp [run] at h; subst h; exact h0
    | cons a rest ih =>
      intro s0 s h0 h
      obtain ⟨t, l⟩ := a
      simp only [run, Option.bind] at h
      split at h
      · simp at h
      · rename_i s1 hs1; exact ih s1 s (Reach.step h0 hs1) h
  let tr : List (Nat × Label) := [(0, .call 7), (1, .call 7), (0, .mapRead), (1, .mapRead), (0, .pendingCS), (1, .pendingCS), (1, .futCS)]
  cases hr : run (init 2 false) tr with
  | none => exact absurd hr (by decide)
  | some s =>
    refine ⟨s, this tr _ s Reach.init hr, ?_, ?_⟩
    · have : (run (init 2 false) tr).map (fun s => s.pc 1) = some (.parking 0) := by decide
      rw [hr] at this; simpa using this
    · have : (run (init 2 false) tr).map (fun s => s.token 1) = some false := by decide
      rw [hr] at this; simpa using this

end Fv.Props.C15
