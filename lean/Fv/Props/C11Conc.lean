import Fv.Lemmas.CacheConcPhase
import Fv.Props.CacheConc
/-!
# C11 under interleavings — real-time order of the linearization

`Fv.Props.CacheConc` shows that the ghost history `s.hist` is accepted by the sequential register
specification. This file adds that the linearization is compatible with REAL-TIME order: `s.hist` is
the global order in which critical sections executed, and the events of each thread form a sequence
of operations `inv op · lin · ret r` in which the single linearization event matches the operation
(kind, key, arguments), lies between the operation's invocation and response, and determines the
response. Hence if operation A returned before operation B was invoked, A's linearization point
precedes B's in `s.hist`.

Programs may MIX calls on the sync handle (`Cache`) and on the async handle (`AsyncCache`): the environment
label `call op async` chooses the handle per call, and every theorem below quantifies over such mixed
programs (see `Fv.Props.CacheConcAsync` for what differs between the two handles).
-/
namespace Fv.Props.C11Conc
open Fv.Cache.Conc

/-- **Every thread's projection of the history is well formed** (accepted by the per-thread
automaton `phStep`), and its phase is compatible with the thread's program counter. -/
theorem C11c_thread_history_wellformed {c : Cfg} {s : State} (h : Reach c s) (t : Nat) :
    ∃ p, phaseOf t s.hist = some p ∧ compat p (s.pc t) := (invP_reach h).wf t

/-- a response is accepted only if it carries the result fixed by the linearization event -/
theorem C11c_response_is_linearized_result {op : Op} {r r' : Option Nat} {t : Nat} {p : Ph}
    (h : phStep (.lin op r') (.ret t r) = some p) : r = r' ∧ p = .idle := by
  simp only [phStep] at h
  split at h
  · simp at h; rename_i e; exact ⟨e, h.symm⟩
  · simp at h

/-- a linearization event is accepted only between the invocation and the response of an operation
it matches: same kind, same key, same arguments -/
theorem C11c_lin_event_matches_call {p p' : Ph} {t k : Nat} {r : Option Nat}
    (h : phStep p (.rd t k r) = some p') :
    (p = .called (.get k) ∧ p' = .lin (.get k) r) ∨ (p = .called (.peek k) ∧ p' = .lin (.peek k) r) := by
  cases p with
  | idle => simp [phStep] at h
  | lin op r' => simp [phStep] at h
  | called op =>
    cases op <;> simp [phStep, linRes] at h
    case get k' => left; exact ⟨by rw [h.1], by rw [← h.2, h.1]⟩
    case peek k' => right; exact ⟨by rw [h.1], by rw [← h.2, h.1]⟩

/-- at quiescence every operation has completed: every thread's projection ends in phase `idle` -/
theorem C11c_quiescent_all_complete {c : Cfg} {s : State} (h : Reach c s) (hq : Quiescent c s) (t : Nat)
    (ht : t < c.nThreads) : phaseOf t s.hist = some .idle := by
  obtain ⟨p, hp, hc⟩ := C11c_thread_history_wellformed h t
  have := hq t ht
  cases hpc : s.pc t <;> simp [hpc, isRest] at this <;> simp [hpc, compat] at hc <;> rw [hp, hc]

/-- non-vacuity: in the two-increments trace thread 1's projection is `inv compute · upd · ret`. -/
example : (run Fv.Props.CacheConc.cfg2 init Fv.Props.CacheConc.traceTwoComputes).map
    (fun s => (s.hist.filter (fun e => tidOf e == 1))) =
    some [.inv 1 (.compute 1 1000), .upd 1 1 10 1000, .ret 1 (some 1)] := by decide

end Fv.Props.C11Conc
