import Fv.Lemmas.OneshotBReach
import Fv.Props.OneshotBWit
/-!
Property theorems of the STEP-LEVEL oneshot model `Fv.Chan.OneshotB` — over ALL programs (any number of
sender handles / clones, any op lists), all interleavings of single atomic actions, spurious park
returns included. They feed C01 / C03 / C04 / C05 / C06 / C09 for flavour `oneshot`.
Names are listed in /verif/props/oneshotb.theorems.
-/
namespace Fv.Props.OneshotB
open Fv.Chan.OneshotB

variable {progS : Nat → List Op} {progR : List Op} {s : State}

/-! ## (a) C01 / C03: at most one send ever succeeds; a failed send hands its value back -/

/-- C03: only one sender handle ever gets `Ok(())` from `send`. -/
theorem send_ok_unique (h : Reach progS progR s) {i j : Nat}
    (hi : s.sres i = some .ok) (hj : s.sres j = some .ok) : i = j := by
  have h4 := (reach_ainv h).i4b
  have a := h4.resOk i hi
  have b := h4.resOk j hj
  rw [a] at b
  exact Option.some.inj b

/-- C01: the result of a send is `Ok`, or an error carrying exactly the value that was offered. -/
theorem failed_send_returns_value (h : Reach progS progR s) {i : Nat} {r : Res} (hr : s.sres i = some r) :
    r = .ok ∨ ∃ v, s.sval i = some v ∧ (r = .closedV v ∨ r = .sentV v) :=
  (reach_ainv h).i4b.resErr i r hr

/-- C01 / C09 token conservation, sequence form: what went into the slot is, in order, what is still in
the slot, what the receiver got and what the channel dropped — and it is at most one value. -/
theorem token_conservation (h : Reach progS progR s) :
    s.moved = s.slot.toList ++ s.received ++ s.dropped ∧ s.moved.length ≤ 1 := by
  rcases (reach_ainv h).i4.acct with ⟨a, b, c, d⟩ | ⟨v, a, ⟨b, c, d⟩ | ⟨b, c, d⟩ | ⟨b, c, d⟩⟩ <;>
    simp [a, b, c, d]

/-- C01 exactly-once, per send call (token = the sender handle `i`, each handle sends at most once):
a value that went into the channel comes from a send that reports `Ok` (or is one action before doing
so) and is the whole content of `moved`; a value handed back in an error never went into the channel. -/
theorem token_fate (h : Reach progS progR s) {i v : Nat} (hv : s.sval i = some v) :
    (s.mover = some i → s.moved = [v] ∧ (s.sres i = some .ok ∨ s.sres i = none)) ∧
    (∀ w, s.sres i = some (.closedV w) ∨ s.sres i = some (.sentV w) → w = v ∧ s.mover ≠ some i) := by
  have hI := reach_ainv h
  have h4 := hI.i4b
  constructor
  · intro hm
    obtain ⟨w, hw, hmv⟩ := h4.movedV i hm
    rw [hv] at hw
    cases hw
    refine ⟨hmv, ?_⟩
    rcases h4.moverRes i hm with h1 | h1
    · exact .inl h1
    · exact .inr (h4.bodyRes (.S i) (by simp [inBody, h1]))
  · intro w hw
    have hne : s.mover ≠ some i := by
      intro hm
      rcases h4.moverRes i hm with h1 | h1
      · rcases hw with hw | hw <;> simp [h1] at hw
      · have := h4.bodyRes (.S i) (by simp [inBody, h1])
        simp only [Ag.idx] at this
        rcases hw with hw | hw <;> simp [this] at hw
    refine ⟨?_, hne⟩
    rcases hw with hw | hw
    · rcases h4.resErr i _ hw with h1 | ⟨u, hu, h1 | h1⟩
      · cases h1
      · rw [hv] at hu; cases hu; cases h1; rfl
      · cases h1
    · rcases h4.resErr i _ hw with h1 | ⟨u, hu, h1 | h1⟩
      · cases h1
      · cases h1
      · rw [hv] at hu; cases hu; cases h1; rfl

/-! ## (b) C04 / C01: the receiver obtains the value iff a send succeeded, at most once -/

/-- whatever the receiver got was offered by the one send that reports `Ok`. -/
theorem received_from_ok_send (h : Reach progS progR s) {v : Nat} (hr : v ∈ s.received) :
    s.received = [v] ∧ ∃ i, s.mover = some i ∧ s.sval i = some v ∧ s.sres i = some .ok := by
  have hI := reach_ainv h
  have h4 := hI.i4
  have h4b := hI.i4b
  have h3 := hI.i3
  rcases h4.acct with ⟨a, b, c, d⟩ | ⟨w, a, ⟨b, c, d⟩ | ⟨b, c, d⟩ | ⟨b, c, d⟩⟩
  · simp [c] at hr
  · simp [c] at hr
  · simp [c] at hr
    subst hr
    refine ⟨c, ?_⟩
    have hm : s.mover ≠ none := by
      intro hn
      have := h4.movedE.mpr hn
      simp [a] at this
    obtain ⟨i, hi⟩ := Option.ne_none_iff_exists'.mp hm
    obtain ⟨u, hu, hmv⟩ := h4b.movedV i hi
    rw [a] at hmv
    cases hmv
    refine ⟨i, hi, hu, ?_⟩
    rcases h4b.moverRes i hi with h1 | h1
    · exact h1
    · exact absurd b (h3.swapSl (.S i) h1)
  · simp [c] at hr

/-- the receiver gets at most one value, and a value is never both received and dropped by the channel. -/
theorem received_at_most_once (h : Reach progS progR s) :
    (s.received ++ s.dropped).length ≤ 1 := by
  rcases (reach_ainv h).i4.acct with ⟨a, b, c, d⟩ | ⟨v, a, ⟨b, c, d⟩ | ⟨b, c, d⟩ | ⟨b, c, d⟩⟩ <;>
    simp [c, d]

/-- nothing sent, nothing received: the receiver never invents a value. -/
theorem nothing_sent_nothing_received (h : Reach progS progR s) (hm : s.mover = none) :
    s.received = [] ∧ s.dropped = [] ∧ s.slot = none := by
  have h4 := (reach_ainv h).i4
  have := h4.movedE.mpr hm
  rcases h4.acct with ⟨a, b, c, d⟩ | ⟨v, a, _⟩
  · exact ⟨c, d, b⟩
  · simp [this] at a

/-! ## (d) C09: the slot's value is dropped exactly once in every teardown order -/

/-- once `OneShotShared::drop` has run the slot is empty: every value that went into the channel was
either handed to the receiver or dropped by the channel — exactly once (`token_conservation`). -/
theorem teardown_no_leak (h : Reach progS progR s) (hf : s.freed = true) :
    s.slot = none ∧ s.moved = s.received ++ s.dropped ∧ (s.received ++ s.dropped).length ≤ 1 := by
  have hs := (reach_ainv h).i3.freedSl hf
  have := token_conservation h
  refine ⟨hs, ?_, received_at_most_once h⟩
  simpa [hs] using this.1

/-- `OneShotShared::drop` runs only after every handle has released its reference, and nobody touches
the channel afterwards (every handle created so far is gone). -/
theorem freed_after_all_handles_gone (h : Reach progS progR s) (hf : s.freed = true) :
    s.gone .R = true ∧ ∀ i, i < s.nextH → s.gone (.S i) = true :=
  ⟨(reach_ainv h).j2.freedR hf, fun i hi => (reach_ainv h).j2.freedS i hf hi⟩

/-- the two unreachable arms of `try_recv` ("state was SENT but the slot is empty", "CAS SENT→TAKEN
failed") are dead code: no handle is ever there. -/
theorem try_recv_corrupt_arms_unreachable (h : Reach progS progR s) (a : Ag) :
    (s.loc a).m ≠ .tStClosed ∧ (s.loc a).m ≠ .tLdState2 ∧ (s.loc a).m ≠ .tLdCount2 :=
  ⟨(reach_ainv h).i3b.dead1 a, (reach_ainv h).i3b.dead2 a, (reach_ainv h).i3b.dead3 a⟩

/-- mutual exclusion of the two critical sections on the state word: one writer, one taker. -/
theorem writer_taker_exclusive (h : Reach progS progR s) :
    (s.st = .writing ↔ s.writer ≠ none) ∧ (s.taker ≠ none → s.st = .taken ∧ s.slot ≠ none) :=
  ⟨(reach_ainv h).i2.stW, fun ht => ⟨(reach_ainv h).i3.tkSt ht, (reach_ainv h).i3.tkSl ht⟩⟩

/-! ## (b) C04: all senders gone and nothing sent ⇒ Disconnected; Disconnected is final -/

/-- `sender_count` is exactly the number of sender handles created so far that have not yet run their
`fetch_sub`; when it is 0 every handle has been closed / dropped / consumed. -/
theorem sender_count_is_live_handles (h : Reach progS progR s) :
    s.scount = cntF s.dec s.nextH ∧ (s.scount = 0 → ∀ i, i < s.nextH → s.dec i = true) :=
  ⟨(reach_ainv h).cnt.cntEq, count_zero_all_dec (reach_ainv h).cnt⟩

/-- C04, PARTIAL (hypothesis: no closed sender handle is ever cloned — `reopened = false`; with such a
clone the statement is false, see `C04_fails_disconnected_then_value_after_reopen`): a `try_recv` /
`recv` / poll that was CALLED when nothing had been sent and nothing could be (state CLOSED, or EMPTY with
`sender_count = 0`, i.e. every sender handle gone) can only return `Disconnected` — it never answers
Empty, never goes Pending, never parks; and that situation is stable until it returns. -/
theorem senders_gone_recv_disconnected_partial (h : Reach progS progR s) (hro : s.reopened = false)
    (hq : (s.loc .R).q = true) :
    (∀ r, (s.loc .R).m = .ret r → r = .disc) ∧ (s.loc .R).m ≠ .park ∧
    (s.st = .closed ∨ (s.scount = 0 ∧ s.st = .empty)) := by
  have he := reach_e7 h hro
  have hm := he.qMic hro hq
  refine ⟨?_, ?_, he.qInv hro hq⟩
  · intro r hr
    rcases hm with h1 | h1 | h1 | h1 | h1 <;> rw [hr] at h1 <;> cases h1
    rfl
  · intro hp
    rcases hm with h1 | h1 | h1 | h1 | h1 <;> rw [hp] at h1 <;> cases h1

/-- the C04 finality clause, at full strength (no hypothesis on the programs) -/
def disconnected_is_final_statement (progS : Nat → List Op) (progR : List Op) : Prop :=
  ∀ s, Reach progS progR s → Res.disc ∈ s.results .R →
    s.closed .R = true ∨ s.st = .closed ∨ s.st = .taken

/-- C04 (full strength since fix a886a91 — on the old code this was false without any clone: the
receiver answered Disconnected from a stale EMPTY + a fresh count 0 while the value was SENT): once the
receiver has been told `Disconnected`, its own handle is closed or the state word is CLOSED or TAKEN
— all three are permanent —, and it is not inside a claim of the value. -/
theorem disconnected_is_final (h : Reach progS progR s) (hd : Res.disc ∈ s.results .R) :
    (s.closed .R = true ∨ s.st = .closed ∨ s.st = .taken) ∧ (s.loc .R).m ≠ .tCasST ∧ (s.loc .R).m ≠ .tLock :=
  ⟨(reach_ainv h).d6.dD (.inr hd), (reach_ainv h).d6.dN hd⟩

theorem disconnected_is_final_holds : disconnected_is_final_statement progS progR :=
  fun _ h hd => (disconnected_is_final h hd).1

/-- C04: … and from then on no step hands a value to the receiver: `received` is frozen. -/
theorem no_value_after_disconnected (h : Reach progS progR s)
    (hd : Res.disc ∈ s.results .R) {a : Ag} {s' : State} (hs : step s a .act = some s') :
    s'.received = s.received := by
  have hN := (disconnected_is_final h hd).2
  rcases stepAct_cases hs with h1 | h1 | h1 | h1 | h1 | h1 | h1 | h1
  · os_split h1 [stepSend]; all_goals rfl
  · os_split h1 [stepWk]; all_goals rfl
  · os_split h1 [stepCl]; all_goals rfl
  · os_split h1 [stepX]; all_goals rfl
  · os_split h1 [stepPb]; all_goals rfl
  · by_cases ha : a = .R
    · subst ha
      os_split h1 [stepTry]
      all_goals first | rfl | (exfalso; simp_all)
    · simp [stepTry, ha] at h1
  · os_split h1 [stepTry2]; all_goals rfl
  · os_split h1 [stepPoll]; all_goals rfl

/-- C04 "drain, then Disconnected" (full strength): when a receive answers `Disconnected` on a receiver
handle that was not itself closed, no value is sitting in the channel — the slot is empty and the state
is CLOSED (nothing was ever sent) or TAKEN (the value was handed out before). -/
theorem disconnected_only_after_drain (h : Reach progS progR s)
    (hd : (s.loc .R).m = .ret .disc ∨ Res.disc ∈ s.results .R) (hc : s.closed .R = false) :
    s.slot = none ∧ (s.st = .closed ∨ s.st = .taken) := by
  have hI := reach_ainv h
  have hst : s.st = .closed ∨ s.st = .taken := by
    rcases hI.d6.dD hd with h1 | h1 | h1
    · rw [hc] at h1; cases h1
    · exact .inl h1
    · exact .inr h1
  refine ⟨?_, hst⟩
  cases hsl : s.slot with
  | none => rfl
  | some v =>
    exfalso
    have hne : s.slot ≠ none := by rw [hsl]; simp
    rcases hI.i3.slotU hne with h1 | h1 | ⟨i, hi, _⟩
    · rcases hst with h2 | h2 <;> rw [h1] at h2 <;> cases h2
    · obtain ⟨b, hb⟩ := Option.ne_none_iff_exists'.mp h1
      rcases hI.d6.tkRd b hb with h2 | h2
      · subst h2
        have hT := hI.i3.tkU .R hb
        simp only [inT] at hT
        rcases hT with h3 | h3
        · have := hI.d6.ciR (.inr (.inr (.inr (.inl h3)))); rw [hc] at this; cases this
        · rcases hd with h4 | h4
          · rw [h3] at h4; cases h4
          · exact (hI.d6.dN h4).2 h3
      · have := hI.j3.rdropCl h2; rw [hc] at this; cases this
    · have hw : s.st = .writing := hI.i2.stW.mpr (by rw [hi]; simp)
      rcases hst with h2 | h2 <;> rw [hw] at h2 <;> cases h2

/-! ## (c) C05 / C06: no lost wakeup, safety form -/

/-- a wake is in flight for executor thread `t`: some handle is about to take the waker, has taken the
executor waker of `t`, is in the tail of `decrement_senders` that ends in `wake`, or is the closer -/
def WakeInFlight (s : State) (t : Nat) : Prop :=
  (∃ b, (s.loc b).m = .wkUnpark t) ∨ (∃ b, inPW (s.loc b).m) ∨ s.closer ≠ none

/-- the FULL statement (false on the code: F18) -/
def no_lost_wakeup_statement (progS : Nat → List Op) (progR : List Op) : Prop :=
  ∀ s t, Reach progS progR s → (s.loc .R).m = .park → (s.loc .R).k = .recv t → s.tok t = false →
    ¬ WakeInFlight s t → s.st ≠ .sent ∧ s.st ≠ .closed ∧ s.scount ≠ 0

/-- C05 / C06, PARTIAL (the excluded case is exactly F18: state TAKEN with `sender_count = 0`, see
`C05_fails_F18_recv_parked_in_TAKEN_never_woken`): if the receiver is parked in `recv()` on thread `t`
with no park token and no wake is in flight, then its waker is still registered and armed, the state is
neither SENT nor CLOSED, and if every sender is gone (`sender_count = 0`) the state is TAKEN. -/
theorem no_lost_wakeup_partial (h : Reach progS progR s) {t : Nat}
    (hp : (s.loc .R).m = .park) (hk : (s.loc .R).k = .recv t) (ht : s.tok t = false)
    (hn : ¬ WakeInFlight s t) :
    s.waker = some (.task t) ∧ s.armed = true ∧ s.st ≠ .sent ∧ s.st ≠ .closed ∧
    (s.scount = 0 → s.st = .taken) := by
  have hI := reach_ainv h
  have hw := hI.w8
  simp only [WakeInFlight, not_or, not_exists] at hn
  obtain ⟨hn1, hn2, hn3⟩ := hn
  have hwk : s.waker = some (.task t) := by
    rcases hw.w1 t hk (.inr hp) with h1 | h1 | ⟨b, hb⟩
    · rw [ht] at h1; cases h1
    · exact h1
    · exact absurd hb (hn1 b)
  have hne : s.waker ≠ none := by rw [hwk]; simp
  have har := hw.w1a hp hne
  have hcl : s.closed .R = false := hI.j3.recvOpen (by simp [inRecvBody, hp])
  have hs : s.st ≠ .sent := by
    intro e
    obtain ⟨b, hb⟩ := hw.c2s hne (.inl har) e
    exact hn2 b (by simp [inPW, hb])
  have hc : s.st ≠ .closed := by
    intro e
    rcases hw.c2c hne (.inl har) hcl e with h1 | ⟨b, hb⟩
    · have := hw.pns (.inl hp); rw [this] at h1; cases h1
    · exact hn2 b hb
  refine ⟨hwk, har, hs, hc, ?_⟩
  intro h0
  have hst := hI.i2.stW
  cases hst' : s.st with
  | empty => exact absurd (hI.cnt.c3 hst' h0) (by simpa using hn3)
  | writing =>
    have hwne : s.writer ≠ none := hst.mp hst'
    obtain ⟨i, hi⟩ := Option.ne_none_iff_exists'.mp hwne
    have := writer_counts hI.j2 hI.i2 hI.c5 hI.cnt.cntEq i hi
    omega
  | sent => exact absurd hst' hs
  | taken => rfl
  | closed => exact absurd hst' hc

theorem run_reach {s s' : State} (h : Reach progS progR s) :
    ∀ (l : List (Ag × Label)), run s l = some s' → Reach progS progR s' := by
  intro l
  induction l generalizing s with
  | nil => intro hr; simp [run] at hr; subst hr; exact h
  | cons x rest ih =>
    intro hr
    obtain ⟨a, lb⟩ := x
    simp only [run] at hr
    cases hs : step s a lb with
    | none => simp [hs] at hr
    | some s1 =>
      simp [hs] at hr
      exact ih (Reach.step h hs) hr

/-- C05 / C06: the FULL no-lost-wakeup statement is FALSE on the code as it is (finding F18) — on the
program and schedule of `C05_fails_F18_recv_parked_in_TAKEN_never_woken` the receiver is parked without a
token, no wake is in flight, and `sender_count` is 0. -/
theorem no_lost_wakeup_fails_F18 : ¬ no_lost_wakeup_statement f18S f18R := by
  intro hst
  have hw : (run (init f18S f18R) f18Sched).map (fun s =>
      decide ((s.loc .R).m = .park ∧ (s.loc .R).k = .recv 7 ∧ s.tok 7 = false ∧ s.closer = none ∧ s.scount = 0 ∧
        s.nextH = 2 ∧ (s.loc (.S 0)).m = .idle ∧ (s.loc (.S 1)).m = .idle)) = some true := by decide
  cases hr : run (init f18S f18R) f18Sched with
  | none => simp [hr] at hw
  | some s =>
    simp only [hr, Option.map_some, Option.some.injEq, decide_eq_true_eq] at hw
    obtain ⟨hp, hk, ht, hc, h0, hn, hs0, hs1⟩ := hw
    have hreach : Reach f18S f18R s := run_reach Reach.init _ hr
    have hidle : ∀ b, (s.loc b).m = .park ∨ (s.loc b).m = .idle := by
      intro b
      cases b with
      | R => exact .inl hp
      | S i =>
        right
        match i with
        | 0 => exact hs0
        | 1 => exact hs1
        | n + 2 => exact (reach_ainv hreach).j2.freshM (n + 2) (by omega)
    have hnf : ¬ WakeInFlight s 7 := by
      simp only [WakeInFlight, not_or, not_exists]
      refine ⟨?_, ?_, by simp [hc]⟩
      · intro b hb; rcases hidle b with h1 | h1 <;> rw [h1] at hb <;> cases hb
      · intro b hb
        simp only [inPW] at hb
        rcases hidle b with h1 | h1 <;> rw [h1] at hb <;> simp at hb
    exact (hst s 7 hreach hp hk ht hnf).2.2 h0

/-- C06, PARTIAL (same excluded case F18), manual-poll form: while the waker of a poll that answered
Pending is still registered (so no wake has been recorded for it) and no wake is in flight, the state is
not SENT, it is CLOSED only if the receiver closed it itself, and EMPTY only with a live sender. -/
theorem pending_future_no_lost_wakeup_partial (h : Reach progS progR s)
    (hw : s.waker ≠ none) (har : s.armed = true) (hcl : s.closed .R = false)
    (hn2 : ∀ b, ¬ inPW (s.loc b).m) (hn3 : s.closer = none) :
    s.st ≠ .sent ∧ (s.st = .closed → s.rClosedIt = true) ∧ (s.st = .empty → s.scount ≠ 0) := by
  have hI := reach_ainv h
  refine ⟨?_, ?_, ?_⟩
  · intro e
    obtain ⟨b, hb⟩ := hI.w8.c2s hw (.inl har) e
    exact hn2 b (by simp [inPW, hb])
  · intro e
    rcases hI.w8.c2c hw (.inl har) hcl e with h1 | ⟨b, hb⟩
    · exact h1
    · exact absurd hb (hn2 b)
  · intro e h0
    exact hI.cnt.c3 e h0 hn3

/-- C06: dropping a pending receive future touches nothing but the harness-level bookkeeping: the state
word, the slot, the waker registration, all counters, flags, tokens and the whole token history are
unchanged (so every invariant and theorem above survives it; `ReceiveFuture` has no `Drop`). -/
theorem dropfut_conserves_tokens {f : Nat} {rest : List Op} {s' : State}
    (hp : s.prog .R = .dropfut f :: rest) (hs : step s .R .call = some s') :
    s'.st = s.st ∧ s'.slot = s.slot ∧ s'.waker = s.waker ∧ s'.armed = s.armed ∧ s'.scount = s.scount ∧
    s'.rdrop = s.rdrop ∧ s'.closed = s.closed ∧ s'.tok = s.tok ∧ s'.moved = s.moved ∧
    s'.received = s.received ∧ s'.dropped = s.dropped ∧ s'.sres = s.sres ∧ s'.mover = s.mover := by
  simp only [step] at hs
  unfold stepCall at hs
  split at hs
  · rename_i op rest' hm hpr
    rw [hp] at hpr
    cases hpr
    split at hs
    · cases hs
    · simp only [Option.some.injEq] at hs
      subst hs
      simp
  · cases hs

end Fv.Props.OneshotB
