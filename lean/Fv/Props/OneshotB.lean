import Fv.Lemmas.OneshotBReach
import Fv.Props.OneshotBWit
/-!
Property theorems of the STEP-LEVEL oneshot model `Fv.Chan.OneshotB` — over ALL programs (any number of
sender handles / clones, any op lists), all interleavings of single atomic actions, spurious park
returns included. They feed C01 / C03 / C04 / C05 / C06 / C09 for flavour `oneshot`.
Names are listed in /verif/props/oneshotb.theorems.
-/
namespace Fv.Props.OneshotB
open Fv.Chan.OneshotB

variable {progS : Nat → List Op} {progR : List Op} {s : State}

/-! ## (a) C01 / C03: at most one send ever succeeds; a failed send hands its value back -/

/-- C03: only one sender handle ever gets `Ok(())` from `send`. -/
theorem send_ok_unique (h : Reach progS progR s) {i j : Nat}
    (hi : s.sres i = some .ok) (hj : s.sres j = some .ok) : i = j := by
  have h4 := (reach_ainv h).i4
  have a := h4.resOk i hi
  have b := h4.resOk j hj
  rw [a] at b
  exact Option.some.inj b

/-- C01: the result of a send is `Ok`, or an error carrying exactly the value that was offered. -/
theorem failed_send_returns_value (h : Reach progS progR s) {i : Nat} {r : Res} (hr : s.sres i = some r) :
    r = .ok ∨ ∃ v, s.sval i = some v ∧ (r = .closedV v ∨ r = .sentV v) :=
  (reach_ainv h).i4.resErr i r hr

/-- C01 / C09 token conservation, sequence form: what went into the slot is, in order, what is still in
the slot, what the receiver got and what the channel dropped — and it is at most one value. -/
theorem token_conservation (h : Reach progS progR s) :
    s.moved = s.slot.toList ++ s.received ++ s.dropped ∧ s.moved.length ≤ 1 := by
  rcases (reach_ainv h).i4.acct with ⟨a, b, c, d⟩ | ⟨v, a, ⟨b, c, d⟩ | ⟨b, c, d⟩ | ⟨b, c, d⟩⟩ <;>
    simp [a, b, c, d]

/-- C01 exactly-once, per send call (token = the sender handle `i`, each handle sends at most once):
a value that went into the channel comes from a send that reports `Ok` (or is one action before doing
so) and is the whole content of `moved`; a value handed back in an error never went into the channel. -/
theorem token_fate (h : Reach progS progR s) {i v : Nat} (hv : s.sval i = some v) :
    (s.mover = some i → s.moved = [v] ∧ (s.sres i = some .ok ∨ s.sres i = none)) ∧
    (∀ w, s.sres i = some (.closedV w) ∨ s.sres i = some (.sentV w) → w = v ∧ s.mover ≠ some i) := by
  have hI := reach_ainv h
  have h4 := hI.i4
  constructor
  · intro hm
    obtain ⟨w, hw, hmv⟩ := h4.movedV i hm
    rw [hv] at hw
    cases hw
    refine ⟨hmv, ?_⟩
    rcases h4.moverRes i hm with h1 | h1
    · exact .inl h1
    · exact .inr (h4.bodyRes (.S i) (by simp [inBody, h1]))
  · intro w hw
    have hne : s.mover ≠ some i := by
      intro hm
      rcases h4.moverRes i hm with h1 | h1
      · rcases hw with hw | hw <;> simp [h1] at hw
      · have := h4.bodyRes (.S i) (by simp [inBody, h1])
        simp only [Ag.idx] at this
        rcases hw with hw | hw <;> simp [this] at hw
    refine ⟨?_, hne⟩
    rcases hw with hw | hw
    · rcases h4.resErr i _ hw with h1 | ⟨u, hu, h1 | h1⟩
      · cases h1
      · rw [hv] at hu; cases hu; cases h1; rfl
      · cases h1
    · rcases h4.resErr i _ hw with h1 | ⟨u, hu, h1 | h1⟩
      · cases h1
      · cases h1
      · rw [hv] at hu; cases hu; cases h1; rfl

/-! ## (b) C04 / C01: the receiver obtains the value iff a send succeeded, at most once -/

/-- whatever the receiver got was offered by the one send that reports `Ok`. -/
theorem received_from_ok_send (h : Reach progS progR s) {v : Nat} (hr : v ∈ s.received) :
    s.received = [v] ∧ ∃ i, s.mover = some i ∧ s.sval i = some v ∧ s.sres i = some .ok := by
  have hI := reach_ainv h
  have h4 := hI.i4
  have h3 := hI.i3
  rcases h4.acct with ⟨a, b, c, d⟩ | ⟨w, a, ⟨b, c, d⟩ | ⟨b, c, d⟩ | ⟨b, c, d⟩⟩
  · simp [c] at hr
  · simp [c] at hr
  · simp [c] at hr
    subst hr
    refine ⟨c, ?_⟩
    have hm : s.mover ≠ none := by
      intro hn
      have := h4.movedE.mpr hn
      simp [a] at this
    obtain ⟨i, hi⟩ := Option.ne_none_iff_exists'.mp hm
    obtain ⟨u, hu, hmv⟩ := h4.movedV i hi
    rw [a] at hmv
    cases hmv
    refine ⟨i, hi, hu, ?_⟩
    rcases h4.moverRes i hi with h1 | h1
    · exact h1
    · exact absurd b (h3.swapSl (.S i) h1)
  · simp [c] at hr

/-- the receiver gets at most one value, and a value is never both received and dropped by the channel. -/
theorem received_at_most_once (h : Reach progS progR s) :
    (s.received ++ s.dropped).length ≤ 1 := by
  rcases (reach_ainv h).i4.acct with ⟨a, b, c, d⟩ | ⟨v, a, ⟨b, c, d⟩ | ⟨b, c, d⟩ | ⟨b, c, d⟩⟩ <;>
    simp [c, d]

/-- nothing sent, nothing received: the receiver never invents a value. -/
theorem nothing_sent_nothing_received (h : Reach progS progR s) (hm : s.mover = none) :
    s.received = [] ∧ s.dropped = [] ∧ s.slot = none := by
  have h4 := (reach_ainv h).i4
  have := h4.movedE.mpr hm
  rcases h4.acct with ⟨a, b, c, d⟩ | ⟨v, a, _⟩
  · exact ⟨c, d, b⟩
  · simp [this] at a

/-! ## (d) C09: the slot's value is dropped exactly once in every teardown order -/

/-- once `OneShotShared::drop` has run the slot is empty: every value that went into the channel was
either handed to the receiver or dropped by the channel — exactly once (`token_conservation`). -/
theorem teardown_no_leak (h : Reach progS progR s) (hf : s.freed = true) :
    s.slot = none ∧ s.moved = s.received ++ s.dropped ∧ (s.received ++ s.dropped).length ≤ 1 := by
  have hs := (reach_ainv h).i3.freedSl hf
  have := token_conservation h
  refine ⟨hs, ?_, received_at_most_once h⟩
  simpa [hs] using this.1

/-- `OneShotShared::drop` runs only after every handle has released its reference, and nobody touches
the channel afterwards (every handle created so far is gone). -/
theorem freed_after_all_handles_gone (h : Reach progS progR s) (hf : s.freed = true) :
    s.gone .R = true ∧ ∀ i, i < s.nextH → s.gone (.S i) = true :=
  ⟨(reach_ainv h).i1.freedR hf, fun i hi => (reach_ainv h).i1.freedS i hf hi⟩

/-- the two unreachable arms of `try_recv` ("state was SENT but the slot is empty", "CAS SENT→TAKEN
failed") are dead code: no handle is ever there. -/
theorem try_recv_corrupt_arms_unreachable (h : Reach progS progR s) (a : Ag) :
    (s.loc a).m ≠ .tStClosed ∧ (s.loc a).m ≠ .tLdState2 ∧ (s.loc a).m ≠ .tLdCount2 :=
  ⟨(reach_ainv h).i3.dead1 a, (reach_ainv h).i3.dead2 a, (reach_ainv h).i3.dead3 a⟩

/-- mutual exclusion of the two critical sections on the state word: one writer, one taker. -/
theorem writer_taker_exclusive (h : Reach progS progR s) :
    (s.st = .writing ↔ s.writer ≠ none) ∧ (s.taker ≠ none → s.st = .taken ∧ s.slot ≠ none) :=
  ⟨(reach_ainv h).i2.stW, fun ht => ⟨(reach_ainv h).i3.tkSt ht, (reach_ainv h).i3.tkSl ht⟩⟩

end Fv.Props.OneshotB
