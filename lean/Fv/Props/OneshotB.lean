import Fv.Lemmas.OneshotBReach
/-!
Property theorems of the STEP-LEVEL oneshot model `Fv.Chan.OneshotB` — over ALL programs (any number of
sender handles / clones, any op lists), all interleavings of single atomic actions, spurious park
returns included. They feed C01 / C03 / C04 / C05 / C06 / C09 for flavour `oneshot`.
Names are listed in /verif/props/oneshotb.theorems.
-/
namespace Fv.Props.OneshotB
open Fv.Chan.OneshotB

variable {progS : Nat → List Op} {progR : List Op} {s : State}

/-! ## (a) C01 / C03: at most one send ever succeeds; a failed send hands its value back -/

/-- C03: only one sender handle ever gets `Ok(())` from `send`. -/
theorem send_ok_unique (h : Reach progS progR s) {i j : Nat}
    (hi : s.sres i = some .ok) (hj : s.sres j = some .ok) : i = j := by
  have h4 := (reach_ainv h).i4
  have a := h4.resOk i hi
  have b := h4.resOk j hj
  rw [a] at b
  exact Option.some.inj b

/-- C01: the result of a send is `Ok`, or an error carrying exactly the value that was offered. -/
theorem failed_send_returns_value (h : Reach progS progR s) {i : Nat} {r : Res} (hr : s.sres i = some r) :
    r = .ok ∨ ∃ v, s.sval i = some v ∧ (r = .closedV v ∨ r = .sentV v) :=
  (reach_ainv h).i4.resErr i r hr

/-- C01 / C09 token conservation, sequence form: what went into the slot is, in order, what is still in
the slot, what the receiver got and what the channel dropped — and it is at most one value. -/
theorem token_conservation (h : Reach progS progR s) :
    s.moved = s.slot.toList ++ s.received ++ s.dropped ∧ s.moved.length ≤ 1 := by
  rcases (reach_ainv h).i4.acct with ⟨a, b, c, d⟩ | ⟨v, a, ⟨b, c, d⟩ | ⟨b, c, d⟩ | ⟨b, c, d⟩⟩ <;>
    simp [a, b, c, d]

/-- C01 exactly-once, per send call (token = the sender handle `i`, each handle sends at most once):
a value that went into the channel comes from a send that reports `Ok` (or is one action before doing
so) and is the whole content of `moved`; a value handed back in an error never went into the channel. -/
theorem token_fate (h : Reach progS progR s) {i v : Nat} (hv : s.sval i = some v) :
    (s.mover = some i → s.moved = [v] ∧ (s.sres i = some .ok ∨ s.sres i = none)) ∧
    (∀ w, s.sres i = some (.closedV w) ∨ s.sres i = some (.sentV w) → w = v ∧ s.mover ≠ some i) := by
  have hI := reach_ainv h
  have h4 := hI.i4
  constructor
  · intro hm
    obtain ⟨w, hw, hmv⟩ := h4.movedV i hm
    rw [hv] at hw
    cases hw
    refine ⟨hmv, ?_⟩
    rcases h4.moverRes i hm with h1 | h1
    · exact .inl h1
    · exact .inr (h4.bodyRes (.S i) (by simp [inBody, h1]))
  · intro w hw
    have hne : s.mover ≠ some i := by
      intro hm
      rcases h4.moverRes i hm with h1 | h1
      · rcases hw with hw | hw <;> simp [h1] at hw
      · have := h4.bodyRes (.S i) (by simp [inBody, h1])
        simp only [Ag.idx] at this
        rcases hw with hw | hw <;> simp [this] at hw
    refine ⟨?_, hne⟩
    rcases hw with hw | hw
    · rcases h4.resErr i _ hw with h1 | ⟨u, hu, h1 | h1⟩
      · cases h1
      · rw [hv] at hu; cases hu; cases h1; rfl
      · cases h1
    · rcases h4.resErr i _ hw with h1 | ⟨u, hu, h1 | h1⟩
      · cases h1
      · cases h1
      · rw [hv] at hu; cases hu; cases h1; rfl

/-! ## (b) C04 / C01: the receiver obtains the value iff a send succeeded, at most once -/

/-- whatever the receiver got was offered by the one send that reports `Ok`. -/
theorem received_from_ok_send (h : Reach progS progR s) {v : Nat} (hr : v ∈ s.received) :
    s.received = [v] ∧ ∃ i, s.mover = some i ∧ s.sval i = some v ∧ s.sres i = some .ok := by
  have hI := reach_ainv h
  have h4 := hI.i4
  have h3 := hI.i3
  rcases h4.acct with ⟨a, b, c, d⟩ | ⟨w, a, ⟨b, c, d⟩ | ⟨b, c, d⟩ | ⟨b, c, d⟩⟩
  · simp [c] at hr
  · simp [c] at hr
  · simp [c] at hr
    subst hr
    refine ⟨c, ?_⟩
    have hm : s.mover ≠ none := by
      intro hn
      have := h4.movedE.mpr hn
      simp [a] at this
    obtain ⟨i, hi⟩ := Option.ne_none_iff_exists'.mp hm
    obtain ⟨u, hu, hmv⟩ := h4.movedV i hi
    rw [a] at hmv
    cases hmv
    refine ⟨i, hi, hu, ?_⟩
    rcases h4.moverRes i hi with h1 | h1
    · exact h1
    · exact absurd b (h3.swapSl (.S i) h1)
  · simp [c] at hr

/-- the receiver gets at most one value, and a value is never both received and dropped by the channel. -/
theorem received_at_most_once (h : Reach progS progR s) :
    (s.received ++ s.dropped).length ≤ 1 := by
  rcases (reach_ainv h).i4.acct with ⟨a, b, c, d⟩ | ⟨v, a, ⟨b, c, d⟩ | ⟨b, c, d⟩ | ⟨b, c, d⟩⟩ <;>
    simp [c, d]

/-- nothing sent, nothing received: the receiver never invents a value. -/
theorem nothing_sent_nothing_received (h : Reach progS progR s) (hm : s.mover = none) :
    s.received = [] ∧ s.dropped = [] ∧ s.slot = none := by
  have h4 := (reach_ainv h).i4
  have := h4.movedE.mpr hm
  rcases h4.acct with ⟨a, b, c, d⟩ | ⟨v, a, _⟩
  · exact ⟨c, d, b⟩
  · simp [this] at a

/-! ## (d) C09: the slot's value is dropped exactly once in every teardown order -/

/-- once `OneShotShared::drop` has run the slot is empty: every value that went into the channel was
either handed to the receiver or dropped by the channel — exactly once (`token_conservation`). -/
theorem teardown_no_leak (h : Reach progS progR s) (hf : s.freed = true) :
    s.slot = none ∧ s.moved = s.received ++ s.dropped ∧ (s.received ++ s.dropped).length ≤ 1 := by
  have hs := (reach_ainv h).i3.freedSl hf
  have := token_conservation h
  refine ⟨hs, ?_, received_at_most_once h⟩
  simpa [hs] using this.1

/-- `OneShotShared::drop` runs only after every handle has released its reference, and nobody touches
the channel afterwards (every handle created so far is gone). -/
theorem freed_after_all_handles_gone (h : Reach progS progR s) (hf : s.freed = true) :
    s.gone .R = true ∧ ∀ i, i < s.nextH → s.gone (.S i) = true :=
  ⟨(reach_ainv h).i1.freedR hf, fun i hi => (reach_ainv h).i1.freedS i hf hi⟩

/-- the two unreachable arms of `try_recv` ("state was SENT but the slot is empty", "CAS SENT→TAKEN
failed") are dead code: no handle is ever there. -/
theorem try_recv_corrupt_arms_unreachable (h : Reach progS progR s) (a : Ag) :
    (s.loc a).m ≠ .tStClosed ∧ (s.loc a).m ≠ .tLdState2 ∧ (s.loc a).m ≠ .tLdCount2 :=
  ⟨(reach_ainv h).i3.dead1 a, (reach_ainv h).i3.dead2 a, (reach_ainv h).i3.dead3 a⟩

/-- mutual exclusion of the two critical sections on the state word: one writer, one taker. -/
theorem writer_taker_exclusive (h : Reach progS progR s) :
    (s.st = .writing ↔ s.writer ≠ none) ∧ (s.taker ≠ none → s.st = .taken ∧ s.slot ≠ none) :=
  ⟨(reach_ainv h).i2.stW, fun ht => ⟨(reach_ainv h).i3.tkSt ht, (reach_ainv h).i3.tkSl ht⟩⟩

/-! ## Witnesses on concrete programs and schedules (`decide` on `run`) -/

/-- a whole operation of handle `a` with `n` actions between call and return -/
def opS (a : Ag) (n : Nat) : List (Ag × Label) := (a, .call) :: (List.replicate n (a, .act) ++ [(a, .ret)])
/-- call + the first `n` actions of an operation -/
def opP (a : Ag) (n : Nat) : List (Ag × Label) := (a, .call) :: List.replicate n (a, .act)
def acts (a : Ag) (n : Nat) : List (Ag × Label) := List.replicate n (a, .act)

/-- F18 program: `s1 = s0.clone(); s0.send(1); rx.try_recv(); block_on(rx.recv())` ‖ `drop(s1)` -/
def f18S : Nat → List Op
  | 0 => [.clone, .send 1]
  | 1 => [.drop]
  | _ => []
def f18R : List Op := [.tryRecv, .recv 7]
/-- clone; send (Ok); try_recv takes the value (state TAKEN); recv polls, registers, answers Pending and
parks; THEN the last sender handle is dropped: `decrement_senders` finds TAKEN and wakes nobody. -/
def f18Sched : List (Ag × Label) :=
  opS (.S 0) 1 ++ opS (.S 0) 12 ++ opS .R 5 ++ opP .R 6 ++ opS (.S 1) 6

/-- C05 / C06 FAILS on the code as it is (known finding F18, `oneshot:recv:blocked-after-all-senders-gone`;
replay: /verif/findings/OneshotB_F18.case): a reachable state in which the receiver is parked in
`recv()` with no park token, its waker still registered and armed, nobody about to wake it (every sender
handle is gone and idle), although the state is TAKEN and `sender_count` is 0 — the next poll would
answer `Disconnected`, but it never happens. -/
theorem C05_fails_F18_recv_parked_in_TAKEN_never_woken :
    (run (init f18S f18R) f18Sched).map (fun s =>
      decide ((s.loc .R).m = .park ∧ s.tok 7 = false ∧ s.waker = some (.task 7) ∧ s.armed = true ∧
        s.st = .taken ∧ s.scount = 0 ∧ s.closer = none ∧
        s.gone (.S 0) = true ∧ s.gone (.S 1) = true ∧ (s.loc (.S 0)).m = .idle ∧ (s.loc (.S 1)).m = .idle ∧
        s.received = [1])) = some true := by decide

/-- `Receiver::is_closed` is not atomic (state word, then `sender_count`): it answers `true` from a stale
EMPTY and a fresh count 0 while a value is SENT and waiting to be received. Program: `tx.send(1)` ‖
`rx.is_closed()`; schedule: the probe loads EMPTY, the whole send (and the drop of the sender) runs, the
probe loads count 0. (This is why the linearizability tie does not compare that probe.) -/
theorem receiver_is_closed_stale_true :
    (run (init (fun i => if i = 0 then [.send 1] else []) [.isClosed])
      (opP .R 1 ++ opS (.S 0) 17 ++ acts .R 1)).map (fun s =>
      decide ((s.loc .R).m = .ret (.b true) ∧ s.st = .sent ∧ s.slot = some 1 ∧ s.sres 0 = some .ok)) = some true := by decide

/-- reopen program: two handles are closed, the second closed handle is cloned and the clone sends -/
def reopenS : Nat → List Op
  | 0 => [.clone, .close]
  | 1 => [.close, .clone]
  | 2 => [.send 5]
  | _ => []
def reopenSched : List (Ag × Label) :=
  opS (.S 0) 1 ++ opS (.S 1) 2 ++ opP (.S 0) 2 ++          -- s1 = s0.clone(); s1.close(); s0.close() up to the fetch_sub (count 0)
  opP .R 3 ++                                               -- try_recv: EMPTY, count 0, about to CAS EMPTY→CLOSED
  opS (.S 1) 1 ++ opS (.S 2) 17 ++                          -- s2 = s1.clone() (a closed handle!); s2.send(5) → Ok
  acts .R 1 ++ [(.R, .ret)] ++ opS .R 5                     -- the CAS fails, try_recv says Disconnected; the next one gets 5

/-- C04 "Disconnected is final" FAILS once a CLOSED sender handle is cloned (the known
clone-of-closed-handle family): `try_recv` answers `Disconnected` from a stale EMPTY + count 0, the next
`try_recv` returns the value a resurrected sender sent in between. -/
theorem C04_fails_disconnected_then_value_after_reopen :
    (run (init reopenS [.tryRecv, .tryRecv]) reopenSched).map (fun s =>
      decide (s.results .R = [.disc, .okV 5] ∧ s.reopened = true ∧ s.discRace = true)) = some true := by decide

/-! ### teardown orders (non-vacuity of `teardown_no_leak`: `freed` is reached with the value in each place) -/

def oneSend : Nat → List Op := fun i => if i = 0 then [.send 1] else []

/-- value never taken, sender gone first: the receiver's Drop claims SENT→TAKEN and drops the value. -/
example : (run (init oneSend [.drop]) (opS (.S 0) 17 ++ opS .R 8)).map (fun s =>
    decide (s.freed = true ∧ s.dropped = [1] ∧ s.received = [] ∧ s.slot = none ∧ s.sres 0 = some .ok)) = some true := by decide

/-- receiver dropped first, while the sender is between its CAS and the slot write ("drop race"): the send
still reports Ok, the last sender's `decrement_senders` claims SENT→TAKEN and drops the value. -/
example : (run (init oneSend [.drop]) (opP (.S 0) 5 ++ opS .R 5 ++ acts (.S 0) 14 ++ [(.S 0, .ret)])).map (fun s =>
    decide (s.freed = true ∧ s.dropped = [1] ∧ s.received = [] ∧ s.slot = none ∧ s.sres 0 = some .ok ∧
      s.results (.S 0) = [.ok])) = some true := by decide

/-- value taken by the receiver, then both sides go: nothing is dropped by the channel. -/
example : (run (init oneSend [.tryRecv, .drop]) (opS (.S 0) 17 ++ opS .R 5 ++ opS .R 6)).map (fun s =>
    decide (s.freed = true ∧ s.dropped = [] ∧ s.received = [1] ∧ s.slot = none)) = some true := by decide

/-- receiver gone before the send starts: the send fails with `Closed(1)`, nothing enters the channel. -/
example : (run (init oneSend [.drop]) (opS .R 5 ++ opS (.S 0) 11)).map (fun s =>
    decide (s.freed = true ∧ s.moved = [] ∧ s.sres 0 = some (.closedV 1) ∧ s.results (.S 0) = [.closedV 1])) = some true := by decide

/-- two senders race: exactly one `Ok`, the other gets its value back (`send_ok_unique`, `token_fate`). -/
example : (run (init (fun i => if i = 0 then [.clone, .send 1] else if i = 1 then [.send 2] else []) [])
    (opS (.S 0) 1 ++ opP (.S 0) 4 ++ opS (.S 1) 7 ++ acts (.S 0) 13 ++ [(.S 0, .ret)])).map (fun s =>
    decide (s.sres 0 = some .ok ∧ s.sres 1 = some (.sentV 2) ∧ s.moved = [1] ∧ s.slot = some 1)) = some true := by decide

end Fv.Props.OneshotB
