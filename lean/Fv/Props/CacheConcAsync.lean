import Fv.Lemmas.CacheConcLock
import Fv.Props.CacheConc
/-!
# The async handle in the concurrent model; `clear`'s lock acquisition

`Fv.Cache.Conc` covers programs that MIX calls on the sync handle (`Cache`) and on the async handle
(`AsyncCache`): `Label.call op async` records per call which handle is used (`State.amode`). The async
paths of get / fetch / peek / insert / insert_with_ttl / remove / compute / try_compute /
entry().or_insert / run_maintenance have the same critical sections in the same order as the sync
ones (the tie checks it: same named points, lock kinds `ra` / `wa` / `la` / batcher `tl` in the
footprint), so they share the model's steps, and every theorem of `Fv.Props.CacheConc`, `C11Conc`,
`C12Conc`, `C13Conc`, `C16Conc` quantifies over such mixed programs. Two differences are modelled:
the async `insert` never runs cooperative maintenance inline (`stepCoopLock` is disabled), and
`clear` acquires the shard write locks differently.

`clear` holds every shard's write lock until it returns. The sync handle takes them in index order,
blocking. The async handle polls `join_all(write_async)`: a shard that is held is SKIPPED (the future
stays pending) and the next shard is still tried — so two clears, at least one of them async, can each
hold a shard the other waits for.
-/
namespace Fv.Props.CacheConcAsync
open Fv.Cache.Conc

/-- a shard's map lock is held across steps by at most one `clear`, and `sheld` says exactly which -/
theorem clear_holds_exclusively {c : Cfg} {s : State} (h : Reach c s) {t1 t2 i : Nat}
    (h1 : i ∈ holdsShards (s.pc t1)) (h2 : i ∈ holdsShards (s.pc t2)) : t1 = t2 := by
  have hi := invS_reach h
  have e1 := hi.held t1 i h1
  have e2 := hi.held t2 i h2
  rw [e1] at e2; exact Option.some.inj e2

/-- no lock is leaked: at quiescence no shard is held -/
theorem no_shard_held_at_quiescence {c : Cfg} {s : State} (h : Reach c s) (hq : Quiescent c s) (i : Nat) :
    s.sheld i = none := by
  cases hm : s.sheld i with
  | none => rfl
  | some t =>
    have := (invS_reach h).owner t i hm
    have hfresh := (invA_reach h).fresh
    by_cases ht : t < c.nThreads
    · have hr := hq t ht
      cases hpc : s.pc t <;> simp [hpc, isRest, holdsShards] at hr this
    · rw [hfresh t (by omega)] at this; simp [holdsShards] at this

/-- a step that takes the map lock of a shard held by a `clear` is disabled (the sync caller blocks,
the async caller's future stays pending) -/
theorem step_on_held_shard_disabled {c : Cfg} {s : State} {t : Nat} {l : Label}
    (hb : blocked c s t l = true) : step c s t l = none := by
  simp [step, hb]

/-- a thread inside `clear` can only acquire shards, finish the clear (or see the clock advance) -/
theorem clear_thread_steps {c : Cfg} {s s' : State} {t : Nat} {l : Label} {a p : List Nat}
    (hpc : s.pc t = .clr a p) (h : step c s t l = some s') :
    (∃ i, l = .clrAcq i) ∨ (∃ i, l = .clrGet i) ∨ l = .clear ∨ (∃ d, l = .advance d) := by
  replace h := step_step0 h
  cases l <;> simp only [step0] at h
  case clrAcq i => exact Or.inl ⟨i, rfl⟩
  case clrGet i => exact Or.inr (Or.inl ⟨i, rfl⟩)
  case clear => exact Or.inr (Or.inr (Or.inl rfl))
  case advance d => exact Or.inr (Or.inr (Or.inr ⟨d, rfl⟩))
  case call op a' => unfold stepCall at h; rw [hpc] at h; split at h <;> simp at h
  all_goals
    first
    | (unfold stepRead at h) | (unfold stepInsMap at h) | (unfold stepInsSub at h) | (unfold stepInsEv at h)
    | (unfold stepInsAdd at h) | (unfold stepCoopSkip at h) | (unfold stepCoopLock at h) | (unfold stepRmMap at h)
    | (unfold stepRmPol at h) | (unfold stepRmSub at h) | (unfold stepRmNote at h) | (unfold stepCompute at h)
    | (unfold stepOiMap at h) | (unfold stepOiEv at h) | (unfold stepOiAdd at h) | (unfold stepMLock at h)
    | (unfold stepRecv at h) | (unfold stepAdmit at h) | (unfold stepVictim at h) | (unfold stepEvSub at h)
    | (unfold stepEvNote at h) | (unfold stepTtlAdvance at h) | (unfold stepTtlMap at h) | (unfold stepCapLoad at h)
    | (unfold stepCapEvict at h) | (unfold stepCapSub at h) | (unfold stepUnlock at h) | (unfold stepTtiMap at h)
    | (unfold stepCapMap at h)
  all_goals (rw [hpc] at h; simp at h)

def cfgTwoShards : Cfg := { nThreads := 2, nShards := 2, capacity := 100 }

/-- two async clears on a 2-shard cache: thread 0 takes shard 0; thread 1 finds shard 0 held, skips it
(pending) and takes shard 1; thread 0 finds shard 1 held (pending). -/
def traceClearDeadlock : List (Nat × Label) :=
  [(0, .call .clear true), (1, .call .clear true), (0, .clrAcq 0), (1, .clrAcq 0), (1, .clrAcq 1), (0, .clrAcq 1)]

theorem run_clearDeadlock :
    (run cfgTwoShards init traceClearDeadlock).map (fun s => (s.pc 0, s.pc 1)) =
      some (.clr [0] [1], .clr [1] [0]) := by decide

theorem run_clearDeadlock' :
    (run cfgTwoShards init traceClearDeadlock).map (fun s => (s.sheld 0, s.sheld 1, s.amode 0, s.amode 1)) =
      some (some 0, some 1, true, true) := by decide

/-- **`AsyncCache::clear` can deadlock** (`join_all` acquires the shard write locks in no fixed order):
a reachable state in which both threads are inside `clear`, each holding the shard the other waits for,
and NEITHER has any enabled step (other than watching the clock) — so neither ever releases. -/
theorem async_clear_deadlock_reachable :
    ∃ s, Reach cfgTwoShards s ∧ ¬ Quiescent cfgTwoShards s ∧
      ∀ t, t < 2 → ∀ l s', step cfgTwoShards s t l = some s' → ∃ d, l = .advance d := by
  cases hr : run cfgTwoShards init traceClearDeadlock with
  | none => exact absurd hr (by decide)
  | some s =>
    have h := run_clearDeadlock
    rw [hr] at h; simp at h
    obtain ⟨hp0, hp1⟩ := h
    have h' := run_clearDeadlock'
    rw [hr] at h'; simp at h'
    obtain ⟨hs0, hs1, ha0, ha1⟩ := h'
    refine ⟨s, Fv.Props.CacheConc.reach_of_run _ _ _ Reach.init hr, ?_, ?_⟩
    · intro hq
      have := hq 0 (by decide)
      rw [hp0] at this; simp [isRest] at this
    · intro t ht l s' hstep
      have ht' : t = 0 ∨ t = 1 := by omega
      rcases ht' with rfl | rfl
      · rcases clear_thread_steps hp0 hstep with ⟨i, rfl⟩ | ⟨i, rfl⟩ | rfl | hd
        · replace hstep := step_step0 hstep
          simp [step0, stepClrAcq, hp0, cfgTwoShards] at hstep
          obtain ⟨⟨h1, h2⟩, _⟩ := hstep
          subst h2; simp at h1
        · replace hstep := step_step0 hstep
          simp [step0, stepClrGet, hp0, ha0] at hstep
          obtain ⟨rfl, hstep⟩ := hstep
          rw [hs1] at hstep; simp at hstep
        · replace hstep := step_step0 hstep
          simp [step0, stepClear, hp0] at hstep
        · exact hd
      · rcases clear_thread_steps hp1 hstep with ⟨i, rfl⟩ | ⟨i, rfl⟩ | rfl | hd
        · replace hstep := step_step0 hstep
          simp [step0, stepClrAcq, hp1, cfgTwoShards] at hstep
          obtain ⟨⟨h1, h2⟩, _⟩ := hstep
          subst h2; simp at h1
        · replace hstep := step_step0 hstep
          simp [step0, stepClrGet, hp1, ha1] at hstep
          obtain ⟨rfl, hstep⟩ := hstep
          rw [hs0] at hstep; simp at hstep
        · replace hstep := step_step0 hstep
          simp [step0, stepClear, hp1] at hstep
        · exact hd

/-- the sync `clear` takes the shards in index order: it never tries shard `i` before holding `0..i-1` -/
theorem sync_clear_acquires_in_order {c : Cfg} {s s' : State} {t i : Nat} {a p : List Nat}
    (hpc : s.pc t = .clr a p) (hs : s.amode t = false) (h : step c s t (.clrAcq i) = some s') :
    i = a.length + p.length ∧ s.sheld i = none ∧ s'.pc t = .clr (a ++ [i]) p := by
  replace h := step_step0 h
  simp only [step0, stepClrAcq, hpc] at h
  split at h
  · rename_i hc
    simp at hc
    split at h
    · simp at h; subst h; exact ⟨hc.2, by assumption, by simp⟩
    · simp [hs] at h
  · simp at h

/-- non-vacuity of the mixed sync/async setting: an async `or_insert` and a sync `or_insert` race on one
absent key; exactly one inserts (`C11c_or_insert_once` applies to this history). -/
example : (run Fv.Props.CacheConc.cfg2 init
    [(0, .call (.orInsert 1 10 1) true), (1, .call (.orInsert 1 11 1) false), (1, .oiMap), (0, .oiMap)]).map
    (fun s => (s.pc 0, (s.map 1).map (·.val))) = some (.done (some 11), some 11) := by decide

end Fv.Props.CacheConcAsync
