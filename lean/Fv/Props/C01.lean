import Fv.Lemmas.ChanFinal
/-!
# C01 — point-to-point channels deliver every sent value exactly once; failed operations have no effect

Vocabulary: `Fv/Chan/Spec.lean` (state `St`, ghost lists `sentOk`, `consumed`, `recvOk`, `returned`,
`lost`, `chanDropped`), `Fv/Chan/Seq.lean` (`micro` = one atomic step, `stepOp` = Q, `runOps`),
`Fv/Chan/Lin.lean` (`History`, `linearizable`), `Fv/Lemmas/ChanHist.lean` (`offered`, `received`,
`handedBack`, `accepted` — read off the raw history, results only).

All statements are for every flavour (`fl : Flavour` — family, kind, capacity, sync/async), every
checker configuration, every operation list / history: no bounds.

* `C01_sequence_equation*` — order and exactly-once in one equation, for every sequential program
  and after every single atomic step of any thread;
* `C01_received_were_sent_once` — a sequential program whose offered values are distinct never
  receives a value twice or a value that was not sent;
* `C01_send_effect`, `C01_batch_partition`, `C01_failed_send_no_effect`, `C01_recv_effect`,
  `C01_failed_recv_no_effect` — what one API call does, success or failure;
* `C01_linearizable_exactly_once`, `C01_accepted_accounted` — **soundness of the linearizability
  checker**: every concurrent history it accepts satisfies exactly-once, stated on the raw history;
* `C01_ok_send_delivered_partial` + `C01_fails_F1` — "every Ok send is eventually received" holds
  when the channel destroyed nothing; the rendezvous cancel race (F1) destroys a value whose sender
  was told Ok.
-/
namespace Fv.Props.C01
open Fv.Chan List

/-- **Sequence equation** (order and exactly-once together) after every sequential program: the
accepted values are, in order, those taken out of the buffer followed by those still buffered; the
delivered ones are a subsequence of the former, and all of them as long as the channel itself
destroyed nothing (no receiver-close drain, no teardown). -/
theorem C01_sequence_equation (fl : Flavour) (ops : List Op) :
    let s := runOps fl (init fl) ops
    s.sentOk = s.consumed ++ s.buf ∧ s.recvOk.Sublist s.consumed ∧
      (s.chanDropped = [] → s.sentOk = s.recvOk ++ s.buf) := by
  have h := runOps_inv ops (init_inv fl)
  exact ⟨h.seq, h.sub, fun hd => by rw [h.seq, h.nodrop hd]⟩

/-- The same equation is preserved by every single atomic step of any thread's operation in the
concurrent model (any interleaving, any configuration, including the concurrent-only branches). -/
theorem C01_sequence_equation_step {fl : Flavour} {cfg : Cfg} {s s' : St} {p p' : P}
    (hi : Inv fl s) (hs : (s', p') ∈ micro fl cfg s p) :
    s'.sentOk = s'.consumed ++ s'.buf ∧ s'.recvOk.Sublist s'.consumed ∧
      (s'.chanDropped = [] → s'.sentOk = s'.recvOk ++ s'.buf) := by
  have h := micro_inv hs hi
  exact ⟨h.seq, h.sub, fun hd => by rw [h.seq, h.nodrop hd]⟩

example : (runOps ⟨.sb, .spsc, 2, false⟩ (init ⟨.sb, .spsc, 2, false⟩)
    [.snd .trySend ⟨.tx, 0⟩ [1], .snd .trySend ⟨.tx, 0⟩ [2], .rcv .tryRecv ⟨.rx, 0⟩ 0]).sentOk = [1, 2] := by decide

/-- No value is received twice, none that was not sent, and none that was handed back in an error,
in any sequential program whose offered values are pairwise distinct. -/
theorem C01_received_were_sent_once (fl : Flavour) (ops : List Op) (hn : (ops.flatMap Op.vals).Nodup) :
    let s := runOps fl (init fl) ops
    s.recvOk.Nodup ∧ (∀ v ∈ s.recvOk, v ∈ s.sentOk ∧ v ∈ ops.flatMap Op.vals) ∧
      (∀ v ∈ s.recvOk, v ∉ s.returned ∧ v ∉ s.lost) := by
  intro s
  have hinv : Inv fl s := runOps_inv ops (init_inv fl)
  have hled : Ledger s ([] ++ stranded fl (init fl) ops) := runOps_ledger fl ops (init_ledger fl)
  have hle : ∀ v, count v s.created ≤ count v (ops.flatMap Op.vals) := by
    intro v; have := runOps_created_le fl ops (init fl) v
    have e : (init fl).created = [] := rfl
    rw [e] at this; simpa using this
  have h1 : ∀ v, count v s.recvOk + count v s.returned + count v s.lost ≤ 1 := by
    intro v
    have a := hled v
    have b := hle v
    have c := (nodup_iff_count.mp hn) v
    simp only [St.placed, count_append] at a
    omega
  refine ⟨nodup_iff_count.mpr (fun v => by have := h1 v; omega), ?_, ?_⟩
  · intro v hv
    have hpos : 0 < count v s.recvOk := count_pos_iff.mpr hv
    refine ⟨?_, ?_⟩
    · have : v ∈ s.consumed := hinv.sub.subset hv
      rw [hinv.seq]; exact mem_append_left _ this
    · have a := hled v
      have b := hle v
      simp only [St.placed, count_append] at a
      exact count_pos_iff.mp (by omega)
  · intro v hv
    have hpos : 0 < count v s.recvOk := count_pos_iff.mpr hv
    have := h1 v
    exact ⟨fun h => by have := count_pos_iff.mpr h; omega, fun h => by have := count_pos_iff.mpr h; omega⟩

example : ([Op.snd .trySend ⟨.tx, 0⟩ [1], .snd .send ⟨.tx, 0⟩ [2]].flatMap Op.vals).Nodup := by decide

/-- What a send form does on a buffered channel (spsc / mpsc / mpmc, bounded or unbounded), success
or failure, single or batch, sync or async: it appends exactly the values it reports as accepted
(`sent`, a prefix of the input, in input order) to the buffer and to the accepted sequence, and
changes nothing else: not the handle table, not the counters or flags, not what was received. -/
theorem C01_send_effect {fl : Flavour} (hrv : fl.fam ≠ .rv) (hos : fl.fam ≠ .os) (s : St) (f : Form) (h : HName)
    (vs : List Val) :
    let r := stepOpS fl s (.snd f h vs)
    (∃ γ, r.1.buf = s.buf ++ γ ∧ r.1.sentOk = s.sentOk ++ γ ∧ sentOf r.2 = γ) ∧
      r.1.shell = s.shell ∧ r.1.recvOk = s.recvOk ∧ r.1.consumed = s.consumed := by
  have hp := stepOpS_send_pushed hrv hos s f h vs
  obtain ⟨γ, a, b, c⟩ := hp.ex
  exact ⟨⟨γ, a, b, by simpa using c⟩, hp.shell, hp.recvOk, hp.consumed⟩

/-- **Batch errors partition the input**: whatever a send form returns (other than "no such handle"
/ "form not offered by this handle type"), `sent ++ handed back ++ dropped = input`, in input order;
`dropped` is non-empty only for the value-less `SendError` of a failing `send`. -/
theorem C01_batch_partition (fl : Flavour) (s : St) (f : Form) (h : HName) (vs : List Val) (o : Out)
    (ho : (stepOpS fl s (.snd f h vs)).2 = .fin o) (h1 : o.tag ≠ .noHandle) (h2 : o.tag ≠ .unsupported) :
    vs = o.sent ++ o.back ++ o.lost ∧ o.got = [] := by
  obtain ⟨_, _, _, hp⟩ := stepOpS_ok fl s (.snd f h vs)
  rw [ho] at hp
  simp only [PInv] at hp
  obtain ⟨hh, hg⟩ := hp.1 rfl
  rcases hh with e | e
  · exact ⟨e, hg⟩
  · rcases e.1 with t | t
    · exact absurd t h1
    · exact absurd t h2

example : (stepOpS ⟨.pb, .mpmc, 2, false⟩ (init ⟨.pb, .mpmc, 2, false⟩) (.snd .trySendBatch ⟨.tx, 0⟩ [1, 2, 3])).2
    = .fin { tag := .full, sent := [1, 2], back := [3] } := by decide

/-- **A failed send has no effect** on a buffered channel: if nothing was accepted (`try_send` →
Full / Closed, `send` → Closed, batch forms with `sent = []`), buffer, accepted sequence, handle
table, counters and flags are all unchanged and every input value is handed back (or, for `send`,
dropped: its error type carries no value). -/
theorem C01_failed_send_no_effect {fl : Flavour} (hrv : fl.fam ≠ .rv) (hos : fl.fam ≠ .os) (s : St) (f : Form)
    (h : HName) (vs : List Val) (o : Out) (ho : (stepOpS fl s (.snd f h vs)).2 = .fin o) (hs : o.sent = [])
    (h1 : o.tag ≠ .noHandle) (h2 : o.tag ≠ .unsupported) :
    (stepOpS fl s (.snd f h vs)).1.buf = s.buf ∧ (stepOpS fl s (.snd f h vs)).1.sentOk = s.sentOk ∧
      (stepOpS fl s (.snd f h vs)).1.shell = s.shell ∧ vs = o.back ++ o.lost := by
  obtain ⟨⟨γ, a, b, c⟩, d, _, _⟩ := C01_send_effect hrv hos s f h vs
  have hγ : γ = [] := by rw [← c, ho]; simpa [sentOf] using hs
  subst hγ
  have hp := (C01_batch_partition fl s f h vs o ho h1 h2).1
  exact ⟨by simpa using a, by simpa using b, d, by simpa [hs] using hp⟩

/-- What a receive form does on a buffered channel: it removes exactly the values it returns from
the front of the buffer, in order, and changes nothing else. -/
theorem C01_recv_effect {fl : Flavour} (hrv : fl.fam ≠ .rv) (hos : fl.fam ≠ .os) (s : St) (f : Form) (h : HName)
    (n : Nat) :
    let r := stepOpS fl s (.rcv f h n)
    (∃ γ, s.buf = γ ++ r.1.buf ∧ r.1.recvOk = s.recvOk ++ γ ∧ r.1.consumed = s.consumed ++ γ ∧ gotOf r.2 = γ) ∧
      r.1.shell = s.shell ∧ r.1.sentOk = s.sentOk := by
  have hp := stepOpS_recv_popped hrv hos s f h n
  obtain ⟨γ, a, b, c, d⟩ := hp.ex
  exact ⟨⟨γ, a, b, c, by simpa using d⟩, hp.shell, hp.sentOk⟩

/-- **A failed receive consumes nothing** (Empty / Timeout / Disconnected, or blocked). -/
theorem C01_failed_recv_no_effect {fl : Flavour} (hrv : fl.fam ≠ .rv) (hos : fl.fam ≠ .os) (s : St) (f : Form)
    (h : HName) (n : Nat) (hg : gotOf (stepOpS fl s (.rcv f h n)).2 = []) :
    (stepOpS fl s (.rcv f h n)).1.buf = s.buf ∧ (stepOpS fl s (.rcv f h n)).1.recvOk = s.recvOk ∧
      (stepOpS fl s (.rcv f h n)).1.shell = s.shell := by
  obtain ⟨⟨γ, a, b, _, d⟩, e, _⟩ := C01_recv_effect hrv hos s f h n
  have : γ = [] := by rw [← d]; exact hg
  subst this
  exact ⟨by simpa using a.symm, by simpa using b, e⟩

example : (stepOp ⟨.mb, .mpsc, 1, false⟩ (init ⟨.mb, .mpsc, 1, false⟩) (.rcv .tryRecv ⟨.rx, 0⟩ 0)).2.tag = .empty := by
  decide

/-! ## the linearizability checker is sound for exactly-once -/

/-- Exactly-once on the raw history (results of operations only): no value is reported received
twice, every received value was offered by some send call of the history, and no value is both
received and handed back to its sender. -/
def ExactlyOnce (h : History) : Prop :=
  (received h).Nodup ∧ (∀ v ∈ received h, v ∈ offered h) ∧ (∀ v ∈ received h, v ∉ handedBack h)

/-- **Every concurrent history the checker accepts satisfies exactly-once**, for every flavour,
configuration, number of threads and history length (values offered once each, as the harness does). -/
theorem C01_linearizable_exactly_once (fl : Flavour) (cfg : Cfg) (h : History) (q : Bool)
    (hn : (offered h).Nodup) (hl : linearizable fl cfg h q = true) : ExactlyOnce h := by
  obtain ⟨sf, pf, _, ha⟩ := linearizable_acc hl
  have hb : ∀ v, count v (received h) + count v (handedBack h) ≤ 1 := by
    intro v
    have := ha.bounds v
    have := (nodup_iff_count.mp hn) v
    omega
  refine ⟨nodup_iff_count.mpr (fun v => by have := hb v; omega), ?_, ?_⟩
  · intro v hv
    have hpos : 0 < count v (received h) := count_pos_iff.mpr hv
    have := ha.bounds v
    exact count_pos_iff.mp (by omega)
  · intro v hv hb'
    have h1 : 0 < count v (received h) := count_pos_iff.mpr hv
    have h2 : 0 < count v (handedBack h) := count_pos_iff.mpr hb'
    have := hb v
    omega

/-- Where the accepted values are: every value some completed send reported as accepted is, in the
final state of the witnessing linearization, accounted for exactly as the model says — received by a
completed receive, or by one still pending / owed to a parked receiver, or still buffered, or
destroyed by the channel itself. -/
theorem C01_accepted_accounted (fl : Flavour) (cfg : Cfg) (h : History) (q : Bool) (sf : St)
    (hl : linearize fl cfg h q = some sf) :
    ∃ pf : LinCore.Pend PL, ∀ v, count v (accepted h) ≤
      count v (received h) + pendSum gotOf v pf + count v sf.owed + count v sf.buf + count v sf.chanDropped := by
  obtain ⟨pf, ha, _⟩ := linearize_acc hl
  refine ⟨pf, fun v => ?_⟩
  have a := ha.sent v
  have b := ha.recv v
  have c := ha.inv.cons v
  have d : count v sf.sentOk = count v sf.consumed + count v sf.buf := by rw [ha.inv.seq, count_append]
  omega

/-- **Every Ok send is delivered** once the receivers have drained the channel — provided the channel
itself destroyed nothing. (`pf = []`: every operation returned; `buf = []`: drained.) The hypothesis
`chanDropped = []` is what finding F1 violates. -/
theorem C01_ok_send_delivered_partial (fl : Flavour) (cfg : Cfg) (h : History) (q : Bool) (sf : St)
    (hl : linearize fl cfg h q = some sf) (hnd : sf.chanDropped = []) (hbuf : sf.buf = [])
    (howed : sf.owed = []) :
    ∃ pf : LinCore.Pend PL, ∀ v, count v (accepted h) ≤ count v (received h) + pendSum gotOf v pf := by
  obtain ⟨pf, hacc⟩ := C01_accepted_accounted fl cfg h q sf hl
  exact ⟨pf, fun v => by have := hacc v; simp [hnd, hbuf, howed] at this; omega⟩

/-! ### F1 — rendezvous: cancel CAS outside the lock

A timed receiver that has already CASed its record `WAITING → CANCELLED` but not yet unlinked it is
still served by a sender (`fulfill_receiver` never looks at the record's state): the sender is told
Ok, the receiver returns Timeout and drops the value. -/

/-- thread 1: `recv_timeout(0)` registers, then performs its cancel CAS; thread 2: `try_send 1`
finds the record and "delivers"; thread 1 unlinks and returns Timeout. -/
def f1Run : St × P × P :=
  let fl : Flavour := ⟨.rv, .mpmc, 0, false⟩
  let s0 := init fl
  let (s1, r1) := start fl linCfg s0 1 (.rcv .recvTimeout0 ⟨.rx, 0⟩ 0)     -- registered
  let (s2, r2) := (microDet fl linCfg s1 r1).getD (s1, r1)                  -- CAS WAITING→CANCELLED
  let (s3, t1) := start fl linCfg s2 2 (.snd .trySend ⟨.tx, 0⟩ [1])         -- sender serves the cancelled record
  let (s4, r3) := (microDet fl linCfg s3 r2).getD (s3, r2)                  -- unlink, Timeout
  (s4, t1, r3)

theorem C01_fails_F1 :
    f1Run.2.1 = .fin { tag := .ok, sent := [1] } ∧ f1Run.2.2 = .fin { tag := .timeout } ∧
      f1Run.1.sentOk = [1] ∧ f1Run.1.recvOk = [] ∧ f1Run.1.chanDropped = [1] ∧ f1Run.1.buf = [] := by
  decide

end Fv.Props.C01
