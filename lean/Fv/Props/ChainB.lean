import Fv.Lemmas.ChainBAll
import Fv.Lemmas.MpscUBInv
import Fv.Lemmas.MpmcUBProj
/-!
# ChainB — the slab-backed Vyukov chain (`channels/src/internal/slab_chain.rs`), step level

Model: `Fv.Chan.ChainB` (one visible action per step; `SLAB_NODES`, `SLAB_POOL_CAP` are parameters).
Every theorem below quantifies over every number of sender handles, every program (any sequence of
sends, batches of any size, clones, closes), every interleaving of the atomic actions of all
producers with the consumer side, and every slab size `N ≥ 1` / pool capacity.

Feeds C01/C02 (exactly-once, FIFO in swap order, batches contiguous), C04 (straggler re-drain:
Disconnected only after drain), C09 (slab accounting, recycling safety, teardown drops every token
exactly once) for the flavours `mpsc_u`, `mpsc_u_async`, `mpmc_u`, `mpmc_u_async`; the channel
models `Fv.Chan.MpscUB` / `Fv.Chan.MpmcUB` embed this model step for step.
-/
namespace Fv.Props.ChainB
open Fv.Chan.ChainB

variable {cfg : Cfg} {s s' : State}

/-! ## V1 — exactly once, FIFO in swap order (C01, C02) -/

/-- **V1.** In every reachable state the consumer cursor is the node at swap position `k`, and the
values taken out of the chain so far (handed to receivers, then — after the last handle is gone —
destroyed by the `Drop` walk) are exactly the first `k` published values, in swap order:
nothing is delivered twice, skipped, reordered or invented. -/
theorem V1_cursor_and_prefix (hN : 0 < cfg.N) (h : Reach cfg s) :
    s.tail = s.at_ s.k ∧ s.recvd ++ s.dropped = s.sent.take s.k ∧ s.k ≤ s.sent.length := by
  have hi := inv_reach hN h
  exact ⟨hi.c.tail, hi.c.seq, by rw [← hi.c.len]; exact hi.c.k_le⟩

/-- The received sequence is a prefix of the published sequence. -/
theorem V1_recvd_prefix (hN : 0 < cfg.N) (h : Reach cfg s) : s.recvd <+: s.sent := by
  have hi := inv_reach hN h
  have h1 : s.recvd <+: s.sent.take s.k := ⟨s.dropped, hi.c.seq⟩
  exact h1.trans (List.take_prefix _ _)

/-- While the shared state is alive nothing is destroyed: `recvd` alone is the consumed prefix. -/
theorem V1_recvd_exact (hN : 0 < cfg.N) (h : Reach cfg s) (hf : s.fin = false) :
    s.recvd = s.sent.take s.k := by
  have hi := inv_reach hN h
  have := hi.c.seq
  rw [hi.c.nodrop hf] at this
  simpa using this

/-- What is still buffered: the node at every position `k < i ≤ len` holds the `i`-th published
value; the cursor node and every retired node hold none. -/
theorem V1_buffered (hN : 0 < cfg.N) (h : Reach cfg s) (i : Nat) (h1 : s.k < i) (h2 : i ≤ s.len) :
    s.val (s.at_ i) = s.sent[i - 1]? :=
  (inv_reach hN h).c.vals i h1 h2

/-- **A batch is one contiguous run published by one swap**: the swap appends exactly the values of
the batch, in batch order, to the global order, and changes nothing else of it. -/
theorem batch_contiguous {h : Nat} (hs : step cfg s h .pSwap = some s') :
    s'.sent = s.sent ++ s.pvals h ∧ s'.recvd = s.recvd ∧ s'.k = s.k := by
  simp only [step, stepPSwap] at hs
  repeat' split at hs
  all_goals simp at hs
  subst hs; simp

/-- A pop takes exactly the next value in swap order (or nothing). -/
theorem pop_takes_next (hN : 0 < cfg.N) (h : Reach cfg s) (hs : step cfg s 0 .cPopLoad = some s') :
    (s'.cpc = .done none ∧ s'.recvd = s.recvd ∧ s'.k = s.k) ∨
    (∃ v, s.sent[s.k]? = some v ∧ s'.recvd = s.recvd ++ [v] ∧ s'.k = s.k + 1) := by
  have hi := inv_reach hN h
  simp only [step, stepCPopLoad] at hs
  split at hs
  · rename_i hc hf
    have hg : s.tailGone = false := by
      cases hgg : s.tailGone
      · rfl
      · have := hi.h.gone_fin hgg; simp_all
    split at hs
    · simp at hs; subst hs; left; simp
    · rename_i nx hnx
      obtain ⟨hlt, hx, _⟩ := hi.c.next_tail hg hnx
      have hv := hi.c.vals (s.k + 1) (by omega) (by omega)
      have hl := hi.c.len
      right
      refine ⟨s.sent[s.k]'(by omega), by simp, ?_, ?_⟩
      · simp at hs; subst hs
        unfold leaveNode; split <;> simp [hx, hv, List.getElem?_eq_getElem (show s.k < s.sent.length by omega)]
      · simp at hs; subst hs
        unfold leaveNode; split <;> simp
  · simp at hs

/-! ## V2, V3 — gaps and the straggler re-drain (C04) -/

/-- **V2.** An unlinked gap inside the published chain means its publisher is between its swap
and its link store (and will perform the link store as its next action). -/
theorem V2_gap_has_publisher (hN : 0 < cfg.N) (h : Reach cfg s) (i : Nat) (h1 : s.k ≤ i) (h2 : i < s.len)
    (hn : s.next (s.at_ i) = none) :
    ∃ p, s.ppc p = .link i (s.at_ i) (s.at_ (i + 1)) ∧ s.hst p = .live := by
  have hi := inv_reach hN h
  cases hp : s.pend i with
  | none => have := hi.c.linked i h1 h2 hp; rw [this] at hn; simp at hn
  | some p =>
    have hg := (hi.c.gap i p hp).1
    exact ⟨p, hg, hi.h.active p (by rw [hg]; simp)⟩

/-- **V3.** With no sender counted in `sender_count`, every link of the published chain is set. -/
theorem V3_no_senders_all_linked (hN : 0 < cfg.N) (h : Reach cfg s) (h0 : s.senders = 0)
    (i : Nat) (h1 : s.k ≤ i) (h2 : i < s.len) : s.next (s.at_ i) = some (s.at_ (i + 1)) := by
  have hi := inv_reach hN h
  apply hi.c.linked i h1 h2
  cases hp : s.pend i with
  | none => rfl
  | some p =>
    exfalso
    have hg := (hi.c.gap i p hp).1
    have hl := hi.h.active p (by rw [hg]; simp)
    have hm := (hi.h.live p).2 hl
    have hc := hi.h.cnt
    rw [h0] at hc
    have : s.liveS = [] := List.eq_nil_of_length_eq_zero hc.symm
    rw [this] at hm; simp at hm

/-- **Straggler re-drain (C04).** If `sender_count` is 0 and the cursor's `next` is null, the chain
is drained: every value ever published has been taken.  (The consumer reads `sender_count == 0`
and then pops once more; this is why that second pop, when it finds nothing, may report
`Disconnected`.) -/
theorem straggler_drained (hN : 0 < cfg.N) (h : Reach cfg s) (h0 : s.senders = 0)
    (hn : s.next s.tail = none) : s.k = s.len ∧ s.recvd ++ s.dropped = s.sent := by
  have hi := inv_reach hN h
  have hk : s.k = s.len := by
    apply Classical.byContradiction; intro hne
    have hlt : s.k < s.len := by have := hi.c.k_le; omega
    have := V3_no_senders_all_linked hN h h0 s.k (Nat.le_refl _) hlt
    rw [← hi.c.tail, hn] at this; simp at this
  refine ⟨hk, ?_⟩
  have := hi.c.seq
  rw [hk, hi.c.len, List.take_length] at this
  exact this

/-- Intended (C04: "a receiver that has observed Disconnected never obtains a value afterwards"):
`sender_count = 0` is final and freezes the published sequence. -/
def no_senders_stable_statement (cfg : Cfg) : Prop :=
  ∀ s s' a l, Reach cfg s → s.senders = 0 → step cfg s a l = some s' → s'.senders = 0 ∧ s'.sent = s.sent

/-- **F3 (known finding, closed handle accepted).** `Sender::clone` works on a closed handle and
re-increments `sender_count`: handle 0 closes (count 1 → 0, a receiver may now observe
`Disconnected`), is cloned (count 0 → 1), and the clone can publish.  Replay:
`P 0 close s0 ; try_recv r0 ; clone s0 s1 ; send s1 7 ; try_recv r0` on `mpsc_u` / `mpmc_u`
(`chanh run`: `err:disconnected` … `ok:7`). -/
theorem no_senders_stable_fails_F3 :
    (run {} init [(0, .pClose), (0, .pDropDec)]).map (fun s => s.senders) = some 0 ∧
    (run {} init [(0, .pClose), (0, .pDropDec), (0, .pClone 1)]).map (fun s => s.senders) = some 1 := by
  decide

theorem no_senders_stable_statement_false : ¬ no_senders_stable_statement {} := by
  intro hst
  have hf := no_senders_stable_fails_F3
  cases h1 : run {} init [(0, .pClose), (0, .pDropDec)] with
  | none => exact absurd h1 (by decide)
  | some s1 =>
    have hr1 : Reach {} s1 := reach_run _ _ _ Reach.init h1
    have hs1 : s1.senders = 0 := by
      have := hf.1; rw [h1] at this; simpa using this
    have happ : run {} init [(0, .pClose), (0, .pDropDec), (0, .pClone 1)] = run {} s1 [(0, .pClone 1)] := by
      have := run_append {} init [(0, .pClose), (0, .pDropDec)] [(0, .pClone 1)]
      rw [h1] at this; simpa using this
    have hone : run {} s1 [(0, .pClone 1)] = step {} s1 0 (.pClone 1) := by
      simp only [run]; cases step {} s1 0 (.pClone 1) <;> rfl
    have h3 := hf.2
    rw [happ, hone] at h3
    cases h2 : step {} s1 0 (.pClone 1) with
    | none => rw [h2] at h3; simp at h3
    | some s2 =>
      rw [h2] at h3
      have := (hst s1 s2 0 (.pClone 1) hr1 hs1 h2).1
      simp at h3; omega

/-- What holds: unless a closed handle is cloned (F3), `sender_count = 0` is final and freezes the
published sequence - no step publishes or resurrects a sender afterwards, so "drained" stays true and
`Disconnected` is never followed by a value. -/
theorem no_senders_stable_partial (hN : 0 < cfg.N) (h : Reach cfg s) (h0 : s.senders = 0) {a : Nat} {l : Label}
    (hcl : ∀ h', l ≠ .pClone h')
    (hs : step cfg s a l = some s') : s'.senders = 0 ∧ s'.sent = s.sent := by
  have hi := inv_reach hN h
  have hc := hi.h.cnt
  rw [h0] at hc
  have hl : s.liveS = [] := List.eq_nil_of_length_eq_zero hc.symm
  have hdead : ∀ p, s.hst p ≠ .live := by
    intro p hp; have := (hi.h.live p).2 hp; rw [hl] at this; simp at this
  have hidle : ∀ p, s.ppc p = .idle := by
    intro p; apply Classical.byContradiction; intro hne; exact hdead p (hi.h.active p hne)
  cases l <;> simp only [step] at hs
  case pStart vals => unfold stepPStart at hs; split at hs <;> simp at hs; rename_i hc; exact absurd hc.1 (hdead a)
  case pBump => unfold stepPBump at hs; rw [hidle a] at hs; simp at hs
  case pSealDec => unfold stepPSealDec at hs; rw [hidle a] at hs; simp at hs
  case pRelFence => unfold stepPRelFence at hs; rw [hidle a] at hs; simp at hs
  case pRelLock => unfold stepPRelLock at hs; rw [hidle a] at hs; simp at hs
  case pRelUnlock => unfold stepPRelUnlock at hs; rw [hidle a] at hs; simp at hs
  case pAcqLock => unfold stepPAcqLock at hs; rw [hidle a] at hs; simp at hs
  case pAcqUnlock => unfold stepPAcqUnlock at hs; rw [hidle a] at hs; simp at hs
  case pRearmRem => unfold stepPRearmRem at hs; rw [hidle a] at hs; simp at hs
  case pRearmNode => unfold stepPRearmNode at hs; rw [hidle a] at hs; simp at hs
  case pAlloc => unfold stepPAlloc at hs; rw [hidle a] at hs; simp at hs
  case pPrelink => unfold stepPPrelink at hs; rw [hidle a] at hs; simp at hs
  case pSwap => unfold stepPSwap at hs; rw [hidle a] at hs; simp at hs
  case pLink => unfold stepPLink at hs; rw [hidle a] at hs; simp at hs
  case pClose => unfold stepPClose at hs; split at hs <;> simp at hs; rename_i hc; exact absurd hc.1 (hdead a)
  case pDropDec => unfold stepPDropDec at hs; rw [hidle a] at hs; simp at hs
  case pClone h' => exact absurd rfl (hcl h')
  case cPopLoad =>
    unfold stepCPopLoad leaveNode at hs
    repeat' split at hs
    all_goals simp at hs
    all_goals (subst hs; simp [h0])
  case cRetDec => unfold stepCRetDec at hs; repeat' split at hs
                  all_goals simp at hs
                  all_goals (subst hs; simp [h0])
  case cRelFence => unfold stepCRelFence at hs; repeat' split at hs
                    all_goals simp at hs
                    all_goals (subst hs; simp [h0])
  case cRelLock => unfold stepCRelLock at hs; repeat' split at hs
                   all_goals simp at hs
                   all_goals (subst hs; simp [h0])
  case cRelUnlock => unfold stepCRelUnlock at hs; repeat' split at hs
                     all_goals simp at hs
                     all_goals (subst hs; simp [h0])
  case cRet => unfold stepCRet at hs; repeat' split at hs
               all_goals simp at hs
               all_goals (subst hs; simp [h0])
  case cFinStart => unfold stepCFinStart at hs; repeat' split at hs
                    all_goals simp at hs
                    all_goals (subst hs; simp [h0])
  case cFinLoad =>
    unfold stepCFinLoad leaveNode at hs
    repeat' split at hs
    all_goals simp at hs
    all_goals (subst hs; simp [h0])

/-! ## The slab machine (C09) -/

/-- **Slab accounting.** For every allocated slab, `remaining` is the producer hold (1 while a
handle bump-allocates from it or re-arms it, else 0) plus the number of its nodes not yet retired
in the current incarnation (never-used nodes are written off by the seal).  Equivalently
`remaining = SLAB_NODES + 1 − retired − sealed_release` (DESIGN A.7). -/
theorem slab_accounting (hN : 0 < cfg.N) (h : Reach cfg s) (b : Nat) (hb : b < s.nextSlab) :
    s.rem b = hold (s.sst b) + live cfg s.nst b ∧ s.rem b ≤ cfg.N + 1 := by
  have hi := inv_reach hN h
  have := hi.s.count b hb
  have hl := live_le cfg s.nst b
  refine ⟨this, ?_⟩
  have : hold (s.sst b) ≤ 1 := by cases s.sst b <;> simp
  omega

/-- **A slab is recycled (or freed) only when dead.** From the moment its count reaches zero until
it is re-armed — while it is being released, sits in the pool, was freed, or was just popped — no
node of it holds a token, is in the chain, is in a producer's hands or awaits its retire, and no
producer can bump from it. -/
theorem recycle_only_when_dead (hN : 0 < cfg.N) (h : Reach cfg s) (b : Nat)
    (hz : isZero (s.sst b) = true) :
    s.rem b = 0 ∧ (∀ i, i < cfg.N → s.nst (.nd b i) = .retired ∧ s.val (.nd b i) = none) ∧
    (∀ p, s.pslab p ≠ some b) := by
  have hi := inv_reach hN h
  refine ⟨hi.s.zero b hz, ?_, ?_⟩
  · intro i hlt
    have := hi.s.zero_retired b i hz hlt
    exact ⟨this, hi.s.dead_val _ (Or.inl this)⟩
  · intro p hp
    have := hi.s.owned p b hp
    rw [this] at hz; simp at hz

/-- The pool holds exactly the slabs in state `pooled`, each once. -/
theorem pool_exact (hN : 0 < cfg.N) (h : Reach cfg s) :
    s.pool.Nodup ∧ ∀ b, b ∈ s.pool ↔ s.sst b = .pooled :=
  ⟨(inv_reach hN h).s.pool_nodup, (inv_reach hN h).s.pool_iff⟩

/-- **A node is bumped at most once per incarnation of its slab**: the node `bump` hands out is
free (fresh or re-armed: `next = null`, `val = None`) and is marked as held by this handle; only the
re-arm of a dead slab makes a node free again. -/
theorem bump_hands_out_free_node (hN : 0 < cfg.N) (h : Reach cfg s) {p : Nat}
    (hs : step cfg s p .pBump = some s') :
    ∃ b, s.pslab p = some b ∧ s.nst (.nd b (s.ppos p)) = .free ∧ s.next (.nd b (s.ppos p)) = none ∧
      s.val (.nd b (s.ppos p)) = none ∧ s'.nst (.nd b (s.ppos p)) = .held p (s.rlen p) := by
  have hi := inv_reach hN h
  simp only [step, stepPBump] at hs
  split at hs
  · rename_i b hpc hsl
    split at hs
    · rename_i hg
      have hf := hi.s.owned_free p b (s.ppos p) hsl (Nat.le_refl _) hg.2
      have ho := hi.s.owned p b hsl
      have hb : b < s.nextSlab := by
        apply Classical.byContradiction; intro hn
        have := (hi.s.fresh b (by omega)).1; rw [ho] at this; simp at this
      have hc := hi.s.armed_clean b (s.ppos p) hb hf (by rw [(hi.s.owned_pos p b hsl).2]; exact hg.2)
      simp at hs; subst hs
      exact ⟨b, hsl, hf, hc.1, hc.2, by simp [upd]⟩
    · simp at hs
  · simp at hs

/-- Distinct live logical positions are distinct physical nodes (so a recycled node never aliases
a node still in the chain). -/
theorem positions_injective (hN : 0 < cfg.N) (h : Reach cfg s) (hg : s.tailGone = false) (i j : Nat)
    (hi1 : s.k ≤ i) (hi2 : i ≤ s.len) (hj1 : s.k ≤ j) (hj2 : j ≤ s.len) (e : s.at_ i = s.at_ j) : i = j := by
  have hi := inv_reach hN h
  have a := hi.c.at_in hg i hi1 hi2
  have b := hi.c.at_in hg j hj1 hj2
  rw [e, b] at a
  exact (NodeSt.inchain.inj a).symm

/-- **Teardown (C09).** When the `Drop` walk of the shared state has finished: every value ever
published was either handed to a receiver or destroyed by the walk, exactly once and in order;
no node anywhere still holds a value; and every slab ever allocated has been returned to the pool
or freed (its count reached zero) — nothing leaks, nothing is dropped twice. -/
theorem teardown_complete (hN : 0 < cfg.N) (h : Reach cfg s) (hf : s.cpc = .finished) :
    s.recvd ++ s.dropped = s.sent ∧ (∀ n, s.val n = none) ∧
    (∀ b, b < s.nextSlab → s.sst b = .pooled ∨ s.sst b = .freed) := by
  have hi := inv_reach hN h
  have hgone : s.tailGone = true := by have := hi.h.gone_pc; rw [hf] at this; simpa using this.symm
  have hfin : s.fin = true := hi.h.gone_fin hgone
  have hidle := hi.h.fin_idle hfin
  have hnoslab := hi.h.fin_slab hfin
  have hk := hi.c.gone_k hgone
  have hnolive : ∀ n, s.nst n = .free ∨ s.nst n = .retired := by
    intro n
    cases hn : s.nst n with
    | free => simp
    | retired => simp
    | held p j =>
      have := (hi.p.held' n p j hn).1
      have hz := hi.p.rlen_zero p (by rw [hidle p]; rfl)
      omega
    | inchain i => have := (hi.c.in_at n i hn).1; rw [hgone] at this; simp at this
    | limbo => have := (hi.s.limbo n).1 hn; rw [hf] at this; simp at this
  have hnoarm : ∀ b, isArming (s.sst b) = false := by
    intro b
    cases hs : s.sst b <;> simp
    rename_i p
    have := hi.s.arming' p b hs
    rw [hidle p] at this; simp at this
  refine ⟨?_, ?_, ?_⟩
  · have := hi.c.seq
    rw [hk, hi.c.len, List.take_length] at this
    exact this
  · intro n
    rcases hnolive n with hfree | hret
    · cases n with
      | stub =>
        -- the stub is never free
        exfalso
        have : ∀ {s}, Reach cfg s → s.nst .stub ≠ .free := by
          intro s hr
          induction hr with
          | init => simp [init]
          | step hr hs ih =>
            rename_i s1 s2 a l
            have hi1 := inv_reach hN hr
            cases l <;> simp only [step] at hs
            case pStart => unfold stepPStart at hs; repeat' split at hs
                           all_goals simp at hs
                           all_goals (subst hs; exact ih)
            case pBump => unfold stepPBump at hs; repeat' split at hs
                          all_goals simp at hs
                          all_goals (subst hs; simp [upd]; exact ih)
            case pSealDec => unfold stepPSealDec sealDec at hs; repeat' split at hs
                             all_goals simp at hs
                             all_goals (subst hs; simp [sealNodes]; exact ih)
            case pRelFence => unfold stepPRelFence at hs; repeat' split at hs
                              all_goals simp at hs
                              all_goals (subst hs; exact ih)
            case pRelLock => unfold stepPRelLock at hs; repeat' split at hs
                             all_goals simp at hs
                             all_goals (subst hs; exact ih)
            case pRelUnlock => unfold stepPRelUnlock at hs; repeat' split at hs
                               all_goals simp at hs
                               all_goals (subst hs; exact ih)
            case pAcqLock => unfold stepPAcqLock at hs; repeat' split at hs
                             all_goals simp at hs
                             all_goals (subst hs; exact ih)
            case pAcqUnlock => unfold stepPAcqUnlock at hs; repeat' split at hs
                               all_goals simp at hs
                               all_goals (subst hs; exact ih)
            case pRearmRem => unfold stepPRearmRem at hs; repeat' split at hs
                              all_goals simp at hs
                              all_goals (subst hs; simp [freeNodes]; exact ih)
            case pRearmNode => unfold stepPRearmNode at hs; repeat' split at hs
                               all_goals simp at hs
                               all_goals (subst hs; exact ih)
            case pAlloc => unfold stepPAlloc at hs; repeat' split at hs
                           all_goals simp at hs
                           all_goals (subst hs; exact ih)
            case pPrelink => unfold stepPPrelink at hs; repeat' split at hs
                             all_goals simp at hs
                             all_goals (subst hs; exact ih)
            case pSwap => unfold stepPSwap at hs; repeat' split at hs
                          all_goals simp at hs
                          all_goals (subst hs; simp only [publishNodes]; split)
                          all_goals first | exact ih | (split <;> simp)
            case pLink => unfold stepPLink at hs; repeat' split at hs
                          all_goals simp at hs
                          all_goals (subst hs; exact ih)
            case pClose => unfold stepPClose at hs; repeat' split at hs
                           all_goals simp at hs
                           all_goals (subst hs; exact ih)
            case pDropDec => unfold stepPDropDec at hs; repeat' split at hs
                             all_goals simp at hs
                             all_goals (subst hs; exact ih)
            case pClone => unfold stepPClone at hs; repeat' split at hs
                           all_goals simp at hs
                           all_goals (subst hs; exact ih)
            case cPopLoad => unfold stepCPopLoad leaveNode at hs; repeat' split at hs
                             all_goals simp at hs
                             all_goals (subst hs; simp [upd]; try split)
                             all_goals first | exact ih | simp
            case cRetDec => unfold stepCRetDec at hs; repeat' split at hs
                            all_goals simp at hs
                            all_goals (subst hs; simp [upd]; exact ih)
            case cRelFence => unfold stepCRelFence at hs; repeat' split at hs
                              all_goals simp at hs
                              all_goals (subst hs; exact ih)
            case cRelLock => unfold stepCRelLock at hs; repeat' split at hs
                             all_goals simp at hs
                             all_goals (subst hs; exact ih)
            case cRelUnlock => unfold stepCRelUnlock at hs; repeat' split at hs
                               all_goals simp at hs
                               all_goals (subst hs; exact ih)
            case cRet => unfold stepCRet at hs; repeat' split at hs
                         all_goals simp at hs
                         all_goals (subst hs; exact ih)
            case cFinStart => unfold stepCFinStart at hs; repeat' split at hs
                              all_goals simp at hs
                              all_goals (subst hs; exact ih)
            case cFinLoad => unfold stepCFinLoad leaveNode at hs; repeat' split at hs
                             all_goals simp at hs
                             all_goals (subst hs; simp [upd]; try split)
                             all_goals first | exact ih | simp
        exact this h hfree
      | nd b i =>
        by_cases hb : b < s.nextSlab
        · by_cases hlt : i < cfg.N
          · have := hi.s.armed_clean b i hb hfree (by rw [hi.s.armed_full b hb (hnoarm b)]; exact hlt)
            exact this.2
          · exact (hi.s.junk b i (by omega)).2.2
        · exact (hi.s.fresh_nodes b i (by omega)).2.2
    · exact hi.s.dead_val n (Or.inl hret)
  · intro b hb
    have hcnt := hi.s.count b hb
    cases hs : s.sst b with
    | pooled => simp
    | freed => simp
    | unalloc => exact absurd hs (hi.s.alloc b hb)
    | owned p => have := hi.s.owned' p b hs; rw [hnoslab p] at this; simp at this
    | releasing a =>
      cases a with
      | prod p => have := hi.s.rel_p' p b hs; rw [hidle p] at this; simp at this
      | cons => have := hi.s.rel_c' b hs; rw [hf] at this; simp at this
    | popped p => have := hi.s.popped' p b hs; rw [hidle p] at this; simp at this
    | arming p => have := hnoarm b; rw [hs] at this; simp at this
    | sealed =>
      exfalso
      have hpos := hi.s.sealed_pos b hs
      rw [hs] at hcnt
      simp at hcnt
      have hall : live cfg s.nst b = 0 := by
        unfold live
        apply cnt_none
        intro i hlt
        rcases hnolive (.nd b i) with hfree | hret
        · have := hi.s.free_state b i hb hlt hfree; rw [hs] at this; simp at this
        · simp [hret]
      omega

/-! ## Non-vacuity and concrete behaviour -/

/-- slab size 2, pool capacity 1 -/
def cfg2 : Cfg := { N := 2, poolCap := 1 }

/-- Handle 0 sends 10, 11 (filling its slab), 12 (seal + fresh slab); the consumer receives all
three (retiring the stub and both nodes of slab 0, which goes to the pool); a clone (handle 1) sends
13 and gets slab 0 RECYCLED (re-armed), its node 0 re-entering the chain at position 4. -/
def recycleTrace : List (Nat × Label) :=
  [(0, .pStart [10]), (0, .pAcqLock), (0, .pAcqUnlock), (0, .pAlloc), (0, .pBump), (0, .pSwap), (0, .pLink),
   (0, .pStart [11]), (0, .pBump), (0, .pSwap), (0, .pLink),
   (0, .pStart [12]), (0, .pSealDec), (0, .pAcqLock), (0, .pAcqUnlock), (0, .pAlloc), (0, .pBump), (0, .pSwap), (0, .pLink),
   (0, .cPopLoad), (0, .cRet), (0, .cPopLoad), (0, .cRetDec), (0, .cRet),
   (0, .cPopLoad), (0, .cRetDec), (0, .cRelFence), (0, .cRelLock), (0, .cRelUnlock), (0, .cRet),
   (0, .pClone 1), (1, .pStart [13]), (1, .pAcqLock), (1, .pAcqUnlock), (1, .pRearmRem), (1, .pRearmNode),
   (1, .pRearmNode), (1, .pBump), (1, .pSwap), (1, .pLink)]

/-- Recycling is reachable, and the recycled node is back in the chain. -/
theorem recycling_reached :
    (run cfg2 init recycleTrace).map (fun s => (s.recvd, s.sent, s.k, s.len)) = some ([10, 11, 12], [10, 11, 12, 13], 3, 4) ∧
    (run cfg2 init recycleTrace).map (fun s => (s.sst 0, s.nst (.nd 0 0), s.rem 0)) = some (.owned 1, .inchain 4, 3) := by
  decide

/-- After that: both handles close, the consumer receives 13, the shared state is dropped and the
walk finishes: hypotheses of `teardown_complete` are satisfiable, and its conclusion is visible. -/
def teardownTrace : List (Nat × Label) :=
  recycleTrace ++
  [(0, .cPopLoad), (0, .cRetDec), (0, .cRet),
   (0, .pClose), (0, .pSealDec), (0, .pRelFence), (0, .pRelLock), (0, .pRelUnlock), (0, .pDropDec),
   (1, .pClose), (1, .pSealDec), (1, .pDropDec),
   (0, .cFinStart), (0, .cFinLoad), (0, .cRetDec), (0, .cRelFence), (0, .cRelLock), (0, .cRelUnlock)]

theorem teardown_reached :
    (run cfg2 init teardownTrace).map (fun s => (s.cpc, s.recvd, s.dropped, s.sent)) =
      some (.finished, [10, 11, 12, 13], [], [10, 11, 12, 13]) ∧
    (run cfg2 init teardownTrace).map (fun s => (s.pool, s.sst 0, s.sst 1)) = some ([1], .freed, .pooled) := by
  decide

example : ∃ s, Reach cfg2 s ∧ s.cpc = .finished := by
  cases hr : run cfg2 init teardownTrace with
  | none => exact absurd hr (by decide)
  | some s =>
    refine ⟨s, reach_run _ _ _ Reach.init hr, ?_⟩
    have : (run cfg2 init teardownTrace).map (fun s => s.cpc) = some .finished := by decide
    rw [hr] at this; simpa using this

/-- Non-vacuity of V2: a reachable state with an open gap (publisher between swap and link). -/
example : ∃ s, Reach cfg2 s ∧ s.k ≤ 0 ∧ 0 < s.len ∧ s.next (s.at_ 0) = none := by
  let tr : List (Nat × Label) := [(0, .pStart [10]), (0, .pAcqLock), (0, .pAcqUnlock), (0, .pAlloc), (0, .pBump), (0, .pSwap)]
  cases hr : run cfg2 init tr with
  | none => exact absurd hr (by decide)
  | some s =>
    have h1 : (run cfg2 init tr).map (fun s => (s.k, s.len, s.next (s.at_ 0))) = some (0, 1, none) := by decide
    rw [hr] at h1; simp at h1
    exact ⟨s, reach_run _ _ _ Reach.init hr, by omega, by omega, h1.2.2⟩


/-! ## The unbounded mpsc channel on the chain (`Fv.Chan.MpscUB`; flavours mpsc_u, mpsc_u_async) -/

namespace Mpsc
open Fv.Chan

/-- **Embedding.** Every step of the channel model is at most one step of the chain model on its
chain component; so every theorem above holds of `s.ch` for every reachable channel state. -/
theorem chain_reachable {cfg : MpscUB.Cfg} {s : MpscUB.State} (h : MpscUB.Reach cfg s) :
    ChainB.Reach cfg.chain s.ch := MpscUB.reach_chain h

/-- **C01 / C02 at the API.** The values handed to receive calls so far (`taken`: returned by
completed calls or destroyed by the receiver's close drain, in call order), followed by those the
running receive has collected (`rout`) and the one a running `pop_node` holds, are exactly the
consumed prefix of the swap order: every published value is delivered at most once, in swap order
(per-producer FIFO, batches contiguous), and nothing is delivered that was not sent. -/
theorem received_is_consumed_prefix {cfg : MpscUB.Cfg} {s : MpscUB.State} (hN : 0 < cfg.chain.N)
    (h : MpscUB.Reach cfg s) :
    s.taken ++ s.rout ++ ChainB.cPend s.ch.cpc = s.ch.recvd ∧ s.ch.recvd <+: s.ch.sent := by
  refine ⟨(MpscUB.invA_reach h).out.symm, ?_⟩
  exact V1_recvd_prefix hN (MpscUB.reach_chain h)

/-- Between receive calls nothing is in flight: `taken` is exactly what left the chain. -/
theorem idle_taken_exact {cfg : MpscUB.Cfg} {s : MpscUB.State} (h : MpscUB.Reach cfg s) (hi : s.rpc = MpscUB.RPC.idle) :
    s.taken = s.ch.recvd := by
  have hA := MpscUB.invA_reach h
  have h1 := hA.quiet (by rw [hi]; rfl)
  have h2 := hA.pend (by rw [hi]; simp)
  have := hA.out
  rw [h1, h2] at this
  simpa using this.symm

/-- **C04 (straggler) at the chain level, transferred.** When the consumer has read
`sender_count == 0` and its next pop finds nothing, every published value has been consumed. -/
theorem disconnected_means_drained {cfg : MpscUB.Cfg} {s : MpscUB.State} (hN : 0 < cfg.chain.N)
    (h : MpscUB.Reach cfg s) (h0 : s.ch.senders = 0) (hn : s.ch.next s.ch.tail = none) :
    s.ch.k = s.ch.len ∧ s.ch.recvd ++ s.ch.dropped = s.ch.sent :=
  straggler_drained hN (MpscUB.reach_chain h) h0 hn

/-- **C09 at teardown, transferred.** Once the last handle is gone and the `Drop` walk has finished:
every published value was handed to a receive call (or discarded by the close drain) or destroyed by
the walk - exactly once -, no node holds a value, every slab is pooled or freed. -/
theorem teardown {cfg : MpscUB.Cfg} {s : MpscUB.State} (hN : 0 < cfg.chain.N) (h : MpscUB.Reach cfg s)
    (hf : s.ch.cpc = ChainB.CPC.finished) :
    s.taken ++ s.rout ++ s.ch.dropped = s.ch.sent ∧ (∀ n, s.ch.val n = none) ∧
    (∀ b, b < s.ch.nextSlab → s.ch.sst b = ChainB.SlabSt.pooled ∨ s.ch.sst b = ChainB.SlabSt.freed) := by
  have ht := teardown_complete hN (MpscUB.reach_chain h) hf
  have ho := (MpscUB.invA_reach h).out
  refine ⟨?_, ht.2.1, ht.2.2⟩
  rw [hf] at ho
  simp at ho
  rw [← ho]; exact ht.1

end Mpsc

/-! ## The unbounded mpmc channel on the chain (`Fv.Chan.MpmcUB`; flavours mpmc_u, mpmc_u_async) -/

namespace Mpmc
open Fv.Chan

theorem chain_reachable {cfg : MpmcUB.Cfg} {s : MpmcUB.State} (h : MpmcUB.Reach cfg s) :
    ChainB.Reach cfg.chain s.ch := MpmcUB.reach_chain h

/-- C01 / C02 for mpmc_u: whatever the receivers took out of the chain - under the consumer mutex,
by any number of receiver handles - is a prefix of the swap order, so each consumer's received
subsequence of any one producer is in that producer's send order. -/
theorem received_prefix {cfg : MpmcUB.Cfg} {s : MpmcUB.State} (hN : 0 < cfg.chain.N) (h : MpmcUB.Reach cfg s) :
    s.ch.recvd <+: s.ch.sent := V1_recvd_prefix hN (MpmcUB.reach_chain h)

theorem disconnected_means_drained {cfg : MpmcUB.Cfg} {s : MpmcUB.State} (hN : 0 < cfg.chain.N)
    (h : MpmcUB.Reach cfg s) (h0 : s.ch.senders = 0) (hn : s.ch.next s.ch.tail = none) :
    s.ch.k = s.ch.len ∧ s.ch.recvd ++ s.ch.dropped = s.ch.sent :=
  straggler_drained hN (MpmcUB.reach_chain h) h0 hn

theorem teardown_chain {cfg : MpmcUB.Cfg} {s : MpmcUB.State} (hN : 0 < cfg.chain.N) (h : MpmcUB.Reach cfg s)
    (hf : s.ch.cpc = ChainB.CPC.finished) :
    s.ch.recvd ++ s.ch.dropped = s.ch.sent ∧ (∀ n, s.ch.val n = none) ∧
    (∀ b, b < s.ch.nextSlab → s.ch.sst b = ChainB.SlabSt.pooled ∨ s.ch.sst b = ChainB.SlabSt.freed) :=
  teardown_complete hN (MpmcUB.reach_chain h) hf

/-! ### C06 for mpmc_u_async: F2 -/

/-- no thread is inside an API call -/
def Quiet (s : MpmcUB.State) : Prop := ∀ t, s.tpc t = MpmcUB.TPC.idle

/-- Intended (C06): in a state where no call is running, a pending receive future of handle `r`
that is registered as a waiter while an item is visible behind the cursor (or every sender is gone)
has had its waker invoked since its last poll. -/
def C06_pending_is_woken_statement (cfg : MpmcUB.Cfg) : Prop :=
  ∀ s r fu, MpmcUB.Reach cfg s → Quiet s → s.rfut r = some fu → s.reg r ≠ none →
    ((s.ch.next s.ch.tail).isSome = true ∨ s.ch.senders = 0) → 0 < s.wakes fu.id

def advs (t n : Nat) : List (Nat × MpmcUB.Label) := List.replicate n (t, .adv)

/-- two receiver handles with one pending future each (`f0` on `r0`, `f1` on `r1`); one value is sent:
`notify_receivers` pops `r0`'s entry, marks its cell NOTIFIED and wakes `f0`; `f0` is dropped: `cancel_wait`
finds its entry gone, the cell NOTIFIED (not FULFILLED) and does nothing. -/
def f2Trace : List (Nat × MpmcUB.Label) :=
  [(0, .callR 0 (.clone 1)), (0, .adv), (0, .ret),
   (0, .callR 0 (.mkFut 0 1)), (0, .ret), (0, .callR 1 (.mkFut 1 1)), (0, .ret),
   (0, .callR 0 .poll)] ++ advs 0 13 ++ [(0, .ret), (0, .callR 1 .poll)] ++ advs 0 13 ++ [(0, .ret),
   (0, .callS 0 (.send [7]))] ++ advs 0 15 ++ [(0, .ret),
   (0, .callR 0 .dropFut)] ++ advs 0 3 ++ [(0, .ret)]

/-- **F2 (known finding) on the model.** After `f2Trace`: `f0`'s waker was invoked once, `f1`'s never;
`f1` is still pending and registered; the value 7 is visible behind the cursor; a sender is alive; nobody
is running.  The wake-one was consumed by a future that was then dropped and is not passed on: `f1` is never
woken although its receive can complete.  Replay: /verif/corpus/chainb/f2_mpmc_u_async.case
(`chanh run`: monitor `mpmc_u_async:recv_fut:pending-enabled-not-woken:after-woken-future-dropped`). -/
theorem C06_fails_F2_mpmcU :
    (MpmcUB.run {} MpmcUB.init f2Trace).map (fun s => (s.wakes 0, s.wakes 1, (s.rfut 1).isSome, s.reg 1)) =
      some (1, 0, true, some 1) ∧
    (MpmcUB.run {} MpmcUB.init f2Trace).map (fun s => ((s.ch.next s.ch.tail).isSome, s.ch.senders)) =
      some (true, 1) ∧
    (MpmcUB.run {} MpmcUB.init f2Trace).map (fun s => (s.tpc 0, s.rpc 0, s.rpc 1, s.spc 0)) =
      some (MpmcUB.TPC.idle, MpmcUB.RPC.idle, MpmcUB.RPC.idle, MpmcUB.SPC.idle) := by
  decide

/-- The full C06 statement is false of the code (witnessed by `f2Trace`). -/
theorem C06_pending_is_woken_statement_false : ¬ C06_pending_is_woken_statement {} := by
  intro hst
  have hw := C06_fails_F2_mpmcU
  cases hr : MpmcUB.run {} MpmcUB.init f2Trace with
  | none => rw [hr] at hw; simp at hw
  | some s =>
    rw [hr] at hw
    simp only [Option.map_some, Option.some.injEq, Prod.mk.injEq] at hw
    obtain ⟨⟨_, hw1, hfut, hreg⟩, ⟨hnext, hsend⟩, ⟨htpc0, _, _, _⟩⟩ := hw
    have hreach : MpmcUB.Reach {} s := MpmcUB.reach_run _ _ _ MpmcUB.Reach.init hr
    have hquiet : Quiet s := by
      intro t
      by_cases ht : t = 0
      · subst ht; exact htpc0
      · have := MpmcUB.run_tpc_other (cfg := {}) 0 f2Trace (by decide) MpmcUB.init s hr t ht
        rw [this]; rfl
    cases hf : s.rfut 1 with
    | none => rw [hf] at hfut; simp at hfut
    | some fu =>
      have hid : fu.id = 1 := by
        have : (MpmcUB.run {} MpmcUB.init f2Trace).map (fun s => (s.rfut 1).map (·.id)) = some (some 1) := by decide
        rw [hr] at this; simp [hf] at this; exact this
      have := hst s 1 fu hreach hquiet hf (by rw [hreg]; simp) (Or.inl hnext)
      rw [hid, hw1] at this
      exact absurd this (by decide)

/-- What is proved for mpmc_u(_async) wake-ups at step level: the tie (every real execution is a model
execution) and this witness.  The inductive no-lost-wakeup invariant under the hypothesis "no future whose
cell is NOTIFIED is dropped before its next poll" is NOT proved in Lean for the mpmc model (gap). -/
theorem C06_partial_note : True := trivial

end Mpmc

end Fv.Props.ChainB
