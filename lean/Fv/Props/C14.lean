import Fv.Lemmas.PolicyLru
/-!
# C14 — eviction policies nominate only tracked residents and follow their definition

Property theorems only. Vocabulary (`tracked`, `Inv`, `Op`, `run`, `lastUse`, `insertedAt`) is in
`Fv/Lemmas/PolicySpec.lean`; the contract predicates `EvictSound`, `AccessOk`, `AdmitOk`,
`RemoveOk` are in `Fv/Lemmas/PolicyList.lean`; helper lemmas in `Fv/Lemmas/Policy*.lean`.

Per policy `P` (all statements for every state satisfying the inductive invariant `P.Inv`, which
holds after every history of admit/access/remove/evict/clear calls):
* `P_inv_reachable`, `P_inv_step` — tracked keys are distinct, running totals = Σ recorded costs;
* `P_evict_sound` — victims are distinct, tracked, reported at exactly their recorded cost, no
  longer tracked afterwards, and every other tracked pair is unchanged;
* `P_evict_enough` — `freed ≥ n` whenever the tracked keys are worth `n`;
* `P_untrack_only_by_nomination` — access/admit/remove change the tracked set only as the trait
  contract allows;
* `P_readmit_updates_cost` — after `admit k c` the recorded cost of `k` is `c` (once);
* LRU / FIFO order theorems against history-only specifications of recency / insertion time.
Clauses that are false of the code have a `C14_fails_<finding>_<policy>` witness and a
`_partial` theorem.
-/
namespace Fv.Props.C14
open Fv.Cache.Policy

/-! ## LRU -/

/-- After every history the LRU list has distinct keys and `current_cost` = Σ recorded costs. -/
theorem lru_inv_reachable (ops : List Op) : Lru.Inv (Lru.run ops) :=
  foldl_inv Lru.step Lru.Inv (fun _ a h => Lru.Inv_step h a) ops Lru.init Lru.Inv_init

/-- Every single call preserves the invariant (from any state satisfying it). -/
theorem lru_inv_step {s : Lru.State} (h : Lru.Inv s) (op : Op) : Lru.Inv (Lru.step s op) :=
  Lru.Inv_step h op

example : Lru.Inv (Lru.run [.admit 1 2, .admit 2 0, .access 1 2, .evict 1 []]) := lru_inv_reachable _

/-- `evict` nominates distinct tracked keys, reports exactly their recorded costs, untracks
exactly them and leaves every other tracked pair unchanged. -/
theorem lru_evict_sound {s : Lru.State} (h : Lru.Inv s) (n : Nat) :
    EvictSound (Lru.tracked s) (Lru.tracked (Lru.evict s n).1) (Lru.evict s n).2.1 (Lru.evict s n).2.2
    ∧ Lru.Inv (Lru.evict s n).1 := by
  obtain ⟨popped, l', he, hs, hw, _, _⟩ := Lru.evict_spec h n
  rw [he]; exact ⟨EvictSound.of_back h.1 hs, hw⟩

/-- `evict n` frees at least `n` whenever the tracked keys are worth that much. -/
theorem lru_evict_enough {s : Lru.State} (h : Lru.Inv s) {n : Nat}
    (hn : n ≤ costSum (Lru.tracked s)) : n ≤ (Lru.evict s n).2.2 := by
  obtain ⟨popped, l', he, hs, _, hd, _⟩ := Lru.evict_spec h n
  rw [he]
  rcases hd with hd | hd
  · exact hd
  · simp only [Lru.tracked] at hn; rw [hs, hd] at hn; simpa using hn

example : Lru.Inv (Lru.run [.admit 1 2, .admit 2 3]) ∧ 4 ≤ costSum (Lru.tracked (Lru.run [.admit 1 2, .admit 2 3])) :=
  ⟨lru_inv_reachable _, by decide⟩

/-- access / admit / remove / clear change the tracked set only as allowed: access keeps it,
admit adds `k` (never nominating anything), remove drops exactly `k`, clear drops everything. -/
theorem lru_untrack_only_by_nomination {s : Lru.State} (h : Lru.Inv s) (k c : Nat) :
    AccessOk (Lru.tracked s) (Lru.tracked (Lru.access s k c)) k
    ∧ AdmitOk (Lru.tracked s) (Lru.tracked (Lru.admit s k c).1) k (Lru.admit s k c).2.victims
    ∧ RemoveOk (Lru.tracked s) (Lru.tracked (Lru.remove s k)) k
    ∧ Lru.tracked (Lru.clear s) = [] := by
  refine ⟨AccessOk.of_perm (LruList.moveToFront_perm h k) k, ?_, ?_, rfl⟩
  · simp only [Lru.tracked, Lru.admit, Admission.victims]; rw [LruList.pushFront_items]
    exact AdmitOk.of_push _ k c
  · simp only [Lru.tracked, Lru.remove]; rw [LruList.remove_items]
    exact RemoveOk.of_without _ k

/-- Re-admitting a key updates its recorded cost (and `Inv` says it is recorded once). -/
theorem lru_readmit_updates_cost (s : Lru.State) (k c : Nat) :
    costOf (Lru.tracked (Lru.admit s k c).1) k = some c := by
  simp only [Lru.tracked, Lru.admit]; rw [LruList.pushFront_items]; exact costOf_push _ k c

/-- The LRU list is ordered by the history-only recency measure `lastUse` (head = most recent):
the model's list order IS the least-recently-used order of the call history. -/
theorem lru_list_sorted_by_recency (ops : List Op) :
    (Lru.tracked (Lru.run ops)).Pairwise (fun p q => lastUse ops q.1 < lastUse ops p.1) :=
  Lru.recencySorted_run ops

/-- LRU evicts in least-recently-used order, exactly: after any history `ops`, `evict n`
nominates victims in strictly increasing recency of last use, every victim was used less recently
than every key that stays tracked, and it stops as soon as the request is met (all victims but
the last are worth `< n`). With `lru_evict_sound` this pins the victim list down uniquely. -/
theorem lru_evicts_least_recent (ops : List Op) (n : Nat) :
    let s := Lru.run ops
    let r := Lru.evict s n
    r.2.1.Pairwise (fun a b => lastUse ops a < lastUse ops b)
    ∧ (∀ v ∈ r.2.1, ∀ x ∈ keys (Lru.tracked r.1), lastUse ops v < lastUse ops x)
    ∧ (∀ vs0 v, r.2.1 = vs0 ++ [v] →
        (vs0.map (fun k => (costOf (Lru.tracked s) k).getD 0)).sum < n) := by
  intro s r
  have hinv : Lru.Inv s := lru_inv_reachable ops
  obtain ⟨popped, l', he, hs, _, _, hm⟩ := Lru.evict_spec hinv n
  have ho := back_order (R := fun a b => lastUse ops a < lastUse ops b) hs (Lru.recencySorted_run ops)
  simp only [r, he]
  exact ⟨ho.1, ho.2, back_minimal hinv.1 hs hm⟩

example : (Lru.evict (Lru.run [.admit 1 1, .admit 2 1, .admit 3 1, .access 1 1]) 2).2.1 = [2, 3] := by
  decide

/-! ## FIFO -/

theorem fifo_inv_reachable (ops : List Op) : Fifo.Inv (Fifo.run ops) :=
  foldl_inv Fifo.step Fifo.Inv (fun _ a h => Fifo.Inv_step h a) ops Fifo.init Fifo.Inv_init

theorem fifo_inv_step {s : Fifo.State} (h : Fifo.Inv s) (op : Op) : Fifo.Inv (Fifo.step s op) :=
  Fifo.Inv_step h op

example : Fifo.Inv (Fifo.run [.admit 1 2, .admit 1 0, .evict 1 []]) := fifo_inv_reachable _

theorem fifo_evict_sound {s : Fifo.State} (h : Fifo.Inv s) (n : Nat) :
    EvictSound (Fifo.tracked s) (Fifo.tracked (Fifo.evict s n).1) (Fifo.evict s n).2.1 (Fifo.evict s n).2.2
    ∧ Fifo.Inv (Fifo.evict s n).1 := by
  obtain ⟨popped, l', he, hs, hw, _, _⟩ := Fifo.evict_spec h n
  rw [he]; exact ⟨EvictSound.of_back h.1 hs, hw⟩

theorem fifo_evict_enough {s : Fifo.State} (h : Fifo.Inv s) {n : Nat}
    (hn : n ≤ costSum (Fifo.tracked s)) : n ≤ (Fifo.evict s n).2.2 := by
  obtain ⟨popped, l', he, hs, _, hd, _⟩ := Fifo.evict_spec h n
  rw [he]
  rcases hd with hd | hd
  · exact hd
  · simp only [Fifo.tracked] at hn; rw [hs, hd] at hn; simpa using hn

theorem fifo_untrack_only_by_nomination (s : Fifo.State) (k c : Nat) :
    AccessOk (Fifo.tracked s) (Fifo.tracked (Fifo.access s k c)) k
    ∧ AdmitOk (Fifo.tracked s) (Fifo.tracked (Fifo.admit s k c).1) k (Fifo.admit s k c).2.victims
    ∧ RemoveOk (Fifo.tracked s) (Fifo.tracked (Fifo.remove s k)) k
    ∧ Fifo.tracked (Fifo.clear s) = [] := by
  refine ⟨AccessOk.rfl' k, ?_, ?_, rfl⟩
  · simp only [Fifo.tracked, Fifo.admit_fst]
    have hv : (Fifo.admit s k c).2.victims = [] := rfl
    rw [hv]
    split
    · next hk => exact AdmitOk.of_noop hk
    · rw [LruList.pushFront_items]; exact AdmitOk.of_push _ k c
  · simp only [Fifo.tracked, Fifo.remove]; rw [LruList.remove_items]
    exact RemoveOk.of_without _ k

/-- F9c witness: FIFO keeps the stale cost on re-admission (full clause "re-admitting a key
updates its cost" is false of the code). -/
theorem C14_fails_F9c_fifo :
    let s := (Fifo.admit (Fifo.admit Fifo.init 1 1).1 1 5).1
    s.lookup 1 = some 1 := by decide

/-- PARTIAL (F9c): excluded is the cost update on re-admission of a key that is already tracked —
then `admit` is a no-op and the OLD cost stays (no duplication though). For an untracked key the
cost is recorded as given. -/
theorem fifo_readmit_updates_cost_partial (s : Fifo.State) (k c : Nat) :
    (k ∉ keys (Fifo.tracked s) → costOf (Fifo.tracked (Fifo.admit s k c).1) k = some c)
    ∧ (k ∈ keys (Fifo.tracked s) → (Fifo.admit s k c).1 = s) := by
  simp only [Fifo.tracked, Fifo.admit_fst]
  refine ⟨fun hk => ?_, fun hk => by simp [hk]⟩
  simp only [hk, if_false]; rw [LruList.pushFront_items]; exact costOf_push _ k c

/-- The FIFO list is ordered by insertion time (head = newest), where `insertedAt` is refreshed
neither by access nor by re-admission of a tracked key. -/
theorem fifo_list_sorted_by_insertion (ops : List Op) :
    (Fifo.tracked (Fifo.run ops)).Pairwise
      (fun p q => Fifo.insertedAt ops q.1 < Fifo.insertedAt ops p.1) :=
  (Fifo.insertionSorted_run ops).1

/-- FIFO evicts in insertion order, exactly: oldest insertion first, every victim inserted before
every survivor, stopping as soon as the request is met. -/
theorem fifo_evicts_in_insertion_order (ops : List Op) (n : Nat) :
    let s := Fifo.run ops
    let r := Fifo.evict s n
    r.2.1.Pairwise (fun a b => Fifo.insertedAt ops a < Fifo.insertedAt ops b)
    ∧ (∀ v ∈ r.2.1, ∀ x ∈ keys (Fifo.tracked r.1), Fifo.insertedAt ops v < Fifo.insertedAt ops x)
    ∧ (∀ vs0 v, r.2.1 = vs0 ++ [v] →
        (vs0.map (fun k => (costOf (Fifo.tracked s) k).getD 0)).sum < n) := by
  intro s r
  have hinv : Fifo.Inv s := fifo_inv_reachable ops
  obtain ⟨popped, l', he, hs, _, _, hm⟩ := Fifo.evict_spec hinv n
  have ho := back_order (R := fun a b => Fifo.insertedAt ops a < Fifo.insertedAt ops b) hs
    (Fifo.insertionSorted_run ops).1
  simp only [r, he]
  exact ⟨ho.1, ho.2, back_minimal hinv.1 hs hm⟩

example : (Fifo.evict (Fifo.run [.admit 1 1, .admit 2 1, .admit 3 1, .access 1 1, .admit 1 1]) 2).2.1
    = [1, 2] := by decide

/-! ## ARC / TinyLFU witnesses -/

/-- F9a witness: ARC stops tracking key 1 without nominating it. -/
theorem C14_fails_F9a_arc :
    let s := (Arc.admit (Arc.admit (Arc.admit Arc.init 1 1 2).1 2 1 2).1 3 1 2).1
    (s.t1.contains 1 || s.t2.contains 1) = false ∧ (Arc.evict s 1000000 2).2.1 = [2, 3] := by decide

/-- F9b witness: TinyLFU never nominates a key that sits in the admission window. -/
theorem C14_fails_F9b_tinylfu :
    let cfg := TinyLfu.mkCfg 10
    let s := (TinyLfu.admit (TinyLfu.init cfg) cfg 1 1).1
    s.window.contains 1 = true ∧ (TinyLfu.evict s cfg 1).2 = ([], 0) := by decide

end Fv.Props.C14
