import Fv.Cache.Policy.Lru
import Fv.Cache.Policy.Fifo
import Fv.Cache.Policy.Sieve
import Fv.Cache.Policy.Clock
import Fv.Cache.Policy.Random
import Fv.Cache.Policy.Slru
import Fv.Cache.Policy.Arc
import Fv.Cache.Policy.TinyLfu
/-!
# C14 — eviction policies nominate only tracked residents and follow their definition
Property theorems only. Helper lemmas live in `Fv/Lemmas/Policy*.lean`.
-/
namespace Fv.Props.C14
open Fv.Cache.Policy

/-- F9c witness: FIFO keeps the stale cost on re-admission (full clause "re-admitting a key
updates its cost" is false of the code). -/
theorem C14_fails_F9c_fifo :
    let s := (Fifo.admit (Fifo.admit Fifo.init 1 1).1 1 5).1
    s.lookup 1 = some 1 := by decide

/-- F9a witness: ARC stops tracking key 1 without nominating it. -/
theorem C14_fails_F9a_arc :
    let s := (Arc.admit (Arc.admit (Arc.admit Arc.init 1 1 2).1 2 1 2).1 3 1 2).1
    (s.t1.contains 1 || s.t2.contains 1) = false ∧ (Arc.evict s 1000000 2).2.1 = [2, 3] := by decide

/-- F9b witness: TinyLFU never nominates a key that sits in the admission window. -/
theorem C14_fails_F9b_tinylfu :
    let cfg := TinyLfu.mkCfg 10
    let s := (TinyLfu.admit (TinyLfu.init cfg) cfg 1 1).1
    s.window.contains 1 = true ∧ (TinyLfu.evict s cfg 1).2 = ([], 0) := by decide

end Fv.Props.C14
