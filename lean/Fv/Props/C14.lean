import Fv.Lemmas.PolicyLru
import Fv.Lemmas.PolicyRandom
import Fv.Lemmas.PolicySlru
import Fv.Lemmas.PolicySieve
import Fv.Lemmas.PolicyClock
import Fv.Lemmas.PolicyArc
import Fv.Lemmas.PolicyTinyLfu
/-!
# C14 — eviction policies nominate only tracked residents and follow their definition

Property theorems only. Vocabulary (`tracked`, `Inv`, `Op`, `run`, `lastUse`, `insertedAt`) is in
`Fv/Lemmas/PolicySpec.lean`; the contract predicates `EvictSound`, `AccessOk`, `AdmitOk`,
`RemoveOk` are in `Fv/Lemmas/PolicyList.lean`; helper lemmas in `Fv/Lemmas/Policy*.lean`.

Per policy `P` (all statements for every state satisfying the inductive invariant `P.Inv`, which
holds after every history of admit/access/remove/evict/clear calls):
* `P_inv_reachable`, `P_inv_step` — tracked keys are distinct, running totals = Σ recorded costs;
* `P_evict_sound` — victims are distinct, tracked, reported at exactly their recorded cost, no
  longer tracked afterwards, and every other tracked pair is unchanged;
* `P_evict_enough` — `freed ≥ n` whenever the tracked keys are worth `n`;
* `P_untrack_only_by_nomination` — access/admit/remove change the tracked set only as the trait
  contract allows;
* `P_readmit_updates_cost` — after `admit k c` the recorded cost of `k` is `c` (once);
* `P_tracks_only_on_admit`, `P_no_renomination` — only `admit x` starts tracking `x`, hence a key
  nominated by `evict` is never nominated again without an `admit` of it in between;
* LRU / FIFO order theorems against history-only specifications of recency / insertion time
  (`lru_evicts_least_recent`, `fifo_evicts_in_insertion_order`).
Status per policy: LRU, SIEVE, Random full; FIFO, Clock, SLRU full except the re-admit cost update
(F9c: `_partial` + witness); ARC: evict sufficiency and admit-untracking `_partial` (F9a, two
witnesses); TinyLFU: evict sufficiency `_partial` (F9b, witness), everything else full.
Clauses that are false of the code have a `C14_fails_<finding>_<policy>` witness and a
`_partial` theorem.
-/
namespace Fv.Props.C14
open Fv.Cache.Policy

/-! ## LRU -/

/-- After every history the LRU list has distinct keys and `current_cost` = Σ recorded costs. -/
theorem lru_inv_reachable (ops : List Op) : Lru.Inv (Lru.run ops) :=
  foldl_inv Lru.step Lru.Inv (fun _ a h => Lru.Inv_step h a) ops Lru.init Lru.Inv_init

/-- Every single call preserves the invariant (from any state satisfying it). -/
theorem lru_inv_step {s : Lru.State} (h : Lru.Inv s) (op : Op) : Lru.Inv (Lru.step s op) :=
  Lru.Inv_step h op

example : Lru.Inv (Lru.run [.admit 1 2, .admit 2 0, .access 1 2, .evict 1 []]) := lru_inv_reachable _

/-- `evict` nominates distinct tracked keys, reports exactly their recorded costs, untracks
exactly them and leaves every other tracked pair unchanged. -/
theorem lru_evict_sound {s : Lru.State} (h : Lru.Inv s) (n : Nat) :
    EvictSound (Lru.tracked s) (Lru.tracked (Lru.evict s n).1) (Lru.evict s n).2.1 (Lru.evict s n).2.2
    ∧ Lru.Inv (Lru.evict s n).1 := by
  obtain ⟨popped, l', he, hs, hw, _, _⟩ := Lru.evict_spec h n
  rw [he]; exact ⟨EvictSound.of_back h.1 hs, hw⟩

/-- `evict n` frees at least `n` whenever the tracked keys are worth that much. -/
theorem lru_evict_enough {s : Lru.State} (h : Lru.Inv s) {n : Nat}
    (hn : n ≤ costSum (Lru.tracked s)) : n ≤ (Lru.evict s n).2.2 := by
  obtain ⟨popped, l', he, hs, _, hd, _⟩ := Lru.evict_spec h n
  rw [he]
  rcases hd with hd | hd
  · exact hd
  · simp only [Lru.tracked] at hn; rw [hs, hd] at hn; simpa using hn

example : Lru.Inv (Lru.run [.admit 1 2, .admit 2 3]) ∧ 4 ≤ costSum (Lru.tracked (Lru.run [.admit 1 2, .admit 2 3])) :=
  ⟨lru_inv_reachable _, by decide⟩

/-- access / admit / remove / clear change the tracked set only as allowed: access keeps it,
admit adds `k` (never nominating anything), remove drops exactly `k`, clear drops everything. -/
theorem lru_untrack_only_by_nomination {s : Lru.State} (h : Lru.Inv s) (k c : Nat) :
    AccessOk (Lru.tracked s) (Lru.tracked (Lru.access s k c)) k
    ∧ AdmitOk (Lru.tracked s) (Lru.tracked (Lru.admit s k c).1) k (Lru.admit s k c).2.victims
    ∧ RemoveOk (Lru.tracked s) (Lru.tracked (Lru.remove s k)) k
    ∧ Lru.tracked (Lru.clear s) = [] := by
  refine ⟨AccessOk.of_perm (LruList.moveToFront_perm h k) k, ?_, ?_, rfl⟩
  · simp only [Lru.tracked, Lru.admit, Admission.victims]; rw [LruList.pushFront_items]
    exact AdmitOk.of_push _ k c
  · simp only [Lru.tracked, Lru.remove]; rw [LruList.remove_items]
    exact RemoveOk.of_without _ k

/-- Re-admitting a key updates its recorded cost (and `Inv` says it is recorded once). -/
theorem lru_readmit_updates_cost (s : Lru.State) (k c : Nat) :
    costOf (Lru.tracked (Lru.admit s k c).1) k = some c := by
  simp only [Lru.tracked, Lru.admit]; rw [LruList.pushFront_items]; exact costOf_push _ k c

/-- The LRU list is ordered by the history-only recency measure `lastUse` (head = most recent):
the model's list order IS the least-recently-used order of the call history. -/
theorem lru_list_sorted_by_recency (ops : List Op) :
    (Lru.tracked (Lru.run ops)).Pairwise (fun p q => lastUse ops q.1 < lastUse ops p.1) :=
  Lru.recencySorted_run ops

/-- LRU evicts in least-recently-used order, exactly: after any history `ops`, `evict n`
nominates victims in strictly increasing recency of last use, every victim was used less recently
than every key that stays tracked, and it stops as soon as the request is met (all victims but
the last are worth `< n`). With `lru_evict_sound` this pins the victim list down uniquely. -/
theorem lru_evicts_least_recent (ops : List Op) (n : Nat) :
    let s := Lru.run ops
    let r := Lru.evict s n
    r.2.1.Pairwise (fun a b => lastUse ops a < lastUse ops b)
    ∧ (∀ v ∈ r.2.1, ∀ x ∈ keys (Lru.tracked r.1), lastUse ops v < lastUse ops x)
    ∧ (∀ vs0 v, r.2.1 = vs0 ++ [v] →
        (vs0.map (fun k => (costOf (Lru.tracked s) k).getD 0)).sum < n) := by
  intro s r
  have hinv : Lru.Inv s := lru_inv_reachable ops
  obtain ⟨popped, l', he, hs, _, _, hm⟩ := Lru.evict_spec hinv n
  have ho := back_order (R := fun a b => lastUse ops a < lastUse ops b) hs (Lru.recencySorted_run ops)
  simp only [r, he]
  exact ⟨ho.1, ho.2, back_minimal hinv.1 hs hm⟩

example : (Lru.evict (Lru.run [.admit 1 1, .admit 2 1, .admit 3 1, .access 1 1]) 2).2.1 = [2, 3] := by
  decide

/-- Only `admit x` can make `x` tracked: no other call starts tracking a key. -/
theorem lru_tracks_only_on_admit {s : Lru.State} (h : Lru.Inv s) (op : Op) {x : Nat}
    (hx : x ∈ keys (Lru.tracked (Lru.step s op))) :
    x ∈ keys (Lru.tracked s) ∨ ∃ c, op = .admit x c := by
  refine tracks_only_on_admit_of ?_ ?_ ?_ ?_ ?_ hx
  · rintro k c rfl; exact ⟨_, (lru_untrack_only_by_nomination h k c).2.1⟩
  · rintro k c rfl; exact (lru_untrack_only_by_nomination h k c).1
  · rintro k rfl; exact (lru_untrack_only_by_nomination h k 0).2.2.1
  · rintro n p rfl; exact ⟨_, _, Or.inl (lru_evict_sound h n).1⟩
  · rintro rfl; rfl

/-- A key is never nominated twice without a re-admission in between: if `evict` nominated `k`
after history `ops1` and nominates it again after the further calls `ops2`, then `ops2` contains
an `admit k`. -/
theorem lru_no_renomination (ops1 ops2 : List Op) (n n' k : Nat)
    (h1 : k ∈ (Lru.evict (Lru.run ops1) n).2.1)
    (h2 : k ∈ (Lru.evict (Lru.run (ops1 ++ .evict n [] :: ops2)) n').2.1) :
    ∃ c, Op.admit k c ∈ ops2 := by
  have h := lru_inv_reachable ops1
  have hs := lru_evict_sound h n
  have hrun : Lru.run (ops1 ++ .evict n [] :: ops2)
      = ops2.foldl (Lru.step ) (Lru.evict (Lru.run ops1) n).1 := by
    simp [Lru.run, List.foldl_append, Lru.step]
  have ht := ((lru_evict_sound (lru_inv_reachable (ops1 ++ .evict n [] :: ops2)) n')).1.tracked k h2
  rw [hrun] at ht
  exact retracked_only_by_admit (Lru.step ) Lru.tracked Lru.Inv
    (fun _ op h => lru_inv_step h op) (fun _ op _ h hx => lru_tracks_only_on_admit h op hx)
    ops2 hs.2 (hs.1.gone k h1) ht

example : 1 ∈ (Lru.evict (Lru.run [.admit 1 1]) 1).2.1 ∧
    1 ∈ (Lru.evict (Lru.run ([.admit 1 1] ++ .evict 1 [] :: [.admit 1 1])) 1).2.1 := by decide

/-! ## FIFO -/

theorem fifo_inv_reachable (ops : List Op) : Fifo.Inv (Fifo.run ops) :=
  foldl_inv Fifo.step Fifo.Inv (fun _ a h => Fifo.Inv_step h a) ops Fifo.init Fifo.Inv_init

theorem fifo_inv_step {s : Fifo.State} (h : Fifo.Inv s) (op : Op) : Fifo.Inv (Fifo.step s op) :=
  Fifo.Inv_step h op

example : Fifo.Inv (Fifo.run [.admit 1 2, .admit 1 0, .evict 1 []]) := fifo_inv_reachable _

theorem fifo_evict_sound {s : Fifo.State} (h : Fifo.Inv s) (n : Nat) :
    EvictSound (Fifo.tracked s) (Fifo.tracked (Fifo.evict s n).1) (Fifo.evict s n).2.1 (Fifo.evict s n).2.2
    ∧ Fifo.Inv (Fifo.evict s n).1 := by
  obtain ⟨popped, l', he, hs, hw, _, _⟩ := Fifo.evict_spec h n
  rw [he]; exact ⟨EvictSound.of_back h.1 hs, hw⟩

theorem fifo_evict_enough {s : Fifo.State} (h : Fifo.Inv s) {n : Nat}
    (hn : n ≤ costSum (Fifo.tracked s)) : n ≤ (Fifo.evict s n).2.2 := by
  obtain ⟨popped, l', he, hs, _, hd, _⟩ := Fifo.evict_spec h n
  rw [he]
  rcases hd with hd | hd
  · exact hd
  · simp only [Fifo.tracked] at hn; rw [hs, hd] at hn; simpa using hn

theorem fifo_untrack_only_by_nomination (s : Fifo.State) (k c : Nat) :
    AccessOk (Fifo.tracked s) (Fifo.tracked (Fifo.access s k c)) k
    ∧ AdmitOk (Fifo.tracked s) (Fifo.tracked (Fifo.admit s k c).1) k (Fifo.admit s k c).2.victims
    ∧ RemoveOk (Fifo.tracked s) (Fifo.tracked (Fifo.remove s k)) k
    ∧ Fifo.tracked (Fifo.clear s) = [] := by
  refine ⟨AccessOk.rfl' k, ?_, ?_, rfl⟩
  · simp only [Fifo.tracked, Fifo.admit_fst]
    have hv : (Fifo.admit s k c).2.victims = [] := rfl
    rw [hv]
    split
    · next hk => exact AdmitOk.of_noop hk
    · rw [LruList.pushFront_items]; exact AdmitOk.of_push _ k c
  · simp only [Fifo.tracked, Fifo.remove]; rw [LruList.remove_items]
    exact RemoveOk.of_without _ k

/-- F9c witness: FIFO keeps the stale cost on re-admission (full clause "re-admitting a key
updates its cost" is false of the code). -/
theorem C14_fails_F9c_fifo :
    let s := (Fifo.admit (Fifo.admit Fifo.init 1 1).1 1 5).1
    s.lookup 1 = some 1 := by decide

/-- PARTIAL (F9c): excluded is the cost update on re-admission of a key that is already tracked —
then `admit` is a no-op and the OLD cost stays (no duplication though). For an untracked key the
cost is recorded as given. -/
theorem fifo_readmit_updates_cost_partial (s : Fifo.State) (k c : Nat) :
    (k ∉ keys (Fifo.tracked s) → costOf (Fifo.tracked (Fifo.admit s k c).1) k = some c)
    ∧ (k ∈ keys (Fifo.tracked s) → (Fifo.admit s k c).1 = s) := by
  simp only [Fifo.tracked, Fifo.admit_fst]
  refine ⟨fun hk => ?_, fun hk => by simp [hk]⟩
  simp only [hk, if_false]; rw [LruList.pushFront_items]; exact costOf_push _ k c

/-- The FIFO list is ordered by insertion time (head = newest), where `insertedAt` is refreshed
neither by access nor by re-admission of a tracked key. -/
theorem fifo_list_sorted_by_insertion (ops : List Op) :
    (Fifo.tracked (Fifo.run ops)).Pairwise
      (fun p q => Fifo.insertedAt ops q.1 < Fifo.insertedAt ops p.1) :=
  (Fifo.insertionSorted_run ops).1

/-- FIFO evicts in insertion order, exactly: oldest insertion first, every victim inserted before
every survivor, stopping as soon as the request is met. -/
theorem fifo_evicts_in_insertion_order (ops : List Op) (n : Nat) :
    let s := Fifo.run ops
    let r := Fifo.evict s n
    r.2.1.Pairwise (fun a b => Fifo.insertedAt ops a < Fifo.insertedAt ops b)
    ∧ (∀ v ∈ r.2.1, ∀ x ∈ keys (Fifo.tracked r.1), Fifo.insertedAt ops v < Fifo.insertedAt ops x)
    ∧ (∀ vs0 v, r.2.1 = vs0 ++ [v] →
        (vs0.map (fun k => (costOf (Fifo.tracked s) k).getD 0)).sum < n) := by
  intro s r
  have hinv : Fifo.Inv s := fifo_inv_reachable ops
  obtain ⟨popped, l', he, hs, _, _, hm⟩ := Fifo.evict_spec hinv n
  have ho := back_order (R := fun a b => Fifo.insertedAt ops a < Fifo.insertedAt ops b) hs
    (Fifo.insertionSorted_run ops).1
  simp only [r, he]
  exact ⟨ho.1, ho.2, back_minimal hinv.1 hs hm⟩

example : (Fifo.evict (Fifo.run [.admit 1 1, .admit 2 1, .admit 3 1, .access 1 1, .admit 1 1]) 2).2.1
    = [1, 2] := by decide

/-- Only `admit x` can make `x` tracked: no other call starts tracking a key. -/
theorem fifo_tracks_only_on_admit {s : Fifo.State} (h : Fifo.Inv s) (op : Op) {x : Nat}
    (hx : x ∈ keys (Fifo.tracked (Fifo.step s op))) :
    x ∈ keys (Fifo.tracked s) ∨ ∃ c, op = .admit x c := by
  refine tracks_only_on_admit_of ?_ ?_ ?_ ?_ ?_ hx
  · rintro k c rfl; exact ⟨_, (fifo_untrack_only_by_nomination s k c).2.1⟩
  · rintro k c rfl; exact (fifo_untrack_only_by_nomination s k c).1
  · rintro k rfl; exact (fifo_untrack_only_by_nomination s k 0).2.2.1
  · rintro n p rfl; exact ⟨_, _, Or.inl (fifo_evict_sound h n).1⟩
  · rintro rfl; rfl

/-- A key is never nominated twice without a re-admission in between: if `evict` nominated `k`
after history `ops1` and nominates it again after the further calls `ops2`, then `ops2` contains
an `admit k`. -/
theorem fifo_no_renomination (ops1 ops2 : List Op) (n n' k : Nat)
    (h1 : k ∈ (Fifo.evict (Fifo.run ops1) n).2.1)
    (h2 : k ∈ (Fifo.evict (Fifo.run (ops1 ++ .evict n [] :: ops2)) n').2.1) :
    ∃ c, Op.admit k c ∈ ops2 := by
  have h := fifo_inv_reachable ops1
  have hs := fifo_evict_sound h n
  have hrun : Fifo.run (ops1 ++ .evict n [] :: ops2)
      = ops2.foldl (Fifo.step ) (Fifo.evict (Fifo.run ops1) n).1 := by
    simp [Fifo.run, List.foldl_append, Fifo.step]
  have ht := ((fifo_evict_sound (fifo_inv_reachable (ops1 ++ .evict n [] :: ops2)) n')).1.tracked k h2
  rw [hrun] at ht
  exact retracked_only_by_admit (Fifo.step ) Fifo.tracked Fifo.Inv
    (fun _ op h => fifo_inv_step h op) (fun _ op _ h hx => fifo_tracks_only_on_admit h op hx)
    ops2 hs.2 (hs.1.gone k h1) ht

example : 1 ∈ (Fifo.evict (Fifo.run [.admit 1 1]) 1).2.1 ∧
    1 ∈ (Fifo.evict (Fifo.run ([.admit 1 1] ++ .evict 1 [] :: [.admit 1 1])) 1).2.1 := by decide

/-! ## Random (the victim picks are an oracle: statements hold for EVERY admissible pick list) -/

theorem random_inv_step {s : Random.State} (h : Random.Inv s) (op : Op) : Random.Inv (Random.step s op) := by
  cases op with
  | admit k c => exact Random.Inv_admit h k c
  | access k c => exact h
  | remove k => exact Random.Inv_remove h k
  | evict n picks =>
    simp only [Random.step]
    split
    · next s' f he => exact (Random.evictWith_spec picks s n 0 s' f h he).choose_spec.2.2.2.1
    · exact h
  | clear => exact Random.Inv_init

theorem random_inv_reachable (ops : List Op) : Random.Inv (Random.run ops) :=
  foldl_inv Random.step Random.Inv (fun _ a h => random_inv_step h a) ops Random.init Random.Inv_init

example : Random.Inv (Random.run [.admit 1 2, .admit 2 0, .evict 1 [2, 1]]) := random_inv_reachable _

/-- Whatever victims the random generator picks (`evictWith … = some …` says the pick list is a
possible run of the loop), they are distinct tracked keys, reported at their recorded costs, and
exactly they are untracked. -/
theorem random_evict_sound {s : Random.State} (h : Random.Inv s) (n : Nat) (picks : List Nat)
    {s' : Random.State} {freed : Nat} (he : Random.evictWith s n picks 0 = some (s', freed)) :
    EvictSound (Random.tracked s) (Random.tracked s') picks freed ∧ Random.Inv s' := by
  obtain ⟨popped, hk, hf, hp, hi, _⟩ := Random.evictWith_spec picks s n 0 s' freed h he
  have := EvictSound.of_perm h hp
  rw [hk] at this
  simp only [Nat.zero_add] at hf
  rw [hf]; exact ⟨this, hi⟩

theorem random_evict_enough {s : Random.State} (h : Random.Inv s) {n : Nat} (picks : List Nat)
    {s' : Random.State} {freed : Nat} (he : Random.evictWith s n picks 0 = some (s', freed))
    (hn : n ≤ costSum (Random.tracked s)) : n ≤ freed := by
  obtain ⟨popped, hk, hf, hp, hi, hd⟩ := Random.evictWith_spec picks s n 0 s' freed h he
  rcases hd with hd | hd
  · omega
  · have := costSum_perm hp
    simp only [Random.tracked] at hn
    rw [hd] at this; simp at this; omega

example : Random.Inv (Random.run [.admit 1 2, .admit 2 3]) ∧
    Random.evictWith (Random.run [.admit 1 2, .admit 2 3]) 4 [1, 2] 0 = some ({}, 5) :=
  ⟨random_inv_reachable _, by decide⟩

theorem random_untrack_only_by_nomination (s : Random.State) (k c : Nat) :
    AccessOk (Random.tracked s) (Random.tracked (Random.access s k c)) k
    ∧ AdmitOk (Random.tracked s) (Random.tracked (Random.admit s k c).1) k (Random.admit s k c).2.victims
    ∧ RemoveOk (Random.tracked s) (Random.tracked (Random.remove s k)) k
    ∧ Random.tracked (Random.clear s) = [] :=
  ⟨AccessOk.rfl' k, AdmitOk.of_push _ k c, RemoveOk.of_without _ k, rfl⟩

theorem random_readmit_updates_cost (s : Random.State) (k c : Nat) :
    costOf (Random.tracked (Random.admit s k c).1) k = some c := costOf_push _ k c

/-- Only `admit x` can make `x` tracked. -/
theorem random_tracks_only_on_admit {s : Random.State} (h : Random.Inv s) (op : Op) {x : Nat}
    (hx : x ∈ keys (Random.tracked (Random.step s op))) :
    x ∈ keys (Random.tracked s) ∨ ∃ c, op = .admit x c := by
  refine tracks_only_on_admit_of ?_ ?_ ?_ ?_ ?_ hx
  · rintro k c rfl; exact ⟨_, (random_untrack_only_by_nomination s k c).2.1⟩
  · rintro k c rfl; exact (random_untrack_only_by_nomination s k c).1
  · rintro k rfl; exact (random_untrack_only_by_nomination s k 0).2.2.1
  · rintro n p rfl
    simp only [Random.step]
    split
    · next s' f he => exact ⟨p, f, Or.inl (random_evict_sound h n p he).1⟩
    · exact ⟨[], 0, Or.inr rfl⟩
  · rintro rfl; rfl

/-- A key is never nominated twice without a re-admission in between (for every pair of
admissible random pick lists). -/
theorem random_no_renomination (ops1 ops2 : List Op) (n n' k : Nat) (picks picks' : List Nat)
    {s1 s2 : Random.State} {f1 f2 : Nat}
    (he1 : Random.evictWith (Random.run ops1) n picks 0 = some (s1, f1)) (h1 : k ∈ picks)
    (he2 : Random.evictWith (Random.run (ops1 ++ .evict n picks :: ops2)) n' picks' 0 = some (s2, f2))
    (h2 : k ∈ picks') : ∃ c, Op.admit k c ∈ ops2 := by
  have h := random_inv_reachable ops1
  have hs := random_evict_sound h n picks he1
  have hrun : Random.run (ops1 ++ .evict n picks :: ops2) = ops2.foldl Random.step s1 := by
    simp [Random.run, List.foldl_append, Random.step]
    have : Random.evictWith (List.foldl Random.step Random.init ops1) n picks 0 = some (s1, f1) := he1
    rw [this]
  have ht := (random_evict_sound (random_inv_reachable (ops1 ++ .evict n picks :: ops2)) n' picks' he2).1.tracked k h2
  rw [hrun] at ht
  exact retracked_only_by_admit Random.step Random.tracked Random.Inv
    (fun _ op h => random_inv_step h op) (fun _ op _ h hx => random_tracks_only_on_admit h op hx)
    ops2 hs.2 (hs.1.gone k h1) ht

example : Random.evictWith (Random.run [.admit 1 1]) 1 [1] 0 = some ({}, 1) ∧
    Random.evictWith (Random.run ([.admit 1 1] ++ .evict 1 [1] :: [.admit 1 1])) 1 [1] 0 = some ({}, 1) := by
  decide

/-! ## SLRU (`protCap` = protected-segment capacity, a construction-time constant) -/

theorem slru_inv_step (protCap : Nat) {s : Slru.State} (h : Slru.Inv s) (op : Op) :
    Slru.Inv (Slru.step protCap s op) := by
  cases op with
  | admit k c =>
    simp only [Slru.step, Slru.admit_fst]; split
    · exact h
    · next hk => exact (Slru.push_new_spec h hk c).1
  | access k c => exact (Slru.accessInternal_spec h k c protCap).1
  | remove k => exact (Slru.remove_spec h k).1
  | evict n picks =>
    obtain ⟨popped, s', he, _, hi, _⟩ := Slru.evictItems_spec h n protCap
    simp only [Slru.step, Slru.evict, he]; exact hi
  | clear => exact Slru.Inv_init

theorem slru_inv_reachable (protCap : Nat) (ops : List Op) : Slru.Inv (Slru.run protCap ops) :=
  foldl_inv (Slru.step protCap) Slru.Inv (fun _ a h => slru_inv_step protCap h a) ops Slru.init Slru.Inv_init

/-- the invariant says in particular: no key is tracked twice (in either segment) -/
theorem slru_inv_nodup {s : Slru.State} (h : Slru.Inv s) : (keys (Slru.tracked s)).Nodup :=
  Slru.nodup_tracked h

example : Slru.Inv (Slru.run 1 [.admit 1 2, .admit 2 0, .access 1 2, .access 2 0, .evict 1 []]) :=
  slru_inv_reachable _ _

theorem slru_evict_sound {s : Slru.State} (h : Slru.Inv s) (n protCap : Nat) :
    EvictSound (Slru.tracked s) (Slru.tracked (Slru.evict s n protCap).1)
      (Slru.evict s n protCap).2.1 (Slru.evict s n protCap).2.2
    ∧ Slru.Inv (Slru.evict s n protCap).1 := by
  obtain ⟨popped, s', he, hp, hi, _⟩ := Slru.evictItems_spec h n protCap
  simp only [Slru.evict, he]
  exact ⟨EvictSound.of_perm (Slru.nodup_tracked h) hp, hi⟩

theorem slru_evict_enough {s : Slru.State} (h : Slru.Inv s) {n : Nat} (protCap : Nat)
    (hn : n ≤ costSum (Slru.tracked s)) : n ≤ (Slru.evict s n protCap).2.2 := by
  obtain ⟨popped, s', he, hp, _, hd⟩ := Slru.evictItems_spec h n protCap
  simp only [Slru.evict, he]
  rcases hd with hd | hd
  · exact hd
  · have := costSum_perm hp; rw [hd] at this; simp at this; omega

example : Slru.Inv (Slru.run 1 [.admit 1 2, .admit 2 3]) ∧
    4 ≤ costSum (Slru.tracked (Slru.run 1 [.admit 1 2, .admit 2 3])) := ⟨slru_inv_reachable _ _, by decide⟩

theorem slru_untrack_only_by_nomination {s : Slru.State} (h : Slru.Inv s) (k c protCap : Nat) :
    AccessOk (Slru.tracked s) (Slru.tracked (Slru.access s k c protCap)) k
    ∧ AdmitOk (Slru.tracked s) (Slru.tracked (Slru.admit s k c).1) k (Slru.admit s k c).2.victims
    ∧ RemoveOk (Slru.tracked s) (Slru.tracked (Slru.remove s k)) k
    ∧ Slru.tracked (Slru.clear s) = [] := by
  refine ⟨(Slru.accessInternal_spec h k c protCap).2.1, ?_, ?_, rfl⟩
  · have hv : (Slru.admit s k c).2.victims = [] := rfl
    rw [hv, Slru.admit_fst]; split
    · next hk => exact AdmitOk.of_noop hk
    · next hk =>
      rw [(Slru.push_new_spec h hk c).2]
      have := AdmitOk.of_push (Slru.tracked s) k c
      rwa [without_eq_self hk] at this
  · rw [(Slru.remove_spec h k).2]; exact RemoveOk.of_without _ k

/-- F9c witness: SLRU keeps the stale cost on re-admission. -/
theorem C14_fails_F9c_slru :
    let s := (Slru.admit (Slru.admit Slru.init 1 1).1 1 5).1
    costOf (Slru.tracked s) 1 = some 1 := by decide

/-- PARTIAL (F9c): excluded is the cost update on re-admission of a tracked key (no-op, the OLD
cost stays; no duplication). For an untracked key the cost is recorded as given. -/
theorem slru_readmit_updates_cost_partial {s : Slru.State} (h : Slru.Inv s) (k c : Nat) :
    (k ∉ keys (Slru.tracked s) → costOf (Slru.tracked (Slru.admit s k c).1) k = some c)
    ∧ (k ∈ keys (Slru.tracked s) → (Slru.admit s k c).1 = s) := by
  rw [Slru.admit_fst]
  refine ⟨fun hk => ?_, fun hk => by simp [hk]⟩
  simp only [hk, if_false]; rw [(Slru.push_new_spec h hk c).2]; exact costOf_push _ k c

/-- Only `admit x` can make `x` tracked: no other call starts tracking a key. -/
theorem slru_tracks_only_on_admit (protCap : Nat) {s : Slru.State} (h : Slru.Inv s) (op : Op) {x : Nat}
    (hx : x ∈ keys (Slru.tracked (Slru.step protCap s op))) :
    x ∈ keys (Slru.tracked s) ∨ ∃ c, op = .admit x c := by
  refine tracks_only_on_admit_of ?_ ?_ ?_ ?_ ?_ hx
  · rintro k c rfl; exact ⟨_, (slru_untrack_only_by_nomination h k c protCap).2.1⟩
  · rintro k c rfl; exact (slru_untrack_only_by_nomination h k c protCap).1
  · rintro k rfl; exact (slru_untrack_only_by_nomination h k 0 protCap).2.2.1
  · rintro n p rfl; exact ⟨_, _, Or.inl (slru_evict_sound h n protCap).1⟩
  · rintro rfl; rfl

/-- A key is never nominated twice without a re-admission in between: if `evict` nominated `k`
after history `ops1` and nominates it again after the further calls `ops2`, then `ops2` contains
an `admit k`. -/
theorem slru_no_renomination (protCap : Nat) (ops1 ops2 : List Op) (n n' k : Nat)
    (h1 : k ∈ (Slru.evict (Slru.run protCap ops1) n protCap).2.1)
    (h2 : k ∈ (Slru.evict (Slru.run protCap (ops1 ++ .evict n [] :: ops2)) n' protCap).2.1) :
    ∃ c, Op.admit k c ∈ ops2 := by
  have h := slru_inv_reachable protCap ops1
  have hs := slru_evict_sound h n protCap
  have hrun : Slru.run protCap (ops1 ++ .evict n [] :: ops2)
      = ops2.foldl (Slru.step protCap) (Slru.evict (Slru.run protCap ops1) n protCap).1 := by
    simp [Slru.run, List.foldl_append, Slru.step, Slru.evict]
  have ht := ((slru_evict_sound (slru_inv_reachable protCap (ops1 ++ .evict n [] :: ops2)) n' protCap)).1.tracked k h2
  rw [hrun] at ht
  exact retracked_only_by_admit (Slru.step protCap) Slru.tracked Slru.Inv
    (fun _ op h => slru_inv_step protCap h op) (fun _ op _ h hx => slru_tracks_only_on_admit protCap h op hx)
    ops2 hs.2 (hs.1.gone k h1) ht

example : 1 ∈ (Slru.evict (Slru.run 2 [.admit 1 1]) 1 2).2.1 ∧
    1 ∈ (Slru.evict (Slru.run 2 ([.admit 1 1] ++ .evict 1 [] :: [.admit 1 1])) 1 2).2.1 := by decide

/-! ## SIEVE -/

theorem sieve_inv_step {s : Sieve.State} (h : Sieve.Inv s) (op : Op) : Sieve.Inv (Sieve.step s op) := by
  cases op with
  | admit k c =>
    simp only [Sieve.step, Sieve.Inv, Sieve.tracked_admit, keys_cons, List.nodup_cons]
    exact ⟨not_mem_keys_without _ _, nodup_without k h⟩
  | access k c => simp only [Sieve.step, Sieve.Inv, Sieve.tracked_access]; exact h
  | remove k => simp only [Sieve.step, Sieve.Inv, Sieve.tracked_remove]; exact nodup_without k h
  | evict n picks =>
    obtain ⟨popped, _, _, hp, _⟩ := Sieve.evict_spec s n
    exact (EvictSound.of_perm h hp).nodup'
  | clear => exact Sieve.Inv_init

theorem sieve_inv_reachable (ops : List Op) : Sieve.Inv (Sieve.run ops) :=
  foldl_inv Sieve.step Sieve.Inv (fun _ a h => sieve_inv_step h a) ops Sieve.init Sieve.Inv_init

example : Sieve.Inv (Sieve.run [.admit 1 2, .admit 2 0, .access 1 2, .evict 1 []]) := sieve_inv_reachable _

theorem sieve_evict_sound {s : Sieve.State} (h : Sieve.Inv s) (n : Nat) :
    EvictSound (Sieve.tracked s) (Sieve.tracked (Sieve.evict s n).1) (Sieve.evict s n).2.1 (Sieve.evict s n).2.2
    ∧ Sieve.Inv (Sieve.evict s n).1 := by
  obtain ⟨popped, h1, h2, hp, _⟩ := Sieve.evict_spec s n
  have := EvictSound.of_perm h hp
  rw [h1, h2]; exact ⟨this, this.nodup'⟩

theorem sieve_evict_enough (s : Sieve.State) {n : Nat}
    (hn : n ≤ costSum (Sieve.tracked s)) : n ≤ (Sieve.evict s n).2.2 := by
  obtain ⟨popped, _, h2, hp, hd⟩ := Sieve.evict_spec s n
  rw [h2]
  rcases hd with hd | hd
  · exact hd
  · have := costSum_perm hp; rw [hd] at this; simp at this; omega

example : 4 ≤ costSum (Sieve.tracked (Sieve.run [.admit 1 2, .admit 2 3])) := by decide

theorem sieve_untrack_only_by_nomination (s : Sieve.State) (k c : Nat) :
    AccessOk (Sieve.tracked s) (Sieve.tracked (Sieve.access s k c)) k
    ∧ AdmitOk (Sieve.tracked s) (Sieve.tracked (Sieve.admit s k c).1) k (Sieve.admit s k c).2.victims
    ∧ RemoveOk (Sieve.tracked s) (Sieve.tracked (Sieve.remove s k)) k
    ∧ Sieve.tracked (Sieve.clear s) = [] := by
  refine ⟨?_, ?_, ?_, rfl⟩
  · rw [Sieve.tracked_access]; exact AccessOk.rfl' k
  · rw [Sieve.tracked_admit]; exact AdmitOk.of_push _ k c
  · rw [Sieve.tracked_remove]; exact RemoveOk.of_without _ k

theorem sieve_readmit_updates_cost (s : Sieve.State) (k c : Nat) :
    costOf (Sieve.tracked (Sieve.admit s k c).1) k = some c := by
  rw [Sieve.tracked_admit]; exact costOf_push _ k c

/-- Only `admit x` can make `x` tracked: no other call starts tracking a key. -/
theorem sieve_tracks_only_on_admit {s : Sieve.State} (h : Sieve.Inv s) (op : Op) {x : Nat}
    (hx : x ∈ keys (Sieve.tracked (Sieve.step s op))) :
    x ∈ keys (Sieve.tracked s) ∨ ∃ c, op = .admit x c := by
  refine tracks_only_on_admit_of ?_ ?_ ?_ ?_ ?_ hx
  · rintro k c rfl; exact ⟨_, (sieve_untrack_only_by_nomination s k c).2.1⟩
  · rintro k c rfl; exact (sieve_untrack_only_by_nomination s k c).1
  · rintro k rfl; exact (sieve_untrack_only_by_nomination s k 0).2.2.1
  · rintro n p rfl; exact ⟨_, _, Or.inl (sieve_evict_sound h n).1⟩
  · rintro rfl; rfl

/-- A key is never nominated twice without a re-admission in between: if `evict` nominated `k`
after history `ops1` and nominates it again after the further calls `ops2`, then `ops2` contains
an `admit k`. -/
theorem sieve_no_renomination (ops1 ops2 : List Op) (n n' k : Nat)
    (h1 : k ∈ (Sieve.evict (Sieve.run ops1) n).2.1)
    (h2 : k ∈ (Sieve.evict (Sieve.run (ops1 ++ .evict n [] :: ops2)) n').2.1) :
    ∃ c, Op.admit k c ∈ ops2 := by
  have h := sieve_inv_reachable ops1
  have hs := sieve_evict_sound h n
  have hrun : Sieve.run (ops1 ++ .evict n [] :: ops2)
      = ops2.foldl (Sieve.step ) (Sieve.evict (Sieve.run ops1) n).1 := by
    simp [Sieve.run, List.foldl_append, Sieve.step]
  have ht := ((sieve_evict_sound (sieve_inv_reachable (ops1 ++ .evict n [] :: ops2)) n')).1.tracked k h2
  rw [hrun] at ht
  exact retracked_only_by_admit (Sieve.step ) Sieve.tracked Sieve.Inv
    (fun _ op h => sieve_inv_step h op) (fun _ op _ h hx => sieve_tracks_only_on_admit h op hx)
    ops2 hs.2 (hs.1.gone k h1) ht

example : 1 ∈ (Sieve.evict (Sieve.run [.admit 1 1]) 1).2.1 ∧
    1 ∈ (Sieve.evict (Sieve.run ([.admit 1 1] ++ .evict 1 [] :: [.admit 1 1])) 1).2.1 := by decide

/-! ## Clock -/

theorem clock_inv_step {s : Clock.State} (h : Clock.Inv s) (op : Op) : Clock.Inv (Clock.step s op) := by
  cases op with
  | admit k c =>
    simp only [Clock.step, Clock.admit_fst]; split
    · exact h
    · next hk =>
      simp only [Clock.Inv, Clock.tracked, List.map_append, List.map_cons, List.map_nil, Clock.pair]
      have hp : ((Clock.tracked s) ++ [(k, c)]).Perm ((k, c) :: Clock.tracked s) :=
        List.perm_append_comm (l₂ := [(k, c)])
      refine (keys_perm hp).nodup_iff.2 ?_
      simp only [keys_cons, List.nodup_cons]; exact ⟨hk, h⟩
  | access k c => simp only [Clock.step, Clock.Inv, Clock.tracked_access]; exact h
  | remove k => exact (Clock.remove_spec h k).1
  | evict n picks =>
    obtain ⟨popped, _, _, hp, _⟩ := Clock.evict_spec s n
    exact (EvictSound.of_perm h hp).nodup'
  | clear => exact Clock.Inv_init

theorem clock_inv_reachable (ops : List Op) : Clock.Inv (Clock.run ops) :=
  foldl_inv Clock.step Clock.Inv (fun _ a h => clock_inv_step h a) ops Clock.init Clock.Inv_init

example : Clock.Inv (Clock.run [.admit 1 2, .admit 2 0, .access 1 2, .evict 1 []]) := clock_inv_reachable _

theorem clock_evict_sound {s : Clock.State} (h : Clock.Inv s) (n : Nat) :
    EvictSound (Clock.tracked s) (Clock.tracked (Clock.evict s n).1) (Clock.evict s n).2.1 (Clock.evict s n).2.2
    ∧ Clock.Inv (Clock.evict s n).1 := by
  obtain ⟨popped, h1, h2, hp, _⟩ := Clock.evict_spec s n
  have := EvictSound.of_perm h hp
  rw [h1, h2]; exact ⟨this, this.nodup'⟩

/-- in particular the second-chance sweep always finds a victim while anything is tracked -/
theorem clock_evict_enough (s : Clock.State) {n : Nat}
    (hn : n ≤ costSum (Clock.tracked s)) : n ≤ (Clock.evict s n).2.2 := by
  obtain ⟨popped, _, h2, hp, hd⟩ := Clock.evict_spec s n
  rw [h2]
  rcases hd with hd | hd
  · exact hd
  · have := costSum_perm hp; rw [hd] at this; simp at this; omega

example : 4 ≤ costSum (Clock.tracked (Clock.run [.admit 1 2, .admit 2 3])) := by decide

theorem clock_untrack_only_by_nomination {s : Clock.State} (h : Clock.Inv s) (k c : Nat) :
    AccessOk (Clock.tracked s) (Clock.tracked (Clock.access s k c)) k
    ∧ AdmitOk (Clock.tracked s) (Clock.tracked (Clock.admit s k c).1) k (Clock.admit s k c).2.victims
    ∧ RemoveOk (Clock.tracked s) (Clock.tracked (Clock.remove s k)) k
    ∧ Clock.tracked (Clock.clear s) = [] := by
  refine ⟨?_, ?_, (Clock.remove_spec h k).2, rfl⟩
  · rw [Clock.tracked_access]; exact AccessOk.rfl' k
  · have hv : (Clock.admit s k c).2.victims = [] := rfl
    rw [hv, Clock.admit_fst]; split
    · next hk => exact AdmitOk.of_noop hk
    · next hk =>
      have := AdmitOk.of_append_new hk c
      simpa [Clock.tracked, Clock.pair] using this

/-- F9c witness: Clock keeps the stale cost on re-admission. -/
theorem C14_fails_F9c_clock :
    let s := (Clock.admit (Clock.admit Clock.init 1 1).1 1 5).1
    costOf (Clock.tracked s) 1 = some 1 := by decide

/-- PARTIAL (F9c): excluded is the cost update on re-admission of a tracked key (no-op, the OLD
cost stays; no duplication). For an untracked key the cost is recorded as given. -/
theorem clock_readmit_updates_cost_partial (s : Clock.State) (k c : Nat) :
    (k ∉ keys (Clock.tracked s) → costOf (Clock.tracked (Clock.admit s k c).1) k = some c)
    ∧ (k ∈ keys (Clock.tracked s) → (Clock.admit s k c).1 = s) := by
  rw [Clock.admit_fst]
  refine ⟨fun hk => ?_, fun hk => by simp [hk]⟩
  rw [if_neg hk]
  have : Clock.tracked { s with order := s.order ++ [{ key := k, cost := c, ref := false }] }
      = Clock.tracked s ++ [(k, c)] := by simp [Clock.tracked, Clock.pair]
  rw [this, costOf_append, costOf_eq_none_iff.2 hk]; simp [costOf_cons]

/-- Only `admit x` can make `x` tracked: no other call starts tracking a key. -/
theorem clock_tracks_only_on_admit {s : Clock.State} (h : Clock.Inv s) (op : Op) {x : Nat}
    (hx : x ∈ keys (Clock.tracked (Clock.step s op))) :
    x ∈ keys (Clock.tracked s) ∨ ∃ c, op = .admit x c := by
  refine tracks_only_on_admit_of ?_ ?_ ?_ ?_ ?_ hx
  · rintro k c rfl; exact ⟨_, (clock_untrack_only_by_nomination h k c).2.1⟩
  · rintro k c rfl; exact (clock_untrack_only_by_nomination h k c).1
  · rintro k rfl; exact (clock_untrack_only_by_nomination h k 0).2.2.1
  · rintro n p rfl; exact ⟨_, _, Or.inl (clock_evict_sound h n).1⟩
  · rintro rfl; rfl

/-- A key is never nominated twice without a re-admission in between: if `evict` nominated `k`
after history `ops1` and nominates it again after the further calls `ops2`, then `ops2` contains
an `admit k`. -/
theorem clock_no_renomination (ops1 ops2 : List Op) (n n' k : Nat)
    (h1 : k ∈ (Clock.evict (Clock.run ops1) n).2.1)
    (h2 : k ∈ (Clock.evict (Clock.run (ops1 ++ .evict n [] :: ops2)) n').2.1) :
    ∃ c, Op.admit k c ∈ ops2 := by
  have h := clock_inv_reachable ops1
  have hs := clock_evict_sound h n
  have hrun : Clock.run (ops1 ++ .evict n [] :: ops2)
      = ops2.foldl (Clock.step ) (Clock.evict (Clock.run ops1) n).1 := by
    simp [Clock.run, List.foldl_append, Clock.step]
  have ht := ((clock_evict_sound (clock_inv_reachable (ops1 ++ .evict n [] :: ops2)) n')).1.tracked k h2
  rw [hrun] at ht
  exact retracked_only_by_admit (Clock.step ) Clock.tracked Clock.Inv
    (fun _ op h => clock_inv_step h op) (fun _ op _ h hx => clock_tracks_only_on_admit h op hx)
    ops2 hs.2 (hs.1.gone k h1) ht

example : 1 ∈ (Clock.evict (Clock.run [.admit 1 1]) 1).2.1 ∧
    1 ∈ (Clock.evict (Clock.run ([.admit 1 1] ++ .evict 1 [] :: [.admit 1 1])) 1).2.1 := by decide

/-! ## ARC (`cap` = capacity, a construction-time constant; tracked = T1 ++ T2, the ghost lists
B1/B2 remember keys that are NOT resident and are not tracked) -/

theorem arc_inv_step (cap : Nat) {s : Arc.State} (h : Arc.Inv s) (op : Op) :
    Arc.Inv (Arc.step cap s op) := by
  cases op with
  | admit k c => exact (Arc.admit_spec h k c cap).1
  | access k c => exact (Arc.access_spec h k c).1
  | remove k => exact (Arc.remove_spec h k).1
  | evict n picks => exact (Arc.evict_spec h n cap).choose_spec.2.2.2.1
  | clear => exact Arc.Inv_init

theorem arc_inv_reachable (cap : Nat) (ops : List Op) : Arc.Inv (Arc.run cap ops) :=
  foldl_inv (Arc.step cap) Arc.Inv (fun _ a h => arc_inv_step cap h a) ops Arc.init Arc.Inv_init

/-- the invariant says in particular: no key is tracked twice (in T1 or T2) -/
theorem arc_inv_nodup {s : Arc.State} (h : Arc.Inv s) : (keys (Arc.tracked s)).Nodup :=
  Arc.nodup_tracked h

example : Arc.Inv (Arc.run 2 [.admit 1 1, .admit 2 1, .admit 3 1, .access 2 1, .evict 1 []]) :=
  arc_inv_reachable _ _

theorem arc_evict_sound {s : Arc.State} (h : Arc.Inv s) (n cap : Nat) :
    EvictSound (Arc.tracked s) (Arc.tracked (Arc.evict s n cap).1)
      (Arc.evict s n cap).2.1 (Arc.evict s n cap).2.2
    ∧ Arc.Inv (Arc.evict s n cap).1 := by
  obtain ⟨popped, h1, h2, hp, hi, _⟩ := Arc.evict_spec h n cap
  rw [h1, h2]; exact ⟨EvictSound.of_perm (Arc.nodup_tracked h) hp, hi⟩

/-- F9a witness (second half of the finding): `replace` returns `None` although T1 is not empty
(T1 cheaper than the target `p`, T2 empty), so `evict 2` frees 1 while keys worth 2 are tracked. -/
theorem C14_fails_F9a_arc_evict_stuck :
    let s := Arc.run 2 [.admit 1 1, .admit 2 1, .admit 3 1, .admit 1 1, .admit 2 1]
    costSum (Arc.tracked s) = 2 ∧ (Arc.evict s 2 2).2 = ([1], 1) := by decide

/-- PARTIAL (F9a): `evict n` frees at least `n` provided the tracked keys are worth `n + p` (`p` =
ARC's adaptive target for T1). Excluded: requests within `p` of the total tracked cost — there
`replace` may give up with T1 non-empty (witness `C14_fails_F9a_arc_evict_stuck`). -/
theorem arc_evict_enough_partial {s : Arc.State} (h : Arc.Inv s) {n : Nat} (cap : Nat)
    (hn : n + s.p ≤ costSum (Arc.tracked s)) : n ≤ (Arc.evict s n cap).2.2 := by
  obtain ⟨popped, _, h2, hp, _, hd⟩ := Arc.evict_spec h n cap
  rw [h2]
  rcases hd with hd | hd
  · exact hd
  · have := costSum_perm hp; simp at this; omega

example : Arc.Inv (Arc.run 2 [.admit 1 1, .admit 2 1]) ∧
    2 + (Arc.run 2 [.admit 1 1, .admit 2 1]).p ≤ costSum (Arc.tracked (Arc.run 2 [.admit 1 1, .admit 2 1])) :=
  ⟨arc_inv_reachable _ _, by decide⟩

/-- F9a witness: ARC stops tracking key 1 without nominating it. -/
theorem C14_fails_F9a_arc :
    let s := (Arc.admit (Arc.admit (Arc.admit Arc.init 1 1 2).1 2 1 2).1 3 1 2).1
    (s.t1.contains 1 || s.t2.contains 1) = false ∧ (Arc.evict s 1000000 2).2.1 = [2, 3] := by decide

/-- PARTIAL (F9a): access / remove / clear obey the contract. `admit k` obeys it (with the empty
victim list it reports) when `k` is already tracked or T1+T2 is below capacity. Excluded: an
admission of a new key at capacity — there the tracked set changes as if a list `dropped` of at
most one key had been nominated, but `on_admit` reports no victim (it discards the key chosen by
`replace`; witness `C14_fails_F9a_arc`). Nothing else is ever untracked. -/
theorem arc_untrack_only_by_nomination_partial {s : Arc.State} (h : Arc.Inv s) (k c cap : Nat) :
    AccessOk (Arc.tracked s) (Arc.tracked (Arc.access s k c)) k
    ∧ ((k ∈ keys (Arc.tracked s) ∨ s.t1.cost + s.t2.cost < cap) →
        AdmitOk (Arc.tracked s) (Arc.tracked (Arc.admit s k c cap).1) k (Arc.admit s k c cap).2.victims)
    ∧ (∃ dropped : List Nat, dropped.length ≤ 1
        ∧ AdmitOk (Arc.tracked s) (Arc.tracked (Arc.admit s k c cap).1) k dropped)
    ∧ RemoveOk (Arc.tracked s) (Arc.tracked (Arc.remove s k)) k
    ∧ Arc.tracked (Arc.clear s) = [] := by
  obtain ⟨_, _, dropped, hl, hok, hnone⟩ := Arc.admit_spec h k c cap
  refine ⟨(Arc.access_spec h k c).2, ?_, ⟨dropped, hl, hok⟩, ?_, rfl⟩
  · intro hc
    rw [Arc.admit_snd]; rw [hnone hc] at hok; exact hok
  · rw [(Arc.remove_spec h k).2]; exact RemoveOk.of_without _ k

/-- Re-admitting (or admitting) `k` records cost `c` for it — once, by `arc_inv_nodup`. -/
theorem arc_readmit_updates_cost {s : Arc.State} (h : Arc.Inv s) (k c cap : Nat) :
    costOf (Arc.tracked (Arc.admit s k c cap).1) k = some c := by
  obtain ⟨hi, hm, _⟩ := Arc.admit_spec h k c cap
  exact (costOf_eq_some_iff (Arc.nodup_tracked hi)).2 hm

/-- Only `admit x` can make `x` tracked: no other call starts tracking a key. -/
theorem arc_tracks_only_on_admit (cap : Nat) {s : Arc.State} (h : Arc.Inv s) (op : Op) {x : Nat}
    (hx : x ∈ keys (Arc.tracked (Arc.step cap s op))) :
    x ∈ keys (Arc.tracked s) ∨ ∃ c, op = .admit x c := by
  refine tracks_only_on_admit_of ?_ ?_ ?_ ?_ ?_ hx
  · rintro k c rfl; exact (let ⟨d, _, hd⟩ := (arc_untrack_only_by_nomination_partial h k c cap).2.2.1; ⟨d, hd⟩)
  · rintro k c rfl; exact (arc_untrack_only_by_nomination_partial h k c cap).1
  · rintro k rfl; exact (arc_untrack_only_by_nomination_partial h k 0 cap).2.2.2.1
  · rintro n p rfl; exact ⟨_, _, Or.inl (arc_evict_sound h n cap).1⟩
  · rintro rfl; rfl

/-- A key is never nominated twice without a re-admission in between: if `evict` nominated `k`
after history `ops1` and nominates it again after the further calls `ops2`, then `ops2` contains
an `admit k`. -/
theorem arc_no_renomination (cap : Nat) (ops1 ops2 : List Op) (n n' k : Nat)
    (h1 : k ∈ (Arc.evict (Arc.run cap ops1) n cap).2.1)
    (h2 : k ∈ (Arc.evict (Arc.run cap (ops1 ++ .evict n [] :: ops2)) n' cap).2.1) :
    ∃ c, Op.admit k c ∈ ops2 := by
  have h := arc_inv_reachable cap ops1
  have hs := arc_evict_sound h n cap
  have hrun : Arc.run cap (ops1 ++ .evict n [] :: ops2)
      = ops2.foldl (Arc.step cap) (Arc.evict (Arc.run cap ops1) n cap).1 := by
    simp [Arc.run, List.foldl_append, Arc.step]
  have ht := ((arc_evict_sound (arc_inv_reachable cap (ops1 ++ .evict n [] :: ops2)) n' cap)).1.tracked k h2
  rw [hrun] at ht
  exact retracked_only_by_admit (Arc.step cap) Arc.tracked Arc.Inv
    (fun _ op h => arc_inv_step cap h op) (fun _ op _ h hx => arc_tracks_only_on_admit cap h op hx)
    ops2 hs.2 (hs.1.gone k h1) ht

example : 1 ∈ (Arc.evict (Arc.run 2 [.admit 1 1]) 1 2).2.1 ∧
    1 ∈ (Arc.evict (Arc.run 2 ([.admit 1 1] ++ .evict 1 [] :: [.admit 1 1])) 1 2).2.1 := by decide

/-! ## W-TinyLFU (tracked = admission window ++ main SLRU; the theorems hold for EVERY state of
the frequency sketch, so they do not depend on how the sketch is modelled) -/

theorem tinylfu_inv_step (cfg : TinyLfu.Cfg) {s : TinyLfu.State} (h : TinyLfu.Inv s) (op : Op) :
    TinyLfu.Inv (TinyLfu.step cfg s op) := by
  cases op with
  | admit k c => exact (TinyLfu.admit_spec h cfg k c).1
  | access k c => exact (TinyLfu.access_spec h cfg k c).1
  | remove k => exact (TinyLfu.remove_spec h k).1
  | evict n picks => exact (TinyLfu.evict_spec h cfg n).choose_spec.2.2.2.1
  | clear => exact ⟨LruList.WF_empty, Slru.Inv_init, by simp [TinyLfu.step, TinyLfu.clear]⟩

theorem tinylfu_inv_reachable (cfg : TinyLfu.Cfg) (ops : List Op) : TinyLfu.Inv (TinyLfu.run cfg ops) :=
  foldl_inv (TinyLfu.step cfg) TinyLfu.Inv (fun _ a h => tinylfu_inv_step cfg h a) ops
    (TinyLfu.init cfg) (TinyLfu.Inv_init cfg)

/-- the invariant says in particular: no key is tracked twice (window, probation, protected) -/
theorem tinylfu_inv_nodup {s : TinyLfu.State} (h : TinyLfu.Inv s) : (keys (TinyLfu.tracked s)).Nodup :=
  TinyLfu.nodup_tracked h

example : TinyLfu.Inv (TinyLfu.run (TinyLfu.mkCfg 10)
    [.admit 1 1, .admit 2 1, .admit 3 1, .access 2 1, .evict 1 []]) := tinylfu_inv_reachable _ _

theorem tinylfu_evict_sound {s : TinyLfu.State} (h : TinyLfu.Inv s) (cfg : TinyLfu.Cfg) (n : Nat) :
    EvictSound (TinyLfu.tracked s) (TinyLfu.tracked (TinyLfu.evict s cfg n).1)
      (TinyLfu.evict s cfg n).2.1 (TinyLfu.evict s cfg n).2.2
    ∧ TinyLfu.Inv (TinyLfu.evict s cfg n).1 := by
  obtain ⟨popped, h1, h2, hp, hi, _⟩ := TinyLfu.evict_spec h cfg n
  rw [h1, h2]; exact ⟨EvictSound.of_perm (TinyLfu.nodup_tracked h) hp, hi⟩

/-- F9b witness: TinyLFU never nominates a key that sits in the admission window. -/
theorem C14_fails_F9b_tinylfu :
    let cfg := TinyLfu.mkCfg 10
    let s := (TinyLfu.admit (TinyLfu.init cfg) cfg 1 1).1
    s.window.contains 1 = true ∧ (TinyLfu.evict s cfg 1).2 = ([], 0) := by decide

/-- PARTIAL (F9b): `evict n` frees at least `n` provided the MAIN segment alone is worth `n`.
Excluded: the cost of keys sitting in the admission window — `evict` never nominates them
(witness `C14_fails_F9b_tinylfu`). -/
theorem tinylfu_evict_enough_partial {s : TinyLfu.State} (h : TinyLfu.Inv s) (cfg : TinyLfu.Cfg)
    {n : Nat} (hn : n ≤ costSum (Slru.tracked s.main)) : n ≤ (TinyLfu.evict s cfg n).2.2 := by
  obtain ⟨popped, _, h2, hp, _, hd⟩ := TinyLfu.evict_spec h cfg n
  rw [h2]
  rcases hd with hd | hd
  · exact hd
  · have := costSum_perm hp
    have hw : (TinyLfu.evict s cfg n).1.window = s.window := by
      unfold TinyLfu.evict; split <;> rfl
    simp only [TinyLfu.tracked, hd, hw, costSum_append, costSum_nil] at this
    omega

example : TinyLfu.Inv (TinyLfu.run (TinyLfu.mkCfg 10) [.admit 1 1, .admit 2 1, .admit 3 1]) ∧
    1 ≤ costSum (Slru.tracked (TinyLfu.run (TinyLfu.mkCfg 10) [.admit 1 1, .admit 2 1, .admit 3 1]).main) :=
  ⟨tinylfu_inv_reachable _ _, by decide⟩

/-- TinyLFU obeys the tracking contract at full strength: `admit` may reject window candidates,
and it reports exactly those as `AdmitAndEvict` victims. -/
theorem tinylfu_untrack_only_by_nomination {s : TinyLfu.State} (h : TinyLfu.Inv s)
    (cfg : TinyLfu.Cfg) (k c : Nat) :
    AccessOk (TinyLfu.tracked s) (TinyLfu.tracked (TinyLfu.access s cfg k c)) k
    ∧ AdmitOk (TinyLfu.tracked s) (TinyLfu.tracked (TinyLfu.admit s cfg k c).1) k
        (TinyLfu.admit s cfg k c).2.victims
    ∧ RemoveOk (TinyLfu.tracked s) (TinyLfu.tracked (TinyLfu.remove s k)) k
    ∧ TinyLfu.tracked (TinyLfu.clear s) = [] := by
  refine ⟨(TinyLfu.access_spec h cfg k c).2, (TinyLfu.admit_spec h cfg k c).2.1, ?_, rfl⟩
  rw [(TinyLfu.remove_spec h k).2]; exact RemoveOk.of_without _ k

example : (TinyLfu.admit (TinyLfu.run (TinyLfu.mkCfg 10) [.admit 1 1, .admit 2 1, .access 1 1, .access 1 1])
    (TinyLfu.mkCfg 10) 3 1).2 = .admitAndEvict [2] := by decide

/-- After `admit k c`, unless `k` itself was rejected by the admission filter (then it is among
the reported victims and untracked), `k` is tracked with cost `c` — once, by `tinylfu_inv_nodup`. -/
theorem tinylfu_readmit_updates_cost {s : TinyLfu.State} (h : TinyLfu.Inv s)
    (cfg : TinyLfu.Cfg) (k c : Nat) (hk : k ∉ (TinyLfu.admit s cfg k c).2.victims) :
    costOf (TinyLfu.tracked (TinyLfu.admit s cfg k c).1) k = some c := by
  obtain ⟨hi, _, hm⟩ := TinyLfu.admit_spec h cfg k c
  exact (costOf_eq_some_iff (TinyLfu.nodup_tracked hi)).2 (hm hk)

/-- Only `admit x` can make `x` tracked: no other call starts tracking a key. -/
theorem tinylfu_tracks_only_on_admit (cfg : TinyLfu.Cfg) {s : TinyLfu.State} (h : TinyLfu.Inv s) (op : Op) {x : Nat}
    (hx : x ∈ keys (TinyLfu.tracked (TinyLfu.step cfg s op))) :
    x ∈ keys (TinyLfu.tracked s) ∨ ∃ c, op = .admit x c := by
  refine tracks_only_on_admit_of ?_ ?_ ?_ ?_ ?_ hx
  · rintro k c rfl; exact ⟨_, (tinylfu_untrack_only_by_nomination h cfg k c).2.1⟩
  · rintro k c rfl; exact (tinylfu_untrack_only_by_nomination h cfg k c).1
  · rintro k rfl; exact (tinylfu_untrack_only_by_nomination h cfg k 0).2.2.1
  · rintro n p rfl; exact ⟨_, _, Or.inl (tinylfu_evict_sound h cfg n).1⟩
  · rintro rfl; rfl

/-- A key is never nominated twice without a re-admission in between: if `evict` nominated `k`
after history `ops1` and nominates it again after the further calls `ops2`, then `ops2` contains
an `admit k`. -/
theorem tinylfu_no_renomination (cfg : TinyLfu.Cfg) (ops1 ops2 : List Op) (n n' k : Nat)
    (h1 : k ∈ (TinyLfu.evict (TinyLfu.run cfg ops1) cfg n).2.1)
    (h2 : k ∈ (TinyLfu.evict (TinyLfu.run cfg (ops1 ++ .evict n [] :: ops2)) cfg n').2.1) :
    ∃ c, Op.admit k c ∈ ops2 := by
  have h := tinylfu_inv_reachable cfg ops1
  have hs := tinylfu_evict_sound h cfg n
  have hrun : TinyLfu.run cfg (ops1 ++ .evict n [] :: ops2)
      = ops2.foldl (TinyLfu.step cfg) (TinyLfu.evict (TinyLfu.run cfg ops1) cfg n).1 := by
    simp [TinyLfu.run, List.foldl_append, TinyLfu.step]
  have ht := ((tinylfu_evict_sound (tinylfu_inv_reachable cfg (ops1 ++ .evict n [] :: ops2)) cfg n')).1.tracked k h2
  rw [hrun] at ht
  exact retracked_only_by_admit (TinyLfu.step cfg) TinyLfu.tracked TinyLfu.Inv
    (fun _ op h => tinylfu_inv_step cfg h op) (fun _ op _ h hx => tinylfu_tracks_only_on_admit cfg h op hx)
    ops2 hs.2 (hs.1.gone k h1) ht

example : 1 ∈ (TinyLfu.evict (TinyLfu.run (TinyLfu.mkCfg 10) [.admit 1 1, .admit 2 1]) (TinyLfu.mkCfg 10) 1).2.1 ∧
    1 ∈ (TinyLfu.evict (TinyLfu.run (TinyLfu.mkCfg 10)
      ([.admit 1 1, .admit 2 1] ++ .evict 1 [] :: [.admit 1 1, .admit 3 1])) (TinyLfu.mkCfg 10) 2).2.1 := by decide

end Fv.Props.C14
