import Fv.Lemmas.CacheBasic
/-
C12 — no expired entry is ever served.
-/
namespace Fv.Props.C12
open Fv.Cache
variable {P : Type}

/-- `get` / `fetch`: a returned value is the value of the resident entry of that key and that
    entry has reached neither its TTL deadline nor its idle deadline. -/
theorem get_serves_unexpired (cfg : Cfg) (s : State P) (k v : Nat) (h : (s.get cfg k).2 = some v) :
    ∃ e, (k, e) ∈ s.map ∧ e.vid = v ∧
      (e.expiresAt = 0 ∨ s.now < e.expiresAt) ∧ (∀ d, cfg.tti = some d → s.now < e.lastAccessed + d) := by
  unfold State.get at h
  split at h
  · next e he =>
    split at h
    · simp at h
    · next hx =>
      simp at h
      exact ⟨e, lookup_mem he, h, (isExpired_false_iff e s.now cfg.tti).1 (by simpa using hx)⟩
  · simp at h

theorem peek_serves_unexpired (cfg : Cfg) (s : State P) (k v : Nat) (h : s.peek cfg k = some v) :
    ∃ e, (k, e) ∈ s.map ∧ e.vid = v ∧
      (e.expiresAt = 0 ∨ s.now < e.expiresAt) ∧ (∀ d, cfg.tti = some d → s.now < e.lastAccessed + d) := by
  unfold State.peek at h
  split at h
  · next e he =>
    split at h
    · simp at h
    · next hx =>
      simp at h
      exact ⟨e, lookup_mem he, h, (isExpired_false_iff e s.now cfg.tti).1 (by simpa using hx)⟩
  · simp at h

/-- non-vacuity: a fresh entry is served -/
example : (State.get (P := Unit) { ttl := some 10 } { map := [(1, { vid := 7, cost := 1, expiresAt := 15 })], now := 14 } 1).2 = some 7 := by decide

/-! ### the clauses the code violates -/
def cfgTtl : Cfg := { ttl := some 1000 }

/-- history of the F6 witness: insert at t0, wait for the TTL, `entry(k).or_insert` -/
def f6Run : State Unit × List Ret :=
  run cfgTtl nullOps () (State.fresh cfgTtl () 5000)
    [(.insert false 1 101 1, {}), (.advance 1000, {}), (.peek 1, {}), (.orInsert 1 102 1, {})]

/-- F6: `peek` reports the entry expired, `entry().or_insert` hands the expired value out. -/
theorem C12_fails_F6 : f6Run.2 = [.unit, .unit, .val none, .val (some 101)] := by decide

def cfgF7 : Cfg := { ttl := some 3000 }

/-- history of the F7 witness: one insert with a 3 s TTL, four `run_maintenance` calls without
    any time passing, then a read. -/
def f7Run : State Unit × List Ret :=
  run cfgF7 nullOps () (State.fresh cfgF7 () 5000)
    [(.insert false 1 101 1, {}), (.runMaintenance, {}), (.runMaintenance, {}), (.runMaintenance, {}),
     (.peek 1, {}), (.runMaintenance, {}), (.peek 1, {})]

/-- F7: the entry (deadline 8000, now 5000) is served after three maintenance calls and reported
    missing after the fourth — the wheel advanced a tick per call, not per elapsed second. The
    cache is unbounded, so "an unexpired entry of an unbounded cache is not reported missing" fails. -/
theorem C12_fails_F7 :
    f7Run.2 = [.unit, .unit, .unit, .unit, .val (some 101), .unit, .val none] ∧ f7Run.1.now = 5000 := by decide

end Fv.Props.C12
