import Fv.Lemmas.CacheExpiry
/-
C12 — no expired entry is ever served.
-/
namespace Fv.Props.C12
open Fv.Cache
variable {P : Type}

/-- `get` / `fetch`: a returned value is the value of the resident entry of that key and that
    entry has reached neither its TTL deadline nor its idle deadline. -/
theorem get_serves_unexpired (cfg : Cfg) (s : State P) (k v : Nat) (h : (s.get cfg k).2 = some v) :
    ∃ e, (k, e) ∈ s.map ∧ e.vid = v ∧
      (e.expiresAt = 0 ∨ s.now < e.expiresAt) ∧ (∀ d, cfg.tti = some d → s.now < e.lastAccessed + d) := by
  unfold State.get at h
  split at h
  · next e he =>
    split at h
    · simp at h
    · next hx =>
      simp at h
      exact ⟨e, lookup_mem he, h, (isExpired_false_iff e s.now cfg.tti).1 (by simpa using hx)⟩
  · simp at h

theorem peek_serves_unexpired (cfg : Cfg) (s : State P) (k v : Nat) (h : s.peek cfg k = some v) :
    ∃ e, (k, e) ∈ s.map ∧ e.vid = v ∧
      (e.expiresAt = 0 ∨ s.now < e.expiresAt) ∧ (∀ d, cfg.tti = some d → s.now < e.lastAccessed + d) := by
  unfold State.peek at h
  split at h
  · next e he =>
    split at h
    · simp at h
    · next hx =>
      simp at h
      exact ⟨e, lookup_mem he, h, (isExpired_false_iff e s.now cfg.tti).1 (by simpa using hx)⟩
  · simp at h

/-- non-vacuity: a fresh entry is served -/
example : (State.get (P := Unit) { ttl := some 10 } { map := [(1, { vid := 7, cost := 1, expiresAt := 15 })], now := 14 } 1).2 = some 7 := by decide

/-! ### the clauses the code violates -/
def cfgTtl : Cfg := { ttl := some 1000 }

/-- history of the F6 witness: insert at t0, wait for the TTL, `entry(k).or_insert` -/
def f6Run : State Unit × List Ret :=
  run cfgTtl nullOps () (State.fresh cfgTtl () 5000)
    [(.insert false 1 101 1, {}), (.advance 1000, {}), (.peek 1, {}), (.orInsert 1 102 1, {})]

/-- F6: `peek` reports the entry expired, `entry().or_insert` hands the expired value out. -/
theorem C12_fails_F6 : f6Run.2 = [.unit, .unit, .val none, .val (some 101)] := by decide

def cfgF7 : Cfg := { ttl := some 3000 }

/-- history of the F7 witness: one insert with a 3 s TTL, four `run_maintenance` calls without
    any time passing, then a read. -/
def f7Run : State Unit × List Ret :=
  run cfgF7 nullOps () (State.fresh cfgF7 () 5000)
    [(.insert false 1 101 1, {}), (.runMaintenance, {}), (.runMaintenance, {}), (.runMaintenance, {}),
     (.peek 1, {}), (.runMaintenance, {}), (.peek 1, {})]

/-- F7: the entry (deadline 8000, now 5000) is served after three maintenance calls and reported
    missing after the fourth — the wheel advanced a tick per call, not per elapsed second. The
    cache is unbounded, so "an unexpired entry of an unbounded cache is not reported missing" fails. -/
theorem C12_fails_F7 :
    f7Run.2 = [.unit, .unit, .unit, .unit, .val (some 101), .unit, .val none] ∧ f7Run.1.now = 5000 := by decide

def cfgF17 : Cfg := { ttl := some 1000 }

/-- history of the F17 witness: insert at t0, wait for the TTL, `compute` -/
def f17Run : State Unit × List Ret :=
  run cfgF17 nullOps () (State.fresh cfgF17 () 5000)
    [(.insert false 1 101 1, {}), (.advance 1000, {}), (.peek 1, {}), (.compute 1 102, {}), (.peek 1, {})]

/-- F17: `peek` reports the entry expired, `compute` runs its closure on the expired value and
    returns it (`Ok(old)`); the overwritten entry keeps the old deadline. -/
theorem C12_fails_F17 :
    f17Run.2 = [.unit, .unit, .val none, .computed (some (some 101)), .val none] := by decide

def cfgF18 : Cfg := { ttl := some 3000, tti := some 500, swr := some 1000 }

/-- history of the F18 witness: TTL 3 s, idle timeout 0.5 s, grace 1 s; insert, wait 3 s
    without touching the entry, `fetch_with` -/
def f18Run : State Unit × List Ret :=
  run cfgF18 nullOps () (State.fresh cfgF18 () 5000)
    [(.insert false 1 101 1, {}), (.advance 3000, {}), (.peek 1, {}), (.fetchWith 1 102 1, {})]

/-- F18: the entry has been idle for 3000 ≥ 500 (and `peek` reports it expired) but the
    stale-while-revalidate branch of `fetch_with` serves it: the branch never looks at the TTI. -/
theorem C12_fails_F18 : f18Run.2 = [.unit, .unit, .val none, .loaded 101 true true] := by decide

def cfgF19 : Cfg := { ttl := some 2000 }

/-- history of the F19 witness: insert k (timer in slot 2), `clear` (timer not cancelled), two
    seconds and two maintenance ticks later a fresh `entry(k).or_insert`, one more tick -/
def f19Run : State Unit × List Ret :=
  run cfgF19 nullOps () (State.fresh cfgF19 () 5000)
    [(.insert false 1 101 1, {}), (.clear, {}), (.advance 2000, {}), (.runMaintenance, {}), (.runMaintenance, {}),
     (.orInsert 1 102 1, {}), (.peek 1, {}), (.runMaintenance, {}), (.peek 1, {})]

/-- the same history up to (excluding) the last maintenance call -/
def f19Pre : State Unit × List Ret :=
  run cfgF19 nullOps () (State.fresh cfgF19 () 5000)
    [(.insert false 1 101 1, {}), (.clear, {}), (.advance 2000, {}), (.runMaintenance, {}), (.runMaintenance, {}),
     (.orInsert 1 102 1, {})]

/-- F19: the timer of the binding dropped by `clear` fires on the NEW binding of the same key
    (value 102, written at 7000, deadline 9000): it is served, then one maintenance call later — the
    clock still at 7000 — it is gone, in an unbounded cache. -/
theorem C12_fails_F19 :
    f19Run.2 = [.unit, .unit, .unit, .unit, .unit, .val (some 102), .val (some 102), .unit, .val none] ∧
    f19Run.1.now = 7000 ∧
    lookup f19Pre.1.map 1 = some { vid := 102, cost := 1, expiresAt := 9000 } := by decide

/-! ### what the read paths do guarantee -/

/-- the `(key, value id)` pairs an API call hands to its caller, for the read calls covered by
    `C12_reads_partial` -/
def readsOf (op : Op) (r : Ret) : List (Nat × Nat) :=
  match op with
  | .get k => (match r with | .val (some v) => [(k, v)] | _ => [])
  | .peek k => (match r with | .val (some v) => [(k, v)] | _ => [])
  | .hold k => (match r with | .val (some v) => [(k, v)] | _ => [])
  | .multiget _ _ => (match r with | .pairs l => l | _ => [])
  | .iter _ none => (match r with | .pairs l => l | _ => [])
  | .iterSnapshot none => (match r with | .pairs l => l | _ => [])
  | .snapshot => (match r with | .snap sn => sn.entries.map (fun q => (q.key, q.vid)) | _ => [])
  | .fetchWith k _ _ => (match r with | .loaded v false false => [(k, v)] | _ => [])
  | _ => []

/-- a fresh hit of `fetch_with` (not stale, loader not invoked) is the value of an unexpired binding -/
theorem fetchWith_fresh_served (cfg : Cfg) (s : State P) (k v c r : Nat)
    (h : (s.fetchWith cfg k v c).2 = .loaded r false false) : Served s.map s.now cfg.tti (k, r) := by
  revert h
  unfold State.fetchWith
  dsimp only
  split
  · intro h; simp at h
  · next e he =>
    split
    · split
      · intro h; simp at h
      · next hx =>
        intro h
        simp at h
        subst h
        exact ⟨e, lookup_mem he, rfl, (unexpired_iff e s.now cfg.tti).1 (by simpa using hx)⟩
    · split
      · split
        · intro h; simp at h
        · intro h; simp at h
      · intro h; simp at h

/-- **C12, read paths.**  For every configuration, policy, oracle and state, every `(key, value)`
    pair handed out by `get`/`fetch`, `peek`, `hold` (a `fetch` keeping the `Arc`), `multiget`
    (sync and async), the batching iterator and the snapshot iterator run without interleaving,
    `to_snapshot`, and a fresh hit of `fetch_with`, is the value of a binding that was in the map
    when the call started and that was `Unexpired` at the time of the call (TTL deadline — also a
    per-item one set by `insert_with_ttl` — not reached, idle deadline not reached).

    `_partial`: the calls NOT covered, because the code serves expired values there, are exactly
    `entry().or_insert` (F6, `C12_fails_F6`), `compute` (F17, `C12_fails_F17`) and the
    stale-while-revalidate branch of `fetch_with` (F18, `C12_fails_F18`; what that branch does
    guarantee is `fetchWith_stale_window`).  Calls that hand out values they REMOVE (`remove`,
    `multi_remove`) are not reads.  The batching iterator with a clock advance between two
    batches is `C12_iter_interleaved`. -/
theorem C12_reads_partial (cfg : Cfg) (ops : PolicyOps P) (p0 : P) (o : Oracle) (s : State P) (op : Op) :
    ∀ p ∈ readsOf op (stepOp cfg ops p0 o s op).2,
      ∃ e, (p.1, e) ∈ s.map ∧ e.vid = p.2 ∧ Unexpired e s.now cfg.tti := by
  intro p hp
  show Served s.map s.now cfg.tti p
  cases op with
  | get k =>
    change p ∈ readsOf (.get k) (.val (s.resetLogs.get cfg k).2) at hp
    cases hv : (s.resetLogs.get cfg k).2 with
    | none => rw [hv] at hp; simp [readsOf] at hp
    | some v =>
      rw [hv] at hp; simp [readsOf] at hp; subst hp
      exact get_serves_unexpired cfg s.resetLogs k v hv
  | peek k =>
    change p ∈ readsOf (.peek k) (.val (s.resetLogs.peek cfg k)) at hp
    cases hv : s.resetLogs.peek cfg k with
    | none => rw [hv] at hp; simp [readsOf] at hp
    | some v =>
      rw [hv] at hp; simp [readsOf] at hp; subst hp
      exact peek_serves_unexpired cfg s.resetLogs k v hv
  | hold k =>
    rw [hold_ret] at hp
    cases hv : (s.resetLogs.get cfg k).2 with
    | none => rw [hv] at hp; simp [readsOf] at hp
    | some v =>
      rw [hv] at hp; simp [readsOf] at hp; subst hp
      exact get_serves_unexpired cfg s.resetLogs k v hv
  | multiget a ks =>
    cases a with
    | false =>
      change p ∈ readsOf (.multiget false ks) (.pairs (multigetSync cfg s.resetLogs ks []).2) at hp
      simp only [readsOf] at hp
      exact multigetSync_served cfg s.map s.now ks s.resetLogs [] rfl (RelM.of_sub (MapSub.refl _))
        (fun q hq => by cases hq) p hp
    | true =>
      change p ∈ readsOf (.multiget true ks)
        (.pairs (multigetAsync cfg ops s.resetLogs (groupByShard cfg ks) []).2) at hp
      simp only [readsOf] at hp
      exact multigetAsync_served cfg ops s.map s.now _ s.resetLogs [] rfl (RelM.of_sub (MapSub.refl _))
        (fun q hq => by cases hq) p hp
  | iter b inter =>
    cases inter with
    | some ad => simp [readsOf] at hp
    | none =>
      change p ∈ readsOf (.iter b none) (.pairs (s.resetLogs.iterAll cfg ops o b none).2) at hp
      simp only [readsOf] at hp
      exact iterAll_good cfg ops o s.resetLogs b none (Served s.map s.now cfg.tti) (fun _ h => h)
        (fun a d h => by cases h) p hp
  | iterSnapshot inter =>
    cases inter with
    | some ad => simp [readsOf] at hp
    | none =>
      change p ∈ readsOf (.iterSnapshot none) (.pairs (s.resetLogs.iterSnapshotAll cfg ops o none).2) at hp
      simp only [readsOf] at hp
      exact iterSnapshotAll_served cfg ops o s.resetLogs p hp
  | snapshot =>
    change p ∈ readsOf .snapshot (.snap (s.resetLogs.toSnapshot cfg ops o).2) at hp
    simp only [readsOf] at hp
    obtain ⟨q, hq, rfl⟩ := List.mem_map.1 hp
    exact toSnapshot_served cfg ops o s.resetLogs q hq
  | fetchWith k v c =>
    change p ∈ readsOf (.fetchWith k v c) (s.resetLogs.fetchWith cfg k v c).2 at hp
    generalize hr : (s.resetLogs.fetchWith cfg k v c).2 = r at hp
    cases r with
    | loaded x st ld =>
      cases st <;> cases ld <;> simp [readsOf] at hp
      subst hp
      exact fetchWith_fresh_served cfg s.resetLogs k v c x hr
    | _ => simp [readsOf] at hp
  | _ => simp [readsOf] at hp

/-- non-vacuity of `fetchWith_fresh_served`: see the `fetchWith` example below `exSt` -/
example : (State.fetchWith (P := Unit) { ttl := some 3000 }
    { map := [(1, { vid := 101, cost := 1, expiresAt := 8000 })], now := 7999 } 1 102 1).2 = .loaded 101 false false := by
  decide

/-- a state with one live and one TTL-expired binding -/
def exSt : State Unit :=
  { map := [(1, { vid := 101, cost := 1, expiresAt := 9000 }), (2, { vid := 102, cost := 1, expiresAt := 6000 })],
    aux := freshAux cfgTtl (), now := 7000 }

/-- non-vacuity: the read calls do hand out pairs, and only the live one -/
example : readsOf (.multiget false [1, 2]) (stepOp cfgTtl nullOps () {} exSt (.multiget false [1, 2])).2 = [(1, 101)] := by
  decide
example : readsOf (.iter 1 none) (stepOp cfgTtl nullOps () { ord := [2, 1] } exSt (.iter 1 none)).2 = [(1, 101)] := by
  decide
example : readsOf (.iterSnapshot none) (stepOp cfgTtl nullOps () {} exSt (.iterSnapshot none)).2 = [(1, 101)] := by
  decide
example : readsOf .snapshot (stepOp cfgTtl nullOps () {} exSt .snapshot).2 = [(1, 101)] := by decide
example : readsOf (.fetchWith 1 7 1) (stepOp cfgTtl nullOps () {} exSt (.fetchWith 1 7 1)).2 = [(1, 101)] := by decide

/-! ### interleaved iteration: an item is read when its batch is fetched -/

/-- `Iter::refill_buffer` performed at time `now` only appends to the buffer, and every item it
    appends is the value of a binding of the map that is unexpired at `now`. -/
theorem refill_serves_unexpired (nshards batch : Nat) (keysOf : Nat → List Nat) (m : List (Nat × Entry))
    (now : Nat) (tti : Option Nat) (it : IterSt) :
    ∃ added, (refill nshards batch keysOf m now tti it).buffer = it.buffer ++ added ∧
      ∀ p ∈ added, ∃ e, (p.1, e) ∈ m ∧ e.vid = p.2 ∧ Unexpired e now tti :=
  refill_appends nshards batch keysOf m now tti it

/-- non-vacuity: a refill of batch size 2 over the keys `[2, 1]` buffers the live entry only -/
example : (refill 1 2 (fun _ => [2, 1]) exSt.map 7000 none {}).buffer = [(1, 101)] := by decide

/-- the batching iterator with the clock advanced by `d` between two `next()` calls: every
    yielded pair is the value of a binding of the map at the start of the call that was unexpired
    at one of the two times at which a batch can have been fetched — the clock at the start of
    the call or the advanced clock.  (An item buffered before the advance may be yielded after
    it: the read happens at the refill.) -/
theorem C12_iter_interleaved (cfg : Cfg) (ops : PolicyOps P) (p0 : P) (o : Oracle) (s : State P)
    (batch after d : Nat) (l : List (Nat × Nat))
    (h : (stepOp cfg ops p0 o s (.iter batch (some (after, d)))).2 = .pairs l) :
    ∀ p ∈ l, ∃ e, (p.1, e) ∈ s.map ∧ e.vid = p.2 ∧
      (Unexpired e s.now cfg.tti ∨ Unexpired e (s.now + d) cfg.tti) := by
  change Ret.pairs (s.resetLogs.iterAll cfg ops o batch (some (after, d))).2 = .pairs l at h
  injection h with h
  subst h
  refine iterAll_good cfg ops o s.resetLogs batch (some (after, d))
    (fun p => ∃ e, (p.1, e) ∈ s.map ∧ e.vid = p.2 ∧ (Unexpired e s.now cfg.tti ∨ Unexpired e (s.now + d) cfg.tti))
    ?_ ?_
  · rintro p ⟨e, h1, h2, h3⟩; exact ⟨e, h1, h2, Or.inl h3⟩
  · intro a d' hi p hp
    cases hi
    obtain ⟨e, h1, h2, h3⟩ := hp
    exact ⟨e, h1, h2, Or.inr h3⟩

/-- non-vacuity: batch size 1, clock advanced by 2500 after the first item: key 1 (deadline 9000)
    is fetched at 7000 and yielded; the second batch is fetched at 9500, when everything is expired -/
example : (stepOp cfgTtl nullOps () { ord := [1, 2] } exSt (.iter 1 (some (1, 2500)))).2 = .pairs [(1, 101)] := by
  decide

/-! ### idle clock: `peek` does not refresh, `get` does -/

/-- `peek` changes nothing but the per-call ghost logs: it does not refresh the idle clock of the
    entry (the map is unchanged), records no access (batchers / policies unchanged) and counts
    neither a hit nor a miss. -/
theorem peek_does_not_refresh (cfg : Cfg) (ops : PolicyOps P) (p0 : P) (o : Oracle) (s : State P) (k : Nat) :
    (stepOp cfg ops p0 o s (.peek k)).1.map = s.map ∧ (stepOp cfg ops p0 o s (.peek k)).1.aux = s.aux ∧
    (stepOp cfg ops p0 o s (.peek k)).1.met = s.met ∧ (stepOp cfg ops p0 o s (.peek k)).1.now = s.now :=
  ⟨rfl, rfl, rfl, rfl⟩

def cfgTti : Cfg := { tti := some 500 }

/-- a state of a TTI cache: key 1 last accessed at 6800, key 2 at 6000 (idle-expired at 7000) -/
def exStTti : State Unit :=
  { map := [(1, { vid := 101, cost := 1, lastAccessed := 6800 }), (2, { vid := 102, cost := 1, lastAccessed := 6000 })],
    aux := freshAux cfgTti (), now := 7000 }

/-- non-vacuity: a `peek` hit -/
example : (stepOp cfgTti nullOps () {} exStTti (.peek 1)).2 = .val (some 101) := by decide

/-- a `get` hit in a cache with an idle timeout sets `last_accessed` of that entry to the current
    time and changes nothing else of it; the bindings of all other keys are untouched. -/
theorem get_refreshes_idle_clock (cfg : Cfg) (ops : PolicyOps P) (p0 : P) (o : Oracle) (s : State P)
    (k v d : Nat) (htti : cfg.tti = some d) (h : (stepOp cfg ops p0 o s (.get k)).2 = .val (some v)) :
    ∃ e, lookup s.map k = some e ∧ e.vid = v ∧
      lookup (stepOp cfg ops p0 o s (.get k)).1.map k = some { e with lastAccessed := s.now } ∧
      ∀ k', k' ≠ k → lookup (stepOp cfg ops p0 o s (.get k)).1.map k' = lookup s.map k' := by
  change Ret.val (s.resetLogs.get cfg k).2 = .val (some v) at h
  change ∃ e, lookup s.map k = some e ∧ e.vid = v ∧
      lookup (s.resetLogs.get cfg k).1.map k = some { e with lastAccessed := s.now } ∧
      ∀ k', k' ≠ k → lookup (s.resetLogs.get cfg k).1.map k' = lookup s.map k'
  rcases get_cases cfg s.resetLogs k with hg | ⟨e, he, _, hg⟩
  · rw [hg] at h; simp at h
  · rw [hg] at h ⊢
    simp at h
    refine ⟨e, he, h, ?_, ?_⟩
    · simp only [hit_map, onHit_map, lookup_put_self, Entry.touch, htti, resetLogs_now]
    · intro k' hk
      simp only [hit_map, onHit_map, resetLogs_map]
      exact lookup_put_ne _ _ _ _ hk

/-- non-vacuity: the hypotheses hold for key 1 of `exStTti` -/
example : (stepOp cfgTti nullOps () {} exStTti (.get 1)).2 = .val (some 101) ∧
    lookup (stepOp cfgTti nullOps () {} exStTti (.get 1)).1.map 1 = some { vid := 101, cost := 1, lastAccessed := 7000 } := by
  decide

/-! ### stale-while-revalidate -/

/-- `fetch_with` serves a STALE value only inside the grace window: the cache has a grace period
    `g`, the value is the one bound to the key, its TTL deadline has passed by less than `g`; the
    loader runs exactly once (the refresh, which the model runs inside the call) and afterwards the
    key is bound to the freshly loaded value.  What is NOT guaranteed (F18, `C12_fails_F18`) is
    that the served binding has not idled out. -/
theorem fetchWith_stale_window (cfg : Cfg) (s : State P) (k v c r : Nat) (l : Bool)
    (h : (s.fetchWith cfg k v c).2 = .loaded r true l) :
    ∃ e g, cfg.swr = some g ∧ lookup s.map k = some e ∧ (k, e) ∈ s.map ∧ e.vid = r ∧
      e.expiresAt ≠ 0 ∧ e.expiresAt ≤ s.now ∧ s.now < e.expiresAt + g ∧ l = true ∧
      ∃ e', lookup (s.fetchWith cfg k v c).1.map k = some e' ∧ e'.vid = v := by
  revert h
  unfold State.fetchWith
  dsimp only
  split
  · intro h; simp at h
  · next e he =>
    split
    · split
      · intro h; simp at h
      · intro h; simp at h
    · next hfresh =>
      split
      · next g hg =>
        split
        · next hlt =>
          intro h
          simp at h
          refine ⟨e, g, hg, he, lookup_mem he, h.1, ?_, ?_, hlt, h.2, _, lookup_put_self _ _ _, rfl⟩
          · intro h0; exact hfresh (Or.inl h0)
          · exact Nat.le_of_not_lt (fun h0 => hfresh (Or.inr h0))
        · intro h; simp at h
      · intro h; simp at h

/-- non-vacuity: TTL deadline 8000 passed by 500 < grace 1000 -/
example : (State.fetchWith (P := Unit) { ttl := some 3000, swr := some 1000 }
    { map := [(1, { vid := 101, cost := 1, expiresAt := 8000 })], now := 8500 } 1 102 1).2 = .loaded 101 true true := by
  decide

/-- `fetch_with` invoking the loader without serving a stale value: the value returned is the
    freshly loaded one, the key had no unexpired binding, and afterwards the key is bound to the
    loaded value. -/
theorem fetchWith_miss_loads (cfg : Cfg) (s : State P) (k v c r : Nat)
    (h : (s.fetchWith cfg k v c).2 = .loaded r false true) :
    r = v ∧ (∀ e, lookup s.map k = some e → ¬ Unexpired e s.now cfg.tti) ∧
      ∃ e', lookup (s.fetchWith cfg k v c).1.map k = some e' ∧ e'.vid = v := by
  have hl : ∃ e', lookup ((s.miss 1).loadInsert cfg k v c).map k = some e' ∧ e'.vid = v :=
    ⟨_, lookup_put_self _ _ _, rfl⟩
  revert h
  unfold State.fetchWith
  dsimp only
  split
  · next hn =>
    intro h; simp at h
    refine ⟨h.symm, ?_, hl⟩
    intro e he; rw [hn] at he; cases he
  · next e he =>
    split
    · split
      · next hx =>
        intro h; simp at h
        refine ⟨h.symm, fun e' he' => ?_, hl⟩
        rw [he] at he'; cases he'
        exact (not_unexpired_iff e s.now cfg.tti).1 hx
      · intro h; simp at h
    · next hfresh =>
      have hnu : ∀ e', lookup s.map k = some e' → ¬ Unexpired e' s.now cfg.tti := by
        intro e' he' hu; rw [he] at he'; cases he'; exact hfresh hu.1
      split
      · split
        · intro h; simp at h
        · intro h; simp at h; exact ⟨h.symm, hnu, hl⟩
      · intro h; simp at h; exact ⟨h.symm, hnu, hl⟩

/-- non-vacuity: a miss on an expired binding outside the grace window -/
example : (State.fetchWith (P := Unit) { ttl := some 3000, swr := some 1000 }
    { map := [(1, { vid := 101, cost := 1, expiresAt := 8000 })], now := 9000 } 1 102 1).2 = .loaded 102 false true := by
  decide

/-! ### the deadlines a write sets (default TTL, per-item TTL, idle clock) -/

/-- `insert_with_ttl(k, v, cost, ttl)` at time `now` binds `k` to `v` with the PER-ITEM deadline
    `now + ttl` (whatever the cache-wide TTL is) and, in a TTI cache, a fresh idle clock; so by
    `Unexpired` the binding counts as unexpired at `t` exactly when `t < now + ttl` and
    `t < now + tti`, and by `C12_reads_partial` it is served by the read paths only then.
    Stated for the async handle (no maintenance inside the call) and, for the sync handle, for a
    policy that names no victims (the opportunistic maintenance then removes nothing). -/
theorem insertTtl_sets_deadline (cfg : Cfg) (ops : PolicyOps P) (p0 : P) (o : Oracle) (s : State P)
    (a : Bool) (k vid cost ttl : Nat) (h : a = true ∨ NoVictims ops) :
    ∃ e', lookup (stepOp cfg ops p0 o s (.insertTtl a k vid cost ttl)).1.map k = some e' ∧ e'.vid = vid ∧
      e'.cost = cost ∧ e'.expiresAt = s.now + ttl ∧ (∀ d, cfg.tti = some d → e'.lastAccessed = s.now) := by
  obtain ⟨t, ht⟩ := insertCore_map cfg s.resetLogs k (Entry.mkCustom vid cost s.now (s.now + ttl) cfg.tti) (some ttl) true
  have hl : lookup (s.resetLogs.insertCore cfg k (Entry.mkCustom vid cost s.now (s.now + ttl) cfg.tti) (some ttl) true).map k
      = some { Entry.mkCustom vid cost s.now (s.now + ttl) cfg.tti with timer := t } := by
    rw [ht]; exact lookup_put_self _ _ _
  have hfin : ∀ e', e' = { Entry.mkCustom vid cost s.now (s.now + ttl) cfg.tti with timer := t } →
      e'.vid = vid ∧ e'.cost = cost ∧ e'.expiresAt = s.now + ttl ∧ (∀ d, cfg.tti = some d → e'.lastAccessed = s.now) := by
    intro e' he'; subst he'
    refine ⟨rfl, rfl, rfl, ?_⟩
    intro d hd; simp [Entry.mkCustom, hd]
  cases a with
  | true => exact ⟨_, hl, hfin _ rfl⟩
  | false =>
    rcases h with h | h
    · cases h
    · rcases (opportunistic_mstep (X := fun _ => True) cfg ops o
          (s.resetLogs.insertCore cfg k (Entry.mkCustom vid cost s.now (s.now + ttl) cfg.tti) (some ttl) true) k).look k
        with h' | ⟨_, hc⟩
      · exact ⟨_, h'.trans hl, hfin _ rfl⟩
      · exact absurd hc (h.not_nominates k)

/-- `insert(k, v, cost)`: the deadline is `now + cache TTL`, or none (`0`) without a cache TTL. -/
theorem insert_sets_deadline (cfg : Cfg) (ops : PolicyOps P) (p0 : P) (o : Oracle) (s : State P)
    (a : Bool) (k vid cost : Nat) (h : a = true ∨ NoVictims ops) :
    ∃ e', lookup (stepOp cfg ops p0 o s (.insert a k vid cost)).1.map k = some e' ∧ e'.vid = vid ∧
      e'.cost = cost ∧ e'.expiresAt = (match cfg.ttl with | some d => s.now + d | none => 0) ∧
      (∀ d, cfg.tti = some d → e'.lastAccessed = s.now) := by
  obtain ⟨t, ht⟩ := insertCore_map cfg s.resetLogs k (Entry.mk' vid cost s.now cfg.ttl cfg.tti) cfg.ttl true
  have hl : lookup (s.resetLogs.insertCore cfg k (Entry.mk' vid cost s.now cfg.ttl cfg.tti) cfg.ttl true).map k
      = some { Entry.mk' vid cost s.now cfg.ttl cfg.tti with timer := t } := by
    rw [ht]; exact lookup_put_self _ _ _
  have hfin : ∀ e', e' = { Entry.mk' vid cost s.now cfg.ttl cfg.tti with timer := t } →
      e'.vid = vid ∧ e'.cost = cost ∧ e'.expiresAt = (match cfg.ttl with | some d => s.now + d | none => 0) ∧
      (∀ d, cfg.tti = some d → e'.lastAccessed = s.now) := by
    intro e' he'; subst he'
    refine ⟨rfl, rfl, rfl, ?_⟩
    intro d hd; simp [Entry.mk', hd]
  cases a with
  | true => exact ⟨_, hl, hfin _ rfl⟩
  | false =>
    rcases h with h | h
    · cases h
    · rcases (opportunistic_mstep (X := fun _ => True) cfg ops o
          (s.resetLogs.insertCore cfg k (Entry.mk' vid cost s.now cfg.ttl cfg.tti) cfg.ttl true) k).look k
        with h' | ⟨_, hc⟩
      · exact ⟨_, h'.trans hl, hfin _ rfl⟩
      · exact absurd hc (h.not_nominates k)

/-- non-vacuity: a per-item TTL of 300 in a cache whose TTL is 1000: served at +299, not at +300 -/
example : (run cfgTtl nullOps () (State.fresh cfgTtl () 5000)
    [(.insertTtl false 1 101 1 300, {}), (.advance 299, {}), (.get 1, {}), (.advance 1, {}), (.get 1, {})]).2
    = [.unit, .unit, .val (some 101), .unit, .val none] := by decide

/-! ### an unexpired entry of an unbounded cache is not reported missing -/

/-- the calls whose job is to remove bindings, and `run_maintenance` (treated separately below) -/
def removalOp : Op → Bool
  | .runMaintenance => true
  | .remove _ => true
  | .invalidate _ => true
  | .multiRemove _ => true
  | .clear => true
  | .restore => true
  | _ => false

/-- the value ids a call may write -/
def writesOf : Op → List Nat
  | .insert _ _ vid _ => [vid]
  | .insertTtl _ _ vid _ _ => [vid]
  | .orInsert _ vid _ => [vid]
  | .compute _ vid => [vid]
  | .fetchWith _ vid _ => [vid]
  | .multiInsert items => items.map (fun x => x.2.1)
  | _ => []

/-- **C12, unbounded cache, every call but `run_maintenance`.**  If the policy never names a
    victim when it admits a key (`NoVictims`: the policy of an unbounded cache), then no call other
    than the removal calls (`remove`, `invalidate`, `multi_remove`, `clear`, rebuilding the cache
    from a snapshot) and `run_maintenance` unbinds a key: every key visibly bound before the call
    is visibly bound after it, to an entry with the same value or with a value written by this call.
    (So a key whose entry is unexpired cannot start being reported missing by such a call; by
    `peek_serves_unexpired`/`get_serves_unexpired` read the other way round, a bound unexpired key
    IS served.)

    `_partial`: `run_maintenance` is excluded — for it the clause is FALSE on the code (F7,
    `C12_fails_F7`; F19, `C12_fails_F19`); what holds there is `runMaintenance_removes_only` and
    `runMaintenance_unbounded_partial`. -/
theorem C12_unbounded_partial (cfg : Cfg) (ops : PolicyOps P) (p0 : P) (o : Oracle) (s : State P) (op : Op)
    (hnv : NoVictims ops) (hop : removalOp op = false) :
    ∀ k e, lookup s.map k = some e →
      ∃ e', lookup (stepOp cfg ops p0 o s op).1.map k = some e' ∧ (e'.vid = e.vid ∨ e'.vid ∈ writesOf op) := by
  show Kept (writesOf op) s.map (stepOp cfg ops p0 o s op).1.map
  have hflush : ∀ (W : List Nat) (t : State P), Kept W t.map (t.flush cfg ops o).map :=
    fun W t => (flush_mstep (X := fun _ => True) cfg ops o t).kept hnv.not_nominates
  have hopp : ∀ (W : List Nat) (t : State P) (k : Nat), Kept W t.map (t.opportunistic cfg ops o k).map :=
    fun W t k => (opportunistic_mstep (X := fun _ => True) cfg ops o t k).kept hnv.not_nominates
  cases op with
  | get k => exact get_kept _ cfg s.resetLogs k
  | peek k => exact Kept.refl _ _
  | occupied k => exact Kept.refl _ _
  | insert a k vid cost =>
    have h1 := insertCore_kept [vid] cfg s.resetLogs k (Entry.mk' vid cost s.now cfg.ttl cfg.tti) cfg.ttl true (by simp [Entry.mk'])
    cases a with
    | true => exact h1
    | false => exact h1.trans (hopp _ _ k)
  | insertTtl a k vid cost ttl =>
    have h1 := insertCore_kept [vid] cfg s.resetLogs k (Entry.mkCustom vid cost s.now (s.now + ttl) cfg.tti) (some ttl) true
      (by simp [Entry.mkCustom])
    cases a with
    | true => exact h1
    | false => exact h1.trans (hopp _ _ k)
  | remove k => cases hop
  | invalidate k => cases hop
  | clear => cases hop
  | advance d => exact Kept.refl _ _
  | runMaintenance => cases hop
  | metrics => exact hflush _ s.resetLogs
  | orInsert k vid cost => exact orInsert_kept cfg s.resetLogs k vid cost
  | compute k vid => exact compute_kept s.resetLogs k vid
  | fetchWith k vid cost => exact fetchWith_kept cfg s.resetLogs k vid cost
  | multiget a ks =>
    rw [multiget_map]
    cases a with
    | false => exact multigetSync_kept _ cfg ks s.resetLogs []
    | true => exact multigetAsync_kept _ cfg ops (groupByShard cfg ks) s.resetLogs []
  | multiInsert items =>
    refine foldl_kept _ _ items s.resetLogs ?_
    rintro t ⟨k, vid, cost⟩ hmem
    exact insertCore_kept _ cfg t k _ cfg.ttl false
      (List.mem_map.2 ⟨(k, vid, cost), hmem, by simp [Entry.mk']⟩)
  | multiRemove ks => cases hop
  | iter b inter =>
    show Kept _ s.resetLogs.map (s.resetLogs.iterAll cfg ops o b inter).1.map
    rw [iterAll_map]
    exact hflush _ _
  | iterSnapshot inter =>
    exact (hflush _ s.resetLogs).trans (snapDrive_kept _ cfg _ _ inter [])
  | snapshot => exact hflush _ s.resetLogs
  | restore => cases hop
  | hold k => exact hold_kept _ cfg ops p0 o s k
  | release =>
    intro k e he
    refine ⟨{ e with pinned := false }, ?_, Or.inl rfl⟩
    show lookup (s.map.map (fun (p : Nat × Entry) => (p.1, { p.2 with pinned := false }))) k = _
    rw [lookup_map_fst (fun (p : Nat × Entry) => (p.1, { p.2 with pinned := false })) (fun _ => rfl), he]
    rfl
  | gate closed =>
    cases closed with
    | true => exact Kept.refl _ _
    | false => exact Kept.refl _ _

/-- the same in terms of membership: no binding disappears -/
theorem C12_unbounded_mem_partial (cfg : Cfg) (ops : PolicyOps P) (p0 : P) (o : Oracle) (s : State P) (op : Op)
    (hnv : NoVictims ops) (hop : removalOp op = false) :
    ∀ k e, (k, e) ∈ s.map → ∃ e', (k, e') ∈ (stepOp cfg ops p0 o s op).1.map := by
  intro k e hm
  obtain ⟨e0, h0⟩ := lookup_isSome_of_mem hm
  obtain ⟨e', h', _⟩ := C12_unbounded_partial cfg ops p0 o s op hnv hop k e0 h0
  exact ⟨e', lookup_mem h'⟩

/-- non-vacuity: the null policy has no victims, `insert` is not a removal call, `exSt` has bindings -/
example : NoVictims nullOps ∧ removalOp (.insert false 2 7 1) = false ∧
    lookup exSt.map 1 = some { vid := 101, cost := 1, expiresAt := 9000 } ∧
    lookup (stepOp cfgTtl nullOps () {} exSt (.insert false 2 7 1)).1.map 1 = some { vid := 101, cost := 1, expiresAt := 9000 } :=
  ⟨nullOps_noVictims, rfl, by decide, by decide⟩

/-! ### what `run_maintenance` may remove -/

/-- `run_maintenance` never rebinds a key: each key is bound exactly as before, or unbound. -/
theorem runMaintenance_never_rebinds (cfg : Cfg) (ops : PolicyOps P) (p0 : P) (o : Oracle) (s : State P) (k : Nat) :
    lookup (stepOp cfg ops p0 o s .runMaintenance).1.map k = lookup s.map k ∨
    lookup (stepOp cfg ops p0 o s .runMaintenance).1.map k = none := by
  rcases (runMaintenance_mstep cfg ops o s.resetLogs).look k with h | ⟨h, _⟩
  · exact Or.inl h
  · exact Or.inr h

/-- **What `run_maintenance` removes.**  A key bound to `e` before the call and unbound after it
    falls under one of:
    * the cache has a TTI (the only configuration in which the expiry sampling pass runs) and `e`
      was expired at the time of the call;
    * the timer wheel of some shard, as it stood when the call started, fires the key on its next
      tick (`cleanup_ttl_for_shard`);
    * the policy nominated it: as a victim of an admission (`AdmitAndEvict`), or in the capacity pass.

    A wheel firing is NOT an expiry: the wheel advances one tick per call whatever the clock says
    (F7, `C12_fails_F7`) and timers outlive the binding they were set for (F19, `C12_fails_F19`), so
    the second disjunct does not imply that `e` was expired — that is the hypothesis
    `runMaintenance_unbounded_partial` needs. -/
theorem runMaintenance_removes_only (cfg : Cfg) (ops : PolicyOps P) (p0 : P) (o : Oracle) (s : State P)
    (k : Nat) (e : Entry) (hb : lookup s.map k = some e)
    (hg : lookup (stepOp cfg ops p0 o s .runMaintenance).1.map k = none) :
    (cfg.tti.isSome ∧ ¬ Unexpired e s.now cfg.tti) ∨
    (∃ i w, i < cfg.nshards ∧ whL s.aux i = some w ∧ k ∈ w.advance.2) ∨
    AdmitNominates ops k ∨ EvictNominates ops k := by
  rcases (runMaintenance_mstep cfg ops o s.resetLogs).look k with h | ⟨_, hc⟩
  · have h' : lookup (stepOp cfg ops p0 o s .runMaintenance).1.map k = lookup s.map k := h
    rw [hg, hb] at h'; cases h'
  · rcases hc with ⟨h1, e', he', hx⟩ | hc
    · left
      have : e' = e := by
        have he2 : lookup s.map k = some e' := he'
        rw [hb] at he2; cases he2; rfl
      subst this
      exact ⟨h1, (not_unexpired_iff e' s.now cfg.tti).1 hx⟩
    · exact Or.inr hc

/-- non-vacuity (this is the F7 situation): the fourth maintenance call removes key 1 -/
def f7Pre : State Unit × List Ret :=
  run cfgF7 nullOps () (State.fresh cfgF7 () 5000)
    [(.insert false 1 101 1, {}), (.runMaintenance, {}), (.runMaintenance, {}), (.runMaintenance, {})]
example : (lookup f7Pre.1.map 1).isSome = true ∧
    lookup (stepOp cfgF7 nullOps () {} f7Pre.1 .runMaintenance).1.map 1 = none := by decide

/-- **C12, unbounded cache, `run_maintenance`.**  With a policy that never nominates a victim, an
    UNEXPIRED binding survives `run_maintenance` unchanged —

    `_partial`: — PROVIDED no shard's timer wheel fires the key on its next tick.  That hypothesis
    is what the code fails to derive from "unexpired" (F7: one tick per call, not per elapsed tick
    duration; F19: timers of bindings dropped by `clear`/eviction/loader overwrite are never
    cancelled): `C12_fails_F7`, `C12_fails_F19`. -/
theorem runMaintenance_unbounded_partial (cfg : Cfg) (ops : PolicyOps P) (p0 : P) (o : Oracle) (s : State P)
    (k : Nat) (e : Entry) (hnv : NoVictims ops) (hne : ∀ k, ¬ EvictNominates ops k)
    (hb : lookup s.map k = some e) (hu : Unexpired e s.now cfg.tti)
    (hwheel : ∀ i w, i < cfg.nshards → whL s.aux i = some w → k ∉ w.advance.2) :
    lookup (stepOp cfg ops p0 o s .runMaintenance).1.map k = some e := by
  rcases runMaintenance_never_rebinds cfg ops p0 o s k with h | h
  · rw [h, hb]
  · rcases runMaintenance_removes_only cfg ops p0 o s k e hb h with ⟨_, h1⟩ | ⟨i, w, h1, h2, h3⟩ | h1 | h1
    · exact absurd hu h1
    · exact absurd h3 (hwheel i w h1 h2)
    · exact absurd h1 (hnv.not_nominates k)
    · exact absurd h1 (hne k)

/-- non-vacuity: in `exSt` (fresh wheels: nothing scheduled) key 1 is unexpired and no wheel fires it -/
example : NoVictims nullOps ∧ (∀ k, ¬ EvictNominates nullOps k) ∧
    lookup exSt.map 1 = some { vid := 101, cost := 1, expiresAt := 9000 } ∧
    Unexpired { vid := 101, cost := 1, expiresAt := 9000 } exSt.now cfgTtl.tti ∧
    (∀ i w, i < cfgTtl.nshards → whL exSt.aux i = some w → 1 ∉ w.advance.2) := by
  refine ⟨nullOps_noVictims, nullOps_noEvict, by decide, ⟨Or.inr (by decide), fun d h => by cases h⟩, ?_⟩
  intro i w hi hw
  have hi0 : i = 0 := by
    have : cfgTtl.nshards = 1 := rfl
    omega
  subst hi0
  have : w = Wheel.new 60 1000 := by
    have h2 : whL exSt.aux 0 = some (Wheel.new 60 1000) := by decide
    rw [h2] at hw; cases hw; rfl
  subst this
  decide

end Fv.Props.C12
