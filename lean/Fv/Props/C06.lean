import Fv.Chan.Fut
import Fv.Lemmas.ChanLinCore
import Fv.Lemmas.ChanInv
/-!
# C06 — async: woken when enabled; cancellation harmless (history level)

Futures are the same operation state machines as the blocking forms, moved only by `poll`
(`Fv/Chan/Fut.lean`).  The waker itself is not modelled at this level; what the history shows of it
(`wakes f => n:0`, `dropfut f => ok` rather than `ok:woken`) is judged against enabledness on the
abstract state.

* `C06_poll_pending_only_when_stuck` — the model answers `pending` only in a state where the future is
  unfinished and cannot take a step, or — wake-ONE — for a future that is already registered and polled
  again while the wake-up for every unit it could take may sit with another registered future of the same
  direction (`wakeHeld`: at least as many other live, registered, enabled futures as free slots / items);
* `C06_no_wake_only_when_disabled` — the model admits "no wake-up since the last poll" (`wakes f => n:0`)
  for a future that was polled and is still pending only if that future is *disabled* (no possible step
  under the exact window), or its wake-up may sit with another registered future (`wakeHeld`, as above), or
  an operation of another thread is still in flight (`busy`: the notification is the last step of the
  enabling operation).  A pending, enabled, unwoken future outside these cases is not explainable, i.e. it
  is reported as `pending-enabled-not-woken` (F2, F14-async, F18 in the code as it stands);
* `C06_checker_sound_quiescent` — soundness of the checker for liveness in safety form, with futures:
  an accepted history that ended in a deadlock has a linearization in whose final state no operation
  that never returned is finished or can move;
* `C06_dropfut_is_noop_on_abstract_state` — dropping a pending future of a buffered channel changes
  neither buffer, handle table, counters nor flags, and `C06_dropfut_conserves_tokens`: the values it
  still held are exactly what is added to `lost` (dropped with the future);
* `C06_fails_F14_async` — the bounded mpsc send future stays pending (stale window) while the property
  says it is enabled.
-/
namespace Fv.Props.C06
open Fv.Chan List LinCore

/-- `poll` reports `pending` only where the future is unfinished and cannot move. (The second
disjunct — a finished operation whose own result tag is `pending` — never occurs: no operation of the
model produces that tag; it is kept to avoid a pass over every operation here.) -/
theorem C06_poll_pending_only_when_stuck {fl : Flavour} {cfg : Cfg} {x x' : StF} {t f : Nat}
    (h : (x', PF.fin { tag := .pending }) ∈ microF fl cfg x (.poll f, .polling t f)) :
    ∃ e, findF x.futs f = some e ∧
      ((e.p.out? = none ∧ micro fl cfg x.s e.p = []) ∨ (∃ o, e.p.out? = some o ∧ (observe e.op o).tag = .pending) ∨
        (e.polled = true ∧ wakeHeld fl cfg x e = true)) := by
  simp only [microF] at h
  split at h
  · simp at h
  · rename_i e he
    refine ⟨e, he, ?_⟩
    split at h
    · rename_i o ho
      simp only [mem_singleton, Prod.mk.injEq, PF.fin.injEq] at h
      right; left
      exact ⟨o, ho, by rw [← h.2]⟩
    · rename_i ho
      split at h
      · rename_i hemp
        left
        exact ⟨ho, by simpa [List.isEmpty_iff] using hemp⟩
      · rw [mem_append] at h
        rcases h with h | h
        · simp only [mem_map, Prod.mk.injEq] at h
          obtain ⟨_, _, _, hbad⟩ := h
          cases hbad
        · split at h
          · rename_i hc
            right; right
            simpa using hc
          · simp at h

/-- "No wake-up since the last poll" is admitted for a polled, unresolved future only if it is disabled
(unfinished and without a step under the exact window). -/
theorem C06_no_wake_only_when_disabled {fl : Flavour} {cfg : Cfg} (hw : cfg.wakeRule = true) {x x' : StF} {t f : Nat}
    (h : (x', PF.fin { tag := .ok, val := .b false }) ∈ microF fl cfg x (.wakes f, .start t)) :
    ∃ e, findF x.futs f = some e ∧ (e.done = true ∨ e.polled = false ∨ stuckFut fl cfg x.s e = true ∨
      wakeHeld fl cfg x e = true ∨ x.busy > 0) := by
  simp only [microF] at h
  split at h
  · simp at h
  · rename_i e he
    refine ⟨e, he, ?_⟩
    simp only [mem_append, mem_singleton, Prod.mk.injEq, PF.fin.injEq] at h
    rcases h with h | h
    · have := h.2; simp [Res.mk.injEq] at this
    · split at h
      · rename_i hc
        simp only [noWakeOk, hw, Bool.not_true, Bool.false_or, Bool.or_eq_true, Bool.not_eq_true', decide_eq_true_eq] at hc
        rcases hc with (((hc | hc) | hc) | hc) | hc
        · exact Or.inl hc
        · exact Or.inr (Or.inl hc)
        · exact Or.inr (Or.inr (Or.inl hc))
        · exact Or.inr (Or.inr (Or.inr (Or.inl hc)))
        · exact Or.inr (Or.inr (Or.inr (Or.inr hc)))
      · simp at h

/-- **Soundness of the checker for liveness (safety form), with futures.** -/
theorem C06_checker_sound_quiescent (fl : Flavour) (cfg : Cfg) (h : HistoryF) (xf : StF) (pf : Pend PLF)
    (hl : linearizeF fl cfg h true = some (xf, pf)) :
    Lin (semF fl cfg) { s := init fl } [] h xf pf ∧
      ∀ y ∈ pf, (semF fl cfg).fin y.2 = none ∧ (semF fl cfg).micro xf y.2 = [] := by
  unfold linearizeF at hl
  have hs : LinCore.search (semF fl cfg) true (h.fuel * 4) {} { s := init fl } [] h
      = (some (xf, pf), (LinCore.search (semF fl cfg) true (h.fuel * 4) {} { s := init fl } [] h).2) := by rw [← hl]
  obtain ⟨hlin, hq⟩ := search_sound (semF fl cfg) true _ _ _ _ _ _ _ _ (by simp [NodupKeys]) hs
  exact ⟨hlin, fun y hy => hq rfl y hy⟩

/-- the progress states a pending future of a buffered channel can be in -/
def BufferedFut : P → Prop
  | .fresh .. | .bsend .. | .bsendEnd .. | .brecv .. | .osRecv .. | .fin _ => True
  | _ => False

/-- **Dropping a pending future is a no-op on the abstract state** (buffer, handles, counters, flags,
oneshot word). -/
theorem C06_dropfut_is_noop_on_abstract_state (s : St) (e : FutE) (t : Nat) (hb : BufferedFut e.p) :
    (dropFutState s e t).abs = s.abs := by
  unfold dropFutState
  cases hp : e.p <;> simp [hp, BufferedFut] at hb ⊢ <;> rfl

/-- … and it conserves tokens: exactly the values the future still held are dropped with it. -/
theorem C06_dropfut_conserves_tokens (s : St) (e : FutE) (t : Nat) (hb : BufferedFut e.p) (v : Val) :
    count v (dropFutState s e t).placed + count v s.created =
      count v s.placed + count v e.p.inHand + count v (dropFutState s e t).created := by
  unfold dropFutState
  cases hp : e.p <;> simp [hp, BufferedFut] at hb ⊢ <;>
    simp [St.create, St.lose, St.placed, St.parked, P.inHand, count_append] <;> omega

def mbA : Flavour := ⟨.mb, .mpsc, 2, true⟩
def f14x : StF :=
  { s := runOps mbA (init mbA) [.snd .trySend ⟨.tx, 0⟩ [1], .snd .trySend ⟨.tx, 0⟩ [2], .rcv .tryRecv ⟨.rx, 0⟩ 0],
    futs := [{ id := 0, op := .snd .send ⟨.tx, 0⟩ [3], p := .fresh 1000 (.snd .send ⟨.tx, 0⟩ [3]) }] }

def cfgH : Cfg := { hot := true, granular := true }
/-- the state after the first step of `poll f0` (the future's early checks) -/
def f14x1 : StF := ((microF mbA cfgH f14x (.poll 0, .polling 0 0)).headD (f14x, .fin { tag := .noFut })).1
/-- … and after `poll f0` answered -/
def f14x2 : StF := ((microF mbA cfgH f14x1 (.poll 0, .polling 0 0)).headD (f14x, .fin { tag := .noFut })).1

/-- F14 (async shape): with one of two slots free (`full = false`) `poll` of a `send_fut` answers
`pending` — the stale hot window is closed (`unpub = 1`) — although the future is enabled by the exact
occupancy (`stuckFut = false`): a later `wakes f => n:0` cannot be explained by the model. -/
theorem C06_fails_F14_async :
    (microF mbA cfgH f14x (.poll 0, .polling 0 0)).map (·.2) = [PF.polling 0 0] ∧
    (microF mbA cfgH f14x1 (.poll 0, .polling 0 0)).map (·.2) = [PF.fin { tag := .pending }] ∧
    full mbA f14x2.s = false ∧ f14x2.s.unpub = 1 ∧
    (f14x2.futs.map (fun e => stuckFut mbA cfgH f14x2.s e)) = [false] := by decide

end Fv.Props.C06
