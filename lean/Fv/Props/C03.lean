import Fv.Lemmas.ChanTry
import Fv.Props.C01
/-!
# C03 — bounded channels never exceed capacity; sends wait instead of dropping

* `C03_capacity_invariant` / `_step` — after every sequential program and after every atomic step of
  any thread: a bounded channel buffers at most `cap` values, a rendezvous channel buffers nothing, a
  oneshot accepts at most one value ever (`capOk`, for every flavour and capacity);
* `C03_try_send_ok_iff` — in non-overlapping histories `try_send` succeeds exactly when the channel is
  neither full nor closed (own handle closed or receivers gone), reports Full exactly when it is full
  and not closed;
* `C03_send_never_overwrites` — every send form, blocking or not, only ever *appends* to the buffer
  (nothing buffered is overwritten or dropped by a send) and appends only while there is room;
* `C03_len_le_capacity` — the `len` probe never exceeds `capacity`;
* `C03_linearizable_capacity_partial` — every accepted concurrent history has a witnessing linearization
  whose final state respects the capacity and accounts for every accepted value. Missing: the
  quantification over every prefix of the history (the checker accepts prefixes too, not exported as
  a theorem) and the elimination of `pf` for complete histories.
* `C03_spurious_full_needs_overlap`, `C03_tomb_raised_only_by_overlap`, `C03_tomb_cleared_by_walk` — the one
  place where the concurrent specification lets a non-blocking send on the bounded mpsc stop short (Full)
  below capacity: another send is in flight, or SKIP tombstones of an overshooting claim may still occupy
  the ticket window (`tomb > 0`); `tomb` is raised only when a send returns while another send is in flight,
  and it is cleared as soon as the consumer walks to the end of the ring with no send in flight.
-/
namespace Fv.Props.C03
open Fv.Chan List

/-- Capacity is respected after every sequential program, for every flavour and capacity. -/
theorem C03_capacity_invariant (fl : Flavour) (ops : List Op) : capOk fl (runOps fl (init fl) ops) :=
  (runOps_inv ops (init_inv fl)).cap

/-- … and after every atomic step of any thread in the concurrent model. -/
theorem C03_capacity_invariant_step {fl : Flavour} {cfg : Cfg} {s s' : St} {p p' : P}
    (hi : Inv fl s) (hs : (s', p') ∈ micro fl cfg s p) : capOk fl s' :=
  (micro_inv hs hi).cap

/-- the clauses of `capOk` spelled out -/
theorem C03_bounded (fl : Flavour) (ops : List Op) (hb : fl.fam = .sb ∨ fl.fam = .mb ∨ fl.fam = .pb) :
    (runOps fl (init fl) ops).buf.length ≤ fl.cap := by
  have h := C03_capacity_invariant fl ops
  unfold capOk Flavour.capOf at h
  rcases hb with e | e | e <;> simpa [e] using h

theorem C03_rendezvous_never_buffers (fl : Flavour) (ops : List Op) (hb : fl.fam = .rv) :
    (runOps fl (init fl) ops).buf = [] := by
  have h := C03_capacity_invariant fl ops
  unfold capOk Flavour.capOf at h
  simpa [hb] using h

theorem C03_oneshot_at_most_one_send (fl : Flavour) (ops : List Op) (hb : fl.fam = .os) :
    (runOps fl (init fl) ops).sentOk.length ≤ 1 := by
  have h := C03_capacity_invariant fl ops
  unfold capOk Flavour.capOf at h
  simp only [hb] at h
  exact h.2.1

example : (runOps ⟨.sb, .spsc, 1, false⟩ (init ⟨.sb, .spsc, 1, false⟩)
    [.snd .trySend ⟨.tx, 0⟩ [1], .snd .trySend ⟨.tx, 0⟩ [2]]).buf = [1] := by decide

/-- **`try_send` Ok ⇔ ¬full ∧ ¬closed** (non-overlapping histories, buffered families; "closed" = the
handle's own flag or all receivers gone), Full ⇔ full ∧ ¬closed, and the value comes back in both
error cases. -/
theorem C03_try_send_ok_iff {fl : Flavour} (hrv : fl.fam ≠ .rv) (hos : fl.fam ≠ .os) (s : St) (h : HName) (v : Val)
    (hd : Handle) (hf : findH s.hs h = some hd) (hside : hd.name.side = .tx) :
    let o := (stepOp fl s (.snd .trySend h [v])).2
    (o.tag = .ok ↔ (full fl s = false ∧ hd.closed = false ∧ receiversGone fl s = false)) ∧
    (o.tag = .full ↔ (full fl s = true ∧ hd.closed = false ∧ receiversGone fl s = false)) ∧
    (o.tag ≠ .ok → o.back = [v]) := by
  intro o
  have ho : o = _ := stepOp_trySend hrv hos s h v hd hf hside
  by_cases hc : hd.closed = true
  · rw [if_pos (Or.inl hc)] at ho
    rw [ho]; simp [hc]
  · by_cases hg : receiversGone fl s = true
    · rw [if_pos (Or.inr hg)] at ho
      rw [ho]; simp [hg]
    · have hne : ¬(hd.closed = true ∨ receiversGone fl s = true) := by simp [hc, hg]
      rw [if_neg hne] at ho
      by_cases hfull : full fl s = true
      · rw [if_pos hfull] at ho; rw [ho]; simp_all
      · rw [if_neg hfull] at ho; rw [ho]; simp_all

/-- **Sends never overwrite or drop what is buffered**: whatever a send form does (blocking, async,
batch, partial, failing), the old buffer is a prefix of the new one; and the new one respects the
capacity whenever the old one did. -/
theorem C03_send_never_overwrites {fl : Flavour} (hrv : fl.fam ≠ .rv) (hos : fl.fam ≠ .os) {s : St} (hi : Inv fl s)
    (f : Form) (h : HName) (vs : List Val) :
    s.buf <+: (stepOp fl s (.snd f h vs)).1.buf ∧ capOk fl (stepOp fl s (.snd f h vs)).1 := by
  obtain ⟨⟨γ, a, _, _⟩, _⟩ := Fv.Props.C01.C01_send_effect hrv hos s f h vs
  exact ⟨⟨γ, a.symm⟩, (stepOp_inv hi _).cap⟩

/-- `len()` never exceeds `capacity()` on the bounded families (the probes read the abstract state). -/
theorem C03_len_le_capacity (fl : Flavour) (ops : List Op) (hb : fl.fam = .sb ∨ fl.fam = .mb ∨ fl.fam = .pb)
    (hd : Handle) :
    match probeVal fl (runOps fl (init fl) ops) hd .len, probeVal fl (runOps fl (init fl) ops) hd .capacity with
    | .n l, .n c => l ≤ c
    | _, _ => True := by
  have hle := C03_bounded fl ops hb
  rcases hb with e | e | e <;> simp [probeVal, e] <;> exact hle

/-- Every accepted concurrent history has a witnessing linearization whose final state respects the
capacity, with every accepted value accounted for (`_partial`, see header). -/
theorem C03_linearizable_capacity_partial (fl : Flavour) (cfg : Cfg) (h : History) (q : Bool) (sf : St)
    (hl : linearize fl cfg h q = some sf) :
    capOk fl sf ∧ ∃ pf : LinCore.Pend PL, ∀ v, count v (accepted h) ≤
      count v (received h) + pendSum gotOf v pf + count v sf.owed + count v sf.buf + count v sf.chanDropped := by
  obtain ⟨pf, ha, _⟩ := linearize_acc hl
  exact ⟨ha.inv.cap, Fv.Props.C01.C01_accepted_accounted fl cfg h q sf hl⟩

/-- Concurrent specification: the extra (concurrent-only) steps of a pending send form are a short stop
(`Full`) of a NON-blocking form on the bounded mpsc — admitted only while another send is in flight or
tombstones may occupy the window — and the `Closed` of a blocking form that finds the receivers gone. -/
theorem C03_spurious_full_needs_overlap {fl : Flavour} {cfg : Cfg} {s s' : St} {t : Nat} {f : Form} {h : HName}
    {sent rest : List Val} {q : Nat} {p' : P}
    (hm : (s', p') ∈ microSpur fl cfg s (.bsend t f h sent rest q)) :
    (fl.fam = .mb ∧ f.blocking = false ∧ (s.inflight > 1 ∨ s.tomb > 0)) ∨
      (f.blocking = true ∧ receiversGone fl s = true) := by
  simp only [microSpur, mem_append] at hm
  rcases hm with hm | hm
  · split at hm
    · rename_i hc
      left
      exact ⟨hc.1, by simpa using hc.2.1, hc.2.2⟩
    · simp at hm
  · split at hm
    · rename_i hc
      right
      exact ⟨hc.1, hc.2⟩
    · simp at hm

/-- `tomb` changes at a return event only on the bounded mpsc, when the returning send overlapped another one. -/
theorem C03_tomb_raised_only_by_overlap (fl : Flavour) (cfg : Cfg) (s : St) (op : Op)
    (hne : (retire fl cfg s op).tomb ≠ s.tomb) : fl.fam = .mb ∧ s.inflight > 1 := by
  unfold retire at hne
  split at hne
  · split at hne
    · simp only at hne
      split at hne
      · assumption
      · exact absurd rfl hne
    · exact absurd rfl hne
  · exact absurd rfl hne

/-- … and the consumer's walk to the end of the ring with no send in flight clears it. -/
theorem C03_tomb_cleared_by_walk (fl : Flavour) (s : St) (hf : fl.fam = .mb) (h0 : s.inflight = 0) :
    (mbFlush fl s).tomb = 0 := by
  simp [mbFlush, hf, h0]

/-- non-vacuity: a state with a tombstone flag in which the short stop is offered -/
example : (microSpur ⟨.mb, .mpsc, 5, false⟩ linCfg { (init ⟨.mb, .mpsc, 5, false⟩) with tomb := 1, inflight := 1 }
    (.bsend 1 .trySend ⟨.tx, 0⟩ [] [9] 0)).length = 1 := by decide

end Fv.Props.C03
