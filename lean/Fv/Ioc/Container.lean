/-
Model of `fibre_ioc` (/repo/ioc/src/{core,container,local_container,global}.rs).

* A service key is `(TypeId, Option<String>)` (`core.rs InjectionKey`): here `Key = (ty : Nat, name : Option Nat)`.
* Every container (`Container` = DashMap, `LocalContainer` = HashMap, the global `Lazy<Container>` =
  one more `Container`) maps keys to providers.  All containers of one program live in one registry
  keyed by `Slot = (container id, key)`; container `0` is the global one, the others are instance or
  local containers (their `get` code is line-for-line the same: guard, lookup, `get_or_init`/factory).
* `Provider`: `add_instance` stores a `Singleton` whose cell is pre-filled and whose factory is never
  called (`inst id`); `add_singleton*` stores an empty `OnceCell` plus the factory; `add_transient*`
  stores only the factory.  A factory is a *script*: the list of services it resolves (each from some
  container, with `resolve_from!` = required = panics on `None`, or `maybe_resolve_from!` = optional),
  after which it produces a fresh instance id from the program-wide counter `next`.  `runs` counts the
  completed factory runs of *this registration* (a registration resets it).
* `resolving` is the thread-local `RESOLVING_STACK : HashSet<InjectionKey>` of the resolving thread.
  It holds keys WITHOUT the container identity (finding F16): `ResolutionGuard::new` panics when the
  key is already in the set, whichever container it is being resolved from.  The guard's `Drop` removes
  the key on normal return and on unwinding; a guard whose constructor panicked was never built and
  removes nothing.
* A panic inside a factory unwinds through `OnceCell::get_or_init`, which leaves the cell empty
  (once_cell contract), so nothing but the guards' removals and the effects of already finished inner
  resolutions persists.
* Evaluation is by fuel; `Outcome.diverge` is "fuel exhausted".  `Fv.Props.C18.C18_resolve_total`
  shows `regs.length + 1` always suffices, i.e. the real recursion terminates for every registry.

No imports: this file is linked into the `fvdrv_ioc` executable.
-/
namespace Fv.Ioc

structure Key where
  ty : Nat
  name : Option Nat
deriving DecidableEq, Repr

structure Slot where
  c : Nat
  k : Key
deriving DecidableEq, Repr

/-- one `resolve_from!(c, k)` (`req = true`) or `maybe_resolve_from!(c, k)` inside a factory -/
structure Dep where
  c : Nat
  k : Key
  req : Bool
deriving DecidableEq, Repr

def Dep.slot (d : Dep) : Slot := ⟨d.c, d.k⟩

inductive Provider where
  | inst (id : Nat)
  | singleton (script : List Dep) (cell : Option Nat) (runs : Nat)
  | transient (script : List Dep) (runs : Nat)
deriving DecidableEq, Repr

abbrev Reg := List (Slot × Provider)

/-- `providers.get(&key)` of container `s.c` -/
def Reg.get : Reg → Slot → Option Provider
  | [], _ => none
  | (s', p) :: r, s => if s' = s then some p else Reg.get r s

/-- `providers.insert(key, provider)`: replaces an existing entry in place, otherwise adds one -/
def Reg.set : Reg → Slot → Provider → Reg
  | [], s, p => [(s, p)]
  | (s', p') :: r, s, p => if s' = s then (s, p) :: r else (s', p') :: Reg.set r s p

def Reg.keys (r : Reg) : List Key := r.map (fun e => e.1.k)

inductive Panic where
  | cycle     -- "Circular dependency detected while resolving service"
  | missing   -- "Failed to resolve required service" (`resolve_from!` on `None`)
deriving DecidableEq, Repr

inductive Outcome where
  | some (id : Nat)
  | none
  | panic (p : Panic)
  | diverge
deriving DecidableEq, Repr

/-- why a factory did not complete -/
inductive Abort where
  | panic (p : Panic)
  | diverge
deriving DecidableEq, Repr

def Abort.outcome : Abort → Outcome
  | .panic p => .panic p
  | .diverge => .diverge

structure World where
  regs : Reg := []
  next : Nat := 0
  resolving : List Key := []
deriving DecidableEq, Repr

def World.empty : World := {}

/-- `ResolutionGuard::drop` -/
def World.pop (w : World) (k : Key) : World := { w with resolving := w.resolving.erase k }

/-- `ResolutionGuard::new` after the membership test succeeded -/
def World.push (w : World) (k : Key) : World := { w with resolving := k :: w.resolving }

/-- the body of a factory: resolve the scripted dependencies in order with `res` -/
def runScript (res : World → Nat → Key → World × Outcome) : World → List Dep → World × Option Abort
  | w, [] => (w, none)
  | w, d :: ds =>
    match res w d.c d.k with
    | (w', .some _) => runScript res w' ds
    | (w', .none) => if d.req then (w', some (.panic .missing)) else runScript res w' ds
    | (w', .panic p) => (w', some (.panic p))
    | (w', .diverge) => (w', some .diverge)

/-- the factory finished: allocate the instance id, store the new provider state -/
def World.made (w : World) (s : Slot) (p : Nat → Provider) : World × Nat :=
  ({ w with next := w.next + 1, regs := w.regs.set s (p w.next) }, w.next)

/-- `Container::get` / `LocalContainer::get` with `fuel` levels of nesting available -/
def resolveF : Nat → World → Nat → Key → World × Outcome
  | 0, w, _, _ => (w, .diverge)
  | fuel + 1, w, c, k =>
    if k ∈ w.resolving then (w, .panic .cycle)
    else
      let w1 := w.push k
      match w1.regs.get ⟨c, k⟩ with
      | none => (w1.pop k, .none)
      | some (.inst id) => (w1.pop k, .some id)
      | some (.singleton _ (some id) _) => (w1.pop k, .some id)
      | some (.singleton script none runs) =>
        match runScript (resolveF fuel) w1 script with
        | (w2, some a) => (w2.pop k, a.outcome)
        | (w2, none) =>
          let (w3, id) := w2.made ⟨c, k⟩ (fun id => .singleton script (some id) (runs + 1))
          (w3.pop k, .some id)
      | some (.transient script runs) =>
        match runScript (resolveF fuel) w1 script with
        | (w2, some a) => (w2.pop k, a.outcome)
        | (w2, none) =>
          let (w3, id) := w2.made ⟨c, k⟩ (fun _ => .transient script (runs + 1))
          (w3.pop k, .some id)

/-- enough for every registry (`C18_resolve_total`) -/
def World.fuel (w : World) : Nat := w.regs.length + 1

def resolve (w : World) (c : Nat) (k : Key) : World × Outcome := resolveF w.fuel w c k

/-! ### Histories -/

inductive Op where
  | regInstance (c : Nat) (k : Key) (id : Nat)
  | regSingleton (c : Nat) (k : Key) (script : List Dep)
  | regTransient (c : Nat) (k : Key) (script : List Dep)
  | resolve (c : Nat) (k : Key)
deriving DecidableEq, Repr

/-- the slot a registration writes -/
def Op.regSlot : Op → Option Slot
  | .regInstance c k _ => some ⟨c, k⟩
  | .regSingleton c k _ => some ⟨c, k⟩
  | .regTransient c k _ => some ⟨c, k⟩
  | .resolve _ _ => none

def World.register (w : World) (s : Slot) (p : Provider) : World := { w with regs := w.regs.set s p }

/-- `add_instance*`: the caller supplies the instance; its id is reserved in the counter -/
def World.regInstance (w : World) (s : Slot) (id : Nat) : World :=
  { w with regs := w.regs.set s (.inst id), next := max w.next (id + 1) }

/-- store provider `p` at `s` the way the matching `add_*` call does -/
def World.install (w : World) (s : Slot) : Provider → World
  | .inst id => w.regInstance s id
  | p => w.register s p

def applyOp (w : World) : Op → World × Option Outcome
  | .regInstance c k id => (w.regInstance ⟨c, k⟩ id, none)
  | .regSingleton c k script => (w.register ⟨c, k⟩ (.singleton script none 0), none)
  | .regTransient c k script => (w.register ⟨c, k⟩ (.transient script 0), none)
  | .resolve c k => let (w', o) := resolve w c k; (w', some o)

def runOps (w : World) : List Op → World
  | [] => w
  | op :: ops => runOps (applyOp w op).1 ops

/-- factory-run counter of the registration currently stored at `s` -/
def World.count (w : World) (s : Slot) : Option Nat :=
  match w.regs.get s with
  | none => none
  | some (.inst _) => some 0
  | some (.singleton _ _ r) => some r
  | some (.transient _ r) => some r

/-! ### Threads (small-step, `OnceCell::get_or_init` atomic)

Each resolver thread has its own `RESOLVING_STACK` (empty at the start of a top-level `get`).
`begin` = guard + `providers.get(&key)`: the thread now holds a DashMap read guard on the entry, so a
registration of the same slot waits (DashMap locks per shard; per slot here, which only allows more
interleavings).  `finish` = `get_or_init` / transient factory, run as ONE atomic step including the
nested resolutions of the factory: this is once_cell's contract (the cell is tested and the factory
run under the cell's lock, other callers block) taken as given, not derived. -/

inductive Phase where
  | ready
  | pinned
  | done (o : Outcome)
deriving DecidableEq, Repr

inductive Job where
  | resolver (c : Nat) (k : Key) (ph : Phase)
  | registrar (s : Slot) (p : Provider) (fin : Bool)
deriving DecidableEq, Repr

structure Conf where
  w : World
  jobs : List Job
deriving DecidableEq, Repr

def Job.pins (s : Slot) : Job → Bool
  | .resolver c k .pinned => decide ((⟨c, k⟩ : Slot) = s)
  | _ => false

def setJob (js : List Job) (i : Nat) (j : Job) : List Job := js.set i j

/-- thread `i` takes one step (a blocked or finished thread stutters) -/
def stepJob (cf : Conf) (i : Nat) : Conf :=
  match cf.jobs[i]? with
  | none => cf
  | some (.resolver c k .ready) =>
    match cf.w.regs.get ⟨c, k⟩ with
    | none => { cf with jobs := setJob cf.jobs i (.resolver c k (.done .none)) }
    | some _ => { cf with jobs := setJob cf.jobs i (.resolver c k .pinned) }
  | some (.resolver c k .pinned) =>
    let (w', o) := resolve { cf.w with resolving := [] } c k
    { w := w', jobs := setJob cf.jobs i (.resolver c k (.done o)) }
  | some (.resolver _ _ (.done _)) => cf
  | some (.registrar s p false) =>
    if cf.jobs.any (Job.pins s) then cf
    else { w := cf.w.install s p, jobs := setJob cf.jobs i (.registrar s p true) }
  | some (.registrar _ _ true) => cf

def runSched (cf : Conf) : List Nat → Conf
  | [] => cf
  | i :: is => runSched (stepJob cf i) is

end Fv.Ioc
