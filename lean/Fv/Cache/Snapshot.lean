import Fv.Cache.Iter
/-
Model of `cache/src/snapshot.rs` (`to_snapshot`) and of the snapshot branch of
`CacheBuilder::build_shared_core` (`build_from_snapshot`).

The restored cache is a FRESH cache (new policies, wheels, buffers, metrics) whose map holds the
snapshot's entries; `current_cost` is their cost sum.  No write event is queued and no policy is
told about them (DESIGN §11 F11), and no TTL timer is scheduled for them.
-/
namespace Fv.Cache
variable {P : Type}

/-- `to_snapshot` body after the flush: every non-expired entry with its remaining TTL. -/
def snapshotOf (cfg : Cfg) (m : List (Nat × Entry)) (now : Nat) : Snapshot :=
  { entries := m.filterMap (fun (k, e) =>
      if e.isExpired now cfg.tti then none
      else some { key := k, vid := e.vid, cost := e.cost,
                  ttlRemaining := if e.expiresAt = 0 then none
                                  else if now ≤ e.expiresAt then some (e.expiresAt - now) else none }),
    capacity := cfg.capacity, shards := cfg.nshards }

def State.toSnapshot (cfg : Cfg) (ops : PolicyOps P) (o : Oracle) (s : State P) : State P × Snapshot :=
  let s := s.flush cfg ops o
  let sn := snapshotOf cfg s.map s.now
  ({ s with snap := some sn }, sn)

def restoredEntry (cfg : Cfg) (now : Nat) (p : SnapEntry) : Nat × Entry :=
  (p.key, { vid := p.vid, cost := p.cost,
            expiresAt := match p.ttlRemaining with | some d => now + d | none => 0,
            lastAccessed := match cfg.tti with | some _ => now | none => 0 })

def freshAux (cfg : Cfg) (p0 : P) : List (Aux P) :=
  List.replicate cfg.nshards
    { wheel := if cfg.hasWheel then some (Wheel.new cfg.wheelSize cfg.tickDur) else none, policy := p0 }

def State.fresh (cfg : Cfg) (p0 : P) (now : Nat) : State P :=
  { aux := freshAux cfg p0, now := now }

/-- later snapshot entries with the same key overwrite earlier ones (`HashMap::insert`) -/
def restoreMap (cfg : Cfg) (now : Nat) : List SnapEntry → List (Nat × Entry) → List (Nat × Entry)
  | [], m => m
  | p :: ps, m => restoreMap cfg now ps (put m p.key (restoredEntry cfg now p).2)

/-- `build_from_snapshot(snapshot)` at time `now` -/
def State.restore (cfg : Cfg) (p0 : P) (now : Nat) (sn : Snapshot) : State P :=
  { State.fresh cfg p0 now with
    map := restoreMap cfg now sn.entries [],
    snap := some sn,
    met := { currentCost := sn.entries.foldl (fun a p => addW a p.cost) 0 } }

end Fv.Cache
