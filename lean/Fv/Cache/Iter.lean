import Fv.Cache.Maint
/-
Model of `cache/src/iter.rs`: the batching cursor iterator (`Iter`, `IterStream` run the same
algorithm) and the per-shard key-snapshot iterator (`SnapshotIter`, `AsyncSnapshotIter`), run
to completion by one caller.  The only thing that can happen between two `next()` calls in the
sequential model is one scripted clock advance (`inter = some (after, d)`: after `after` items
have been yielded the clock moves forward by `d`).
-/
namespace Fv.Cache
variable {P : Type}

structure IterSt where
  shard : Nat := 0
  seen : Nat := 0
  buffer : List (Nat × Nat) := []
  finished : Bool := false
deriving Repr, DecidableEq

/-- entries of `keys` that are resident and not expired at `now`, as `(key, vid)` -/
def liveOf (m : List (Nat × Entry)) (now : Nat) (tti : Option Nat) (keys : List Nat) : List (Nat × Nat) :=
  keys.filterMap (fun k =>
    match lookup m k with
    | some e => if e.isExpired now tti then none else some (k, e.vid)
    | none => none)

/-- `Iter::refill_buffer`'s `while` loop -/
def refillLoop (nshards batch : Nat) (keysOf : Nat → List Nat) (m : List (Nat × Entry)) (now : Nat)
    (tti : Option Nat) : Nat → IterSt → IterSt
  | 0, it => it
  | fuel + 1, it =>
    if it.shard < nshards ∧ it.buffer.length < batch then
      let keys := keysOf it.shard
      if it.seen ≥ keys.length then
        refillLoop nshards batch keysOf m now tti fuel { it with shard := it.shard + 1, seen := 0 }
      else
        let needed := batch - it.buffer.length
        let chunk := (keys.drop it.seen).take needed
        refillLoop nshards batch keysOf m now tti fuel
          { it with buffer := it.buffer ++ liveOf m now tti chunk, seen := it.seen + chunk.length }
    else it

def refill (nshards batch : Nat) (keysOf : Nat → List Nat) (m : List (Nat × Entry)) (now : Nat)
    (tti : Option Nat) (it : IterSt) : IterSt :=
  if it.finished then it
  else
    let it := refillLoop nshards batch keysOf m now tti (nshards + m.length + 1) it
    if it.shard ≥ nshards then { it with finished := true } else it

/-- drive `next()` until `None`; returns the yielded items and the final clock -/
def iterDrive (nshards batch : Nat) (keysOf : Nat → List Nat) (m : List (Nat × Entry)) (tti : Option Nat) :
    Nat → Nat → Option (Nat × Nat) → IterSt → List (Nat × Nat) → Nat × List (Nat × Nat)
  | 0, now, _, _, acc => (now, acc)
  | fuel + 1, now, inter, it, acc =>
    let (now, inter) := match inter with
      | some (after, d) => if acc.length = after then (now + d, none) else (now, inter)
      | none => (now, inter)
    match it.buffer with
    | x :: rest => iterDrive nshards batch keysOf m tti fuel now inter { it with buffer := rest } (acc ++ [x])
    | [] =>
      if it.finished then (now, acc)
      else
        let it := refill nshards batch keysOf m now tti it
        match it.buffer with
        | x :: rest => iterDrive nshards batch keysOf m tti fuel now inter { it with buffer := rest } (acc ++ [x])
        | [] => (now, acc)

/-- `cache.iter_with_batch_size(batch)` consumed to the end -/
def State.iterAll (cfg : Cfg) (ops : PolicyOps P) (o : Oracle) (s : State P) (batch : Nat) (inter : Option (Nat × Nat)) :
    State P × List (Nat × Nat) :=
  let s := s.flush cfg ops o
  let batch := max batch 1
  let keysOf := fun i => s.shardKeys cfg o.ord i
  let (now, items) := iterDrive cfg.nshards batch keysOf s.map cfg.tti (2 * s.map.length + 2) s.now inter {} []
  ({ s with now := now }, items)

/-! ### `IterStream::poll_next` polled by hand while somebody else may hold a shard's write lock

`poll_next` serves the buffer first, ends when `finished`, and otherwise runs the refill future:
the loop of `refill_buffer` over a LOCAL cursor and a LOCAL buffer, with
`shard.map.read_async().await` at the top of every loop iteration.  If the shard's write lock is
held by someone else (e.g. a sync `cache.entry(k)` guard that is kept alive), that await is
`Pending`: the future is parked in `refill_future` with whatever it has collected so far and
`poll_next` returns `Pending`.  A later poll resumes the parked future at the same await.  When
the future completes — on the poll that created it or on a later one, the two `Ready` arms of
`poll_next` do the same thing — the stream takes over the future's cursor (exactly once),
its `finished` flag and its batch, and hands out the first item. -/

/-- the refill future run until it completes or is parked at a locked shard:
    `(local cursor + local buffer, parked?)`.  `locked i` = shard `i`'s write lock is held by
    somebody else during this poll. -/
def refillLoopL (nshards batch : Nat) (keysOf : Nat → List Nat) (m : List (Nat × Entry)) (now : Nat)
    (tti : Option Nat) (locked : Nat → Bool) : Nat → IterSt → IterSt × Bool
  | 0, it => (it, false)
  | fuel + 1, it =>
    if it.shard < nshards ∧ it.buffer.length < batch then
      if locked it.shard then (it, true)
      else
        let keys := keysOf it.shard
        if it.seen ≥ keys.length then
          refillLoopL nshards batch keysOf m now tti locked fuel { it with shard := it.shard + 1, seen := 0 }
        else
          let needed := batch - it.buffer.length
          let chunk := (keys.drop it.seen).take needed
          refillLoopL nshards batch keysOf m now tti locked fuel
            { it with buffer := it.buffer ++ liveOf m now tti chunk, seen := it.seen + chunk.length }
    else (it, false)

/-- `IterStream`: `cur` = the stream's own `cursor` / `buffer` / `finished`; `inflight` = the
    parked refill future (`refill_future = Some(..)`): its local cursor and local buffer -/
structure StreamSt where
  cur : IterSt := {}
  inflight : Option IterSt := none
deriving Repr, DecidableEq

inductive Poll where
  | pending
  | item (k v : Nat)
  | done
deriving Repr, DecidableEq

/-- a `Ready((batch, new_cursor, finished_flag))` arm of `poll_next` (both arms are this code):
    `cursor = new_cursor; finished = finished_flag; buffer.extend(batch); buffer.pop_front()` -/
def streamAbsorb (nshards : Nat) (st : StreamSt) (f : IterSt) : StreamSt × Poll :=
  let fin := decide (f.shard ≥ nshards)
  match st.cur.buffer ++ f.buffer with
  | x :: rest => ({ cur := { shard := f.shard, seen := f.seen, buffer := rest, finished := fin }, inflight := none }, .item x.1 x.2)
  | [] => ({ cur := { shard := f.shard, seen := f.seen, buffer := [], finished := fin }, inflight := none }, .done)

/-- the refill future a poll runs: the parked one, or a new one created from a copy of the
    stream's cursor with an empty local buffer -/
def StreamSt.start (st : StreamSt) : IterSt :=
  match st.inflight with
  | some f => f
  | none => { shard := st.cur.shard, seen := st.cur.seen, buffer := [], finished := false }

/-- one `poll_next` call -/
def streamPoll (nshards batch : Nat) (keysOf : Nat → List Nat) (m : List (Nat × Entry)) (now : Nat)
    (tti : Option Nat) (locked : Nat → Bool) (st : StreamSt) : StreamSt × Poll :=
  match st.cur.buffer with
  | x :: rest => ({ st with cur := { st.cur with buffer := rest } }, .item x.1 x.2)
  | [] =>
    if st.cur.finished then (st, .done)
    else
      let r := refillLoopL nshards batch keysOf m now tti locked (nshards + m.length + 1) st.start
      if r.2 then ({ st with inflight := some r.1 }, .pending)
      else streamAbsorb nshards st r.1

/-- poll once per element of `locks` (the lock situation during that poll) until the stream
    ends: `(stream, items yielded so far, ended?)` -/
def streamRun (nshards batch : Nat) (keysOf : Nat → List Nat) (m : List (Nat × Entry)) (now : Nat)
    (tti : Option Nat) : StreamSt → List (Nat → Bool) → List (Nat × Nat) → StreamSt × List (Nat × Nat) × Bool
  | st, [], acc => (st, acc, false)
  | st, l :: ls, acc =>
    match streamPoll nshards batch keysOf m now tti l st with
    | (st', .item k v) => streamRun nshards batch keysOf m now tti st' ls (acc ++ [(k, v)])
    | (st', .pending) => streamRun nshards batch keysOf m now tti st' ls acc
    | (st', .done) => (st', acc, true)

/-- nobody holds any shard lock -/
def noLock : Nat → Bool := fun _ => false

/-- `iter_stream_with_batch_size(batch)` polled under the lock situations `locks` (arbitrary
    Pending / resume points) and then `n` more times with no lock held -/
def State.streamAll (cfg : Cfg) (ops : PolicyOps P) (o : Oracle) (s : State P) (batch : Nat)
    (locks : List (Nat → Bool)) (n : Nat) : State P × List (Nat × Nat) × Bool :=
  let s := s.flush cfg ops o
  let keysOf := fun i => s.shardKeys cfg o.ord i
  let r := streamRun cfg.nshards (max batch 1) keysOf s.map s.now cfg.tti {} (locks ++ List.replicate n noLock) []
  (s, r.2)

/-- `SnapshotIter` consumed to the end: shard by shard, the keys present when the shard is
    reached, each looked up with `fetch` (so hits refresh the idle clock and are recorded). -/
def snapDrive (cfg : Cfg) : State P → List Nat → Option (Nat × Nat) → List (Nat × Nat) → State P × List (Nat × Nat)
  | s, [], inter, acc =>
    -- the final `next()` (returning `None`) is still a call before which the script may fire
    match inter with
    | some (after, d) => if acc.length = after then ({ s with now := s.now + d }, acc) else (s, acc)
    | none => (s, acc)
  | s, k :: ks, inter, acc =>
    let (s, inter) := match inter with
      | some (after, d) => if acc.length = after then ({ s with now := s.now + d }, none) else (s, inter)
      | none => (s, inter)
    match s.get cfg k with
    | (s, some v) => snapDrive cfg s ks inter (acc ++ [(k, v)])
    | (s, none) => snapDrive cfg s ks inter acc

def State.iterSnapshotAll (cfg : Cfg) (ops : PolicyOps P) (o : Oracle) (s : State P) (inter : Option (Nat × Nat)) :
    State P × List (Nat × Nat) :=
  let s := s.flush cfg ops o
  let keys := (List.range cfg.nshards).flatMap (fun i => s.shardKeys cfg o.ord i)
  snapDrive cfg s keys inter []

end Fv.Cache
