import Fv.Cache.Maint
/-
Model of `cache/src/iter.rs`: the batching cursor iterator (`Iter`, `IterStream` run the same
algorithm) and the per-shard key-snapshot iterator (`SnapshotIter`, `AsyncSnapshotIter`), run
to completion by one caller.  The only thing that can happen between two `next()` calls in the
sequential model is one scripted clock advance (`inter = some (after, d)`: after `after` items
have been yielded the clock moves forward by `d`).
-/
namespace Fv.Cache
variable {P : Type}

structure IterSt where
  shard : Nat := 0
  seen : Nat := 0
  buffer : List (Nat × Nat) := []
  finished : Bool := false
deriving Repr, DecidableEq

/-- entries of `keys` that are resident and not expired at `now`, as `(key, vid)` -/
def liveOf (m : List (Nat × Entry)) (now : Nat) (tti : Option Nat) (keys : List Nat) : List (Nat × Nat) :=
  keys.filterMap (fun k =>
    match lookup m k with
    | some e => if e.isExpired now tti then none else some (k, e.vid)
    | none => none)

/-- `Iter::refill_buffer`'s `while` loop -/
def refillLoop (nshards batch : Nat) (keysOf : Nat → List Nat) (m : List (Nat × Entry)) (now : Nat)
    (tti : Option Nat) : Nat → IterSt → IterSt
  | 0, it => it
  | fuel + 1, it =>
    if it.shard < nshards ∧ it.buffer.length < batch then
      let keys := keysOf it.shard
      if it.seen ≥ keys.length then
        refillLoop nshards batch keysOf m now tti fuel { it with shard := it.shard + 1, seen := 0 }
      else
        let needed := batch - it.buffer.length
        let chunk := (keys.drop it.seen).take needed
        refillLoop nshards batch keysOf m now tti fuel
          { it with buffer := it.buffer ++ liveOf m now tti chunk, seen := it.seen + chunk.length }
    else it

def refill (nshards batch : Nat) (keysOf : Nat → List Nat) (m : List (Nat × Entry)) (now : Nat)
    (tti : Option Nat) (it : IterSt) : IterSt :=
  if it.finished then it
  else
    let it := refillLoop nshards batch keysOf m now tti (nshards + m.length + 1) it
    if it.shard ≥ nshards then { it with finished := true } else it

/-- drive `next()` until `None`; returns the yielded items and the final clock -/
def iterDrive (nshards batch : Nat) (keysOf : Nat → List Nat) (m : List (Nat × Entry)) (tti : Option Nat) :
    Nat → Nat → Option (Nat × Nat) → IterSt → List (Nat × Nat) → Nat × List (Nat × Nat)
  | 0, now, _, _, acc => (now, acc)
  | fuel + 1, now, inter, it, acc =>
    let (now, inter) := match inter with
      | some (after, d) => if acc.length = after then (now + d, none) else (now, inter)
      | none => (now, inter)
    match it.buffer with
    | x :: rest => iterDrive nshards batch keysOf m tti fuel now inter { it with buffer := rest } (acc ++ [x])
    | [] =>
      if it.finished then (now, acc)
      else
        let it := refill nshards batch keysOf m now tti it
        match it.buffer with
        | x :: rest => iterDrive nshards batch keysOf m tti fuel now inter { it with buffer := rest } (acc ++ [x])
        | [] => (now, acc)

/-- `cache.iter_with_batch_size(batch)` consumed to the end -/
def State.iterAll (cfg : Cfg) (ops : PolicyOps P) (o : Oracle) (s : State P) (batch : Nat) (inter : Option (Nat × Nat)) :
    State P × List (Nat × Nat) :=
  let s := s.flush cfg ops o
  let batch := max batch 1
  let keysOf := fun i => s.shardKeys cfg o.ord i
  let (now, items) := iterDrive cfg.nshards batch keysOf s.map cfg.tti (2 * s.map.length + 2) s.now inter {} []
  ({ s with now := now }, items)

/-- `SnapshotIter` consumed to the end: shard by shard, the keys present when the shard is
    reached, each looked up with `fetch` (so hits refresh the idle clock and are recorded). -/
def snapDrive (cfg : Cfg) : State P → List Nat → Option (Nat × Nat) → List (Nat × Nat) → State P × List (Nat × Nat)
  | s, [], inter, acc =>
    -- the final `next()` (returning `None`) is still a call before which the script may fire
    match inter with
    | some (after, d) => if acc.length = after then ({ s with now := s.now + d }, acc) else (s, acc)
    | none => (s, acc)
  | s, k :: ks, inter, acc =>
    let (s, inter) := match inter with
      | some (after, d) => if acc.length = after then ({ s with now := s.now + d }, none) else (s, inter)
      | none => (s, inter)
    match s.get cfg k with
    | (s, some v) => snapDrive cfg s ks inter (acc ++ [(k, v)])
    | (s, none) => snapDrive cfg s ks inter acc

def State.iterSnapshotAll (cfg : Cfg) (ops : PolicyOps P) (o : Oracle) (s : State P) (inter : Option (Nat × Nat)) :
    State P × List (Nat × Nat) :=
  let s := s.flush cfg ops o
  let keys := (List.range cfg.nshards).flatMap (fun i => s.shardKeys cfg o.ord i)
  snapDrive cfg s keys inter []

end Fv.Cache
