/-
Small-step model (critical-section granularity) of the loader single-flight protocol:
`Cache::fetch_with` / `load_value_blocking` / `trigger_background_load`
(cache/src/handles/sync.rs), `CacheShared::spawn_loader_task` (cache/src/shared.rs),
`LoadFuture` (cache/src/loader.rs). Async callers (handles/futures.rs) follow the same
protocol with a waker instead of a thread handle; both are `wake`able waiters here.

One step = one critical section (shard map read/write, striped `pending_loads` mutex,
the future's mutex) or one park/unpark-visible action. Threads are `Nat`; caller threads
are given programs by the environment (`call`), loader threads are spawned.
-/
namespace Fv.Cache.Loader

inductive PC where
  | idle
  | start (k : Nat)                 -- fetch_with entered, before the optimistic map read
  | atPending (k : Nat)             -- missed; about to lock pending_loads[stripe]
  | spawning (k f : Nat)            -- became leader; about to spawn the loader task
  | waitFut (f : Nat)               -- about to lock the future's mutex
  | parking (f : Nat)               -- registered as waiter, unlocked, about to park / parked
  | done (v : Nat)                  -- returned v
  | ldStart (k f : Nat)             -- loader task: about to call the user loader
  | ldInsert (k f v : Nat)          -- loaded v; about to insert into the shard map
  | ldRemove (k f v : Nat)          -- inserted; about to remove the pending marker
  | ldComplete (k f v : Nat)        -- marker removed; about to complete the future
  | ldDone
deriving Repr, DecidableEq

structure Fut where
  key : Nat
  value : Option Nat := none        -- none = Computing
  waiters : List Nat := []
deriving Repr, DecidableEq

structure State where
  resident : Nat → Option (Nat × Bool)   -- key ↦ (value, stale?)   (shard map)
  pending : Nat → Option Nat             -- key ↦ future id         (pending_loads)
  futs : Nat → Fut
  token : Nat → Bool                     -- park token / task woken flag
  pc : Nat → PC
  nextFut : Nat
  nextTid : Nat
  nextVal : Nat
  loads : Nat → Nat                      -- ghost: loader invocations per key
  grace : Bool                           -- stale-while-revalidate configured

def init (nCallers : Nat) (grace : Bool) : State :=
  { resident := fun _ => none, pending := fun _ => none, futs := fun _ => { key := 0 },
    token := fun _ => false, pc := fun _ => .idle, nextFut := 0, nextTid := nCallers,
    nextVal := 1, loads := fun _ => 0, grace := grace }

def upd {α} (f : Nat → α) (i : Nat) (a : α) : Nat → α := fun j => if j = i then a else f j

inductive Label where
  | call (k : Nat)        -- environment: thread starts fetch_with(k)
  | mapRead               -- optimistic read under the shard read lock (hit / stale hit / miss)
  | pendingCS             -- lock pending_loads[stripe]: join existing marker or become leader
  | spawn                 -- leader spawns the loader task
  | futCS                 -- lock future: Complete → return, Computing → register as waiter
  | park                  -- park returns because a token is present
  | spurious              -- park returns spuriously
  | load                  -- loader task runs the user loader
  | mapInsert             -- loader task inserts (key ↦ value) under the shard write lock
  | pendRemove            -- loader task removes the pending marker
  | complete              -- loader task completes the future and wakes every waiter
  | invalidate (k : Nat)  -- environment: remove/invalidate/expiry beyond grace of key k
  | expire (k : Nat)      -- environment: key k passes its TTL (stale if grace configured)
deriving Repr, DecidableEq

def wakeAll (token : Nat → Bool) (ws : List Nat) : Nat → Bool :=
  fun t => if t ∈ ws then true else token t

/-- only already-existing threads are given work by the environment (loader task ids are
allocated from `nextTid`). -/
def stepCall (s : State) (t k : Nat) : Option State :=
  if t < s.nextTid then
    match s.pc t with
    | .idle => some { s with pc := upd s.pc t (.start k) }
    | .done _ => some { s with pc := upd s.pc t (.start k) }
    | _ => none
  else none

/-- `fetch_with`: fresh hit returns; stale hit inside grace triggers a background refresh
(`try_lock` on the stripe — modelled as succeeding; a failed try_lock is `staleNoRefresh`)
and returns the stale value; otherwise miss. -/
def stepMapRead (s : State) (t : Nat) : Option State :=
  match s.pc t with
  | .start k =>
    match s.resident k with
    | some (v, false) => some { s with pc := upd s.pc t (.done v) }
    | some (v, true) =>
      if s.grace then
        match s.pending k with
        | some _ => some { s with pc := upd s.pc t (.done v) }
        | none =>
          let f := s.nextFut
          let lt := s.nextTid
          some { s with pending := upd s.pending k (some f), futs := upd s.futs f { key := k },
                        nextFut := f + 1, nextTid := lt + 1,
                        pc := upd (upd s.pc t (.done v)) lt (.ldStart k f) }
      else some { s with pc := upd s.pc t (.atPending k) }
    | none => some { s with pc := upd s.pc t (.atPending k) }
  | _ => none

def stepPendingCS (s : State) (t : Nat) : Option State :=
  match s.pc t with
  | .atPending k =>
    match s.pending k with
    | some f => some { s with pc := upd s.pc t (.waitFut f) }
    | none =>
      let f := s.nextFut
      some { s with pending := upd s.pending k (some f), futs := upd s.futs f { key := k },
                    nextFut := f + 1, pc := upd s.pc t (.spawning k f) }
  | _ => none

def stepSpawn (s : State) (t : Nat) : Option State :=
  match s.pc t with
  | .spawning k f =>
    let lt := s.nextTid
    some { s with nextTid := lt + 1, pc := upd (upd s.pc t (.waitFut f)) lt (.ldStart k f) }
  | _ => none

def stepFutCS (s : State) (t : Nat) : Option State :=
  match s.pc t with
  | .waitFut f =>
    match (s.futs f).value with
    | some v => some { s with pc := upd s.pc t (.done v) }
    | none =>
      some { s with futs := upd s.futs f { s.futs f with waiters := (s.futs f).waiters ++ [t] },
                    pc := upd s.pc t (.parking f) }
  | _ => none

def stepPark (s : State) (t : Nat) : Option State :=
  match s.pc t with
  | .parking f =>
    if s.token t then some { s with token := upd s.token t false, pc := upd s.pc t (.waitFut f) }
    else none
  | _ => none

def stepSpurious (s : State) (t : Nat) : Option State :=
  match s.pc t with
  | .parking f => some { s with pc := upd s.pc t (.waitFut f) }
  | _ => none

def stepLoad (s : State) (t : Nat) : Option State :=
  match s.pc t with
  | .ldStart k f =>
    some { s with loads := upd s.loads k (s.loads k + 1), nextVal := s.nextVal + 1,
                  pc := upd s.pc t (.ldInsert k f s.nextVal) }
  | _ => none

def stepMapInsert (s : State) (t : Nat) : Option State :=
  match s.pc t with
  | .ldInsert k f v =>
    some { s with resident := upd s.resident k (some (v, false)), pc := upd s.pc t (.ldRemove k f v) }
  | _ => none

def stepPendRemove (s : State) (t : Nat) : Option State :=
  match s.pc t with
  | .ldRemove k f v =>
    some { s with pending := upd s.pending k none, pc := upd s.pc t (.ldComplete k f v) }
  | _ => none

def stepComplete (s : State) (t : Nat) : Option State :=
  match s.pc t with
  | .ldComplete _ f v =>
    let fu := s.futs f
    some { s with futs := upd s.futs f { fu with value := some v, waiters := [] },
                  token := wakeAll s.token fu.waiters, pc := upd s.pc t .ldDone }
  | _ => none

def step (s : State) (t : Nat) : Label → Option State
  | .call k => stepCall s t k
  | .mapRead => stepMapRead s t
  | .pendingCS => stepPendingCS s t
  | .spawn => stepSpawn s t
  | .futCS => stepFutCS s t
  | .park => stepPark s t
  | .spurious => stepSpurious s t
  | .load => stepLoad s t
  | .mapInsert => stepMapInsert s t
  | .pendRemove => stepPendRemove s t
  | .complete => stepComplete s t
  | .invalidate k => some { s with resident := upd s.resident k none }
  | .expire k =>
    match s.resident k with
    | some (v, _) => some { s with resident := upd s.resident k (if s.grace then some (v, true) else none) }
    | none => some s

/-- Run a schedule; `none` if some step is not enabled. -/
def run (s : State) : List (Nat × Label) → Option State
  | [] => some s
  | (t, l) :: rest => (step s t l).bind (fun s' => run s' rest)

inductive Reach (n : Nat) (g : Bool) : State → Prop where
  | init : Reach n g (init n g)
  | step {s s' t l} : Reach n g s → step s t l = some s' → Reach n g s'

end Fv.Cache.Loader
