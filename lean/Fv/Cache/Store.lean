import Fv.Cache.Entry
import Fv.Cache.Timer
import Fv.Cache.Policy.LruList
/-
Sequential (big-step, "Q") model of the `fibre_cache` store: state, configuration, the
primitive state transformers every API call is made of, and the simple read / write calls of
`handles/sync.rs` / `handles/futures.rs`.

Representation.
* The per-shard `HashMap`s are ONE association list `map : List (Nat × Entry)`; the shard of a key
  is `key % nshards` (the harness installs an identity hasher, and the code computes
  `hash & (shards-1)` / `hash % shards` with a power-of-two shard count).  Shard `i`'s map is the
  sub-list of keys with `shardOf k = i`.  `HashMap` iteration order is an ORACLE (`Oracle.ord`).
* Everything else that is per shard (`TimerWheel`, bounded write-event buffer, read-access
  batcher, policy instance) lives in `aux : List (Aux P)`.
* The eviction policy is a parameter (`PolicyOps P`): the cache theorems hold for every policy,
  the driver instantiates it with the eight policy models.
* Ghost per-call logs (`plog`: calls made on the policy objects, `sent`: notifications handed to
  `try_send`, `removed`: bindings taken out of the map other than by overwrite, `delivered`:
  notifications the listener has received) are part of the state and reset at the start of each
  API call; they are compared with what the harness records on the real code.
-/
namespace Fv.Cache
open Fv.Cache.Policy (Admission)

inductive Reason where
  | capacity | expired | invalidated | cleared
deriving Repr, DecidableEq

structure Notif where
  key : Nat
  vid : Nat
  reason : Reason
deriving Repr, DecidableEq

/-- a call made on shard `shard`'s `CachePolicy` object -/
inductive PCall where
  | access (shard k c : Nat)
  | admit (shard k c : Nat) (d : Admission)
  | remove (shard k : Nat)
  | evict (shard n : Nat) (victims : List Nat) (freed : Nat)
  | clear (shard : Nat)
deriving Repr, DecidableEq

/-- the `CachePolicy` trait as the cache uses it.  `evict` gets the victims the implementation
    reported as a hint (only the random policy looks at it) and may reject the hint. -/
structure PolicyOps (P : Type) where
  access : P → Nat → Nat → P
  admit : P → Nat → Nat → P × Admission
  remove : P → Nat → P
  evict : P → Nat → List Nat → Option (P × List Nat × Nat)
  clear : P → P

structure Cfg where
  nshards : Nat := 1
  /-- `u64::MAX` for an unbounded cache -/
  capacity : Nat := U64 - 1
  ttl : Option Nat := none
  tti : Option Nat := none
  /-- stale-while-revalidate grace -/
  swr : Option Nat := none
  /-- `maintenance_chance(1)`: every sync insert runs opportunistic maintenance; otherwise never -/
  mcAlways : Bool := false
  /-- `maintenance_on_introspection` -/
  moi : Bool := false
  /-- `track_reads` = some shard policy `uses_access_events()` -/
  trackReads : Bool := false
  hasListener : Bool := false
  wheelSize : Nat := 60
  tickDur : Nat := 1000
  /-- `ACCESS_EVENT_CHANNEL_BUFFER` -/
  eventCap : Nat := 512
  /-- `COOPERATIVE_MAINTENANCE_DRAIN_LIMIT` -/
  drainLimit : Nat := 16
  /-- `JANITOR_EXPIRE_SAMPLE_SIZE` -/
  sampleSize : Nat := 10
  /-- `NOTIFICATION_CHANNEL_CAPACITY` -/
  queueCap : Nat := 128
deriving Repr, DecidableEq

def Cfg.hasWheel (cfg : Cfg) : Bool := cfg.ttl.isSome || cfg.tti.isSome
def Cfg.shardOf (cfg : Cfg) (k : Nat) : Nat := k % cfg.nshards

structure Aux (P : Type) where
  wheel : Option Wheel := none
  /-- write-event buffer, oldest first -/
  events : List (Nat × Nat) := []
  /-- read-access batcher: key ↦ cost at first record since the last drain -/
  batch : List (Nat × Nat) := []
  policy : P

structure Metrics where
  hits : Nat := 0
  misses : Nat := 0
  inserts : Nat := 0
  updates : Nat := 0
  invalidations : Nat := 0
  evCap : Nat := 0
  evTtl : Nat := 0
  evTti : Nat := 0
  admitted : Nat := 0
  currentCost : Nat := 0
  totalCostAdded : Nat := 0
deriving Repr, DecidableEq

/-- the notifier thread + its bounded queue + the harness listener (which can be gated shut) -/
structure Listener where
  gateClosed : Bool := false
  inFlight : Option Notif := none
  queue : List Notif := []
deriving Repr, DecidableEq

structure SnapEntry where
  key : Nat
  vid : Nat
  cost : Nat
  ttlRemaining : Option Nat
deriving Repr, DecidableEq

structure Snapshot where
  entries : List SnapEntry
  capacity : Nat
  shards : Nat
deriving Repr, DecidableEq

/-- hash-order / random-choice oracles for one API call, read off the implementation's output -/
structure Oracle where
  /-- order in which one maintenance pass applied the coalesced read batch -/
  accHint : List Nat := []
  /-- order of removals that follow `HashMap` iteration order (`retain`, `clear`, TTI sample) -/
  remHint : List Nat := []
  /-- per shard: victims the real `evict` returned -/
  evictHint : List (List Nat) := []
  /-- `HashMap` iteration order of the resident keys -/
  ord : List Nat := []
deriving Repr

structure State (P : Type) where
  map : List (Nat × Entry) := []
  aux : List (Aux P) := []
  now : Nat := 0
  met : Metrics := {}
  lis : Listener := {}
  snap : Option Snapshot := none
  -- ghost logs of the current API call
  plog : List PCall := []
  sent : List Notif := []
  removed : List Notif := []
  delivered : List Notif := []
  /-- an oracle value was not admissible (the driver rejects the step) -/
  oracleBad : Bool := false

/-! ### association-list map -/
def lookup (m : List (Nat × Entry)) (k : Nat) : Option Entry :=
  match m with
  | [] => none
  | (k', e) :: rest => if k' = k then some e else lookup rest k

def erase (m : List (Nat × Entry)) (k : Nat) : List (Nat × Entry) :=
  m.filter (fun p => p.1 != k)

def put (m : List (Nat × Entry)) (k : Nat) (e : Entry) : List (Nat × Entry) :=
  (k, e) :: erase m k

def modAt {α} (l : List α) (i : Nat) (f : α → α) : List α :=
  match l, i with
  | [], _ => []
  | a :: rest, 0 => f a :: rest
  | a :: rest, i + 1 => a :: modAt rest i f

/-- keys of `hint` that are in `keys` (in hint order, once each), then the rest of `keys`. -/
def orderBy (hint keys : List Nat) : List Nat :=
  (hint.filter (fun k => keys.contains k)).eraseDups ++ keys.filter (fun k => !hint.contains k)

variable {P : Type}

/-! ### primitives -/
def State.resetLogs (s : State P) : State P :=
  { s with plog := [], sent := [], removed := [], delivered := [], oracleBad := false }

def State.modAux (s : State P) (i : Nat) (f : Aux P → Aux P) : State P :=
  { s with aux := modAt s.aux i f }

def State.modWheel (s : State P) (i : Nat) (f : Wheel → Wheel) : State P :=
  s.modAux i (fun a => { a with wheel := a.wheel.map f })

def State.cancelTimer (s : State P) (i : Nat) (h : Option Nat) : State P :=
  s.modWheel i (fun w => w.cancelOpt h)

def State.subCost (s : State P) (c : Nat) : State P :=
  { s with met := { s.met with currentCost := subW s.met.currentCost c } }

def State.addCost (s : State P) (c : Nat) : State P :=
  { s with met := { s.met with currentCost := addW s.met.currentCost c } }

/-- `shard.event_buffer_tx.try_send(Write(k, cost))` — lossy when the buffer is full. -/
def State.pushEvent (cfg : Cfg) (s : State P) (k c : Nat) : State P :=
  s.modAux (cfg.shardOf k) (fun a =>
    if a.events.length < cfg.eventCap then { a with events := a.events ++ [(k, c)] } else a)

/-- `sender.try_send(notification)` followed by whatever the notifier thread does with it. -/
def State.notify (cfg : Cfg) (s : State P) (n : Notif) : State P :=
  if !cfg.hasListener then s
  else
    let s := { s with sent := s.sent ++ [n] }
    if s.lis.gateClosed then
      match s.lis.inFlight with
      | none => { s with lis := { s.lis with inFlight := some n } }
      | some _ =>
        if s.lis.queue.length < cfg.queueCap then { s with lis := { s.lis with queue := s.lis.queue ++ [n] } }
        else s
    else { s with delivered := s.delivered ++ [n] }

def State.logRemoved (s : State P) (k : Nat) (e : Entry) (r : Reason) : State P :=
  { s with removed := s.removed ++ [{ key := k, vid := e.vid, reason := r }] }

/-! ### calls on the policy objects -/
def State.polAccess (ops : PolicyOps P) (s : State P) (i k c : Nat) : State P :=
  { s.modAux i (fun a => { a with policy := ops.access a.policy k c }) with
    plog := s.plog ++ [.access i k c] }

def State.polRemove (ops : PolicyOps P) (s : State P) (i k : Nat) : State P :=
  { s.modAux i (fun a => { a with policy := ops.remove a.policy k }) with
    plog := s.plog ++ [.remove i k] }

def State.polClear (ops : PolicyOps P) (s : State P) (i : Nat) : State P :=
  { s.modAux i (fun a => { a with policy := ops.clear a.policy }) with
    plog := s.plog ++ [.clear i] }

def State.polAdmit (ops : PolicyOps P) (s : State P) (i k c : Nat) : State P × Admission :=
  match s.aux[i]? with
  | some a =>
    let (p', d) := ops.admit a.policy k c
    ({ s.modAux i (fun a => { a with policy := p' }) with plog := s.plog ++ [.admit i k c d] }, d)
  | none => (s, .admit)

def State.polEvict (ops : PolicyOps P) (s : State P) (i n : Nat) (hint : List Nat) :
    State P × List Nat × Nat :=
  match s.aux[i]? with
  | some a =>
    match ops.evict a.policy n hint with
    | some (p', vs, freed) =>
      ({ s.modAux i (fun a => { a with policy := p' }) with plog := s.plog ++ [.evict i n vs freed] }, vs, freed)
    | none => ({ s with oracleBad := true }, [], 0)
  | none => (s, [], 0)

/-! ### hits -/
/-- `on_hit`: refresh the idle clock, record the access in the shard's batcher (coalescing). -/
def State.onHit (cfg : Cfg) (s : State P) (k : Nat) (e : Entry) : State P :=
  let s := { s with map := put s.map k (e.touch s.now cfg.tti) }
  if cfg.trackReads then
    s.modAux (cfg.shardOf k) (fun a =>
      if a.batch.any (fun p => p.1 == k) then a else { a with batch := a.batch ++ [(k, e.cost)] })
  else s

def State.hit (s : State P) (n : Nat) : State P := { s with met := { s.met with hits := s.met.hits + n } }
def State.miss (s : State P) (n : Nat) : State P := { s with met := { s.met with misses := s.met.misses + n } }

/-- `Cache::get` / `Cache::fetch` (and the async versions): one shard read section. -/
def State.get (cfg : Cfg) (s : State P) (k : Nat) : State P × Option Nat :=
  match lookup s.map k with
  | some e =>
    if e.isExpired s.now cfg.tti then (s.miss 1, none)
    else ((s.onHit cfg k e).hit 1, some e.vid)
  | none => (s.miss 1, none)

/-- `Cache::peek`: no metrics, no `on_hit`. -/
def State.peek (cfg : Cfg) (s : State P) (k : Nat) : Option Nat :=
  match lookup s.map k with
  | some e => if e.isExpired s.now cfg.tti then none else some e.vid
  | none => none

/-- `entry(k)` is `Occupied` — `contains_key` only, no expiry check (DESIGN §11 F6). -/
def State.occupied (s : State P) (k : Nat) : Bool := (lookup s.map k).isSome

/-! ### writes -/
/-- the body shared by `insert` / `insert_with_ttl` / one item of `multi_insert`, up to and
    including the `current_cost` additions; `full` = also bump `inserts`, `keys_admitted`,
    `total_cost_added` (`multi_insert` does not). -/
def State.insertCore (cfg : Cfg) (s : State P) (k : Nat) (e : Entry) (timerDur : Option Nat) (full : Bool) : State P :=
  let i := cfg.shardOf k
  -- schedule on this shard's wheel (exists iff the cache has a TTL or a TTI)
  let (s, e) :=
    match s.aux[i]?.bind (·.wheel), timerDur with
    | some w, some d =>
      let (w', h) := w.schedule k d
      (s.modAux i (fun a => { a with wheel := some w' }), { e with timer := some h })
    | _, _ => (s, e)
  let old := lookup s.map k
  let s := { s with map := put s.map k e }
  let s := match old with
    | some o => (s.cancelTimer i o.timer).subCost o.cost
    | none => s
  let s := s.pushEvent cfg k e.cost
  let s := if full then
      { s with met := { s.met with inserts := s.met.inserts + 1, admitted := s.met.admitted + 1,
                                   totalCostAdded := s.met.totalCostAdded + e.cost } }
    else s
  s.addCost e.cost

/-- `Cache::remove` / `invalidate` / one key of `multi_remove`. -/
def State.removeKey (cfg : Cfg) (ops : PolicyOps P) (s : State P) (k : Nat) : State P × Option Nat :=
  match lookup s.map k with
  | some e =>
    let i := cfg.shardOf k
    let s := { s with map := erase s.map k }
    let s := s.logRemoved k e .invalidated
    let s := s.cancelTimer i e.timer
    let s := s.polRemove ops i k
    let s := { s with met := { s.met with invalidations := s.met.invalidations + 1 } }
    let s := s.subCost e.cost
    (s.notify cfg { key := k, vid := e.vid, reason := .invalidated }, some e.vid)
  | none => (s, none)

/-- keys resident in shard `i`, in the oracle's iteration order -/
def State.shardKeys (cfg : Cfg) (s : State P) (ord : List Nat) (i : Nat) : List Nat :=
  orderBy ord ((s.map.map (·.1)).filter (fun k => cfg.shardOf k == i))

def logClearedAll (s : State P) : List (Nat × Entry) → State P
  | [] => s
  | (k, e) :: rest => logClearedAll (s.logRemoved k e .cleared) rest

/-- `Cache::clear`: per shard `on_remove` for every key, maps emptied, every policy `clear()`ed,
    `current_cost.fetch_sub(Σ cost of the entries removed)` (wrapping; since /repo 7e5c084 — it used
    to be `current_cost := 0`).  Timers, event buffers and batchers are left as they are; no
    notification. -/
def State.clearAll (cfg : Cfg) (ops : PolicyOps P) (o : Oracle) (s : State P) : State P :=
  let removedCost := (s.map.map (·.2.cost)).sum
  let shards := List.range cfg.nshards
  let s := shards.foldl (fun s i => (s.shardKeys cfg o.remHint i).foldl (fun s k => s.polRemove ops i k) s) s
  let s := logClearedAll s s.map
  let s := { s with map := [] }
  let s := shards.foldl (fun s i => s.polClear ops i) s
  { s with met := { s.met with currentCost := subW s.met.currentCost removedCost } }

end Fv.Cache
