import Fv.Cache.Store
/-
Maintenance, as `task/janitor.rs` performs it when called from `run_maintenance`, from the
opportunistic hook of a synchronous `insert`, and from `flush_for_introspection`:

  perform_shard_maintenance (drain ≤ limit write events, apply the read batch around them,
                             admissions with admission-driven evictions)
  cleanup_ttl_for_shard     (ONE timer-wheel tick per call — DESIGN §11 F7)
  cleanup_tti_for_shard     (first `sampleSize` entries in hash order)
  cleanup_capacity_for_shard (victims and the amount subtracted from `current_cost` are what the
                             POLICY reports — DESIGN §11 F8c)
-/
namespace Fv.Cache
open Fv.Cache.Policy (Admission)
variable {P : Type}

/-- removal of one admission-driven victim (`AdmitAndEvict`): looked up in its own shard, its own
    shard's policy is told, timers are NOT cancelled.  Returns the cost released. -/
def State.evictVictim (cfg : Cfg) (ops : PolicyOps P) (s : State P) (v : Nat) : State P × Nat × Option Notif :=
  match lookup s.map v with
  | some e =>
    let s := { s with map := erase s.map v }
    let s := s.logRemoved v e .capacity
    let s := s.polRemove ops (cfg.shardOf v) v
    let s := { s with met := { s.met with evCap := s.met.evCap + 1 } }
    (s, e.cost, some { key := v, vid := e.vid, reason := .capacity })
  | none => (s, 0, none)

def State.evictVictims (cfg : Cfg) (ops : PolicyOps P) : State P → List Nat → Nat → List Notif → State P × Nat × List Notif
  | s, [], rel, ns => (s, rel, ns)
  | s, v :: vs, rel, ns =>
    match s.evictVictim cfg ops v with
    | (s', c, some n) => State.evictVictims cfg ops s' vs (rel + c) (ns ++ [n])
    | (s', c, none) => State.evictVictims cfg ops s' vs (rel + c) ns

def State.notifyAll (cfg : Cfg) : State P → List Notif → State P
  | s, [] => s
  | s, n :: ns => State.notifyAll cfg (s.notify cfg n) ns

/-- step 3 of `perform_shard_maintenance` for one write event -/
def State.applyWrite (cfg : Cfg) (ops : PolicyOps P) (s : State P) (i : Nat) (w : Nat × Nat) : State P :=
  match s.polAdmit ops i w.1 w.2 with
  | (s, .admitAndEvict vs) =>
    let (s, rel, ns) := State.evictVictims cfg ops s vs 0 []
    let s := s.subCost rel
    State.notifyAll cfg s ns
  | (s, _) => s

def State.applyWrites (cfg : Cfg) (ops : PolicyOps P) (i : Nat) : State P → List (Nat × Nat) → State P
  | s, [] => s
  | s, w :: ws => State.applyWrites cfg ops i (s.applyWrite cfg ops i w) ws

def State.applyAccesses (ops : PolicyOps P) (i : Nat) : State P → List (Nat × Nat) → State P
  | s, [] => s
  | s, (k, c) :: rest => State.applyAccesses ops i (s.polAccess ops i k c) rest

/-- `perform_shard_maintenance(shard i, drain_limit)` -/
def State.performShard (cfg : Cfg) (ops : PolicyOps P) (o : Oracle) (s : State P) (i limit : Nat) : State P :=
  match s.aux[i]? with
  | none => s
  | some a =>
    let writes := a.events.take limit
    let s := s.modAux i (fun a => { a with events := a.events.drop limit, batch := [] })
    -- the coalesced read batch comes out of an `ahash` map: its order is an oracle
    let order := orderBy o.accHint (a.batch.map (·.1))
    let batch := order.filterMap (fun k => (a.batch.find? (fun p => p.1 == k)))
    let pending := writes.map (·.1)
    let now_ := batch.filter (fun p => !pending.contains p.1)
    let deferred := batch.filter (fun p => pending.contains p.1)
    let s := State.applyAccesses ops i s now_
    let s := State.applyWrites cfg ops i s writes
    State.applyAccesses ops i s deferred

/-- one key removed by `cleanup_ttl_for_shard`'s `retain` -/
def State.ttlRemove (cfg : Cfg) (ops : PolicyOps P) (i : Nat) (s : State P) (k : Nat) : State P :=
  match lookup s.map k with
  | some e =>
    let s := s.polRemove ops i k
    let s := { s with met := { s.met with evTtl := s.met.evTtl + 1 } }
    let s := s.subCost e.cost
    let s := s.notify cfg { key := k, vid := e.vid, reason := .expired }
    let s := s.logRemoved k e .expired
    { s with map := erase s.map k }
  | none => s

/-- `cleanup_ttl_for_shard`: advance the wheel by one tick; every resident key of this shard
    whose hash fired is removed — whatever entry is bound to it now, expired or not. -/
def State.cleanupTtl (cfg : Cfg) (ops : PolicyOps P) (o : Oracle) (s : State P) (i : Nat) : State P :=
  match s.aux[i]?.bind (·.wheel) with
  | none => s
  | some w =>
    let (w', fired) := w.advance
    let s := s.modAux i (fun a => { a with wheel := some w' })
    let victims := (s.shardKeys cfg o.remHint i).filter (fun k => fired.contains k)
    victims.foldl (State.ttlRemove cfg ops i) s

def State.ttiRemove (cfg : Cfg) (ops : PolicyOps P) (i : Nat) (s : State P) (k : Nat) : State P :=
  match lookup s.map k with
  | some e =>
    let s := { s with map := erase s.map k }
    let s := s.logRemoved k e .expired
    let s := s.polRemove ops i k
    let s := { s with met := { s.met with evTti := s.met.evTti + 1 } }
    let s := s.subCost e.cost
    let s := s.cancelTimer i e.timer
    s.notify cfg { key := k, vid := e.vid, reason := .expired }
  | none => s

/-- `cleanup_tti_for_shard`: only with a TTI; the first `sampleSize` entries in hash order, those
    for which `is_expired` (TTL or TTI) holds are removed. -/
def State.cleanupTti (cfg : Cfg) (ops : PolicyOps P) (o : Oracle) (s : State P) (i : Nat) : State P :=
  match cfg.tti with
  | none => s
  | some _ =>
    let sample := (s.shardKeys cfg o.ord i).take cfg.sampleSize
    let victims := sample.filter (fun k =>
      match lookup s.map k with
      | some e => e.isExpired s.now cfg.tti
      | none => false)
    (orderBy o.remHint victims).foldl (State.ttiRemove cfg ops i) s

/-- one victim of the capacity pass: removed from THIS shard's map only; no policy call, no
    timer cancellation, no cost bookkeeping per victim. -/
def State.capRemove (cfg : Cfg) (i : Nat) (s : State P) (k : Nat) : State P :=
  if cfg.shardOf k = i then
    match lookup s.map k with
    | some e =>
      let s := { s with map := erase s.map k }
      let s := s.logRemoved k e .capacity
      s.notify cfg { key := k, vid := e.vid, reason := .capacity }
    | none => s
  else s

/-- `cleanup_capacity_for_shard` -/
def State.cleanupCapacity (cfg : Cfg) (ops : PolicyOps P) (o : Oracle) (s : State P) (i : Nat) : State P :=
  let cc := s.met.currentCost
  if cc ≤ cfg.capacity then s
  else
    let (s, victims, released) := s.polEvict ops i (cc - cfg.capacity) (o.evictHint.getD i [])
    if victims.isEmpty then s
    else
      let s := victims.foldl (State.capRemove cfg i) s
      let s := { s with met := { s.met with evCap := s.met.evCap + victims.length } }
      s.subCost released

/-- `Cache::run_maintenance` / `AsyncCache::run_maintenance` -/
def State.runMaintenance (cfg : Cfg) (ops : PolicyOps P) (o : Oracle) (s : State P) : State P :=
  (List.range cfg.nshards).foldl (fun s i =>
    let s := s.performShard cfg ops o i cfg.drainLimit
    let s := s.cleanupTtl cfg ops o i
    let s := s.cleanupTti cfg ops o i
    s.cleanupCapacity cfg ops o i) s

/-- `flush_for_introspection` (only with `maintenance_on_introspection`): unlimited drain of
    every shard, nothing else. -/
def State.flush (cfg : Cfg) (ops : PolicyOps P) (o : Oracle) (s : State P) : State P :=
  if cfg.moi then
    (List.range cfg.nshards).foldl (fun s i => s.performShard cfg ops o i U64) s
  else s

/-- the opportunistic hook at the end of a synchronous `insert` / `insert_with_ttl` -/
def State.opportunistic (cfg : Cfg) (ops : PolicyOps P) (o : Oracle) (s : State P) (k : Nat) : State P :=
  if cfg.mcAlways then s.performShard cfg ops o (cfg.shardOf k) cfg.drainLimit else s

end Fv.Cache
