import Fv.Cache.Policy.LruList
/-
Model of `cache/src/policy/clock.rs`: `order : Vec<K>` (push at the back),
`items : HashMap<K,{cost, referenced}>` merged into one list, `hand` index.
Re-admitting a tracked key is a no-op (old cost kept, DESIGN §11 F9).
-/
namespace Fv.Cache.Policy.Clock

structure Ent where
  key : Nat
  cost : Nat
  ref : Bool
deriving Repr, DecidableEq

structure State where
  order : List Ent := []
  hand : Nat := 0
deriving Repr, DecidableEq

def init : State := {}

def access (s : State) (k _c : Nat) : State :=
  { s with order := s.order.map (fun e => if e.key == k then { e with ref := true } else e) }

def admit (s : State) (k c : Nat) : State × Admission :=
  (if s.order.any (fun e => e.key == k) then s
   else { s with order := s.order ++ [{ key := k, cost := c, ref := false }] }, .admit)

def remove (s : State) (k : Nat) : State :=
  match s.order.findIdx? (fun e => e.key == k) with
  | some pos =>
    { order := s.order.eraseIdx pos, hand := if pos ≤ s.hand ∧ s.hand > 0 then s.hand - 1 else s.hand }
  | none => s

/-- inner sweep `while swept < order_len * 2`; `budget` = remaining sweeps. -/
def sweep : Nat → State → State × Option Ent
  | 0, s => (s, none)
  | budget + 1, s =>
    let hand := if s.hand ≥ s.order.length then 0 else s.hand
    match s.order[hand]? with
    | none => ({ s with hand := hand }, none)
    | some e =>
      if e.ref then sweep budget { order := s.order.set hand { e with ref := false }, hand := hand + 1 }
      else ({ order := s.order.eraseIdx hand, hand := hand }, some e)

def evictLoop : Nat → State → Nat → List Nat → Nat → State × List Nat × Nat
  | 0, s, _, vs, freed => (s, vs, freed)
  | fuel + 1, s, need, vs, freed =>
    if need > 0 ∧ s.order ≠ [] then
      match sweep (s.order.length * 2) s with
      | (s1, some e) => evictLoop fuel s1 (need - e.cost) (vs ++ [e.key]) (freed + e.cost)
      | (s1, none) => evictLoop fuel s1 need vs freed
    else (s, vs, freed)

def evict (s : State) (n : Nat) : State × List Nat × Nat :=
  evictLoop (s.order.length + 1) s n [] 0

def clear (_ : State) : State := {}

end Fv.Cache.Policy.Clock
