import Fv.Cache.Policy.LruList
/- Model of `cache/src/policy/slru.rs` (`SlruState` + `SlruPolicy`). -/
namespace Fv.Cache.Policy.Slru

structure State where
  prob : LruList := {}
  prot : LruList := {}
deriving Repr, DecidableEq

/-- `((capacity as f64 * 0.20).round() as u64).max(1)`; multiples of 0.2 never tie. -/
def probCapacity (cap : Nat) : Nat := if cap = 0 then 0 else max 1 ((cap + 2) / 5)
def protCapacity (cap : Nat) : Nat := cap - probCapacity cap

def init : State := {}

def maintain : Nat → State → Nat → State
  | 0, s, _ => s
  | fuel + 1, s, protCap =>
    if s.prot.cost > protCap then
      match s.prot.popBack with
      | (prot', some (k, c)) => maintain fuel { prob := s.prob.pushFront k c, prot := prot' } protCap
      | (_, none) => s
    else s

def maintainCapacities (s : State) (protCap : Nat) : State :=
  maintain (s.prot.items.length + 1) s protCap

def peekLru (s : State) : Option Nat :=
  match s.prob.tailKey with
  | some k => some k
  | none => s.prot.tailKey

def admitInternal (s : State) (k c : Nat) : State :=
  if !s.prot.contains k && !s.prob.contains k then { s with prob := s.prob.pushFront k c }
  else if s.prob.contains k then { s with prob := s.prob.pushFront k c }
  else s

def accessInternal (s : State) (k c protCap : Nat) : State :=
  if s.prot.contains k then { s with prot := s.prot.pushFront k c }
  else
    match s.prob.remove k with
    | (prob', some _) => maintainCapacities { prob := prob', prot := s.prot.pushFront k c } protCap
    | (_, none) => s

def evictItems (s : State) (n protCap : Nat) : State × List Nat × Nat :=
  let s1 := maintainCapacities s protCap
  let (prob', need1, vs1, freed1) := drainBack (s1.prob.items.length + 1) s1.prob n [] 0
  let (prot', _, vs2, freed2) := drainBack (s1.prot.items.length + 1) s1.prot need1 vs1 freed1
  ({ prob := prob', prot := prot' }, vs2, freed2)

/- the `CachePolicy` impl of `SlruPolicy` -/
def access (s : State) (k c protCap : Nat) : State := accessInternal s k c protCap
def admit (s : State) (k c : Nat) : State × Admission :=
  (if !s.prot.contains k && !s.prob.contains k then { s with prob := s.prob.pushFront k c } else s, .admit)
def remove (s : State) (k : Nat) : State :=
  match s.prob.remove k with
  | (prob', some _) => { s with prob := prob' }
  | (_, none) => { s with prot := (s.prot.remove k).1 }
def evict (s : State) (n protCap : Nat) : State × List Nat × Nat := evictItems s n protCap
def clear (_ : State) : State := {}

end Fv.Cache.Policy.Slru
