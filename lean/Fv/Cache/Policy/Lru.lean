import Fv.Cache.Policy.LruList
/- Model of `cache/src/policy/lru.rs`. -/
namespace Fv.Cache.Policy.Lru

abbrev State := LruList

def init : State := {}
def access (s : State) (k _c : Nat) : State := s.moveToFront k
def admit (s : State) (k c : Nat) : State × Admission := (s.pushFront k c, .admit)
def remove (s : State) (k : Nat) : State := (LruList.remove s k).1

/-- `while total_cost_freed < cost_to_free { pop_back }` -/
def evictLoop : Nat → LruList → Nat → List Nat → Nat → LruList × List Nat × Nat
  | 0, l, _, vs, freed => (l, vs, freed)
  | fuel + 1, l, need, vs, freed =>
    if freed < need then
      match l.popBack with
      | (l', some (k, c)) => evictLoop fuel l' need (vs ++ [k]) (freed + c)
      | (_, none) => (l, vs, freed)
    else (l, vs, freed)

def evict (s : State) (n : Nat) : State × List Nat × Nat :=
  evictLoop (s.items.length + 1) s n [] 0

def clear (_ : State) : State := {}

end Fv.Cache.Policy.Lru
