import Fv.Cache.Policy.LruList
/-
Model of `cache/src/policy/random.rs`. `items : HashMap<K,u64>`; the victim chosen
by `rand` is an ORACLE: `evictWith` is given the victim sequence the
implementation reported and checks that it is admissible (each victim tracked
at that moment; loop guard `cost_to_free > 0 && !items.is_empty()` true before
every pick and false after the last).
-/
namespace Fv.Cache.Policy.Random

structure State where
  items : List (Nat × Nat) := []
deriving Repr, DecidableEq

def init : State := {}
def access (s : State) (_k _c : Nat) : State := s
def admit (s : State) (k c : Nat) : State × Admission :=
  ({ items := (k, c) :: LruList.without s.items k }, .admit)
def remove (s : State) (k : Nat) : State := { items := LruList.without s.items k }

def lookup (s : State) (k : Nat) : Option Nat := (s.items.find? (fun p => p.1 == k)).map (·.2)

/-- Replays the oracle's picks. `none` = the picks are not a possible run of the loop. -/
def evictWith : State → Nat → List Nat → Nat → Option (State × Nat)
  | s, need, [], freed => if need > 0 ∧ s.items ≠ [] then none else some (s, freed)
  | s, need, k :: ks, freed =>
    if need > 0 ∧ s.items ≠ [] then
      match lookup s k with
      | some c => evictWith (remove s k) (need - c) ks (freed + c)
      | none => none
    else none

def clear (_ : State) : State := {}

end Fv.Cache.Policy.Random
