import Fv.Cache.Policy.LruList
/- Model of `cache/src/policy/fifo.rs`. Re-admitting a tracked key is a no-op
   (the old cost is kept — DESIGN §11 F9, pinned by the repository's own test). -/
namespace Fv.Cache.Policy.Fifo

abbrev State := LruList

def init : State := {}
def access (s : State) (_k _c : Nat) : State := s
def admit (s : State) (k c : Nat) : State × Admission :=
  (if s.contains k then s else s.pushFront k c, .admit)
def remove (s : State) (k : Nat) : State := (LruList.remove s k).1
def evict (s : State) (n : Nat) : State × List Nat × Nat :=
  let (l, _, vs, freed) := drainBack (s.items.length + 1) s n [] 0
  (l, vs, freed)
def clear (_ : State) : State := {}

end Fv.Cache.Policy.Fifo
