/-
Model of `cache/src/policy/lru_list.rs` (`LruList<K>`): an intrusive doubly linked
list in a generational arena + a `HashMap<K, Index>` + a running `current_cost`.
Abstraction: the arena/links/lookup triple is represented by the list of
`(key, cost)` pairs from head (most recent) to tail. `current_cost` is kept as a
separate field updated exactly as the code updates it (`saturating_sub` = `Nat`
subtraction); that it equals the sum of the item costs is a theorem
(`Fv.Props.C14`), not a definition. Keys and costs are `Nat` (u64 overflow of
cost sums is not modelled).
-/
namespace Fv.Cache.Policy

structure LruList where
  items : List (Nat × Nat) := []
  cost : Nat := 0
deriving Repr, DecidableEq

namespace LruList

def empty : LruList := {}

def lookup (l : LruList) (k : Nat) : Option Nat :=
  (l.items.find? (fun p => p.1 == k)).map (·.2)

def contains (l : LruList) (k : Nat) : Bool := (l.lookup k).isSome

def without (items : List (Nat × Nat)) (k : Nat) : List (Nat × Nat) :=
  items.filter (fun p => p.1 != k)

/-- `push_front`: existing key → update cost, move to front; else insert at head. -/
def pushFront (l : LruList) (k c : Nat) : LruList :=
  match l.lookup k with
  | some old => { items := (k, c) :: without l.items k, cost := l.cost - old + c }
  | none => { items := (k, c) :: l.items, cost := l.cost + c }

def moveToFront (l : LruList) (k : Nat) : LruList :=
  match l.lookup k with
  | some c => { l with items := (k, c) :: without l.items k }
  | none => l

def remove (l : LruList) (k : Nat) : LruList × Option Nat :=
  match l.lookup k with
  | some c => ({ items := without l.items k, cost := l.cost - c }, some c)
  | none => (l, none)

/-- `pop_back`: reads the tail node then calls `remove(&key)`. -/
def popBack (l : LruList) : LruList × Option (Nat × Nat) :=
  match l.items.getLast? with
  | some (k, c) => ((l.remove k).1, some (k, c))
  | none => (l, none)

def tailKey (l : LruList) : Option Nat := l.items.getLast?.map (·.1)

end LruList

/-- Result of `CachePolicy::on_admit`. -/
inductive Admission where
  | admit
  | reject
  | admitAndEvict (victims : List Nat)
deriving Repr, DecidableEq

/-- `while cost_to_free > 0 { pop_back … saturating_sub }` shared by FIFO / SLRU. -/
def drainBack : Nat → LruList → Nat → List Nat → Nat → LruList × Nat × List Nat × Nat
  | 0, l, need, vs, freed => (l, need, vs, freed)
  | fuel + 1, l, need, vs, freed =>
    if need > 0 then
      match l.popBack with
      | (l', some (k, c)) => drainBack fuel l' (need - c) (vs ++ [k]) (freed + c)
      | (_, none) => (l, need, vs, freed)
    else (l, need, vs, freed)

end Fv.Cache.Policy
