import Fv.Cache.Policy.LruList
/- Model of `cache/src/policy/arc.rs`. -/
namespace Fv.Cache.Policy.Arc

structure State where
  p : Nat := 0
  t1 : LruList := {}
  t2 : LruList := {}
  b1 : LruList := {}
  b2 : LruList := {}
deriving Repr, DecidableEq

def init : State := {}

/-- `(a as f64 / b as f64).round() as u64` for b > 0 (round half away from zero). -/
def roundDiv (a b : Nat) : Nat := (2 * a + b) / (2 * b)

def replace (s : State) (cap : Nat) (keyInB2 : Bool) : State × Option (Nat × Nat) :=
  let t1c := s.t1.cost
  if t1c > 0 ∧ (t1c ≥ s.p ∨ (keyInB2 ∧ t1c = s.p)) then
    match s.t1.popBack with
    | (t1', some (k, c)) =>
      let b1 := s.b1.pushFront k c
      let b1 := if b1.cost > cap then b1.popBack.1 else b1
      ({ s with t1 := t1', b1 := b1 }, some (k, c))
    | (_, none) => (s, none)
  else
    match s.t2.popBack with
    | (t2', some (k, c)) =>
      let b2 := s.b2.pushFront k c
      let b2 := if b2.cost > cap then b2.popBack.1 else b2
      ({ s with t2 := t2', b2 := b2 }, some (k, c))
    | (_, none) => (s, none)

def access (s : State) (k c : Nat) : State :=
  match s.t1.remove k with
  | (t1', some _) => { s with t1 := t1', t2 := s.t2.pushFront k c }
  | (_, none) => if s.t2.contains k then { s with t2 := s.t2.pushFront k c } else s

def admit (s : State) (k c cap : Nat) : State × Admission :=
  match s.t1.remove k with
  | (t1', some _) => ({ s with t1 := t1', t2 := s.t2.pushFront k c }, .admit)
  | (_, none) =>
    if s.t2.contains k then ({ s with t2 := s.t2.pushFront k c }, .admit)
    else
      let (s1, keyInB2) :=
        match s.b1.remove k with
        | (b1', some _) =>
          let b2c := s.b2.cost
          let b1c := b1'.cost
          let delta := max 1 (if b1c > 0 ∧ b2c > b1c then roundDiv b2c b1c else 1)
          ({ s with b1 := b1', p := min (s.p + delta) cap }, false)
        | (_, none) =>
          match s.b2.remove k with
          | (b2', some _) =>
            let b1c := s.b1.cost
            let b2c := b2'.cost
            let delta := max 1 (if b2c > 0 ∧ b1c > b2c then roundDiv b1c b2c else 1)
            ({ s with b2 := b2', p := s.p - delta }, true)
          | (_, none) => (s, false)
      -- the victim returned by `replace` is DISCARDED by the code (DESIGN §11 F9)
      let s2 := if s1.t1.cost + s1.t2.cost ≥ cap then (replace s1 cap keyInB2).1 else s1
      ({ s2 with t1 := s2.t1.pushFront k c }, .admit)

def remove (s : State) (k : Nat) : State :=
  match s.t1.remove k with
  | (t1', some _) => { s with t1 := t1' }
  | (_, none) =>
    match s.t2.remove k with
    | (t2', some _) => { s with t2 := t2' }
    | (_, none) =>
      match s.b1.remove k with
      | (b1', some _) => { s with b1 := b1' }
      | (_, none) => { s with b2 := (s.b2.remove k).1 }

def evictLoop : Nat → State → Nat → Nat → List Nat → Nat → State × List Nat × Nat
  | 0, s, _, _, vs, freed => (s, vs, freed)
  | fuel + 1, s, cap, need, vs, freed =>
    if freed < need then
      let keyInB2 := match s.t1.tailKey with
        | some k => s.b2.contains k
        | none => false
      match replace s cap keyInB2 with
      | (s', some (k, c)) => evictLoop fuel s' cap need (vs ++ [k]) (freed + c)
      | (_, none) => (s, vs, freed)
    else (s, vs, freed)

def evict (s : State) (n cap : Nat) : State × List Nat × Nat :=
  evictLoop (s.t1.items.length + s.t2.items.length + 1) s cap n [] 0

def clear (_ : State) : State := {}

end Fv.Cache.Policy.Arc
