import Fv.Cache.Policy.Slru
/-
Model of `cache/src/policy/tinylfu.rs`. The count-min sketch (4 rows of ahash
with random seeds, width ≥ 256) is modelled collision-free: `estimate k` = number
of increments of `k`, halved at every reset. With ≤ 16 distinct keys the
probability that a collision changes a `min` over 4 rows is ≈ 2⁻³²·pairs; the
theorems do not depend on the counts at all (they hold for every sketch state).
-/
namespace Fv.Cache.Policy.TinyLfu

structure Sketch where
  counts : List (Nat × Nat) := []
  increments : Nat := 0
  threshold : Nat := 100
deriving Repr, DecidableEq

def Sketch.estimate (sk : Sketch) (k : Nat) : Nat :=
  ((sk.counts.find? (fun p => p.1 == k)).map (·.2)).getD 0

def Sketch.increment (sk : Sketch) (k : Nat) : Sketch :=
  let c := sk.estimate k
  let counts := (k, c + 1) :: sk.counts.filter (fun p => p.1 != k)
  let inc := sk.increments + 1
  if inc ≥ sk.threshold then { sk with counts := counts.map (fun p => (p.1, p.2 / 2)), increments := 0 }
  else { sk with counts := counts, increments := inc }

structure Cfg where
  windowTarget : Nat
  mainProtCap : Nat
  threshold : Nat
deriving Repr, DecidableEq

/-- `TinyLfuPolicy::new(total)` -/
def mkCfg (total : Nat) : Cfg :=
  let windowTarget := if total = 0 then 0 else max 1 ((total + 50) / 100)
  let mainCost := total - windowTarget
  let mainProt := if mainCost = 0 then 0 else mainCost - max 1 ((mainCost + 2) / 5)
  { windowTarget := windowTarget, mainProtCap := mainProt, threshold := max (total * 10) 100 }

structure State where
  window : LruList := {}
  main : Slru.State := {}
  sketch : Sketch := {}
deriving Repr, DecidableEq

def init (cfg : Cfg) : State := { sketch := { threshold := cfg.threshold } }

def access (s : State) (cfg : Cfg) (k c : Nat) : State :=
  let s := { s with sketch := s.sketch.increment k }
  if s.window.contains k then { s with window := s.window.pushFront k c }
  else { s with main := Slru.accessInternal s.main k c cfg.mainProtCap }

def admitLoop : Nat → State → Cfg → List Nat → State × List Nat
  | 0, s, _, rej => (s, rej)
  | fuel + 1, s, cfg, rej =>
    if s.window.cost > cfg.windowTarget then
      match s.window.popBack with
      | (w', some (ck, cc)) =>
        let s1 := { s with window := w' }
        let admitCand := match Slru.peekLru s1.main with
          | none => true
          | some vk => decide (s1.sketch.estimate ck ≥ s1.sketch.estimate vk)
        if admitCand then admitLoop fuel { s1 with main := Slru.admitInternal s1.main ck cc } cfg rej
        else admitLoop fuel s1 cfg (rej ++ [ck])
      | (_, none) => (s, rej)
    else (s, rej)

def admit (s : State) (cfg : Cfg) (k c : Nat) : State × Admission :=
  let s := { s with sketch := s.sketch.increment k }
  if s.main.prob.contains k || s.main.prot.contains k then
    ({ s with main := Slru.accessInternal s.main k c cfg.mainProtCap }, .admit)
  else
    let s1 := { s with window := s.window.pushFront k c }
    let (s2, rej) := admitLoop (s1.window.items.length + 1) s1 cfg []
    (s2, if rej = [] then .admit else .admitAndEvict rej)

def remove (s : State) (k : Nat) : State :=
  match s.window.remove k with
  | (w', some _) => { s with window := w' }
  | (_, none) => { s with main := Slru.remove s.main k }

def evict (s : State) (cfg : Cfg) (n : Nat) : State × List Nat × Nat :=
  if n = 0 then (s, [], 0)
  else
    let (m, vs, freed) := Slru.evictItems s.main n cfg.mainProtCap
    ({ s with main := m }, vs, freed)

def clear (s : State) : State :=
  { window := {}, main := {}, sketch := { s.sketch with counts := [], increments := 0 } }

end Fv.Cache.Policy.TinyLfu
