import Fv.Cache.Policy.LruList
/-
Model of `cache/src/policy/sieve.rs`. The code keeps `order : VecDeque<K>` (front =
newest) and `items : HashMap<K, {cost, visited}>` with identical key sets; the
model merges them into one list of `(key, cost, visited)` in `order` order.
-/
namespace Fv.Cache.Policy.Sieve

structure Ent where
  key : Nat
  cost : Nat
  visited : Bool
deriving Repr, DecidableEq

structure State where
  order : List Ent := []
  hand : Nat := 0
deriving Repr, DecidableEq

def init : State := {}

def access (s : State) (k _c : Nat) : State :=
  { s with order := s.order.map (fun e => if e.key == k then { e with visited := true } else e) }

def admit (s : State) (k c : Nat) : State × Admission :=
  ({ s with order := { key := k, cost := c, visited := false } :: s.order.filter (fun e => e.key != k) }, .admit)

def remove (s : State) (k : Nat) : State :=
  let o := s.order.filter (fun e => e.key != k)
  { order := o, hand := if s.hand ≥ o.length then 0 else s.hand }

/-- inner `while state.hand < state.order.len()` scan; returns the victim if one was found. -/
def scan : Nat → State → State × Option Ent
  | 0, s => (s, none)
  | fuel + 1, s =>
    if s.hand < s.order.length then
      let idx := s.order.length - 1 - s.hand
      match s.order[idx]? with
      | none => (s, none)
      | some e =>
        if !e.visited then ({ s with order := s.order.eraseIdx idx }, some e)
        else scan fuel { order := s.order.set idx { e with visited := false }, hand := s.hand + 1 }
    else (s, none)

def evictLoop : Nat → State → Nat → List Nat → Nat → State × List Nat × Nat
  | 0, s, _, vs, freed => (s, vs, freed)
  | fuel + 1, s, need, vs, freed =>
    if need > 0 ∧ s.order ≠ [] then
      match scan (s.order.length + 1) s with
      | (s1, some e) => evictLoop fuel s1 (need - e.cost) (vs ++ [e.key]) (freed + e.cost)
      | (s1, none) =>
        let s2 := { s1 with hand := 0 }
        -- `!found_victim && cost_to_free > 0 && !order.is_empty()` : evict the oldest
        match s2.order.getLast? with
        | some e => evictLoop fuel { order := s2.order.dropLast, hand := 0 } (need - e.cost) (vs ++ [e.key]) (freed + e.cost)
        | none => (s2, vs, freed)
    else (s, vs, freed)

def evict (s : State) (n : Nat) : State × List Nat × Nat :=
  evictLoop (s.order.length + 1) s n [] 0

def clear (_ : State) : State := {}

end Fv.Cache.Policy.Sieve
