/-
Small-step model, at CRITICAL-SECTION granularity, of the sync handle paths of `fibre_cache`:
`Cache::{get,fetch,peek,insert,remove/invalidate,compute,try_compute,entry().or_insert,clear,
run_maintenance}` (cache/src/handles/sync.rs, entry_api.rs), `perform_shard_maintenance`,
`cleanup_ttl_for_shard`, `cleanup_capacity_for_shard` (cache/src/task/janitor.rs) and the
`current_cost` counter (metrics.rs).

One step = what the code does under ONE acquisition of a shard's map lock, or ONE atomic
add/sub on `current_cost`, or ONE push/pop on a shard's write-event buffer, or ONE policy call
(policy mutex), or ONE notification `try_send`, or the acquisition/release of a shard's
`maintenance_lock`. Policies are oracles (admission decision, victims and released cost are
label parameters). Threads are `Nat`s below `Cfg.nThreads`; the environment gives an idle
thread any API call (`call`), so every program is covered.

The model follows the code as written: `insert` publishes in the map first and adjusts
`current_cost` later, outside the lock (old cost subtracted before the new cost is added);
`remove` subtracts after the lock; `clear` subtracts the cost of what it removed while holding every
shard lock; the capacity pass subtracts what the POLICY reported, not what it removed.
Ghost state: linearization history `hist`, removal log, key domain `dom`, `drift`/`dirty`.
-/
namespace Fv.Cache.Conc

structure Entry where
  val : Nat
  cost : Nat
  exp : Nat := 0      -- TTL deadline (virtual nanoseconds); 0 = none
  la : Nat := 0       -- last-accessed time (meaningful when a TTI is configured)
deriving Repr, DecidableEq

inductive Reason where
  | invalidated | capacity | expired
deriving Repr, DecidableEq

structure Note where
  rid : Nat
  key : Nat
  val : Nat
  reason : Reason
deriving Repr, DecidableEq

inductive Op where
  | get (k : Nat)                  -- get / fetch: one read-lock section, refreshes the idle time on a hit
  | peek (k : Nat)                 -- peek: one read-lock section, no refresh
  | insert (k v c : Nat) (ttl : Option Nat)   -- insert / insert_with_ttl (per-insert TTL)
  | remove (k : Nat)               -- remove / invalidate
  | compute (k d : Nat)            -- compute(|v| *v += d): loops on Fail
  | tryCompute (k d : Nat)
  | orInsert (k v c : Nat)         -- entry(k).or_insert(v, c)
  | clear
  | maint (sh limit : Nat) (full : Bool)  -- one shard of run_maintenance / janitor cleanup
deriving Repr, DecidableEq

/-- History events. `inv`/`ret` bracket a call; the others are linearization points, appended
by the critical section in which the operation takes effect on the key's register. -/
inductive HEv where
  | inv (t : Nat) (op : Op)
  | ret (t : Nat) (r : Option Nat)
  | rd (t k : Nat) (r : Option Nat)
  | rdExp (t k : Nat)                -- read found an expired binding and returned none
  | wr (t k v : Nat)
  | rm (t k : Nat) (r : Option Nat)
  | upd (t k old d : Nat)
  | nf (t k : Nat)
  | oiIns (t k v : Nat)
  | oiOcc (t k v : Nat)
  | forget (t k v : Nat)
  | clear (t : Nat)
deriving Repr, DecidableEq

structure MCtx where
  sh : Nat
  full : Bool
deriving Repr, DecidableEq

inductive Decision where
  | admit | reject | evict (victims : List Nat)
deriving Repr, DecidableEq

inductive PC where
  | idle
  | done (r : Option Nat)
  | rd (k : Nat) (peek : Bool)
  | ins (k v c exp la : Nat)          -- entry built (clock read at the call); about to take the shard write lock
  | insSub (k c old : Nat)            -- overwrote: about to fetch_sub(old cost)
  | insEv (k c : Nat)                 -- about to push Write(k, c) on the shard's event buffer
  | insAdd (k c : Nat)                -- about to fetch_add(c)
  | insMaint (k : Nat)                -- about to roll the shard rng / try_lock maintenance_lock
  | rm (k : Nat)
  | rmPol (k v c rid : Nat)           -- removed under the lock; about to policy.on_remove
  | rmSub (k v c rid : Nat)           -- about to fetch_sub(c)
  | rmNote (k v rid : Nat)            -- about to try_send the notification
  | cmp (k d : Nat) (loop : Bool)
  | oi (k v c : Nat)
  | oiEv (k v c : Nat)
  | oiAdd (k v c : Nat)
  | clr (acq pend : List Nat)         -- `clear`: shard write locks held so far / attempted and pending (async `join_all`)
  | mLock (sh limit : Nat) (full : Bool)
  | mDrain (m : MCtx) (left : Nat) (acc : List (Nat × Nat))
  | mAdmit (m : MCtx) (ws : List (Nat × Nat))
  | mVictim (m : MCtx) (ws : List (Nat × Nat)) (vs : List Nat) (tot : Nat) (notes : List Note)
  | mSub (m : MCtx) (ws : List (Nat × Nat)) (tot : Nat) (notes : List Note)
  | mNote (m : MCtx) (ws : List (Nat × Nat)) (notes : List Note)
  | mTtl (m : MCtx)
  | mTtlMap (m : MCtx) (expired : List Nat)
  | mTti (m : MCtx)                   -- about to run cleanup_tti_for_shard
  | mCapLoad (m : MCtx)
  | mCapEvict (m : MCtx) (toFree : Nat)
  | mCapMap (m : MCtx) (victims : List Nat) (released : Nat)
  | mCapSub (m : MCtx) (released : Nat)
  | mUnlock (m : MCtx)
deriving Repr, DecidableEq

structure Cfg where
  nThreads : Nat
  nShards : Nat
  capacity : Nat
  evCap : Nat := 512        -- ACCESS_EVENT_CHANNEL_BUFFER
  coopLimit : Nat := 16     -- COOPERATIVE_MAINTENANCE_DRAIN_LIMIT
  ttl : Nat := 0            -- global time_to_live in virtual ns; 0 = none
  tti : Nat := 0            -- global time_to_idle; 0 = none
  track : Bool := true      -- some policy uses access events (reads go through the access batcher)
deriving Repr, DecidableEq

structure State where
  map : Nat → Option Entry
  now : Nat                         -- the (virtual) clock
  cur : Int                         -- current_cost, unbounded; the u64 observed is `obs`
  events : Nat → List (Nat × Nat)   -- per shard write-event buffer
  mlock : Nat → Option Nat          -- per shard maintenance_lock holder
  sheld : Nat → Option Nat          -- per shard: the `clear` that holds the map's write lock across its other acquisitions
  pc : Nat → PC
  amode : Nat → Bool                -- the thread's current call goes through the async handle (`AsyncCache`)
  notifs : List Note                -- notifications accepted by the channel
  nextRid : Nat
  removed : List Note               -- ghost: every removal by remove / eviction / expiry
  hist : List HEv                   -- ghost
  dom : List Nat                    -- ghost: keys that were ever resident
  drift : Int                       -- ghost: see `Fv.Lemmas.CacheConcAcct`
  dirty : Bool                      -- ghost: some step changed `drift`

def init : State :=
  { map := fun _ => none, now := 0, cur := 0, events := fun _ => [], mlock := fun _ => none, sheld := fun _ => none,
    pc := fun _ => .idle, amode := fun _ => false, notifs := [], nextRid := 0, removed := [], hist := [], dom := [],
    drift := 0, dirty := false }

def upd {α} (f : Nat → α) (i : Nat) (a : α) : Nat → α := fun j => if j = i then a else f j

def two64 : Int := 18446744073709551616

/-- the `u64` a relaxed load of `current_cost` returns -/
def obs (s : State) : Nat := (s.cur % two64).toNat

def shardOf (c : Cfg) (k : Nat) : Nat := k % c.nShards

def addDom (d : List Nat) (k : Nat) : List Nat := if k ∈ d then d else k :: d

def pushEv (cap : Nat) (q : List (Nat × Nat)) (e : Nat × Nat) : List (Nat × Nat) :=
  if q.length < cap then q ++ [e] else q

/-- net amount the thread is still going to add to `current_cost` for map changes it has
already made -/
def adj : PC → Int
  | .insSub _ c old => (c : Int) - old
  | .insEv _ c => c
  | .insAdd _ c => c
  | .rmPol _ _ c _ => - (c : Int)
  | .rmSub _ _ c _ => - (c : Int)
  | .oiEv _ _ c => c
  | .oiAdd _ _ c => c
  | .mVictim _ _ _ tot _ => - (tot : Int)
  | .mSub _ _ tot _ => - (tot : Int)
  | .mCapSub _ r => - (r : Int)
  | _ => 0

def sumF (l : List Nat) (f : Nat → Int) : Int := (l.map f).foldr (· + ·) 0

def costAt (e : Option Entry) : Int := match e with | some e => e.cost | none => 0

def pendingAdj (c : Cfg) (s : State) : Int := sumF (List.range c.nThreads) (fun t => adj (s.pc t))
def residentCost (s : State) : Int := sumF s.dom (fun k => costAt (s.map k))

/-- remove, in order, every key of `ks` that belongs to shard `sh` and is resident -/
def removeKeys (nsh sh : Nat) (m : Nat → Option Entry) : List Nat → (Nat → Option Entry) × List (Nat × Entry)
  | [] => (m, [])
  | k :: ks =>
    match (if k % nsh = sh then m k else none) with
    | some e => let p := removeKeys nsh sh (upd m k none) ks; (p.1, (k, e) :: p.2)
    | none => removeKeys nsh sh m ks

def mkNotes (rid : Nat) (why : Reason) : List (Nat × Entry) → List Note
  | [] => []
  | (k, e) :: r => ⟨rid, k, e.val, why⟩ :: mkNotes (rid + 1) why r

def removedCost : List (Nat × Entry) → Nat
  | [] => 0
  | (_, e) :: r => e.cost + removedCost r

def forgetEvs (t : Nat) (r : List (Nat × Entry)) : List HEv := r.map (fun p => .forget t p.1 p.2.val)

def afterWrites (m : MCtx) : PC := if m.full then .mTtl m else .mUnlock m
def nextAdmit (m : MCtx) (ws : List (Nat × Nat)) : PC :=
  match ws with | [] => afterWrites m | _ :: _ => .mAdmit m ws
def startDrain (m : MCtx) (limit : Nat) : PC := if limit = 0 then nextAdmit m [] else .mDrain m limit []

/-- `is_expired`: TTL deadline reached, or idle for the time-to-idle -/
def expired (c : Cfg) (now : Nat) (e : Entry) : Bool :=
  (decide (0 < e.exp) && decide (e.exp ≤ now)) || (decide (0 < c.tti) && decide (e.la + c.tti ≤ now))

/-- deadline of an entry created at time `now` (`CacheEntry::new` / `new_with_custom_expiry`) -/
def deadline (c : Cfg) (now : Nat) (ttl : Option Nat) : Nat :=
  match ttl with
  | some d => now + d
  | none => if c.ttl = 0 then 0 else now + c.ttl

/-- first program counter of a call; `insert` builds its entry (reads the clock) before any lock -/
def startPC (c : Cfg) (now : Nat) : Op → PC
  | .get k => .rd k false
  | .peek k => .rd k true
  | .insert k v co ttl => .ins k v co (deadline c now ttl) (if c.tti = 0 then 0 else now)
  | .remove k => .rm k
  | .compute k d => .cmp k d true
  | .tryCompute k d => .cmp k d false
  | .orInsert k v c => .oi k v c
  | .clear => .clr [] []
  | .maint sh limit full => .mLock sh limit full

inductive Label where
  | call (op : Op) (async : Bool)   -- environment: the thread starts `op` on the sync / async handle
  | advance (d : Nat)              -- environment: the clock advances
  | read
  | insMap | insSub | insEv | insAdd | coopSkip | coopLock
  | rmMap | rmPol | rmSub | rmNote (sent : Bool)
  | compute (fail : Bool)
  | oiMap | oiEv | oiAdd
  | clrAcq (i : Nat)               -- `clear` reaches the write lock of shard i (first poll of `write_async` when async)
  | clrGet (i : Nat)               -- async `clear`: a pending `write_async` of shard i is re-polled and succeeds
  | clear
  | mLock | recv | admit (d : Decision) | victim | evSub | evNote (sent : Bool)
  | ttlAdvance (expired : List Nat) | ttlMap (sent : Bool) | ttiMap (victims : List Nat) (sent : Bool)
  | capLoad | capEvict (victims : List Nat) (released : Nat) | capMap (sent : Bool) | capSub
  | unlock
deriving Repr, DecidableEq

def stepCall (c : Cfg) (s : State) (t : Nat) (op : Op) (a : Bool) : Option State :=
  if t < c.nThreads then
    match s.pc t with
    | .idle => some { s with pc := upd s.pc t (startPC c s.now op), amode := upd s.amode t a, hist := s.hist ++ [.inv t op] }
    | .done _ => some { s with pc := upd s.pc t (startPC c s.now op), amode := upd s.amode t a, hist := s.hist ++ [.inv t op] }
    | _ => none
  else none

/-- get / fetch / peek: ONE read-lock section; the clock is read inside it (`is_expired`), and a hit
of get / fetch refreshes the idle time (`update_last_accessed`, an atomic store under the read lock). -/
def stepRead (c : Cfg) (s : State) (t : Nat) : Option State :=
  match s.pc t with
  | .rd k peek =>
    match s.map k with
    | none => some { s with pc := upd s.pc t (.done none), hist := s.hist ++ [.rd t k none, .ret t none] }
    | some e =>
      if expired c s.now e then
        some { s with pc := upd s.pc t (.done none), hist := s.hist ++ [.rdExp t k, .ret t none] }
      else
        some { s with map := upd s.map k (some (if peek || c.tti = 0 then e else { e with la := s.now })),
                      pc := upd s.pc t (.done (some e.val)),
                      hist := s.hist ++ [.rd t k (some e.val), .ret t (some e.val)] }
  | _ => none

def stepInsMap (s : State) (t : Nat) : Option State :=
  match s.pc t with
  | .ins k v c ex la =>
    some { s with map := upd s.map k (some ⟨v, c, ex, la⟩), dom := addDom s.dom k,
                  hist := s.hist ++ [.wr t k v],
                  pc := upd s.pc t (match s.map k with | some e => .insSub k c e.cost | none => .insEv k c) }
  | _ => none

def stepInsSub (s : State) (t : Nat) : Option State :=
  match s.pc t with
  | .insSub k c old => some { s with cur := s.cur - old, pc := upd s.pc t (.insEv k c) }
  | _ => none

def stepInsEv (c : Cfg) (s : State) (t : Nat) : Option State :=
  match s.pc t with
  | .insEv k co =>
    some { s with events := upd s.events (shardOf c k) (pushEv c.evCap (s.events (shardOf c k)) (k, co)),
                  pc := upd s.pc t (.insAdd k co) }
  | _ => none

def stepInsAdd (s : State) (t : Nat) : Option State :=
  match s.pc t with
  | .insAdd k c => some { s with cur := s.cur + c, pc := upd s.pc t (.insMaint k) }
  | _ => none

def stepCoopSkip (s : State) (t : Nat) : Option State :=
  match s.pc t with
  | .insMaint _ => some { s with pc := upd s.pc t (.done none), hist := s.hist ++ [.ret t none] }
  | _ => none

/-- the sync `insert` runs cooperative maintenance inline; the async `insert` never does (it only
signals the janitor thread, whose pass is a `maint` call of that thread) -/
def stepCoopLock (c : Cfg) (s : State) (t : Nat) : Option State :=
  match s.pc t with
  | .insMaint k =>
    if s.amode t then none else
    match s.mlock (shardOf c k) with
    | none => some { s with mlock := upd s.mlock (shardOf c k) (some t),
                            pc := upd s.pc t (startDrain ⟨shardOf c k, false⟩ c.coopLimit) }
    | some _ => none
  | _ => none

def stepRmMap (s : State) (t : Nat) : Option State :=
  match s.pc t with
  | .rm k =>
    match s.map k with
    | none => some { s with pc := upd s.pc t (.done none), hist := s.hist ++ [.rm t k none, .ret t none] }
    | some e =>
      some { s with map := upd s.map k none, nextRid := s.nextRid + 1,
                    removed := s.removed ++ [⟨s.nextRid, k, e.val, .invalidated⟩],
                    hist := s.hist ++ [.rm t k (some e.val)],
                    pc := upd s.pc t (.rmPol k e.val e.cost s.nextRid) }
  | _ => none

def stepRmPol (s : State) (t : Nat) : Option State :=
  match s.pc t with
  | .rmPol k v c rid => some { s with pc := upd s.pc t (.rmSub k v c rid) }
  | _ => none

def stepRmSub (s : State) (t : Nat) : Option State :=
  match s.pc t with
  | .rmSub k v c rid => some { s with cur := s.cur - c, pc := upd s.pc t (.rmNote k v rid) }
  | _ => none

def stepRmNote (s : State) (t : Nat) (sent : Bool) : Option State :=
  match s.pc t with
  | .rmNote k v rid =>
    some { s with notifs := if sent then s.notifs ++ [⟨rid, k, v, .invalidated⟩] else s.notifs,
                  pc := upd s.pc t (.done (some v)), hist := s.hist ++ [.ret t (some v)] }
  | _ => none

/-- `try_compute_val`: one write-lock section. `fail` = `Arc::get_mut` refused (a reader holds
the value): no effect; `compute` retries, `try_compute` returns `Some(false)`. -/
def stepCompute (s : State) (t : Nat) (fail : Bool) : Option State :=
  match s.pc t with
  | .cmp k d loop =>
    match s.map k with
    | none => some { s with pc := upd s.pc t (.done none), hist := s.hist ++ [.nf t k, .ret t none] }
    | some e =>
      if fail then
        if loop then some s
        else some { s with pc := upd s.pc t (.done (some 0)), hist := s.hist ++ [.ret t (some 0)] }
      else
        some { s with map := upd s.map k (some { e with val := e.val + d }),
                      pc := upd s.pc t (.done (some 1)),
                      hist := s.hist ++ [.upd t k e.val d, .ret t (some 1)] }
  | _ => none

def stepOiMap (c : Cfg) (s : State) (t : Nat) : Option State :=
  match s.pc t with
  | .oi k v co =>
    match s.map k with
    | some e => some { s with pc := upd s.pc t (.done (some e.val)),
                              hist := s.hist ++ [.oiOcc t k e.val, .ret t (some e.val)] }
    | none => some { s with map := upd s.map k (some ⟨v, co, deadline c s.now none, if c.tti = 0 then 0 else s.now⟩),
                            dom := addDom s.dom k,
                            hist := s.hist ++ [.oiIns t k v], pc := upd s.pc t (.oiEv k v co) }
  | _ => none

def stepOiEv (c : Cfg) (s : State) (t : Nat) : Option State :=
  match s.pc t with
  | .oiEv k v co =>
    some { s with events := upd s.events (shardOf c k) (pushEv c.evCap (s.events (shardOf c k)) (k, co)),
                  pc := upd s.pc t (.oiAdd k v co) }
  | _ => none

def stepOiAdd (s : State) (t : Nat) : Option State :=
  match s.pc t with
  | .oiAdd _ v c => some { s with cur := s.cur + c, pc := upd s.pc t (.done (some v)),
                                  hist := s.hist ++ [.ret t (some v)] }
  | _ => none

/-- `clear` takes the write lock of every shard and keeps them all until it returns.
Sync (`iter_shards().map(write).collect()`): in index order, blocking — the step is disabled while the
shard is held. Async (`join_all(write_async)`): the first poll tries the shards in index order, but a
shard that is held is SKIPPED (its future stays pending) and the next one is still tried. -/
def stepClrAcq (c : Cfg) (s : State) (t : Nat) (i : Nat) : Option State :=
  match s.pc t with
  | .clr acq pend =>
    if i < c.nShards && i == acq.length + pend.length then
      match s.sheld i with
      | none => some { s with sheld := upd s.sheld i (some t), pc := upd s.pc t (.clr (acq ++ [i]) pend) }
      | some _ => if s.amode t then some { s with pc := upd s.pc t (.clr acq (pend ++ [i])) } else none
    else none
  | _ => none

/-- async `clear` re-polled after a wake-up: a pending shard that is free now is acquired -/
def stepClrGet (s : State) (t : Nat) (i : Nat) : Option State :=
  match s.pc t with
  | .clr acq pend =>
    if s.amode t && pend.contains i then
      match s.sheld i with
      | none => some { s with sheld := upd s.sheld i (some t), pc := upd s.pc t (.clr (acq ++ [i]) (pend.erase i)) }
      | some _ => none
    else none
  | _ => none

/-- `clear` with every shard write lock held: maps emptied and the cost of exactly the entries removed
subtracted from `current_cost` (one `fetch_sub` while the locks are still held; since /repo commit
7e5c084 — before it, `clear` stored 0 and lost the adjustments in-flight operations still owed); then
all the locks are released. The event buffers are NOT emptied. -/
def stepClear (c : Cfg) (s : State) (t : Nat) : Option State :=
  match s.pc t with
  | .clr acq pend =>
    if acq.length == c.nShards && pend.isEmpty then
      some { s with map := fun _ => none, cur := s.cur - residentCost s,
                    sheld := fun i => if s.sheld i = some t then none else s.sheld i,
                    pc := upd s.pc t (.done none), hist := s.hist ++ [.clear t, .ret t none] }
    else none
  | _ => none

def stepMLock (s : State) (t : Nat) : Option State :=
  match s.pc t with
  | .mLock sh limit full =>
    match s.mlock sh with
    | none => some { s with mlock := upd s.mlock sh (some t), pc := upd s.pc t (startDrain ⟨sh, full⟩ limit) }
    | some _ => none
  | _ => none

def stepRecv (s : State) (t : Nat) : Option State :=
  match s.pc t with
  | .mDrain m left acc =>
    match s.events m.sh with
    | [] => some { s with pc := upd s.pc t (nextAdmit m acc) }
    | e :: rest =>
      some { s with events := upd s.events m.sh rest,
                    pc := upd s.pc t (if left ≤ 1 then nextAdmit m (acc ++ [e]) else .mDrain m (left - 1) (acc ++ [e])) }
  | _ => none

def stepAdmit (s : State) (t : Nat) (d : Decision) : Option State :=
  match s.pc t with
  | .mAdmit m (_ :: ws) =>
    match d with
    | .admit => some { s with pc := upd s.pc t (nextAdmit m ws) }
    | .reject => some { s with pc := upd s.pc t (nextAdmit m ws) }
    | .evict [] => some { s with pc := upd s.pc t (.mSub m ws 0 []) }
    | .evict (v :: vs) => some { s with pc := upd s.pc t (.mVictim m ws (v :: vs) 0 []) }
  | _ => none

def afterVictim (m : MCtx) (ws : List (Nat × Nat)) (vs : List Nat) (tot : Nat) (notes : List Note) : PC :=
  match vs with | [] => .mSub m ws tot notes | _ :: _ => .mVictim m ws vs tot notes

def stepVictim (s : State) (t : Nat) : Option State :=
  match s.pc t with
  | .mVictim m ws (vk :: vs) tot notes =>
    match s.map vk with
    | some e =>
      some { s with map := upd s.map vk none, nextRid := s.nextRid + 1,
                    removed := s.removed ++ [⟨s.nextRid, vk, e.val, .capacity⟩],
                    hist := s.hist ++ [.forget t vk e.val],
                    pc := upd s.pc t (afterVictim m ws vs (tot + e.cost) (notes ++ [⟨s.nextRid, vk, e.val, .capacity⟩])) }
    | none => some { s with pc := upd s.pc t (afterVictim m ws vs tot notes) }
  | _ => none

def afterSub (m : MCtx) (ws : List (Nat × Nat)) (notes : List Note) : PC :=
  match notes with | [] => nextAdmit m ws | _ :: _ => .mNote m ws notes

def stepEvSub (s : State) (t : Nat) : Option State :=
  match s.pc t with
  | .mSub m ws tot notes => some { s with cur := s.cur - tot, pc := upd s.pc t (afterSub m ws notes) }
  | _ => none

def stepEvNote (s : State) (t : Nat) (sent : Bool) : Option State :=
  match s.pc t with
  | .mNote m ws (n :: ns) =>
    some { s with notifs := if sent then s.notifs ++ [n] else s.notifs, pc := upd s.pc t (afterSub m ws ns) }
  | _ => none

def stepTtlAdvance (s : State) (t : Nat) (expired : List Nat) : Option State :=
  match s.pc t with
  | .mTtl m =>
    match expired with
    | [] => some { s with pc := upd s.pc t (.mTti m) }
    | _ :: _ => some { s with pc := upd s.pc t (.mTtlMap m expired) }
  | _ => none

/-- `cleanup_ttl_for_shard`'s `retain`: removal, cost subtraction and notification all inside
the one write-lock section. -/
def stepTtlMap (c : Cfg) (s : State) (t : Nat) (sent : Bool) : Option State :=
  match s.pc t with
  | .mTtlMap m expired =>
    let p := removeKeys c.nShards m.sh s.map expired
    let notes := mkNotes s.nextRid .expired p.2
    some { s with map := p.1, cur := s.cur - removedCost p.2, nextRid := s.nextRid + p.2.length,
                  removed := s.removed ++ notes, notifs := if sent then s.notifs ++ notes else s.notifs,
                  hist := s.hist ++ forgetEvs t p.2, pc := upd s.pc t (.mTti m) }
  | _ => none

/-- the keys of `vs` whose resident entry is expired now -/
def expiredOf (c : Cfg) (s : State) (vs : List Nat) : List Nat :=
  vs.filter (fun k => match s.map k with | some e => expired c s.now e | none => false)

/-- `cleanup_tti_for_shard`: nothing without a TTI; else one write-lock section that samples entries,
and removes (subtracting cost and notifying inside the section) those that are expired. `victims` is
the sample in iteration order (oracle). -/
def stepTtiMap (c : Cfg) (s : State) (t : Nat) (victims : List Nat) (sent : Bool) : Option State :=
  match s.pc t with
  | .mTti m =>
    if c.tti = 0 then some { s with pc := upd s.pc t (.mCapLoad m) }
    else
      let p := removeKeys c.nShards m.sh s.map (expiredOf c s victims)
      let notes := mkNotes s.nextRid .expired p.2
      some { s with map := p.1, cur := s.cur - removedCost p.2, nextRid := s.nextRid + p.2.length,
                    removed := s.removed ++ notes, notifs := if sent then s.notifs ++ notes else s.notifs,
                    hist := s.hist ++ forgetEvs t p.2, pc := upd s.pc t (.mCapLoad m) }
  | _ => none

def stepCapLoad (c : Cfg) (s : State) (t : Nat) : Option State :=
  match s.pc t with
  | .mCapLoad m =>
    some { s with pc := upd s.pc t (if obs s ≤ c.capacity then .mUnlock m else .mCapEvict m (obs s - c.capacity)) }
  | _ => none

def stepCapEvict (s : State) (t : Nat) (victims : List Nat) (released : Nat) : Option State :=
  match s.pc t with
  | .mCapEvict m _ =>
    match victims with
    | [] => some { s with pc := upd s.pc t (.mUnlock m) }
    | _ :: _ => some { s with pc := upd s.pc t (.mCapMap m victims released) }
  | _ => none

/-- the capacity pass's write-lock section: victims that are still resident are removed and
notified; the thread then subtracts `released` (the POLICY's figure) whatever was removed. -/
def stepCapMap (c : Cfg) (s : State) (t : Nat) (sent : Bool) : Option State :=
  match s.pc t with
  | .mCapMap m victims released =>
    let p := removeKeys c.nShards m.sh s.map victims
    let notes := mkNotes s.nextRid .capacity p.2
    some { s with map := p.1, nextRid := s.nextRid + p.2.length,
                  removed := s.removed ++ notes, notifs := if sent then s.notifs ++ notes else s.notifs,
                  hist := s.hist ++ forgetEvs t p.2,
                  drift := s.drift + removedCost p.2 - released,
                  dirty := s.dirty || decide (removedCost p.2 ≠ released),
                  pc := upd s.pc t (.mCapSub m released) }
  | _ => none

def stepCapSub (s : State) (t : Nat) : Option State :=
  match s.pc t with
  | .mCapSub m released => some { s with cur := s.cur - released, pc := upd s.pc t (.mUnlock m) }
  | _ => none

def stepUnlock (s : State) (t : Nat) : Option State :=
  match s.pc t with
  | .mUnlock m => some { s with mlock := upd s.mlock m.sh none, pc := upd s.pc t (.done none),
                                hist := s.hist ++ [.ret t none] }
  | _ => none

def step0 (c : Cfg) (s : State) (t : Nat) : Label → Option State
  | .call op a => stepCall c s t op a
  | .advance d => some { s with now := s.now + d }
  | .read => stepRead c s t
  | .insMap => stepInsMap s t
  | .insSub => stepInsSub s t
  | .insEv => stepInsEv c s t
  | .insAdd => stepInsAdd s t
  | .coopSkip => stepCoopSkip s t
  | .coopLock => stepCoopLock c s t
  | .rmMap => stepRmMap s t
  | .rmPol => stepRmPol s t
  | .rmSub => stepRmSub s t
  | .rmNote sent => stepRmNote s t sent
  | .compute fail => stepCompute s t fail
  | .oiMap => stepOiMap c s t
  | .oiEv => stepOiEv c s t
  | .oiAdd => stepOiAdd s t
  | .clrAcq i => stepClrAcq c s t i
  | .clrGet i => stepClrGet s t i
  | .clear => stepClear c s t
  | .mLock => stepMLock s t
  | .recv => stepRecv s t
  | .admit d => stepAdmit s t d
  | .victim => stepVictim s t
  | .evSub => stepEvSub s t
  | .evNote sent => stepEvNote s t sent
  | .ttlAdvance e => stepTtlAdvance s t e
  | .ttlMap sent => stepTtlMap c s t sent
  | .ttiMap v sent => stepTtiMap c s t v sent
  | .capLoad => stepCapLoad c s t
  | .capEvict v r => stepCapEvict s t v r
  | .capMap sent => stepCapMap c s t sent
  | .capSub => stepCapSub s t
  | .unlock => stepUnlock s t

/-! ### Footprint: the lock acquisitions and clock reads each step performs, in program order

This is the "one step = one critical section" table the tie checks: the real code, instrumented at
every `HybridRwLock` / `HybridMutex` acquisition and at every clock read, must perform during a step
EXACTLY these events in this order. For a `call` the events are the lock-free prefix of the operation
(building the entry), observed before the thread's next acquisition. -/

/-- how a mutex-like lock is taken: blocking `lock`, `try_lock`, or the async `lock_async` -/
inductive MKind where
  | lock | tryl | alock
deriving Repr, DecidableEq

inductive Acc where
  | shard (i : Nat) (w : Bool) (a : Bool)  -- shard i's map lock: read (`w = false`) / write; blocking or `*_async` (`a`)
  | maint (i : Nat) (k : MKind)            -- maintenance_lock of shard i
  | batch (k : MKind)                      -- one stripe mutex of the read-access batcher
  | clock                                  -- one read of the cache clock
deriving Repr, DecidableEq

def residentIn (c : Cfg) (s : State) (sh : Nat) : Nat :=
  (s.dom.filter (fun k => decide (k % c.nShards = sh) && (s.map k).isSome)).length

def footprint (c : Cfg) (s : State) (t : Nat) : Label → List Acc
  | .call (.insert _ _ _ none) _ => [.clock]
  | .call (.insert _ _ _ (some _)) _ => if c.tti = 0 then [.clock] else [.clock, .clock]
  | .read =>
    match s.pc t with
    | .rd k peek =>
      .shard (shardOf c k) false (s.amode t) ::
        (match s.map k with
         | none => []
         | some e =>
           .clock :: (if expired c s.now e || peek then []
                      else (if c.tti = 0 then [] else [.clock]) ++
                           (if c.track then [.batch (if s.amode t then .tryl else .lock)] else [])))
    | _ => []
  | .insMap => (match s.pc t with | .ins k _ _ _ _ => [.shard (shardOf c k) true (s.amode t)] | _ => [])
  | .coopLock => (match s.pc t with | .insMaint k => [.maint (shardOf c k) .tryl] | _ => [])
  | .rmMap => (match s.pc t with | .rm k => [.shard (shardOf c k) true (s.amode t)] | _ => [])
  | .compute _ => (match s.pc t with | .cmp k _ _ => [.shard (shardOf c k) true (s.amode t)] | _ => [])
  | .oiMap =>
    (match s.pc t with
     | .oi k _ _ => .shard (shardOf c k) true (s.amode t) :: (match s.map k with | none => [.clock] | some _ => [])
     | _ => [])
  | .clrAcq i => [.shard i true (s.amode t)]
  | .mLock => (match s.pc t with | .mLock sh _ _ => [.maint sh (if s.amode t then .alock else .lock)] | _ => [])
  | .recv =>
    (match s.pc t with
     | .mDrain m left _ =>
       -- the step that ends the drain loop also drains both read-batcher instances (2 × 16 stripes)
       if (s.events m.sh).isEmpty || left ≤ 1 then List.replicate 32 (.batch .lock) else []
     | _ => [])
  -- inside a maintenance pass the shard maps are always taken with the blocking `write()`
  | .victim => (match s.pc t with | .mVictim _ _ (vk :: _) _ _ => [.shard (shardOf c vk) true false] | _ => [])
  | .ttlMap _ => (match s.pc t with | .mTtlMap m _ => [.shard m.sh true false] | _ => [])
  | .ttiMap _ _ =>
    (match s.pc t with
     | .mTti m => if c.tti = 0 then [] else .shard m.sh true false :: List.replicate (min 10 (residentIn c s m.sh)) .clock
     | _ => [])
  | .capMap _ => (match s.pc t with | .mCapMap m _ _ => [.shard m.sh true false] | _ => [])
  | _ => []

/-- the sync `insert`'s cooperative-maintenance step may also have tried (and failed) the maintenance lock -/
def footprintAlt (c : Cfg) (s : State) (t : Nat) : Label → Option (List Acc)
  | .coopSkip => (match s.pc t with | .insMaint k => (if s.amode t then none else some [.maint (shardOf c k) .tryl]) | _ => none)
  | _ => none

/-- a step is disabled while another thread's `clear` holds a shard lock the step acquires (the sync
caller blocks, the async caller's future stays pending); `clear`'s own acquisitions have their own rule -/
def blocked (c : Cfg) (s : State) (t : Nat) (l : Label) : Bool :=
  match l with
  | .clrAcq _ => false
  | _ => (footprint c s t l).any (fun a => match a with | .shard i _ _ => (s.sheld i).isSome | _ => false)

def step (c : Cfg) (s : State) (t : Nat) (l : Label) : Option State :=
  if blocked c s t l then none else step0 c s t l

def run (c : Cfg) (s : State) : List (Nat × Label) → Option State
  | [] => some s
  | (t, l) :: rest => (step c s t l).bind (fun s' => run c s' rest)

inductive Reach (c : Cfg) : State → Prop where
  | init : Reach c init
  | step {s s' t l} : Reach c s → step c s t l = some s' → Reach c s'

def isRest : PC → Bool
  | .idle => true
  | .done _ => true
  | _ => false

/-- no thread is inside an API call (maintenance passes included) -/
def Quiescent (c : Cfg) (s : State) : Prop := ∀ t, t < c.nThreads → isRest (s.pc t) = true

instance (c : Cfg) (s : State) : Decidable (Quiescent c s) := by unfold Quiescent; exact inferInstance


/-! ### The sequential specification: a per-key register that may forget -/

abbrev Reg := Nat → Option Nat

def applyEv (r : Reg) : HEv → Reg
  | .wr _ k v => upd r k (some v)
  | .rm _ k _ => upd r k none
  | .upd _ k old d => upd r k (some (old + d))
  | .oiIns _ k v => upd r k (some v)
  | .forget _ k _ => upd r k none
  | .clear _ => fun _ => none
  | _ => r

def evOk (r : Reg) : HEv → Bool
  | .rd _ k x => r k == x
  | .rdExp _ k => (r k).isSome
  | .rm _ k x => r k == x
  | .upd _ k old _ => r k == some old
  | .nf _ k => r k == none
  | .oiIns _ k _ => r k == none
  | .oiOcc _ k v => r k == some v
  | .forget _ k v => r k == some v
  | _ => true

def regOf (r : Reg) (h : List HEv) : Reg := h.foldl applyEv r

def histOk (r : Reg) : List HEv → Bool
  | [] => true
  | e :: es => evOk r e && histOk (applyEv r e) es

def vals (m : Nat → Option Entry) : Reg := fun k => (m k).map (·.val)

def emptyReg : Reg := fun _ => none

end Fv.Cache.Conc
