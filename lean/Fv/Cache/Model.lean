import Fv.Cache.Snapshot
/-
`stepOp`: one public API call of `Cache` / `AsyncCache` run to completion with nobody else
running (the sequential big-step model "Q").  Deterministic given the declared oracles.
-/
namespace Fv.Cache
open Fv.Cache.Policy (Admission)
variable {P : Type}

inductive Op where
  /-- `get` / `fetch` on either handle -/
  | get (k : Nat)
  | peek (k : Nat)
  /-- `matches!(cache.entry(k), Entry::Occupied(_))` — the harness's residency probe -/
  | occupied (k : Nat)
  | insert (async : Bool) (k vid cost : Nat)
  | insertTtl (async : Bool) (k vid cost ttl : Nat)
  | remove (k : Nat)
  | invalidate (k : Nat)
  | clear
  | advance (d : Nat)
  | runMaintenance
  /-- `metrics()` (flushes first when `maintenance_on_introspection`) -/
  | metrics
  /-- `entry(k).or_insert(vid, cost)` / `or_insert_with` -/
  | orInsert (k vid cost : Nat)
  /-- `try_compute_val(k, |v| { let old = *v; *v = vid; old })` (`compute*` loop on it) -/
  | compute (k vid : Nat)
  /-- `fetch_with(k)` with a loader scripted to return `(vid, cost)` if it is invoked -/
  | fetchWith (k vid cost : Nat)
  | multiget (async : Bool) (ks : List Nat)
  | multiInsert (items : List (Nat × Nat × Nat))
  | multiRemove (ks : List Nat)
  | iter (batch : Nat) (inter : Option (Nat × Nat))
  | iterSnapshot (inter : Option (Nat × Nat))
  | snapshot
  /-- `build_from_snapshot` of the last snapshot (after a serialisation round trip); the restored
      cache becomes the cache under test -/
  | restore
  /-- `fetch(k)` keeping the returned `Arc` alive -/
  | hold (k : Nat)
  /-- drop every `Arc` kept by `hold` -/
  | release
  /-- close / open the gate in the harness's eviction listener -/
  | gate (closed : Bool)
deriving Repr, DecidableEq

inductive Ret where
  | unit
  | val (v : Option Nat)
  | flag (b : Bool)
  /-- `none` = NotFound, `some none` = Fail, `some (some old)` = Ok(old) -/
  | computed (r : Option (Option Nat))
  | pairs (l : List (Nat × Nat))
  /-- value served, served stale?, loader invoked? -/
  | loaded (v : Nat) (stale loader : Bool)
  | nums (l : List Nat)
  | snap (sn : Snapshot)
deriving Repr, DecidableEq

/-- body of the task `spawn_loader_task` runs after the loader returned `(vid, cost)`:
    no timer is scheduled, the replaced entry's timer is not cancelled. -/
def State.loadInsert (cfg : Cfg) (s : State P) (k vid cost : Nat) : State P :=
  let e := Entry.mk' vid cost s.now cfg.ttl cfg.tti
  let old := lookup s.map k
  let s := { s with map := put s.map k e }
  let s := s.addCost cost
  let s := s.subCost (match old with | some o => o.cost | none => 0)
  let s := s.pushEvent cfg k cost
  { s with met := { s.met with inserts := s.met.inserts + 1, admitted := s.met.admitted + 1,
                               totalCostAdded := s.met.totalCostAdded + cost } }

/-- `fetch_with` (sync and async) with the load — also the background refresh of the
    stale-while-revalidate branch — run to completion inside the call. -/
def State.fetchWith (cfg : Cfg) (s : State P) (k vid cost : Nat) : State P × Ret :=
  let load := fun (s : State P) => ((s.miss 1).loadInsert cfg k vid cost, Ret.loaded vid false true)
  match lookup s.map k with
  | none => load s
  | some e =>
    if e.expiresAt = 0 ∨ s.now < e.expiresAt then
      if e.isExpired s.now cfg.tti then load s
      else ((s.onHit cfg k e).hit 1, .loaded e.vid false false)
    else
      match cfg.swr with
      | some g =>
        if s.now < e.expiresAt + g then (s.loadInsert cfg k vid cost, .loaded e.vid true true)
        else load s
      | none => load s

def State.orInsert (cfg : Cfg) (s : State P) (k vid cost : Nat) : State P × Ret :=
  match lookup s.map k with
  | some e => (s, .val (some e.vid))           -- no expiry check (F6), no hit bookkeeping
  | none =>
    let e := Entry.mk' vid cost s.now cfg.ttl cfg.tti
    let s := { s with map := put s.map k e }   -- no timer is scheduled on this path
    let s := s.pushEvent cfg k cost
    let s := { s with met := { s.met with inserts := s.met.inserts + 1, admitted := s.met.admitted + 1,
                                          totalCostAdded := s.met.totalCostAdded + cost } }
    (s.addCost cost, .val (some vid))

def State.compute (s : State P) (k vid : Nat) : State P × Ret :=
  match lookup s.map k with
  | none => (s, .computed none)
  | some e =>                                   -- no expiry check
    if e.pinned then (s, .computed (some none))
    else ({ s with map := put s.map k { e with vid := vid },
                   met := { s.met with updates := s.met.updates + 1 } }, .computed (some (some e.vid)))

def addFound (found : List (Nat × Nat)) (k v : Nat) : List (Nat × Nat) :=
  if found.any (fun p => p.1 == k) then found else found ++ [(k, v)]

/-- sync `multiget` (rayon fold; per key the body of `fetch` without per-key metrics) -/
def multigetSync (cfg : Cfg) : State P → List Nat → List (Nat × Nat) → State P × List (Nat × Nat)
  | s, [], found => (s, found)
  | s, k :: ks, found =>
    match lookup s.map k with
    | some e =>
      if e.isExpired s.now cfg.tti then multigetSync cfg s ks found
      else multigetSync cfg (s.onHit cfg k e) ks (addFound found k e.vid)
    | none => multigetSync cfg s ks found

/-- async `multiget`: hits touch the entry and call `on_access` on the policy DIRECTLY -/
def multigetAsync (cfg : Cfg) (ops : PolicyOps P) : State P → List Nat → List (Nat × Nat) → State P × List (Nat × Nat)
  | s, [], found => (s, found)
  | s, k :: ks, found =>
    match lookup s.map k with
    | some e =>
      if e.isExpired s.now cfg.tti then multigetAsync cfg ops s ks found
      else
        let s := { s with map := put s.map k (e.touch s.now cfg.tti) }
        multigetAsync cfg ops (s.polAccess ops (cfg.shardOf k) k e.cost) ks (addFound found k e.vid)
    | none => multigetAsync cfg ops s ks found

def multiRemoveLoop (cfg : Cfg) (ops : PolicyOps P) : State P → List Nat → List (Nat × Nat) → State P × List (Nat × Nat)
  | s, [], acc => (s, acc)
  | s, k :: ks, acc =>
    match s.removeKey cfg ops k with
    | (s, some v) => multiRemoveLoop cfg ops s ks (acc ++ [(k, v)])
    | (s, none) => multiRemoveLoop cfg ops s ks acc

def Metrics.toList (m : Metrics) : List Nat :=
  [m.hits, m.misses, m.inserts, m.updates, m.invalidations, m.evCap, m.evTtl, m.evTti, m.admitted,
   m.currentCost, m.totalCostAdded]

/-- items of one async multiget are grouped by shard first (`keys_by_shard`) -/
def groupByShard (cfg : Cfg) (ks : List Nat) : List Nat :=
  (List.range cfg.nshards).flatMap (fun i => ks.filter (fun k => cfg.shardOf k == i))

def stepOp (cfg : Cfg) (ops : PolicyOps P) (p0 : P) (o : Oracle) (s0 : State P) (op : Op) : State P × Ret :=
  let s := s0.resetLogs
  match op with
  | .get k => let (s, v) := s.get cfg k; (s, .val v)
  | .peek k => (s, .val (s.peek cfg k))
  | .occupied k => (s, .flag (s.occupied k))
  | .insert async k vid cost =>
    let s := s.insertCore cfg k (Entry.mk' vid cost s.now cfg.ttl cfg.tti) cfg.ttl true
    (if async then s else s.opportunistic cfg ops o k, .unit)
  | .insertTtl async k vid cost ttl =>
    let s := s.insertCore cfg k (Entry.mkCustom vid cost s.now (s.now + ttl) cfg.tti) (some ttl) true
    (if async then s else s.opportunistic cfg ops o k, .unit)
  | .remove k => let (s, v) := s.removeKey cfg ops k; (s, .val v)
  | .invalidate k => let (s, v) := s.removeKey cfg ops k; (s, .flag v.isSome)
  | .clear => (s.clearAll cfg ops o, .unit)
  | .advance d => ({ s with now := s.now + d }, .unit)
  | .runMaintenance => (s.runMaintenance cfg ops o, .unit)
  | .metrics => let s := s.flush cfg ops o; (s, .nums s.met.toList)
  | .orInsert k vid cost => s.orInsert cfg k vid cost
  | .compute k vid => s.compute k vid
  | .fetchWith k vid cost => s.fetchWith cfg k vid cost
  | .multiget async ks =>
    let (s, found) := if async then multigetAsync cfg ops s (groupByShard cfg ks) [] else multigetSync cfg s ks []
    let s := s.hit found.length
    ((if ks.length > found.length then s.miss (ks.length - found.length) else s), .pairs found)
  | .multiInsert items =>
    (items.foldl (fun s (k, vid, cost) =>
        s.insertCore cfg k (Entry.mk' vid cost s.now cfg.ttl cfg.tti) cfg.ttl false) s, .unit)
  | .multiRemove ks => let (s, l) := multiRemoveLoop cfg ops s ks []; (s, .pairs l)
  | .iter batch inter => let (s, l) := s.iterAll cfg ops o batch inter; (s, .pairs l)
  | .iterSnapshot inter => let (s, l) := s.iterSnapshotAll cfg ops o inter; (s, .pairs l)
  | .snapshot => let (s, sn) := s.toSnapshot cfg ops o; (s, .snap sn)
  | .restore =>
    match s.snap with
    | some sn => (State.restore cfg p0 s.now sn, .unit)
    | none => (s, .unit)
  | .hold k =>
    match s.get cfg k with
    | (s, some v) =>
      (match lookup s.map k with
       | some e => { s with map := put s.map k { e with pinned := true } }
       | none => s, .val (some v))
    | (s, none) => (s, .val none)
  | .release => ({ s with map := s.map.map (fun (k, e) => (k, { e with pinned := false })) }, .unit)
  | .gate closed =>
    if closed then ({ s with lis := { s.lis with gateClosed := true } }, .unit)
    else
      let pending := (match s.lis.inFlight with | some n => [n] | none => []) ++ s.lis.queue
      ({ s with lis := {}, delivered := pending }, .unit)

/-- run a whole history; outputs in order -/
def run (cfg : Cfg) (ops : PolicyOps P) (p0 : P) : State P → List (Op × Oracle) → State P × List Ret
  | s, [] => (s, [])
  | s, (op, o) :: rest =>
    let (s', r) := stepOp cfg ops p0 o s op
    let (s'', rs) := run cfg ops p0 s' rest
    (s'', r :: rs)

end Fv.Cache
