/-
Model of `cache/src/task/timer.rs` (`TimerWheel`): `wheel_size` slots, each an intrusive list
of timers `(laps, key_hash)` in a generational arena; `current_tick`.

Abstraction: the arena + links of one slot are a `List Timer` (head first); a `TimerHandle` is the
unique id the model assigns at `schedule`.  `advance` processes exactly ONE slot — the slot of the
tick that was current when it was called — no matter how much time passed (DESIGN §11 F7): the
model has no notion of time here at all, exactly like the code.
-/
namespace Fv.Cache

structure Timer where
  id : Nat
  laps : Nat
  key : Nat        -- key hash (the harness hasher is the identity on keys)
deriving Repr, DecidableEq

structure Wheel where
  slots : List (List Timer)
  tick : Nat := 0
  nextId : Nat := 0
  /-- `tick_duration` in the model's time unit -/
  tickDur : Nat := 1000
deriving Repr, DecidableEq

namespace Wheel

def new (size tickDur : Nat) : Wheel :=
  { slots := List.replicate size [], tickDur := tickDur }

/-- `(d / tick_duration).round()` on f64 — exact for the durations the harness uses
    (ties away from zero). -/
def ticksOf (w : Wheel) (dur : Nat) : Nat :=
  if w.tickDur = 0 then 0 else (2 * dur + w.tickDur) / (2 * w.tickDur)

def modifySlot (slots : List (List Timer)) (i : Nat) (f : List Timer → List Timer) : List (List Timer) :=
  match slots, i with
  | [], _ => []
  | s :: rest, 0 => f s :: rest
  | s :: rest, i + 1 => s :: modifySlot rest i f

/-- `schedule(key_hash, duration)`: returns the new wheel and the handle. -/
def schedule (w : Wheel) (key dur : Nat) : Wheel × Nat :=
  let ticks := w.ticksOf dur
  let n := w.slots.length
  let laps := ticks / n
  let slot := (w.tick + ticks) % n
  let t : Timer := { id := w.nextId, laps := laps, key := key }
  ({ w with slots := modifySlot w.slots slot (fun l => t :: l), nextId := w.nextId + 1 }, w.nextId)

/-- `cancel(handle)`: unlink if the timer still exists. -/
def cancel (w : Wheel) (id : Nat) : Wheel :=
  { w with slots := w.slots.map (fun l => l.filter (fun t => t.id != id)) }

def cancelOpt (w : Wheel) : Option Nat → Wheel
  | some id => w.cancel id
  | none => w

/-- `advance()`: processes slot `current_tick % size`, then increments the tick.  Timers with
    `laps > 0` lose one lap, the others fire (their key hashes are returned) and are removed. -/
def advance (w : Wheel) : Wheel × List Nat :=
  let n := w.slots.length
  let i := w.tick % n
  let slot := w.slots.getD i []
  let fired := (slot.filter (fun t => t.laps == 0)).map (·.key)
  let kept := (slot.filter (fun t => t.laps != 0)).map (fun t => { t with laps := t.laps - 1 })
  ({ w with slots := modifySlot w.slots i (fun _ => kept), tick := w.tick + 1 }, fired)

end Wheel
end Fv.Cache
