/-
Model of `cache/src/entry.rs` (`CacheEntry<V>`) — the per-entry pure functions.

Values are abstract value ids (`vid : Nat`): every write of the harness uses a fresh id,
so the id a read returns identifies the write it saw.  Times are natural numbers in one
fixed unit (the code uses nanoseconds since the cache epoch; the driver feeds milliseconds —
nothing in the model depends on the unit).  `expiresAt = 0` is the code's "no TTL" sentinel.
-/
namespace Fv.Cache

structure Entry where
  vid : Nat
  cost : Nat
  /-- `expires_at` (0 = no TTL) -/
  expiresAt : Nat := 0
  /-- `last_accessed` (0 when the cache has no TTI) -/
  lastAccessed : Nat := 0
  /-- `ttl_timer_handle` (the code never sets `tti_timer_handle`) -/
  timer : Option Nat := none
  /-- an `Arc<V>` to this value is held outside the map (`Arc::get_mut` in `try_compute_val` fails) -/
  pinned : Bool := false
deriving Repr, DecidableEq

namespace Entry

/-- `CacheEntry::is_expired(tti)` evaluated at time `now`. -/
def isExpired (e : Entry) (now : Nat) (tti : Option Nat) : Bool :=
  (decide (e.expiresAt > 0) && decide (now ≥ e.expiresAt)) ||
  (match tti with
   | some d => decide (now ≥ e.lastAccessed + d)
   | none => false)

/-- the part of `on_hit` that touches the entry: `update_last_accessed` iff a TTI is configured. -/
def touch (e : Entry) (now : Nat) (tti : Option Nat) : Entry :=
  match tti with
  | some _ => { e with lastAccessed := now }
  | none => e

/-- `CacheEntry::new(value, cost, ttl, tti)` at time `now`. -/
def mk' (vid cost now : Nat) (ttl tti : Option Nat) : Entry :=
  { vid := vid, cost := cost,
    expiresAt := match ttl with | some d => now + d | none => 0,
    lastAccessed := match tti with | some _ => now | none => 0 }

/-- `CacheEntry::new_with_custom_expiry` (`insert_with_ttl`). -/
def mkCustom (vid cost now expiresAt : Nat) (tti : Option Nat) : Entry :=
  { vid := vid, cost := cost, expiresAt := expiresAt,
    lastAccessed := match tti with | some _ => now | none => 0 }

end Entry

/-! u64 counters that the code updates with wrapping `fetch_add` / `fetch_sub`. -/
def U64 : Nat := 18446744073709551616
def addW (a b : Nat) : Nat := (a + b) % U64
def subW (a b : Nat) : Nat := (a + (U64 - b % U64)) % U64

end Fv.Cache
