import Fv.Sync.WaitList
/-
B-level model of `fibre::sync::HybridRwLock` (`channels/src/sync/rwlock.rs`), one visible action
per step; same conventions as `Fv/Sync/Mutex.lean` (the `pc` names the NEXT visible action, the
non-atomic work between two visible actions is folded into the step of the preceding one).

The thread-local flag `wr` says whether the current acquisition is a write (`true`) or a read.

Code ↔ pc map (rwlock.rs):
  try_acquire_read / try_acquire_write / try_read   taLoad k → taCas k   (`compare_exchange_weak`
                                    only in try_acquire_read: the CAS may fail spuriously)
  read_slow / write_slow spin loop  taLoad/taCas spin, spinYield
  `self.waiters.lock()`             llSwap k → (llLoad k → llSpin k …)
  queue block / Future::poll        qRearm (state.store WAITING) → qFetchOr → qLoad ⇄ qCas
  fix_flags                         ff1 a (WRITER_PENDING) → ff2 a (HAS_QUEUED)
  `drop(g)`                         llRel a
  `while state == WAITING { park }` wLoad ⇄ wPark
  unlock_read / unlock_write        relSub / relAnd
  wake_waiters                      llSwap wake → wnStore (first writer, stays linked)
                                                | wrStore* (every reader: unlink + mark) → ff1 → ff2
                                    → llRel wake → wnWake*
  Read/WriteFuture::drop            llSwap drop → [ff1 → ff2] → llRel dropLoad → dLoad → [wake_waiters]
  finish_node                       llSwap finish → [ff1 → ff2] → llRel retReady
  harness `block_on`                boPark

Ghost: `holders` (owner thread, exclusive?).  The reader count is a `Nat` (no overflow); the
`fetch_sub` of a read release is saturating in the model, which differs from the wrapping
subtraction of the code only for a release without a guard - impossible in Rust and excluded here
by the `holders` check at `call`.
-/
namespace Fv.Sync.RwLock
open Fv.Sync

structure Cfg where
  spinYields : Nat := 1
  pollAttempts : Nat := 1
  deriving Repr

/-- state word: `WRITE_LOCKED = 1`, `WRITER_PENDING = 2`, `HAS_QUEUED = 4`, `READER_UNIT = 8` -/
structure RWord where
  wl : Bool := false
  wp : Bool := false
  hq : Bool := false
  readers : Nat := 0
  deriving DecidableEq, Repr

def RWord.toNat (w : RWord) : Nat := b2n w.wl + 2 * b2n w.wp + 4 * b2n w.hq + 8 * w.readers

/-- the acquisition test: `s & (WRITE_LOCKED | READERS) != 0` for writers,
`s & (WRITE_LOCKED | WRITER_PENDING) != 0` for readers -/
def RWord.blocked (w : RWord) (wr : Bool) : Bool :=
  if wr then w.wl || w.readers != 0 else w.wl || w.wp

/-- `s | WRITE_LOCKED` / `s + READER_UNIT` -/
def RWord.acq (w : RWord) (wr : Bool) : RWord :=
  if wr then { w with wl := true } else { w with readers := w.readers + 1 }

inductive ROp
  | read | tryRead | write | tryWrite
  | unread | unwrite
  | give (to : Tid) (excl : Bool)
  | readAsync (f : Fid) | writeAsync (f : Fid)     -- `block_on(l.read_async())` …
  | newFut (f : Fid) (excl : Bool)                  -- `fut f = read_fut` / `write_fut`
  | poll (f : Fid)
  | dropFut (f : Fid)
  | wakes (f : Fid)
  deriving DecidableEq, Repr

/-- callers of the lock-free acquisition attempt -/
inductive TaK | fast | spin | try_ | asyncFirst | pollTry
  deriving DecidableEq, Repr

inductive LlK | spinUnlink | queue | wake | finish | drop
  deriving DecidableEq, Repr

inductive After | retOk | retReady | dropLoad | parkLoad | pending | wake
  deriving DecidableEq, Repr

inductive Pc
  | idle
  | taLoad (k : TaK) | taCas (k : TaK)
  | spinYield
  | llSwap (k : LlK) | llLoad (k : LlK) | llSpin (k : LlK)
  | qRearm | qFetchOr | qLoad | qCas
  | ff1 (a : After) | ff2 (a : After)
  | llRel (a : After)
  | wLoad | wPark
  | relSub | relAnd
  | wnStore | wrStore | wnWake
  | dLoad
  | boPark
  | ret (r : Res)
  deriving DecidableEq, Repr

structure Thread where
  pc : Pc := .idle
  wr : Bool := false        -- the acquisition in progress is a write
  sv : RWord := {}          -- `s`
  linked : Bool := false    -- `write_slow`'s local `linked`
  i : Nat := 0
  cur : Option Fid := none
  blockOn : Bool := false
  tgt : Nid := .thr 0       -- node being marked by wake_waiters
  ws : List Waiter := []    -- handles collected by wake_waiters
  deriving Repr

inductive FPhase
  | absent | fresh | startedNoNode | startedNode | done
  deriving DecidableEq, Repr

structure Fut where
  phase : FPhase := .absent
  busy : Bool := false
  wr : Bool := false           -- WriteFuture / ReadFuture
  bo : Bool := false           -- ghost: driven by the harness `block_on` (waker = unpark) rather than polled manually
  deriving DecidableEq, Repr

structure State where
  word : RWord := {}
  wl : WaitList := {}
  token : Tid → Bool := fun _ => false
  wakes : Fid → Nat := fun _ => 0
  fut : Fid → Fut := fun _ => {}
  th : Tid → Thread := fun _ => {}
  prog : Tid → List ROp := fun _ => []
  holders : List (Tid × Bool) := []

abbrev Lbl := Label ROp
abbrev Tr := List (Lbl × State)

def init (prog : Tid → List ROp) : State := { prog := prog }

def setTh (s : State) (t : Tid) (th : Thread) : State := { s with th := upd s.th t th }
def withPc (s : State) (t : Tid) (pc : Pc) : State := setTh s t { s.th t with pc := pc }

def curF (th : Thread) : Fid := th.cur.getD 0

def me (t : Tid) (th : Thread) : Nid :=
  match th.cur with
  | none => .thr t
  | some f => .fut f

def myWaiter (t : Tid) (th : Thread) : Waiter :=
  match th.cur with
  | none => .thread t
  | some f => if th.blockOn then .thread t else .task f

/-- deliver the leading counting-waker wakes (not visible actions) -/
def drain (wakes : Fid → Nat) : List Waiter → (Fid → Nat) × List Waiter
  | .task f :: rest => drain (upd wakes f (wakes f + 1)) rest
  | l => (wakes, l)

def pollDone (s : State) (t : Tid) (ready : Bool) : State :=
  let th := s.th t
  let f := curF th
  if th.blockOn then
    if ready then
      { s with fut := upd s.fut f { s.fut f with phase := .absent, busy := false }
               th := upd s.th t { th with pc := .ret .ok } }
    else withPc s t .boPark
  else if ready then
    { s with fut := upd s.fut f { s.fut f with phase := .done, busy := false }
             th := upd s.th t { th with pc := .ret .ready } }
  else
    { s with fut := upd s.fut f { s.fut f with busy := false }
             th := upd s.th t { th with pc := .ret .pending } }

def spinHead (cfg : Cfg) (s : State) (t : Tid) : State :=
  if (s.th t).i < cfg.spinYields then withPc s t (.taLoad .spin) else withPc s t (.llSwap .queue)

def pollHead (cfg : Cfg) (s : State) (t : Tid) : State :=
  let th := s.th t
  if th.i < cfg.pollAttempts then withPc s t (.taLoad .pollTry)
  else
    let f := curF th
    let s1 : State :=
      if (s.fut f).phase = .startedNoNode then
        { s with wl := s.wl.putNode (.fut f) (Node.fresh th.wr (myWaiter t th))
                 fut := upd s.fut f { s.fut f with phase := .startedNode } }
      else s
    withPc s1 t (.llSwap .queue)

def taSucc (s : State) (t : Tid) (k : TaK) : State :=
  let th := s.th t
  match k with
  | .fast => withPc s t (.ret .ok)
  | .spin =>   -- read_slow returns directly; write_slow unlinks its node if it is linked
    if th.wr && th.linked then withPc s t (.llSwap .spinUnlink) else withPc s t (.ret .ok)
  | .try_ => withPc s t (.ret .ok)
  | .asyncFirst => pollDone s t true
  | .pollTry =>
    if (s.fut (curF th)).phase = .startedNode then withPc s t (.llSwap .finish) else pollDone s t true

def taFail (cfg : Cfg) (s : State) (t : Tid) (k : TaK) : State :=
  let th := s.th t
  match k with
  | .fast =>   -- enter read_slow / write_slow
    spinHead cfg { s with wl := s.wl.putNode (.thr t) (Node.fresh th.wr (.thread t))
                          th := upd s.th t { th with linked := false, i := 0 } } t
  | .spin => withPc s t .spinYield
  | .try_ => withPc s t (.ret .none)
  | .asyncFirst =>
    pollHead cfg { s with fut := upd s.fut (curF th) { s.fut (curF th) with phase := .startedNoNode }
                          th := upd s.th t { th with i := 0 } } t
  | .pollTry => pollHead cfg (setTh s t { th with i := th.i + 1 }) t

/-- wake_waiters, readers branch: unlink the next queued node and go mark it, or finish -/
def wakeAllNext (s : State) (t : Tid) : State :=
  match s.wl.queue.head? with
  | none => withPc s t (.ff1 .wake)
  | some h => setTh { s with wl := s.wl.unlink h } t { s.th t with pc := .wrStore, tgt := h }

def llEnter (s : State) (t : Tid) (k : LlK) : State :=
  let th := s.th t
  let n := me t th
  match k with
  | .spinUnlink => withPc { s with wl := s.wl.unlink n } t (.ff1 .retOk)
  | .queue => withPc { s with wl := s.wl.setWaiter n (myWaiter t th) } t .qRearm
  | .wake =>
    if s.wl.writers > 0 then
      match s.wl.firstWriter with
      | some h => setTh s t { th with pc := .wnStore, tgt := h, ws := [] }
      | none => setTh s t { th with pc := .llRel .wake, ws := [] }   -- `debug_assert!(!w_node.is_null())`
    else wakeAllNext (setTh s t { th with ws := [] }) t
  | .finish =>
    if s.wl.wasLinked n then withPc { s with wl := s.wl.unlink n } t (.ff1 .retReady)
    else withPc s t (.llRel .retReady)
  | .drop =>
    if s.wl.wasLinked n then withPc { s with wl := s.wl.unlink n } t (.ff1 .dropLoad)
    else withPc s t (.llRel .dropLoad)

/-- after the guard drop of wake_waiters: `w.wake()` for each collected handle -/
def wakeRest (s : State) (t : Tid) (ws : List Waiter) : State :=
  let (wakes', rest) := drain s.wakes ws
  match rest with
  | [] => setTh { s with wakes := wakes' } t { s.th t with pc := .ret .ok, ws := [] }
  | _ => setTh { s with wakes := wakes' } t { s.th t with pc := .wnWake, ws := rest }

def afterRel (s : State) (t : Tid) (a : After) : State :=
  let th := s.th t
  match a with
  | .retOk => withPc s t (.ret .ok)
  | .retReady =>
    pollDone { s with fut := upd s.fut (curF th) { s.fut (curF th) with phase := .startedNoNode } } t true
  | .dropLoad => withPc s t .dLoad
  | .parkLoad => withPc s t .wLoad
  | .pending => pollDone s t false
  | .wake => wakeRest s t th.ws

def callStep (cfg : Cfg) (s : State) (t : Tid) (op : ROp) : State :=
  let th := s.th t
  match op with
  | .read => setTh s t { th with pc := .taLoad .fast, wr := false, cur := none, blockOn := false }
  | .write => setTh s t { th with pc := .taLoad .fast, wr := true, cur := none, blockOn := false }
  | .tryRead => setTh s t { th with pc := .taLoad .try_, wr := false, cur := none, blockOn := false }
  | .tryWrite => setTh s t { th with pc := .taLoad .try_, wr := true, cur := none, blockOn := false }
  | .unread => if (t, false) ∈ s.holders then withPc s t .relSub else withPc s t (.ret .invalid)
  | .unwrite => if (t, true) ∈ s.holders then withPc s t .relAnd else withPc s t (.ret .invalid)
  | .give to excl =>
    if (t, excl) ∈ s.holders then
      withPc { s with holders := (to, excl) :: s.holders.erase (t, excl) } t (.ret .ok)
    else withPc s t (.ret .invalid)
  | .readAsync f =>
    if (s.fut f).phase = .absent ∧ (s.fut f).busy = false then
      { s with fut := upd s.fut f { phase := .fresh, busy := true, wr := false, bo := true }
               th := upd s.th t { th with pc := .taLoad .asyncFirst, wr := false, cur := some f, blockOn := true } }
    else withPc s t (.ret .invalid)
  | .writeAsync f =>
    if (s.fut f).phase = .absent ∧ (s.fut f).busy = false then
      { s with fut := upd s.fut f { phase := .fresh, busy := true, wr := true, bo := true }
               th := upd s.th t { th with pc := .taLoad .asyncFirst, wr := true, cur := some f, blockOn := true } }
    else withPc s t (.ret .invalid)
  | .newFut f excl =>
    if (s.fut f).phase = .absent ∧ (s.fut f).busy = false then
      withPc { s with fut := upd s.fut f { phase := .fresh, busy := false, wr := excl, bo := false } } t (.ret .ok)
    else withPc s t (.ret .invalid)
  | .poll f =>
    if (s.fut f).busy then withPc s t (.ret .invalid)
    else match (s.fut f).phase with
      | .fresh =>
        { s with fut := upd s.fut f { s.fut f with busy := true }
                 wakes := upd s.wakes f 0
                 th := upd s.th t { th with pc := .taLoad .asyncFirst, wr := (s.fut f).wr, cur := some f, blockOn := false } }
      | .startedNoNode | .startedNode =>
        pollHead cfg
          { s with fut := upd s.fut f { s.fut f with busy := true }
                   wakes := upd s.wakes f 0
                   th := upd s.th t { th with wr := (s.fut f).wr, cur := some f, blockOn := false, i := 0 } } t
      | _ => withPc s t (.ret .invalid)
  | .dropFut f =>
    if (s.fut f).busy then withPc s t (.ret .invalid)
    else match (s.fut f).phase with
      | .absent => withPc s t (.ret .invalid)
      | .startedNode =>
        { s with fut := upd s.fut f { s.fut f with busy := true }
                 th := upd s.th t { th with pc := .llSwap .drop, wr := (s.fut f).wr, cur := some f, blockOn := false } }
      | _ => withPc { s with fut := upd s.fut f { s.fut f with phase := .absent, busy := false } } t (.ret .ok)
  | .wakes f => withPc s t (.ret (.n (s.wakes f)))

/-! ### one function per pc -/

def nIdle (cfg : Cfg) (s : State) (t : Tid) : Tr :=
  match s.prog t with
  | [] => []
  | op :: _ => [(.call op, callStep cfg s t op)]

def nRet (s : State) (t : Tid) (r : Res) : Tr :=
  [(.ret r, { s with th := upd s.th t { s.th t with pc := .idle }, prog := upd s.prog t (s.prog t).tail })]

def nTaLoad (cfg : Cfg) (s : State) (t : Tid) (k : TaK) : Tr :=
  [(.load .state .relaxed s.word.toNat,
    if s.word.blocked (s.th t).wr then taFail cfg s t k
    else setTh s t { s.th t with pc := .taCas k, sv := s.word })]

/-- `compare_exchange_weak` is used by `try_acquire_read` only (`try_read` has its own strong CAS) -/
def casWeak (th : Thread) (k : TaK) : Bool := !th.wr && k != .try_

def nTaCas (cfg : Cfg) (s : State) (t : Tid) (k : TaK) : Tr :=
  let th := s.th t
  let weak := casWeak th k
  let failTr : Tr := [(.cas .state weak .acquire .relaxed s.word.toNat s.word.toNat false, taFail cfg s t k)]
  if s.word = th.sv then
    let w' : RWord := th.sv.acq th.wr
    (.cas .state weak .acquire .relaxed s.word.toNat w'.toNat true,
      taSucc { s with word := w', holders := (t, th.wr) :: s.holders } t k)
      :: (if weak then failTr else [])      -- spurious failure
  else failTr

def nSpinYield (cfg : Cfg) (s : State) (t : Tid) : Tr :=
  [(.yield, spinHead cfg (setTh s t { s.th t with i := (s.th t).i + 1 }) t)]

def nLlSwap (s : State) (t : Tid) (k : LlK) : Tr :=
  [(.rmw .listLock .swap .acquire (b2n s.wl.locked) 1,
    if s.wl.locked then withPc s t (.llLoad k)
    else llEnter { s with wl := s.wl.setLocked true } t k)]

def nLlLoad (s : State) (t : Tid) (k : LlK) : Tr :=
  [(.load .listLock .relaxed (b2n s.wl.locked),
    if s.wl.locked then withPc s t (.llSpin k) else withPc s t (.llSwap k))]

def nLlSpin (s : State) (t : Tid) (k : LlK) : Tr :=
  [(.spin, withPc s t (.llLoad k))]

/-- `rearm`'s store, then `link_back` (read_slow: always; write_slow: `if !linked`;
futures: `if !g.is_linked(node)`) -/
def nQRearm (s : State) (t : Tid) : Tr :=
  let th := s.th t
  let n := me t th
  let wl1 := s.wl.setWoken n false
  let isLinked := match th.cur with
    | none => th.wr && th.linked
    | some _ => wl1.wasLinked n
  let wl2 := if isLinked then wl1 else wl1.linkBack n
  [(.store (.nodeState n) .relaxed 0,
    { s with wl := wl2, th := upd s.th t { th with pc := .qFetchOr, linked := true } })]

def nQFetchOr (s : State) (t : Tid) : Tr :=
  let th := s.th t
  let w' : RWord := if th.wr then { s.word with hq := true, wp := true } else { s.word with hq := true }
  [(.rmw .state .or .relaxed s.word.toNat w'.toNat, withPc { s with word := w' } t .qLoad)]

def nQLoad (s : State) (t : Tid) : Tr :=
  let th := s.th t
  [(.load .state .relaxed s.word.toNat,
    if s.word.blocked th.wr then
      withPc s t (.llRel (match th.cur with | none => .parkLoad | some _ => .pending))
    else setTh s t { th with pc := .qCas, sv := s.word })]

def nQCas (s : State) (t : Tid) : Tr :=
  let th := s.th t
  if s.word = th.sv then
    let w' : RWord := th.sv.acq th.wr
    [(.cas .state false .acquire .relaxed s.word.toNat w'.toNat true,
      withPc { s with word := w', holders := (t, th.wr) :: s.holders, wl := s.wl.unlink (me t th) } t
        (.ff1 (match th.cur with | none => .retOk | some _ => .retReady)))]
  else
    [(.cas .state false .acquire .relaxed s.word.toNat s.word.toNat false, withPc s t .qLoad)]

/-- `fix_flags`, first RMW: WRITER_PENDING -/
def nFf1 (s : State) (t : Tid) (a : After) : Tr :=
  if s.wl.writers = 0 then
    let w' : RWord := { s.word with wp := false }
    [(.rmw .state .and .relaxed s.word.toNat w'.toNat, withPc { s with word := w' } t (.ff2 a))]
  else
    let w' : RWord := { s.word with wp := true }
    [(.rmw .state .or .relaxed s.word.toNat w'.toNat, withPc { s with word := w' } t (.ff2 a))]

/-- `fix_flags`, second RMW: HAS_QUEUED -/
def nFf2 (s : State) (t : Tid) (a : After) : Tr :=
  if s.wl.len = 0 then
    let w' : RWord := { s.word with hq := false }
    [(.rmw .state .and .relaxed s.word.toNat w'.toNat, withPc { s with word := w' } t (.llRel a))]
  else
    let w' : RWord := { s.word with hq := true }
    [(.rmw .state .or .relaxed s.word.toNat w'.toNat, withPc { s with word := w' } t (.llRel a))]

def nLlRel (s : State) (t : Tid) (a : After) : Tr :=
  [(.store .listLock .release 0, afterRel { s with wl := s.wl.setLocked false } t a)]

def nWLoad (cfg : Cfg) (s : State) (t : Tid) : Tr :=
  let th := s.th t
  let n := me t th
  [(.load (.nodeState n) .acquire (b2n (s.wl.node n).woken),
    if (s.wl.node n).woken then spinHead cfg (setTh s t { th with i := 0 }) t
    else withPc s t .wPark)]

def nWPark (s : State) (t : Tid) : Tr :=
  (if s.token t then [(.park, withPc { s with token := upd s.token t false } t .wLoad)] else [])
    ++ [(.parkSpur, withPc s t .wLoad)]

/-- `unlock_read`: `fetch_sub(READER_UNIT, Release)` -/
def nRelSub (s : State) (t : Tid) : Tr :=
  let w' : RWord := { s.word with readers := s.word.readers - 1 }
  let s1 : State := { s with word := w', holders := s.holders.erase (t, false) }
  [(.rmw .state .sub .release s.word.toNat w'.toNat,
    if s.word.readers = 1 ∧ s.word.hq then withPc s1 t (.llSwap .wake) else withPc s1 t (.ret .ok))]

/-- `unlock_write`: `fetch_and(!WRITE_LOCKED, Release)` -/
def nRelAnd (s : State) (t : Tid) : Tr :=
  let w' : RWord := { s.word with wl := false }
  let s1 : State := { s with word := w', holders := s.holders.erase (t, true) }
  [(.rmw .state .and .release s.word.toNat w'.toNat,
    if s.word.hq then withPc s1 t (.llSwap .wake) else withPc s1 t (.ret .ok))]

/-- wake_waiters, writer branch: `take_and_mark_woken(first_writer)`; the node stays linked -/
def nWnStore (s : State) (t : Tid) : Tr :=
  let th := s.th t
  [(.store (.nodeState th.tgt) .release 1,
    { s with wl := s.wl.takeAndMark th.tgt
             th := upd s.th t { th with pc := .llRel .wake, ws := ((s.wl.node th.tgt).waiter).toList } })]

/-- wake_waiters, readers branch: `take_and_mark_woken(cur)` of the node just unlinked, then the
next node is unlinked (or `fix_flags` follows) -/
def nWrStore (s : State) (t : Tid) : Tr :=
  let th := s.th t
  [(.store (.nodeState th.tgt) .release 1,
    wakeAllNext
      { s with wl := s.wl.takeAndMark th.tgt
               th := upd s.th t { th with ws := th.ws ++ ((s.wl.node th.tgt).waiter).toList } } t)]

def nWnWake (s : State) (t : Tid) : Tr :=
  match (s.th t).ws with
  | .thread u :: rest => [(.unpark u, wakeRest { s with token := upd s.token u true } t rest)]
  | _ => []

def nDLoad (s : State) (t : Tid) : Tr :=
  let th := s.th t
  let f := curF th
  let n : Nid := .fut f
  let s1 : State := { s with fut := upd s.fut f { s.fut f with phase := .absent, busy := false } }
  [(.load (.nodeState n) .acquire (b2n (s.wl.node n).woken),
    if (s.wl.node n).woken then withPc s1 t (.llSwap .wake) else withPc s1 t (.ret .ok))]

def nBoPark (cfg : Cfg) (s : State) (t : Tid) : Tr :=
  (if s.token t then
      [(.park, pollHead cfg { s with token := upd s.token t false, th := upd s.th t { s.th t with i := 0 } } t)]
    else [])
    ++ [(.parkSpur, pollHead cfg (setTh s t { s.th t with i := 0 }) t)]

def next (cfg : Cfg) (s : State) (t : Tid) : Tr :=
  match (s.th t).pc with
  | .idle => nIdle cfg s t
  | .taLoad k => nTaLoad cfg s t k
  | .taCas k => nTaCas cfg s t k
  | .spinYield => nSpinYield cfg s t
  | .llSwap k => nLlSwap s t k
  | .llLoad k => nLlLoad s t k
  | .llSpin k => nLlSpin s t k
  | .qRearm => nQRearm s t
  | .qFetchOr => nQFetchOr s t
  | .qLoad => nQLoad s t
  | .qCas => nQCas s t
  | .ff1 a => nFf1 s t a
  | .ff2 a => nFf2 s t a
  | .llRel a => nLlRel s t a
  | .wLoad => nWLoad cfg s t
  | .wPark => nWPark s t
  | .relSub => nRelSub s t
  | .relAnd => nRelAnd s t
  | .wnStore => nWnStore s t
  | .wrStore => nWrStore s t
  | .wnWake => nWnWake s t
  | .dLoad => nDLoad s t
  | .boPark => nBoPark cfg s t
  | .ret r => nRet s t r

def step (cfg : Cfg) (s : State) (t : Tid) (l : Lbl) : Option State := stepOf (next cfg) s t l

def IsInit (s : State) : Prop := ∃ prog, s = init prog

abbrev Reach (cfg : Cfg) : State → Prop := ReachOf (next cfg) IsInit

def exec (cfg : Cfg) : State → List (Tid × Nat) → Option State := execOf (next cfg)

end Fv.Sync.RwLock
