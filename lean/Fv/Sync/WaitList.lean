/-
B-level (small-step) vocabulary shared by the hybrid-lock models, and the model of
`channels/src/sync/wait_queue.rs`.

* identities: threads (`Tid`), manually polled futures (`Fid`), waiter nodes (`Nid`: the stack node
  of a thread inside `lock_slow`/`read_slow`/`write_slow`, or the heap node of a future);
* `Waiter`: what `take_and_mark_woken` hands to `Waiter::wake`.  `thread t` = `Thread::unpark`
  (a visible action).  It also stands for the waker of a `block_on` executor task of thread `t`
  (harness `lock_async`/`read_async`/`write_async` ops: that waker is `thread.unpark()`).
  `task f` = the counting waker of the manually polled future `f` (not a scheduler-visible action:
  it only bumps `wakes f`);
* `Label`: one *visible action* (what the scheduler shim logs): atomic load/store/RMW/CAS on a
  named object with its memory ordering and the values read/written, park/unpark, spin/yield, and
  the call/return of an API operation.  Memory is sequentially consistent; orderings are recorded
  but have no semantics;
* `WaitList`: the spinlock bit, the FIFO of linked node ids (the intrusive `prev/next` pointers are
  abstracted to a `List Nid`), the `writers`/`len` counters the code keeps, and the node table
  (`state` = `woken`, `waiter`, `is_writer`, `linked`).  All list operations below are executed by
  the lock models only while the model thread holds the spinlock bit.

No imports (the driver links this file).
-/
namespace Fv.Sync

abbrev Tid := Nat
abbrev Fid := Nat

/-- function update on a decidable domain -/
def upd {α β : Type} [DecidableEq α] (f : α → β) (a : α) (b : β) : α → β :=
  fun x => if x = a then b else f x

@[simp] theorem upd_same {α β : Type} [DecidableEq α] (f : α → β) (a : α) (b : β) : upd f a b a = b := by
  simp [upd]

@[simp] theorem upd_ne {α β : Type} [DecidableEq α] (f : α → β) {a x : α} (b : β) (h : x ≠ a) :
    upd f a b x = f x := by
  simp [upd, h]

theorem upd_apply {α β : Type} [DecidableEq α] (f : α → β) (a x : α) (b : β) :
    upd f a b x = if x = a then b else f x := rfl

/-- memory orderings, as logged -/
inductive Ord | relaxed | acquire | release | acqRel | seqCst
  deriving DecidableEq, Repr

/-- `a.le b`: `b` is at least as strong as `a` (the partial order of DESIGN §2.3) -/
def Ord.le : Ord → Ord → Bool
  | .relaxed, _ => true
  | .acquire, .acquire | .acquire, .acqRel | .acquire, .seqCst => true
  | .release, .release | .release, .acqRel | .release, .seqCst => true
  | .acqRel, .acqRel | .acqRel, .seqCst => true
  | .seqCst, .seqCst => true
  | _, _ => false

inductive Nid
  | thr (t : Tid)
  | fut (f : Fid)
  deriving DecidableEq, Repr

inductive Waiter
  | thread (t : Tid)
  | task (f : Fid)
  deriving DecidableEq, Repr

/-- atomic objects of one lock -/
inductive Obj
  | state                 -- the lock's state word
  | listLock              -- `WaitList::locked`
  | nodeState (n : Nid)   -- `WaiterNode::state`
  deriving DecidableEq, Repr

inductive RmwKind | swap | or | and | add | sub
  deriving DecidableEq, Repr

/-- results of API operations (harness tokens `ok`, `none`, `pending`, `ready:ok`, `invalid:*`, `n:<k>`) -/
inductive Res
  | ok | none | pending | ready | invalid | n (k : Nat)
  deriving DecidableEq, Repr

/-- one visible action -/
inductive Label (Op : Type)
  | call (op : Op)
  | ret (r : Res)
  | load (o : Obj) (ord : Ord) (v : Nat)
  | store (o : Obj) (ord : Ord) (v : Nat)
  | rmw (o : Obj) (k : RmwKind) (ord : Ord) (old new : Nat)
  /-- `weak`: `compare_exchange_weak`; on failure `new = old`; a weak CAS may fail although
  `old` equals the expected value (`ok = false`, spurious) -/
  | cas (o : Obj) (weak : Bool) (succ fail : Ord) (old new : Nat) (ok : Bool)
  | park            -- returns because a token was present (consumed)
  | parkSpur        -- spurious return (scheduler choice)
  | unpark (t : Tid)
  | yield
  | spin
  deriving DecidableEq, Repr

def b2n (b : Bool) : Nat := if b then 1 else 0

/-- `WaiterNode` (wait_queue.rs). `woken = false` is `WAITING` (0), `true` is `WOKEN` (1). -/
structure Node where
  woken : Bool := false
  waiter : Option Waiter := none
  isWriter : Bool := false
  linked : Bool := false
  deriving DecidableEq, Repr

/-- `WaiterNode::new_sync` / `new_task` -/
def Node.fresh (isWriter : Bool) (w : Waiter) : Node :=
  { woken := false, waiter := some w, isWriter := isWriter, linked := false }

structure WaitList where
  locked : Bool := false
  queue : List Nid := []
  writers : Nat := 0
  len : Nat := 0
  node : Nid → Node := fun _ => {}

namespace WaitList

/-- `ListGuard::link_back` -/
def linkBack (wl : WaitList) (n : Nid) : WaitList :=
  { wl with
    queue := wl.queue ++ [n]
    node := upd wl.node n { wl.node n with linked := true }
    writers := if (wl.node n).isWriter then wl.writers + 1 else wl.writers
    len := wl.len + 1 }

/-- `ListGuard::unlink` (the returned flag is `wasLinked wl n`) -/
def unlink (wl : WaitList) (n : Nid) : WaitList :=
  if (wl.node n).linked then
    { wl with
      queue := wl.queue.erase n
      node := upd wl.node n { wl.node n with linked := false }
      writers := if (wl.node n).isWriter then wl.writers - 1 else wl.writers
      len := wl.len - 1 }
  else wl

def wasLinked (wl : WaitList) (n : Nid) : Bool := (wl.node n).linked

/-- non-atomic half of `ListGuard::rearm`: register a fresh waiter handle -/
def setWaiter (wl : WaitList) (n : Nid) (w : Waiter) : WaitList :=
  { wl with node := upd wl.node n { wl.node n with waiter := some w } }

/-- the `state.store(WAITING)` / `state.store(WOKEN)` of `rearm` / `take_and_mark_woken` -/
def setWoken (wl : WaitList) (n : Nid) (b : Bool) : WaitList :=
  { wl with node := upd wl.node n { wl.node n with woken := b } }

/-- `ListGuard::take_and_mark_woken`: take the waiter handle and store `WOKEN` -/
def takeAndMark (wl : WaitList) (n : Nid) : WaitList :=
  { wl with node := upd wl.node n { wl.node n with waiter := none, woken := true } }

/-- a new node is written into the table (stack slot / `Box::new`) -/
def putNode (wl : WaitList) (n : Nid) (nd : Node) : WaitList :=
  { wl with node := upd wl.node n nd }

/-- `ListGuard::first_writer` -/
def firstWriter (wl : WaitList) : Option Nid :=
  wl.queue.find? (fun n => (wl.node n).isWriter)

def setLocked (wl : WaitList) (b : Bool) : WaitList := { wl with locked := b }

/-- the list invariant of C10(d): the queue is exactly the set of linked nodes, without
repetition, and the two counters agree with it -/
structure WF (wl : WaitList) : Prop where
  nodup : wl.queue.Nodup
  linked : ∀ n, (wl.node n).linked = true ↔ n ∈ wl.queue
  len : wl.len = wl.queue.length
  writers : wl.writers = wl.queue.countP (fun n => (wl.node n).isWriter)

end WaitList

/-! ### generic machine vocabulary -/

/-- reachability for a step function given as the list of enabled transitions of a thread -/
inductive ReachOf {σ L : Type} (next : σ → Tid → List (L × σ)) (init : σ → Prop) : σ → Prop
  | init {s} : init s → ReachOf next init s
  | step {s s' t l} : ReachOf next init s → (l, s') ∈ next s t → ReachOf next init s'

/-- the invariant rule -/
theorem ReachOf.inv {σ L : Type} {next : σ → Tid → List (L × σ)} {init : σ → Prop}
    (I : σ → Prop) (h0 : ∀ s, init s → I s)
    (hs : ∀ s t l s', I s → (l, s') ∈ next s t → I s') :
    ∀ s, ReachOf next init s → I s := by
  intro s h
  induction h with
  | init h => exact h0 _ h
  | step _ hm ih => exact hs _ _ _ _ ih hm

/-- `step s t l = some s'` view of a `next` function (first enabled transition with that label) -/
def stepOf {σ L : Type} [DecidableEq L] (next : σ → Tid → List (L × σ)) (s : σ) (t : Tid) (l : L) : Option σ :=
  ((next s t).find? (fun p => p.1 = l)).map (·.2)

theorem stepOf_mem {σ L : Type} [DecidableEq L] {next : σ → Tid → List (L × σ)} {s s' : σ} {t : Tid} {l : L}
    (h : stepOf next s t l = some s') : (l, s') ∈ next s t := by
  unfold stepOf at h
  cases hf : (next s t).find? (fun p => p.1 = l) with
  | none => simp [hf] at h
  | some p =>
    simp [hf] at h
    have hm := List.mem_of_find?_eq_some hf
    have hp := List.find?_some hf
    simp at hp
    subst h; subst hp
    exact hm

/-- run a schedule given as (thread, index into the enabled list) pairs -/
def execOf {σ L : Type} (next : σ → Tid → List (L × σ)) : σ → List (Tid × Nat) → Option σ
  | s, [] => some s
  | s, (t, i) :: rest =>
    match (next s t)[i]? with
    | some (_, s') => execOf next s' rest
    | none => none

theorem execOf_reach {σ L : Type} {next : σ → Tid → List (L × σ)} {init : σ → Prop} :
    ∀ (sched : List (Tid × Nat)) (s s' : σ), ReachOf next init s → execOf next s sched = some s' →
      ReachOf next init s' := by
  intro sched
  induction sched with
  | nil => intro s s' h he; simp [execOf] at he; subst he; exact h
  | cons p rest ih =>
    intro s s' h he
    obtain ⟨t, i⟩ := p
    simp only [execOf] at he
    cases hg : (next s t)[i]? with
    | none => simp [hg] at he
    | some q =>
      obtain ⟨l, s1⟩ := q
      simp [hg] at he
      exact ih s1 s' (ReachOf.step h (List.mem_of_getElem? hg)) he

end Fv.Sync
