import Fv.Sync.WaitList
/-
B-level model of `fibre::sync::HybridMutex` (`channels/src/sync/mutex.rs`), one visible action
per step.  Every `pc` below names the NEXT visible action of the thread; the non-atomic work the
code does between two visible actions (node initialisation, `link_back`, `unlink`, reading
`head`/`len`, taking the waiter handle, freeing a node, bumping a counting waker) is folded into
the step of the visible action that PRECEDES it - that is how the baton scheduler executes it.

Code ↔ pc map (mutex.rs):
  try_acquire                       taLoad k → taCas k           (k: which caller)
  lock / lock_slow spin loop        taLoad/taCas lockFast, lockSpin, spinYield
  `self.waiters.lock()`             llSwap k → (llLoad k → llSpin k → llLoad k … → llSwap k)
  lock_slow queue block / poll      qRearm (state.store WAITING) → qFetchOr → qLoad ⇄ qCas
  fix_flags                         ff a            (one RMW; `a` = what follows the guard drop)
  `drop(g)` (ListGuard)             llRel a
  `while state == WAITING { park }` wLoad ⇄ wPark
  unlock                            relAnd
  wake_next                         llSwap wakeNext → wnStore (take_and_mark_woken) → llRel wake → wnWake
  MutexFuture::drop                 llSwap drop → [ff] → llRel dropLoad → dLoad → [wake_next]
  finish_node                       llSwap finish → [ff] → llRel retReady
  harness `block_on`                boPark (poll → Pending → park → poll …)

Configuration (`Cfg`): `SPIN_YIELDS`, `POLL_ATTEMPTS` (both 1 under `--cfg loom`).
Programs are parameters (`State.prog`).  Ghost: `holders` (owner thread, exclusive?) - an entry
is added by the acquiring CAS and removed by the releasing `fetch_and`.  Guards are `Send`:
`give` moves one to another thread (the harness teardown releases leftovers from thread 0).
-/
namespace Fv.Sync.Mutex
open Fv.Sync

structure Cfg where
  spinYields : Nat := 1
  pollAttempts : Nat := 1
  deriving Repr

/-- state word: `LOCKED = 1`, `HAS_QUEUED = 2` -/
structure MWord where
  locked : Bool := false
  hq : Bool := false
  deriving DecidableEq, Repr

def MWord.toNat (w : MWord) : Nat := b2n w.locked + 2 * b2n w.hq

inductive MOp
  | lock
  | tryLock
  | unlock
  | give (to : Tid)          -- move one guard to another thread (no lock action)
  | lockAsync (f : Fid)      -- `block_on(m.lock_async())`; `f` names the implicit future
  | newFut (f : Fid)         -- `fut f = lock_fut`
  | poll (f : Fid)
  | dropFut (f : Fid)
  | wakes (f : Fid)
  deriving DecidableEq, Repr

/-- callers of `try_acquire` -/
inductive TaK | lockFast | lockSpin | tryLock | asyncFirst | pollTry
  deriving DecidableEq, Repr

/-- purposes of `self.waiters.lock()` -/
inductive LlK | spinUnlink | queue | wakeNext | finish | drop
  deriving DecidableEq, Repr

/-- what follows the release of the list guard -/
inductive After | retOk | retReady | dropLoad | parkLoad | pending | wake
  deriving DecidableEq, Repr

inductive Pc
  | idle
  | taLoad (k : TaK) | taCas (k : TaK)
  | spinYield
  | llSwap (k : LlK) | llLoad (k : LlK) | llSpin (k : LlK)
  | qRearm | qFetchOr | qLoad | qCas
  | ff (a : After)
  | llRel (a : After)
  | wLoad | wPark
  | relAnd
  | wnStore | wnWake
  | dLoad
  | boPark
  | ret (r : Res)
  deriving DecidableEq, Repr

structure Thread where
  pc : Pc := .idle
  sv : MWord := {}          -- `s`: the last value loaded from the state word
  linked : Bool := false    -- `lock_slow`'s local `linked`
  i : Nat := 0              -- loop counter (spin iterations / poll attempts)
  cur : Option Fid := none  -- the future being polled or dropped (`none`: sync path)
  blockOn : Bool := false   -- the poll runs inside the harness `block_on` executor
  tgt : Nid := .thr 0       -- `wake_next`'s `head`
  w : Option Waiter := none -- the handle returned by `take_and_mark_woken`
  deriving Repr

inductive FPhase
  | absent                        -- not created / dropped / consumed
  | fresh                         -- `lock_async()` future created, never polled
  | startedNoNode                 -- `MutexFuture` exists, `node` is null
  | startedNode                   -- … `node` allocated
  | done                          -- returned `Ready`
  deriving DecidableEq, Repr

structure Fut where
  phase : FPhase := .absent
  busy : Bool := false            -- a thread is inside poll/drop of this future (`&mut` exclusivity)
  bo : Bool := false              -- ghost: driven by the harness `block_on` (waker = unpark) rather than polled manually
  deriving DecidableEq, Repr

structure State where
  word : MWord := {}
  wl : WaitList := {}
  token : Tid → Bool := fun _ => false
  wakes : Fid → Nat := fun _ => 0
  fut : Fid → Fut := fun _ => {}
  th : Tid → Thread := fun _ => {}
  prog : Tid → List MOp := fun _ => []
  holders : List (Tid × Bool) := []

abbrev Lbl := Label MOp
abbrev Tr := List (Lbl × State)

def init (prog : Tid → List MOp) : State := { prog := prog }

def setTh (s : State) (t : Tid) (th : Thread) : State := { s with th := upd s.th t th }
def withPc (s : State) (t : Tid) (pc : Pc) : State := setTh s t { s.th t with pc := pc }

def curF (th : Thread) : Fid := th.cur.getD 0

/-- the node of the current waiter: stack node of the thread, or heap node of the future -/
def me (t : Tid) (th : Thread) : Nid :=
  match th.cur with
  | none => .thr t
  | some f => .fut f

/-- `Waiter::Thread(thread::current())` / `Waiter::Task(cx.waker().clone())` -/
def myWaiter (t : Tid) (th : Thread) : Waiter :=
  match th.cur with
  | none => .thread t
  | some f => if th.blockOn then .thread t else .task f

/-- end of a poll: `Ready`/`Pending` handed to the manual poller or to `block_on` -/
def pollDone (s : State) (t : Tid) (ready : Bool) : State :=
  let th := s.th t
  let f := curF th
  if th.blockOn then
    if ready then
      { s with fut := upd s.fut f { s.fut f with phase := .absent, busy := false }
               th := upd s.th t { th with pc := .ret .ok } }
    else withPc s t .boPark
  else if ready then
    { s with fut := upd s.fut f { s.fut f with phase := .done, busy := false }
             th := upd s.th t { th with pc := .ret .ready } }
  else
    { s with fut := upd s.fut f { s.fut f with busy := false }
             th := upd s.th t { th with pc := .ret .pending } }

/-- head of the `for _ in 0..SPIN_YIELDS` loop in `lock_slow` -/
def spinHead (cfg : Cfg) (s : State) (t : Tid) : State :=
  if (s.th t).i < cfg.spinYields then withPc s t (.taLoad .lockSpin) else withPc s t (.llSwap .queue)

/-- head of the `for _ in 0..POLL_ATTEMPTS` loop in `MutexFuture::poll`; after the loop the node
is allocated if needed and the list lock is taken -/
def pollHead (cfg : Cfg) (s : State) (t : Tid) : State :=
  let th := s.th t
  if th.i < cfg.pollAttempts then withPc s t (.taLoad .pollTry)
  else
    let f := curF th
    let s1 : State :=
      if (s.fut f).phase = .startedNoNode then
        { s with wl := s.wl.putNode (.fut f) (Node.fresh true (myWaiter t th))
                 fut := upd s.fut f { s.fut f with phase := .startedNode } }
      else s
    withPc s1 t (.llSwap .queue)

/-- `try_acquire` returned true -/
def taSucc (s : State) (t : Tid) (k : TaK) : State :=
  let th := s.th t
  match k with
  | .lockFast => withPc s t (.ret .ok)
  | .lockSpin => if th.linked then withPc s t (.llSwap .spinUnlink) else withPc s t (.ret .ok)
  | .tryLock => withPc s t (.ret .ok)
  | .asyncFirst => pollDone s t true
  | .pollTry =>   -- finish_node
    if (s.fut (curF th)).phase = .startedNode then withPc s t (.llSwap .finish) else pollDone s t true

/-- `try_acquire` returned false -/
def taFail (cfg : Cfg) (s : State) (t : Tid) (k : TaK) : State :=
  let th := s.th t
  match k with
  | .lockFast =>   -- enter lock_slow: `WaiterNode::new_sync(true)`, `linked = false`
    spinHead cfg { s with wl := s.wl.putNode (.thr t) (Node.fresh true (.thread t))
                          th := upd s.th t { th with linked := false, i := 0 } } t
  | .lockSpin => withPc s t .spinYield
  | .tryLock => withPc s t (.ret .none)
  | .asyncFirst =>   -- `MutexFuture { node: null, done: false }.await`
    pollHead cfg { s with fut := upd s.fut (curF th) { s.fut (curF th) with phase := .startedNoNode }
                          th := upd s.th t { th with i := 0 } } t
  | .pollTry => pollHead cfg (setTh s t { th with i := th.i + 1 }) t

/-- the list spinlock was just acquired for purpose `k`: non-atomic work up to the next visible action -/
def llEnter (s : State) (t : Tid) (k : LlK) : State :=
  let th := s.th t
  let n := me t th
  match k with
  | .spinUnlink => withPc { s with wl := s.wl.unlink n } t (.ff .retOk)
  | .queue => withPc { s with wl := s.wl.setWaiter n (myWaiter t th) } t .qRearm
  | .wakeNext =>
    match s.wl.queue.head? with
    | none => setTh s t { th with pc := .ff .wake, w := none }   -- `fix_flags; return` (nobody to wake)
    | some h => setTh s t { th with pc := .wnStore, tgt := h }
  | .finish =>
    if s.wl.wasLinked n then withPc { s with wl := s.wl.unlink n } t (.ff .retReady)
    else withPc s t (.llRel .retReady)
  | .drop =>
    if s.wl.wasLinked n then withPc { s with wl := s.wl.unlink n } t (.ff .dropLoad)
    else withPc s t (.llRel .dropLoad)

/-- the list guard was just dropped -/
def afterRel (s : State) (t : Tid) (a : After) : State :=
  let th := s.th t
  match a with
  | .retOk => withPc s t (.ret .ok)
  | .retReady =>   -- `drop(Box::from_raw(node)); this.node = null; this.done = true`
    pollDone { s with fut := upd s.fut (curF th) { s.fut (curF th) with phase := .startedNoNode } } t true
  | .dropLoad => withPc s t .dLoad
  | .parkLoad => withPc s t .wLoad
  | .pending => pollDone s t false
  | .wake =>
    match th.w with
    | none => withPc s t (.ret .ok)
    | some (.task f) => withPc { s with wakes := upd s.wakes f (s.wakes f + 1) } t (.ret .ok)
    | some (.thread _) => withPc s t .wnWake

/-- `call op` -/
def callStep (cfg : Cfg) (s : State) (t : Tid) (op : MOp) : State :=
  let th := s.th t
  match op with
  | .lock => setTh s t { th with pc := .taLoad .lockFast, cur := none, blockOn := false }
  | .tryLock => setTh s t { th with pc := .taLoad .tryLock, cur := none, blockOn := false }
  | .unlock =>
    if (t, true) ∈ s.holders then withPc s t .relAnd else withPc s t (.ret .invalid)
  | .give to =>
    if (t, true) ∈ s.holders then
      withPc { s with holders := (to, true) :: s.holders.erase (t, true) } t (.ret .ok)
    else withPc s t (.ret .invalid)
  | .lockAsync f =>
    if (s.fut f).phase = .absent ∧ (s.fut f).busy = false then
      { s with fut := upd s.fut f { phase := .fresh, busy := true, bo := true }
               th := upd s.th t { th with pc := .taLoad .asyncFirst, cur := some f, blockOn := true } }
    else withPc s t (.ret .invalid)
  | .newFut f =>
    if (s.fut f).phase = .absent ∧ (s.fut f).busy = false then
      withPc { s with fut := upd s.fut f { phase := .fresh, busy := false, bo := false } } t (.ret .ok)
    else withPc s t (.ret .invalid)
  | .poll f =>
    if (s.fut f).busy then withPc s t (.ret .invalid)
    else match (s.fut f).phase with
      | .fresh =>
        { s with fut := upd s.fut f { s.fut f with busy := true }
                 wakes := upd s.wakes f 0
                 th := upd s.th t { th with pc := .taLoad .asyncFirst, cur := some f, blockOn := false } }
      | .startedNoNode | .startedNode =>
        pollHead cfg
          { s with fut := upd s.fut f { s.fut f with busy := true }
                   wakes := upd s.wakes f 0
                   th := upd s.th t { th with cur := some f, blockOn := false, i := 0 } } t
      | _ => withPc s t (.ret .invalid)
  | .dropFut f =>
    if (s.fut f).busy then withPc s t (.ret .invalid)
    else match (s.fut f).phase with
      | .absent => withPc s t (.ret .invalid)
      | .startedNode =>
        { s with fut := upd s.fut f { s.fut f with busy := true }
                 th := upd s.th t { th with pc := .llSwap .drop, cur := some f, blockOn := false } }
      | _ => withPc { s with fut := upd s.fut f { s.fut f with phase := .absent, busy := false } } t (.ret .ok)
  | .wakes f => withPc s t (.ret (.n (s.wakes f)))

/-! ### one function per pc -/

def nIdle (cfg : Cfg) (s : State) (t : Tid) : Tr :=
  match s.prog t with
  | [] => []
  | op :: _ => [(.call op, callStep cfg s t op)]

def nRet (s : State) (t : Tid) (r : Res) : Tr :=
  [(.ret r, { s with th := upd s.th t { s.th t with pc := .idle }, prog := upd s.prog t (s.prog t).tail })]

def nTaLoad (cfg : Cfg) (s : State) (t : Tid) (k : TaK) : Tr :=
  [(.load .state .relaxed s.word.toNat,
    if s.word.locked then taFail cfg s t k
    else setTh s t { s.th t with pc := .taCas k, sv := s.word })]

def nTaCas (cfg : Cfg) (s : State) (t : Tid) (k : TaK) : Tr :=
  if s.word = (s.th t).sv then
    let w' : MWord := { (s.th t).sv with locked := true }
    [(.cas .state false .acquire .relaxed s.word.toNat w'.toNat true,
      taSucc { s with word := w', holders := (t, true) :: s.holders } t k)]
  else
    [(.cas .state false .acquire .relaxed s.word.toNat s.word.toNat false, taFail cfg s t k)]

def nSpinYield (cfg : Cfg) (s : State) (t : Tid) : Tr :=
  [(.yield, spinHead cfg (setTh s t { s.th t with i := (s.th t).i + 1 }) t)]

def nLlSwap (s : State) (t : Tid) (k : LlK) : Tr :=
  [(.rmw .listLock .swap .acquire (b2n s.wl.locked) 1,
    if s.wl.locked then withPc s t (.llLoad k)
    else llEnter { s with wl := s.wl.setLocked true } t k)]

def nLlLoad (s : State) (t : Tid) (k : LlK) : Tr :=
  [(.load .listLock .relaxed (b2n s.wl.locked),
    if s.wl.locked then withPc s t (.llSpin k) else withPc s t (.llSwap k))]

def nLlSpin (s : State) (t : Tid) (k : LlK) : Tr :=
  [(.spin, withPc s t (.llLoad k))]

/-- `rearm`'s `state.store(WAITING, Relaxed)`, then `if !linked { link_back }` -/
def nQRearm (s : State) (t : Tid) : Tr :=
  let th := s.th t
  let n := me t th
  let wl1 := s.wl.setWoken n false
  let isLinked := match th.cur with
    | none => th.linked                 -- lock_slow: the local flag
    | some _ => wl1.wasLinked n         -- poll: `g.is_linked(node)`
  let wl2 := if isLinked then wl1 else wl1.linkBack n
  [(.store (.nodeState n) .relaxed 0,
    { s with wl := wl2, th := upd s.th t { th with pc := .qFetchOr, linked := true } })]

def nQFetchOr (s : State) (t : Tid) : Tr :=
  let w' : MWord := { s.word with hq := true }
  [(.rmw .state .or .relaxed s.word.toNat w'.toNat, withPc { s with word := w' } t .qLoad)]

def nQLoad (s : State) (t : Tid) : Tr :=
  let th := s.th t
  [(.load .state .relaxed s.word.toNat,
    if s.word.locked then
      withPc s t (.llRel (match th.cur with | none => .parkLoad | some _ => .pending))
    else setTh s t { th with pc := .qCas, sv := s.word })]

def nQCas (s : State) (t : Tid) : Tr :=
  let th := s.th t
  if s.word = th.sv then
    let w' : MWord := { th.sv with locked := true }
    [(.cas .state false .acquire .relaxed s.word.toNat w'.toNat true,
      withPc { s with word := w', holders := (t, true) :: s.holders, wl := s.wl.unlink (me t th) } t
        (.ff (match th.cur with | none => .retOk | some _ => .retReady)))]
  else
    [(.cas .state false .acquire .relaxed s.word.toNat s.word.toNat false, withPc s t .qLoad)]

/-- `fix_flags` -/
def nFf (s : State) (t : Tid) (a : After) : Tr :=
  if s.wl.len = 0 then
    let w' : MWord := { s.word with hq := false }
    [(.rmw .state .and .relaxed s.word.toNat w'.toNat, withPc { s with word := w' } t (.llRel a))]
  else
    let w' : MWord := { s.word with hq := true }
    [(.rmw .state .or .relaxed s.word.toNat w'.toNat, withPc { s with word := w' } t (.llRel a))]

def nLlRel (s : State) (t : Tid) (a : After) : Tr :=
  [(.store .listLock .release 0, afterRel { s with wl := s.wl.setLocked false } t a)]

def nWLoad (cfg : Cfg) (s : State) (t : Tid) : Tr :=
  let th := s.th t
  let n := me t th
  [(.load (.nodeState n) .acquire (b2n (s.wl.node n).woken),
    if (s.wl.node n).woken then spinHead cfg (setTh s t { th with i := 0 }) t
    else withPc s t .wPark)]

def nWPark (s : State) (t : Tid) : Tr :=
  (if s.token t then [(.park, withPc { s with token := upd s.token t false } t .wLoad)] else [])
    ++ [(.parkSpur, withPc s t .wLoad)]

def nRelAnd (s : State) (t : Tid) : Tr :=
  let w' : MWord := { s.word with locked := false }
  let s1 : State := { s with word := w', holders := s.holders.erase (t, true) }
  [(.rmw .state .and .release s.word.toNat w'.toNat,
    if s.word.hq then withPc s1 t (.llSwap .wakeNext) else withPc s1 t (.ret .ok))]

/-- `take_and_mark_woken(head)`: take the handle, `state.store(WOKEN, Release)` -/
def nWnStore (s : State) (t : Tid) : Tr :=
  let th := s.th t
  [(.store (.nodeState th.tgt) .release 1,
    { s with wl := s.wl.takeAndMark th.tgt
             th := upd s.th t { th with pc := .llRel .wake, w := (s.wl.node th.tgt).waiter } })]

def nWnWake (s : State) (t : Tid) : Tr :=
  match (s.th t).w with
  | some (.thread u) => [(.unpark u, withPc { s with token := upd s.token u true } t (.ret .ok))]
  | _ => []

/-- `MutexFuture::drop`: `was_woken = state.load(Acquire) == WOKEN`, free the node, forward -/
def nDLoad (s : State) (t : Tid) : Tr :=
  let th := s.th t
  let f := curF th
  let n : Nid := .fut f
  let s1 : State := { s with fut := upd s.fut f { s.fut f with phase := .absent, busy := false } }
  [(.load (.nodeState n) .acquire (b2n (s.wl.node n).woken),
    if (s.wl.node n).woken then withPc s1 t (.llSwap .wakeNext) else withPc s1 t (.ret .ok))]

/-- `block_on`: `Pending => park()`, then poll again -/
def nBoPark (cfg : Cfg) (s : State) (t : Tid) : Tr :=
  (if s.token t then
      [(.park, pollHead cfg { s with token := upd s.token t false, th := upd s.th t { s.th t with i := 0 } } t)]
    else [])
    ++ [(.parkSpur, pollHead cfg (setTh s t { s.th t with i := 0 }) t)]

/-- the enabled transitions of thread `t` -/
def next (cfg : Cfg) (s : State) (t : Tid) : Tr :=
  match (s.th t).pc with
  | .idle => nIdle cfg s t
  | .taLoad k => nTaLoad cfg s t k
  | .taCas k => nTaCas cfg s t k
  | .spinYield => nSpinYield cfg s t
  | .llSwap k => nLlSwap s t k
  | .llLoad k => nLlLoad s t k
  | .llSpin k => nLlSpin s t k
  | .qRearm => nQRearm s t
  | .qFetchOr => nQFetchOr s t
  | .qLoad => nQLoad s t
  | .qCas => nQCas s t
  | .ff a => nFf s t a
  | .llRel a => nLlRel s t a
  | .wLoad => nWLoad cfg s t
  | .wPark => nWPark s t
  | .relAnd => nRelAnd s t
  | .wnStore => nWnStore s t
  | .wnWake => nWnWake s t
  | .dLoad => nDLoad s t
  | .boPark => nBoPark cfg s t
  | .ret r => nRet s t r

/-- `step s t l = some s'`: thread `t` can perform visible action `l` in `s`, leading to `s'` -/
def step (cfg : Cfg) (s : State) (t : Tid) (l : Lbl) : Option State := stepOf (next cfg) s t l

def IsInit (s : State) : Prop := ∃ prog, s = init prog

/-- reachable states: all programs, all interleavings -/
abbrev Reach (cfg : Cfg) : State → Prop := ReachOf (next cfg) IsInit

def exec (cfg : Cfg) : State → List (Tid × Nat) → Option State := execOf (next cfg)

end Fv.Sync.Mutex
