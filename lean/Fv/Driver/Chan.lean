import Fv.Driver.Proto
import Fv.Chan.Lin
import Fv.Chan.Bcast
import Fv.Chan.Fut
/-
Engine `chan`: replays the history transcripts of `chanh` (see /verif/harness/chan/README.md).

  #case <id> flavour=<f> cap=<n> threads=<k> strategy=.. seed=.. mode=<seq|conc|...>
  P/S lines ignored; `C <tid> <op>` / `R <tid> <result>` events; `X <status>`; `D <id>:<drops> ...`

* sequential cases (`mode=seq` or `threads<=1`): every `C`/`R` pair is replayed through Q
  (`Fv.Chan.stepOp`) and the observable result compared exactly; an operation that never returns
  (`X deadlock`) must be `blocks` in the model.
* concurrent cases: the events are collected and the linearizability checker runs at `#end`
  (`MISMATCH … not-linearizable prefix=<k>` names the shortest failing prefix).
* `D` lines are compared with the model's per-token drop count (`St.dropCount`).
Cases the point-to-point model does not cover (locks, broadcast, manual futures) are accepted
and counted under TAG `skipped:*`.
-/
namespace Fv.Driver.Chan
open Fv.Chan

structure CaseSt where
  fl : Flavour := default
  flTok : String := "?"
  skip : Option String := none       -- reason the case is not checked
  seqMode : Bool := true
  s : St := {}
  b : Option BSt := none            -- broadcast (spmc) cases
  futMode : Bool := false           -- mode=async: manual-poll futures, checked with `linearizeF`
  histF : List EvF := []            -- reversed
  futOps : List (Nat × Op) := []    -- future name ↦ the blocking form it was made from
  pending : Option (Nat × Op) := none
  hist : List Ev := []               -- reversed
  nOps : Nat := 0
  drops : Option (List (Nat × Nat)) := none
  status : String := ""
  /-- size distribution of the generated cases (evidence TAGs): generator family, capacity, thread count -/
  sizeTags : List String := []
  /-- largest batch (send: items offered, receive: items asked for) of the case -/
  maxBatch : Nat := 0
  deriving Inhabited

def kv (ws : List String) (key : String) : Option String :=
  (ws.find? (fun w => w.startsWith (key ++ "="))).map (fun w => (w.drop (key.length + 1)).toString)

def parseFlavour (tok : String) (cap : Nat) : Option Flavour :=
  let isAsync := tok.endsWith "_async"
  let base := if isAsync then (tok.dropEnd 6).toString else tok
  let mk := fun (f : Fam) (k : Kind) => some { fam := f, kind := k, cap := cap, async0 := isAsync : Flavour }
  match base with
  | "spsc" => mk .sb .spsc
  | "mpsc_b" => mk .mb .mpsc
  | "mpsc_u" => mk .mu .mpsc
  | "mpmc_b" => mk .pb .mpmc
  | "mpmc_u" => mk .pu .mpmc
  | "rdv_spsc" => mk .rv .spsc
  | "rdv_mpsc" => mk .rv .mpsc
  | "rdv_mpmc" => mk .rv .mpmc
  | "oneshot" => mk .os .oneshot
  | _ => none

def sizeTagsOf (ws : List String) : List String :=
  let cap := ((kv ws "cap").bind String.toNat?).getD 0
  let threads := ((kv ws "threads").bind String.toNat?).getD 0
  [s!"x:fam:{(kv ws "fam").getD "classic"}", s!"x:cap:{cap}",
   s!"x:threads:{if threads ≤ 3 then toString threads else if threads ≤ 5 then "4-5" else "6+"}"]

def batchBucket (n : Nat) : String :=
  if n ≤ 4 then "0-4" else if n ≤ 15 then "5-15" else if n ≤ 40 then "16-40" else "41+"

def init0 (ws : List String) : Except String CaseSt :=
  match kv ws "flavour" with
  | none => .error "missing flavour"
  | some f =>
    let cap := ((kv ws "cap").bind String.toNat?).getD 0
    let threads := ((kv ws "threads").bind String.toNat?).getD 1
    let seqMode := (kv ws "mode") == some "seq" || threads ≤ 1
    match parseFlavour f cap with
    | some fl =>
      if (kv ws "mode") == some "async" then .ok { fl := fl, flTok := f, seqMode := false, futMode := true, s := Fv.Chan.init fl }
      else .ok { fl := fl, flTok := f, seqMode := seqMode, s := Fv.Chan.init fl }
    | none =>
      if f == "spmc" || f == "spmc_async" then
        if seqMode then .ok { seqMode := true, b := some (binit cap (f == "spmc_async")) }
        else .ok { skip := some "skipped:spmc-conc" }
      else .ok { skip := some s!"skipped:flavour:{f}" }

def init (ws : List String) : Except String CaseSt :=
  (init0 ws).map (fun st => { st with sizeTags := sizeTagsOf ws })

def parseH (s : String) : Option HName :=
  match s.toList with
  | 's' :: r => (String.ofList r).toNat?.map (fun i => ⟨.tx, i⟩)
  | 'r' :: r => (String.ofList r).toNat?.map (fun i => ⟨.rx, i⟩)
  | _ => none

def sendForm? : String → Option Form
  | "send" => some .send | "try_send" => some .trySend
  | "send_batch" => some .sendBatch | "try_send_batch" => some .trySendBatch
  | "send_batch_mut" => some .sendBatchMut | "try_send_batch_mut" => some .trySendBatchMut
  | _ => none

/-- `recv_timeout h` — the timed receive with a real timeout (harness README "Timed parking") — is a blocking receive
that may ALSO return Timeout at any point while it has not received. In the history model that is exactly the
behaviour of form `recvTimeout0` placed anywhere inside the call's interval: the search may leave the operation in its
`fresh` state (rendezvous: registered, `rvTo 1`) for as long as it likes; its step then either takes what is there
(`ok`), reports the last sender gone (`disconnected`), or — only on an empty channel — reports `timeout` without
consuming anything (rendezvous: through the cancel steps `rvTo 1 → 2`, finding F1). A timed receive always returns
(the scheduler fires its timeout when nothing else can run), so it never is a deadlock participant and the quiescence
rule never sees it. Both spellings therefore parse to the same form. -/
def recvForm? : String → Option Form
  | "recv" => some .recv | "try_recv" => some .tryRecv | "recv_timeout0" => some .recvTimeout0
  | "recv_timeout" => some .recvTimeout0
  | "recv_batch" => some .recvBatch | "try_recv_batch" => some .tryRecvBatch
  | "recv_batch_mut" => some .recvBatchMut | "try_recv_batch_mut" => some .tryRecvBatchMut
  | _ => none

def probe? : String → Option Probe
  | "len" => some .len | "is_empty" => some .isEmpty | "is_full" => some .isFull
  | "capacity" => some .capacity | "is_closed" => some .isClosed
  | "sender_count" => some .senderCount | "is_sent" => some .isSent
  | _ => none

def parseOp (ws : List String) : Option Op :=
  match ws with
  | [name, h] =>
    match parseH h with
    | none => none
    | some hn =>
      match recvForm? name, probe? name, name with
      | some f, _, _ => some (.rcv f hn 0)
      | _, some p, _ => some (.probe p hn)
      | _, _, "close" => some (.close hn)
      | _, _, "drop" => some (.drop hn)
      | _, _, "to_async" => some (.toAsync hn)
      | _, _, "to_sync" => some (.toSync hn)
      | _, _, _ => none
  | [name, h, a] =>
    match parseH h with
    | none => none
    | some hn =>
      match sendForm? name, recvForm? name, name with
      | some f, _, _ => (natList? a).map (fun vs => .snd f hn vs)
      | _, some f, _ => a.toNat?.map (fun n => .rcv f hn n)
      | _, _, "clone" => (parseH a).map (fun h2 => .clone hn h2)
      | _, _, _ => none
  | _ => none

/-! ### result tokens -/

def showTag : Tag → String
  | .ok => "ok" | .full => "full" | .closed => "closed" | .sentAlready => "sent" | .empty => "empty"
  | .disconnected => "disconnected" | .timeout => "timeout" | .closeErr => "close" | .blocks => "blocks"
  | .unsupported => "unsupported" | .noHandle => "nohandle" | .nameExists => "exists"
  | .pending => "pending" | .busy => "busy" | .noFut => "nofut" | .futDone => "futdone"

def showPVal : PVal → String
  | .none => "-" | .n k => s!"n:{k}" | .b x => toString x
  | .capOpt (some k) => s!"some:{k}" | .capOpt none => "none"

def showRes (r : Res) : String :=
  s!"{showTag r.tag}/cnt={r.cnt}/vals={showNatList r.vals}/{showPVal r.val}"

def errTag? : String → Option Tag
  | "full" => some .full | "closed" => some .closed | "sent" => some .sentAlready | "empty" => some .empty
  | "disconnected" => some .disconnected | "timeout" => some .timeout | "close" => some .closeErr
  | _ => none

/-- value of `key=[..]` inside a `:`-separated result token -/
def field? (parts : List String) (key : String) : Option (List Nat) :=
  match parts.find? (fun p => p.startsWith (key ++ "=")) with
  | some p => natList? (p.drop (key.length + 1)).toString
  | none => none

/-- Parse the harness' result token into the observable result of `op`. -/
def parseRes (op : Op) (tok : String) : Option Res :=
  let parts := tok.splitOn ":"
  match tok with
  | "unsupported" => some { tag := .unsupported }
  | "invalid:nohandle" => some { tag := .noHandle }
  | "invalid:exists" => some { tag := .nameExists }
  | "true" => some { tag := .ok, val := .b true }
  | "false" => some { tag := .ok, val := .b false }
  | "none" => some { tag := .ok, val := .capOpt none }
  | "n:max" => some { tag := .ok, val := .n (WORD - 1) }
  | _ =>
  match parts with
  | ["ok"] =>
    match op with
    | .snd _ _ _ => some { tag := .ok, cnt := 1 }
    | _ => some { tag := .ok }
  | ["some", k] => k.toNat?.map (fun k => { tag := .ok, val := .capOpt (some k) })
  | ["ok", v] =>
    -- `ok:5` or `ok:[1,2]`
    if v.startsWith "[" then (natList? v).map (fun vs => { tag := .ok, vals := vs, cnt := vs.length })
    else v.toNat?.map (fun x => { tag := .ok, vals := [x], cnt := 1 })
  | ["n", k] =>
    match op, k.toNat? with
    | .snd _ _ _, some k => some { tag := .ok, cnt := k }
    | .probe _ _, some k => some { tag := .ok, val := .n k }
    | _, _ => none
  | ["n", k, rest] =>
    match k.toNat?, field? [rest] "left", field? [rest] "out" with
    | some k, some l, _ => some { tag := .ok, cnt := k, vals := l }
    | some k, _, some o => if o.length = k then some { tag := .ok, cnt := k, vals := o } else none
    | _, _, _ => none
  | "err" :: t :: rest =>
    match errTag? t with
    | none => none
    | some tag =>
      match rest with
      | [] => some { tag := tag }
      | [x] =>
        match x.toNat?, field? [x] "left", field? [x] "out" with
        | some v, _, _ => some { tag := tag, vals := [v] }
        | _, some l, _ => some { tag := tag, vals := l }
        | _, _, some o => some { tag := tag, vals := o, cnt := o.length }
        | _, _, _ => none
      | _ =>
        match field? rest "sent", field? rest "unsent" with
        | some s, some u => some { tag := tag, cnt := s.length, vals := u }
        | _, _ => none
  | _ => none

def formName : Form → String
  | .send => "send" | .trySend => "try_send" | .sendBatch => "send_batch" | .trySendBatch => "try_send_batch"
  | .sendBatchMut => "send_batch_mut" | .trySendBatchMut => "try_send_batch_mut"
  | .recv => "recv" | .tryRecv => "try_recv" | .recvTimeout0 => "recv_timeout0"
  | .recvBatch => "recv_batch" | .tryRecvBatch => "try_recv_batch"
  | .recvBatchMut => "recv_batch_mut" | .tryRecvBatchMut => "try_recv_batch_mut"

def opName : Op → String
  | .snd f _ _ => formName f | .rcv f _ _ => formName f
  | .clone _ _ => "clone" | .close _ => "close" | .drop _ => "drop" | .probe _ _ => "probe"
  | .toAsync _ => "to_async" | .toSync _ => "to_sync"

/-- branch tags for the evidence -/
def tagsOf (fl : Flavour) (s : St) (op : Op) (o : Out) : List String :=
  let base := s!"{opName op}:{showTag o.tag}"
  let extra : List String :=
    (match op with
     | .snd f _ vs =>
       (if o.tag == .full then ["full"] else []) ++
       (if o.tag == .closed then ["closed"] else []) ++
       (if f.isBatch && !o.sent.isEmpty && o.sent.length < vs.length then ["batch-partial"] else []) ++
       (if fl.bounded && o.tag == .ok && s.sentOk.length + o.sent.length > fl.cap then ["wrap"] else [])
     | .rcv f _ n =>
       (if o.tag == .disconnected && !s.sentOk.isEmpty && s.sc == 0 then ["disconnected-after-drain"] else []) ++
       (if f.isBatch && o.tag == .ok && o.got.length < n then ["batch-partial"] else []) ++
       (if o.tag == .timeout then ["timeout"] else [])
     | _ => [])
  base :: extra

def compareDrops (s : St) (d : List (Nat × Nat)) : Except String Unit :=
  match d.find? (fun x => s.dropCount x.1 != x.2) with
  | some (v, c) => .error s!"drop-count value={v} impl={c} model={s.dropCount v} loc={repr (s.loc v)}"
  | none =>
    match s.created.find? (fun v => !(d.any (fun x => x.1 == v))) with
    | some v => .error s!"drop-count value={v} missing-in-D model={s.dropCount v}"
    | none => .ok ()

def parseDrops (ws : List String) : Option (List (Nat × Nat)) :=
  ws.mapM fun w =>
    match w.splitOn ":" with
    | [a, b] =>
      match a.toNat?, ((b.splitOn "/").headD "").toNat? with
      | some x, some y => some (x, y)
      | _, _ => none
    | _ => none

def parseFutName (s : String) : Option Nat :=
  match s.toList with
  | 'f' :: r => (String.ofList r).toNat?
  | _ => none

/-- `fut f0 = send_fut s0 1` etc. -/
def parseOpF (ws : List String) : Option OpF :=
  match ws with
  | "fut" :: f :: "=" :: kind :: rest =>
    match parseFutName f, kind with
    | some i, "send_fut" => (parseOp ("send" :: rest)).map (fun o => .fut i o)
    | some i, "send_batch_fut" => (parseOp ("send_batch" :: rest)).map (fun o => .fut i o)
    | some i, "recv_fut" => (parseOp ("recv" :: rest)).map (fun o => .fut i o)
    | some i, "recv_batch_fut" => (parseOp ("recv_batch" :: rest)).map (fun o => .fut i o)
    | _, _ => none
  | ["poll", f] => (parseFutName f).map .poll
  | ["wakes", f] => (parseFutName f).map .wakes
  | ["dropfut", f] => (parseFutName f).map .dropfut
  | ["drop", f] =>
    match parseFutName f with
    | some i => some (.dropfut i)
    | none => (parseOp ws).map .base
  | _ => (parseOp ws).map .base

def parseResF (futOps : List (Nat × Op)) (op : OpF) (tok : String) : Option Res :=
  match tok with
  | "invalid:busy" => some { tag := .busy }
  | "invalid:nofut" => some { tag := .noFut }
  | "invalid:done" => some { tag := .futDone }
  | _ =>
  match op with
  | .base o => parseRes o tok
  | .fut _ o => parseRes (.close (o.handle?.getD ⟨.tx, 0⟩)) tok
  | .poll f =>
    if tok == "pending" then some { tag := .pending }
    else if tok.startsWith "ready:" then
      match futOps.lookup f with
      | some o => parseRes o (tok.drop 6).toString
      | none => none
    else none
  | .wakes _ =>
    match tok.splitOn ":" with
    | ["n", k] => k.toNat?.map (fun k => if k = 0 then { tag := .ok, val := .b false } else { tag := .ok })
    | _ => none
  | .dropfut _ =>
    if tok == "ok" then some { tag := .ok, val := .b false }
    else if tok == "ok:woken" then some { tag := .ok }
    else none

def parseDropsB (ws : List String) : Option (List (Nat × Nat × Nat)) :=
  ws.mapM fun w =>
    match w.splitOn ":" with
    | [a, b] =>
      match a.toNat?, b.splitOn "/" with
      | some x, [d, c] =>
        match d.toNat?, c.toNat? with
        | some d, some c => some (x, d, c)
        | _, _ => none
      | _, _ => none
    | _ => none

def step0 (st : CaseSt) (op res : List String) : Except String (CaseSt × List String) :=
  match st.skip with
  | some _ => .ok (st, [])
  | none =>
  let _ := res
  match op with
  | "P" :: _ | "S" :: _ | "A" :: _ | "L" :: _ => .ok (st, [])
  | "C" :: tid :: optoks =>
    if st.futMode then
      match tid.toNat?, parseOpF optoks with
      | some t, some o =>
        let fo := match o with
          | .fut f inner => (f, inner) :: st.futOps
          | _ => st.futOps
        .ok ({ st with histF := .call t o :: st.histF, nOps := st.nOps + 1, futOps := fo }, [])
      | _, _ => .ok ({ st with skip := some s!"skipped:op:{optoks.headD "?"}" }, [])
    else
    match tid.toNat?, parseOp optoks with
    | some t, some o =>
      if st.seqMode then
        match st.pending with
        | some _ => .error "model=previous-operation-never-returned-but-thread-continued"
        | none => .ok ({ st with pending := some (t, o), nOps := st.nOps + 1 }, [])
      else .ok ({ st with hist := .call t o :: st.hist, nOps := st.nOps + 1 }, [])
    | _, _ => .ok ({ st with skip := some s!"skipped:op:{optoks.headD "?"}" }, [])
  | ["R", tid, r] =>
    match tid.toNat? with
    | none => .error "bad-tid"
    | some t =>
      if st.futMode then
        let opOf := st.histF.findSome? (fun e => match e with
          | .call u o => if u = t then some o else none
          | _ => none)
        match opOf with
        | none => .error "return-without-call"
        | some o =>
          match parseResF st.futOps o r with
          | none => .error s!"unparsed-result [{r}]"
          | some ir =>
            let ir' := match o with
              | .base bo => normRes st.fl bo ir
              | _ => ir
            .ok ({ st with histF := .ret t ir' :: st.histF }, [])
      else
      if st.seqMode then
        match st.pending with
        | none => .error "model=return-without-call"
        | some (_, o) =>
          match st.b with
          | some b =>
            let (b', out) := stepB' b o
            match parseRes o r with
            | none => .error s!"unparsed-result model={showRes (observe o out)}"
            | some ir =>
              if out.tag == .blocks then .error "model=blocks impl=returned"
              else if observe o out == ir then .ok ({ st with b := some b', pending := none }, [s!"spmc:{opName o}:{showTag out.tag}"])
              else .error s!"model={showRes (observe o out)} impl={showRes ir}"
          | none =>
          let (s', out) := stepOp st.fl st.s o
          match parseRes o r with
          | none => .error s!"unparsed-result model={showRes (observe o out)}"
          | some ir =>
            if observe o out == ir then .ok ({ st with s := s', pending := none }, tagsOf st.fl st.s o out)
            else .error s!"model={showRes (observe o out)} impl={showRes ir}"
      else
        -- the operation this thread has pending
        let opOf := st.hist.findSome? (fun e => match e with
          | .call u o => if u = t then some o else none
          | _ => none)
        match opOf with
        | none => .error "return-without-call"
        | some o =>
          match parseRes o r with
          | none => .error "unparsed-result"
          | some ir => .ok ({ st with hist := .ret t (normRes st.fl o ir) :: st.hist }, [])
  | "X" :: status :: _ =>
    if st.futMode && !status.startsWith "invalid" then .ok ({ st with status := status }, [s!"status:{(status.splitOn ":").headD ""}"])
    else if status.startsWith "invalid" then .ok ({ st with skip := some "skipped:invalid-case" }, [])
    else if st.seqMode then
      match st.pending with
      | none => .ok ({ st with status := status }, [s!"status:{(status.splitOn ":").headD ""}"])
      | some (_, o) =>
        let (s', out) := match st.b with
          | some b => (st.s, (stepB' b o).2)
          | none => stepOp st.fl st.s o
        if out.tag == .blocks then .ok ({ st with s := s', pending := none, status := status }, [s!"{opName o}:blocks", "blocks"])
        else if status.startsWith "panic" then .error s!"model={showRes (observe o out)} impl=panic"
        else .error s!"model={showRes (observe o out)} impl=never-returned({status})"
    else .ok ({ st with status := status }, [s!"status:{(status.splitOn ":").headD ""}"])
  | "D" :: toks =>
    match parseDrops toks with
    | none => .error "unparsed-D-line"
    | some d =>
      if st.futMode then .ok ({ st with drops := some d }, [])
      else if st.seqMode then
        match st.b with
        | some b =>
          -- broadcast: `<id>:<drops>/<created>`; every payload (the original and one clone per delivery) is dropped
          match (parseDropsB toks).bind (fun l => l.find? (fun x =>
              x.2.1 != x.2.2 || (b.created.contains x.1 && x.2.2 != 1 + (b.recvd.filter (fun y => y.2 == x.1)).length))) with
          | some (v, dd, cc) => .error s!"drop-count value={v} impl={dd}/{cc} model-created={1 + (b.recvd.filter (fun y => y.2 == v)).length}"
          | none => .ok (st, ["drops-checked"])
        | none =>
        match compareDrops st.s d with
        | .ok _ => .ok (st, ["drops-checked"])
        | .error m => .error m
      else .ok ({ st with drops := some d }, [])
  | _ => .ok (st, [])

/-- size of the batch argument of a `C` line (`send_batch h 1,2,3` / `recv_batch h n`, also inside `fut f = …`) -/
def batchArg (toks : List String) : Nat :=
  let toks := match toks with
    | "fut" :: _ :: "=" :: rest => rest
    | _ => toks
  match toks with
  | [name, _, a] =>
    if name.startsWith "send_batch" || name.startsWith "try_send_batch" then ((natList? a).map List.length).getD 0
    else if name.startsWith "recv_batch" || name.startsWith "try_recv_batch" then a.toNat?.getD 0
    else 0
  | _ => 0

def step (st : CaseSt) (op res : List String) : Except String (CaseSt × List String) :=
  match op with
  | "C" :: _ :: toks =>
    let b := batchArg toks
    step0 (if b > st.maxBatch then { st with maxBatch := b } else st) op res
  | _ => step0 st op res

def showEv : Ev → String
  | .call t o => s!"C{t}:{opName o}"
  | .ret t r => s!"R{t}:{showRes r}"

/-- why a never-returned operation is enabled in state `s` (the shapes the harness monitors use) -/
def enabledShape (fl : Flavour) (s : St) (op : Op) : String :=
  match op with
  | .snd _ _ _ =>
    if receiversGone fl s then "blocked-after-all-receivers-gone"
    else if fl.fam == .rv then "blocked-with-receiver-waiting"
    else "blocked-with-space-available"
  | .rcv _ _ _ =>
    if fl.fam == .os then (if s.sc == 0 then "blocked-after-all-senders-gone" else "blocked-with-item-available")
    else if !s.buf.isEmpty || !s.sw.isEmpty then "blocked-with-item-available"
    else "blocked-after-all-senders-gone"
  | _ => "blocked-enabled"

/-- the never-returned operations that can still move in the final state of some linearization -/
def enabledPending (flTok : String) (fl : Flavour) (h : History) : List String :=
  match linearizeP fl linCfg h false with
  | none => []
  | some (sf, pf) =>
    pf.filterMap fun x =>
      if x.2.2.out?.isSome || !(micro fl linCfg sf x.2.2).isEmpty then
        some s!"{flTok}:{opName x.2.1}:{enabledShape fl sf x.2.1}"
      else none

/-- the last operation thread `t` called in (the reversed) history `rev` -/
def lastCallF (t : Nat) : List EvF → Option OpF
  | [] => none
  | .call u o :: r => if u = t then some o else lastCallF t r
  | _ :: r => lastCallF t r

/-- futures whose `dropfut` answered `ok:woken` (dropped after they had been woken, before they were polled again) -/
def wokenDropped (h : HistoryF) : List Nat :=
  (h.foldl (fun (acc : List (Nat × Nat) × List Nat) e =>
    match e with
    | .call t (.dropfut g) => ((t, g) :: acc.1.filter (fun x => x.1 != t), acc.2)
    | .call t _ => (acc.1.filter (fun x => x.1 != t), acc.2)
    | .ret t r =>
      match acc.1.lookup t with
      | some g => (acc.1.filter (fun x => x.1 != t), if r.tag == .ok && r.val == .none then g :: acc.2 else acc.2)
      | none => acc) ([], [])).2

def futKind (op : Op) : String :=
  match op with
  | .snd .send _ _ => "send_fut" | .snd _ _ _ => "send_batch_fut"
  | .rcv .recv _ _ => "recv_fut" | _ => "recv_batch_fut"

def isSendOp' (op : Op) : Bool :=
  match op with
  | .snd _ _ _ => true
  | _ => false

/-- Signature of a lost wake-up found by the checker: the future whose "not woken" observation (`wakes f => n:0`,
`dropfut f => ok`) ends the shortest unexplainable prefix names the form; if a future of the same direction was
dropped after it had been woken (`ok:woken`) before that point, the wake-one was swallowed by it (finding F2:
`:after-woken-future-dropped`, the suffix the harness monitor uses). -/
def lostWakeSigs (st : CaseSt) (h : HistoryF) (cfgF : Cfg) : List String :=
  let k := ((List.range (h.length + 1)).find? (fun k => (linearizeF st.fl cfgF (h.take k) false).isNone)).getD h.length
  let pre := h.take k
  let culprit : Option Nat :=
    match pre.getLast? with
    | some (.ret t _) =>
      match lastCallF t pre.reverse with
      | some (.wakes f) => some f
      | some (.dropfut f) => some f
      | _ => none
    | _ => none
  match culprit.bind (fun f => (st.futOps.lookup f).map (fun o => (f, o))) with
  | some (f, o) =>
    let swallowed := (wokenDropped pre).any (fun g => g != f &&
      (match st.futOps.lookup g with | some og => isSendOp' og == isSendOp' o | none => false))
    [s!"{st.flTok}:{futKind o}:pending-enabled-not-woken" ++ (if swallowed then ":after-woken-future-dropped" else "")]
  | none => ((st.futOps.map (fun x => futKind x.2)).eraseDups).map (fun k => s!"{st.flTok}:{k}:pending-enabled-not-woken")

/-! ### shared handles: `close` is two steps

`close(&self)` of every handle type is: CAS the handle's own `closed` flag, THEN apply the effect (count decrement,
peer flag, wake-ups). When two threads share one handle (`share h`, harness README), an operation of the second
thread on that handle that overlaps the first thread's `close` finds the flag set and gives the closed-handle answer
(`close` → CloseError, send forms → Closed, receive forms → Disconnected) although the close's effect has not happened
yet: what the second thread observes next through OTHER handles (`try_recv` → Empty, `try_send` → ok) still shows the
open channel. The model's `close` is one atomic step, so such an answer would pin the close's effect too early.
An operation on handle `h` that (1) OVERLAPS another thread's `close h` (that close was called before the operation
returned and had not returned when the operation was called), (2) returned the closed-handle answer and (3) moved no
value (nothing received; the offered values handed back — the blocking `send`, whose error drops the value, is not
relaxed) is therefore left out of the history handed to the search: it has no effect on the model state, and the only
thing lost is an ordering constraint the code does not provide. Closed-handle answers that do not overlap a close of
that handle — and every `ok` — are kept, so a second SUCCESSFUL close of one handle is still refuted (`startClose`:
`closeErr`). Handles owned by one thread never overlap their own close, so nothing changes for them. -/
def closeOf : Ev → Option (Nat × HName)
  | .call t (.close h) => some (t, h)
  | _ => none

/-- handle and "is this result the closed-handle answer without any value moved" of an operation -/
def closedAnswer (op : Op) (r : Res) : Option HName :=
  match op with
  | .close h => if r.tag == .closeErr then some h else none
  | .snd f h _ => if r.tag == .closed && f != .send && r.cnt == 0 then some h else none
  | .rcv _ h _ => if r.tag == .disconnected && r.vals.isEmpty then some h else none
  | _ => none

/-- positions (in `h`) of the call / return events of the operations described above -/
def overlappedClosedAnswers (h : History) : List Nat :=
  let n := h.length
  let retOf (t i : Nat) : Nat :=
    (((h.zipIdx.drop (i + 1)).find? fun x => match x.1 with | .ret u _ => u == t | _ => false).map (·.2)).getD n
  -- every `close` call: (index, tid, handle, index of its return or n)
  let closes : List (Nat × Nat × HName × Nat) := h.zipIdx.filterMap fun x =>
    (closeOf x.1).map fun (t, hn) => (x.2, t, hn, retOf t x.2)
  if closes.length < 1 then [] else
  h.zipIdx.flatMap fun x =>
    match x.1 with
    | .call t op =>
      let i := x.2
      let r := retOf t i
      match h[r]? with
      | some (.ret _ res) =>
        match closedAnswer op res with
        | some hn => if closes.any (fun (j, u, hm, rj) => u != t && hm == hn && j < r && rj > i) then [i, r] else []
        | none => []
      | _ => []
    | _ => []

def relaxSharedClose (h : History) : History :=
  let drop := overlappedClosedAnswers h
  if drop.isEmpty then h else (h.zipIdx.filter (fun x => !drop.contains x.2)).map (·.1)

/-- the values offered by the send operations left out by `relaxSharedClose` (all handed back to the caller, who
drops each exactly once: their `D` entries are checked against 1 and not against the model) -/
def relaxedVals (h : History) : List Val :=
  let drop := overlappedClosedAnswers h
  (h.zipIdx.filter (fun x => drop.contains x.2)).flatMap fun x =>
    match x.1 with
    | .call _ op => op.vals
    | _ => []

def finish0 (liveness : Bool) (st : CaseSt) : Except String (List String) :=
  match st.skip with
  | some why => .ok [why]
  | none =>
    if st.futMode then
      let h := st.histF.reverse
      let cfgF : Cfg := { hot := true, granular := true }
      let quiesce := liveness && st.status.startsWith "deadlock"
      match linearizeF st.fl cfgF h quiesce with
      | none =>
        if quiesce ∧ (linearizeF st.fl cfgF h false).isSome then
          .error s!"blocked-op-enabled-at-quiescence sig={st.flTok}:fut:blocked-enabled status={st.status}"
        else if (linearizeF st.fl { cfgF with wakeRule := false } h false).isSome then
          -- explainable only if a polled, pending future that got no wake-up is allowed to be enabled: a lost wakeup
          .error s!"pending-enabled-not-woken sig={",".intercalate (lostWakeSigs st h cfgF)}"
        else
          let k := (List.range (h.length + 1)).find? (fun k => (linearizeF st.fl cfgF (h.take k) false).isNone)
          .error s!"not-linearizable (futures) prefix={k.getD 0} of={h.length}"
      | some (x, _) =>
        match st.drops with
        | none => .ok ["linF-ok"]
        | some d =>
          match compareDrops x.s d with
          | .ok _ => .ok ["linF-ok", "drops-checked"]
          | .error m => .error m
    else if st.seqMode then .ok ["seq-case"]
    else
      let h0 := st.hist.reverse
      let h := relaxSharedClose h0
      let rv := relaxedVals h0
      let quiesce := liveness && st.status.startsWith "deadlock"
      match linearize st.fl linCfg h quiesce with
      | none =>
        if quiesce ∧ linearizable st.fl linCfg h then
          -- explainable as a history, but only with a never-returned operation that could still move
          -- in the final state: a lost wakeup (C05 / C06)
          .error s!"blocked-op-enabled-at-quiescence sig={",".intercalate (enabledPending st.flTok st.fl h)} status={st.status}"
        else
          let k := shortestBadPrefix st.fl linCfg h
          .error s!"not-linearizable prefix={k} of={h.length} last={(h.take k).getLast?.map showEv |>.getD "-"}"
      | some s =>
        match st.drops with
        | none => .ok ["lin-ok", if quiesce then "lin-quiescent" else "lin-incomplete"]
        | some d =>
          match d.find? (fun x => rv.contains x.1 && x.2 != 1) with
          | some (v, c) => .error s!"drop-count value={v} impl={c} model=1 (handed back by a send on a handle that was being closed)"
          | none =>
          match compareDrops s (d.filter (fun x => !rv.contains x.1)) with
          | .ok _ => .ok ["lin-ok", "drops-checked"]
          | .error m => .error m

def finish (liveness : Bool) (st : CaseSt) : Except String (List String) :=
  (finish0 liveness st).map (fun tags => tags ++ st.sizeTags ++ [s!"x:batch:{batchBucket st.maxBatch}"])

/-- `liveness`: at `X deadlock` additionally require every never-returned operation to be disabled in
the final model state (C05 / C06); off for the safety properties, whose ties must not depend on it. -/
def engine (liveness : Bool := false) : Engine CaseSt := { init := init, step := step, finish := finish liveness }

end Fv.Driver.Chan
