import Fv.Driver.Proto
import Fv.Chan.Mpsc3B
/-
Engine `mpsc3b`: step-level trace inclusion of fibre's bounded MPSC v3 in the B model
`Fv.Chan.Mpsc3B`.  Input: `chanh … --atomics` transcripts (see /verif/harness/chan/README.md).

* `L` lines build the object role table.  The construction order of `Shared::new` + the two handle
  flags is the CALIBRATION: it must be exactly
    n × (usize id=e, chunk_cap × u8 0), usize×4 (g_tail, progress, drained, consumer_retired) 0,
    usize run_cap = K, m head, usize sender_count = 1, bool receiver_dropped,
    m sync_send_waiters, m async_send_waiters, usize ×2 waiter counts, m sync_recv_waiter,
    m async_recv_waiter, usize ×2 waiter counts, bool Sender.closed, bool Receiver.closed
  (a reordered field or a changed chunk geometry fails loudly as `layout-calibration`).
  Later `L` lines: a `bool` created by thread t is the `closed` flag of the clone being made by t's
  current `clone` op, otherwise t's next stack-local `notified`.
* `C t op` injects the op as thread t's program and takes the model's call step; `R t res` must find
  the thread at its return point with exactly that result.
* every `A t …` line (except `spawn join exit lockwait wake`) must be THE enabled visible action of
  thread t in the model: same kind, same object role, ordering at least as strong as the model's,
  same value found / left, same CAS outcome.
Cases of other flavours, or using forms the model does not cover (batch, conversions), are skipped
and counted (`TAG skip:*`).
-/
namespace Fv.Driver.Mpsc3B
open Fv.Chan.Mpsc3B

inductive Expect
  | idle
  | ret                 -- a modelled call is running; `R` must match the model
  | noop                -- harness-level result (unsupported / invalid): no model step
  deriving DecidableEq

structure St where
  c : Cfg := {}
  s : State := {}
  async : Bool := false
  skip : Option String := none
  roles : List (String × Obj) := []
  calib : List (String × String) := []    -- remaining expected (type, init) of the construction prefix
  calibRoles : List Obj := []
  nflag : Nat → Nat := fun _ => 0          -- stack flags created per thread (engine side)
  pendClone : Nat → Option Nat := fun _ => none
  exp : Nat → Expect := fun _ => .idle
  futs : Nat → Nat := fun _ => 0            -- harness future table: 0 unknown, 1 live, 2 resolved
  started : Bool := false                  -- a `C` line was seen (construction is over)
  steps : Nat := 0

def kv (ws : List String) (key : String) : Option String :=
  (ws.find? (fun w => w.startsWith (key ++ "="))).map (fun w => (w.drop (key.length + 1)).toString)

def nextPow2 (n : Nat) : Nat := Id.run do
  let mut p := 1
  for _ in [0:64] do
    if p < n then p := p * 2
  return p

/-- chunk geometry of `Shared::new` under `--cfg loom` (MODEL_CHECK: floor 4, SLACK 8) -/
def mkCfg (cap0 : Nat) (async : Bool) : Cfg :=
  let cap := max cap0 1
  let cc := min (max (nextPow2 cap) 4) 1024
  let n := (cap + 8 + cc - 1) / cc + 2
  { cap := cap, k0 := if async then cap else min cap 64, chunkCap := cc, nChunks := n, spinLimit := 1 }

def calibList (c : Cfg) : List (String × String) × List Obj :=
  let chunks := (List.range c.nChunks).flatMap (fun e =>
    [(("usize", toString e), Obj.tblId e)] ++ (List.range c.chunkCap).map (fun i => (("u8", "0"), Obj.slotSt e i)))
  let rest : List ((String × String) × Obj) :=
    [(("usize", "0"), .gtail), (("usize", "0"), .progress), (("usize", "0"), .drained), (("usize", "0"), .retired),
     (("usize", toString c.k0), .none), (("m", "-"), .mHead), (("usize", "1"), .senderCount), (("bool", "0"), .rxDropped),
     (("m", "-"), .mSS), (("m", "-"), .mAS), (("usize", "0"), .ssCount), (("usize", "0"), .asCount),
     (("m", "-"), .mSR), (("m", "-"), .mAR), (("usize", "0"), .srCount), (("usize", "0"), .arCount),
     (("bool", "0"), .sClosed 0), (("bool", "0"), .rClosed)]
  let all := chunks ++ rest
  (all.map (·.1), all.map (·.2))

def init (ws : List String) : Except String St :=
  match kv ws "flavour" with
  | some "mpsc_b" | some "mpsc_b_async" =>
    let async := kv ws "flavour" == some "mpsc_b_async"
    let cap := ((kv ws "cap").bind String.toNat?).getD 0
    let c := mkCfg cap async
    let (cl, cr) := calibList c
    .ok { c := c, s := Fv.Chan.Mpsc3B.init c (fun _ => []), async := async, calib := cl, calibRoles := cr }
  | some f => .ok { skip := some s!"skip:flavour:{f}" }
  | none => .error "missing flavour"

def numSuffix (s : String) (pre : Char) : Option Nat :=
  match s.toList with
  | ch :: r => if ch = pre then (String.ofList r).toNat? else none
  | [] => none

/-- parse the op tokens of a `C` line; `none` = form not modelled -/
def parseOp (async : Bool) (ws : List String) : Option Op :=
  match ws with
  | ["send", h, v] =>
    match numSuffix h 's', v.toNat? with
    | some h, some v => some (if async then .sendA h v else .send h v)
    | _, _ => none
  | ["try_send", h, v] =>
    match numSuffix h 's', v.toNat? with
    | some h, some v => some (.trySend h v)
    | _, _ => none
  | ["recv", "r0"] => some (if async then .recvA else .recv)
  | ["try_recv", "r0"] => some .tryRecv
  | ["recv_timeout0", "r0"] => if async then none else some .recvT0
  | ["clone", h, h2] =>
    match numSuffix h 's', numSuffix h2 's' with
    | some h, some h2 => some (.clone h h2)
    | _, _ => none
  | ["close", h] =>
    if h = "r0" then some .closeR else (numSuffix h 's').map .closeS
  | ["drop", h] =>
    if h = "r0" then some .dropR
    else match numSuffix h 's' with
      | some k => some (.dropS k)
      | none => (numSuffix h 'f').map .dropFut
  | ["dropfut", f] => (numSuffix f 'f').map .dropFut
  | ["poll", f] => (numSuffix f 'f').map .poll
  | ["wakes", f] => (numSuffix f 'f').map .wakes
  | ["fut", f, "=", "send_fut", h, v] =>
    match numSuffix f 'f', numSuffix h 's', v.toNat? with
    | some f, some h, some v => if async then some (.futSend f h v) else none
    | _, _, _ => none
  | ["fut", f, "=", "recv_fut", "r0"] =>
    match numSuffix f 'f' with
    | some f => if async then some (.futRecv f) else none
    | none => none
  | ["len", _] => some .len
  | ["is_empty", _] => some .isEmpty
  | ["is_full", _] => some .isFull
  | ["capacity", _] => some .capacity
  | ["is_closed", h] => if h = "r0" then some .isClosedR else (numSuffix h 's').map .isClosedS
  | _ => none

def showRes (op : Op) (r : Res) : String :=
  let base := match r with
    | .none => "?"
    | .ok => "ok"
    | .okv v => s!"ok:{v}"
    | .errClosed => "err:closed"
    | .errClosedV v => s!"err:closed:{v}"
    | .errFull v => s!"err:full:{v}"
    | .errEmpty => "err:empty"
    | .errDisc => "err:disconnected"
    | .errTimeout => "err:timeout"
    | .errClose => "err:close"
    | .pending => "pending"
    | .okWoken => "ok:woken"
    | .n k => s!"n:{k}"
    | .b x => if x then "true" else "false"
  match op, r with
  | .poll _, .pending => base
  | .poll _, _ => "ready:" ++ base
  | _, _ => base

def ordRank : Ord → Nat
  | .na => 0 | .relaxed => 1 | .acquire => 2 | .release => 2 | .acqrel => 3 | .seqcst => 4

/-- `a` (implementation) is at least as strong as `m` (model) -/
def ordGe (a m : Ord) : Bool :=
  match m, a with
  | .na, _ => true
  | .relaxed, x => x != .na
  | .acquire, x => x == .acquire || x == .acqrel || x == .seqcst
  | .release, x => x == .release || x == .acqrel || x == .seqcst
  | .acqrel, x => x == .acqrel || x == .seqcst
  | .seqcst, x => x == .seqcst

def parseOrd : String → Option Ord
  | "rlx" => some .relaxed | "acq" => some .acquire | "rel" => some .release
  | "acqrel" => some .acqrel | "sc" => some .seqcst | "-" => some .na
  | _ => none

def parseKind : String → Option Kind
  | "load" => some .load | "store" => some .store | "swap" => some .swap | "fadd" => some .fadd
  | "fsub" => some .fsub | "cas" => some .cas | "casw" => some .cas | "fence" => some .fence
  | "lock" => some .lock | "unlock" => some .unlock | "park" => some .park | "unpark" => some .unpark
  | "spin" => some .spin | "yield" => some .yield
  | _ => none

def showObj : Obj → String
  | .none => "-" | .gtail => "g_tail" | .progress => "progress" | .drained => "drained" | .retired => "consumer_retired"
  | .senderCount => "sender_count" | .rxDropped => "receiver_dropped" | .ssCount => "sync_send_waiter_count"
  | .asCount => "async_send_waiter_count" | .srCount => "sync_recv_waiter_count" | .arCount => "async_recv_waiter_count"
  | .tblId e => s!"table[{e}].id" | .slotSt e i => s!"table[{e}].slots[{i}].state" | .sClosed h => s!"s{h}.closed"
  | .rClosed => "r0.closed" | .flag t g => s!"notified(t{t},#{g})" | .mHead => "head" | .mSS => "sync_send_waiters"
  | .mAS => "async_send_waiters" | .mSR => "sync_recv_waiter" | .mAR => "async_recv_waiter" | .thread t => s!"t{t}"

def showKind (k : Kind) : String := (toString (repr k)).replace "Fv.Chan.Mpsc3B.Kind." ""
def showPc (p : Pc) : String := (toString (repr p)).replace "Fv.Chan.Mpsc3B.Pc." ""

def objType (name : String) : String :=
  if name.startsWith "m" then "m" else ((name.splitOn ":").getD 1 "?")

def lookupObj (st : St) (name : String) : Option Obj :=
  if name = "-" then some .none
  else match numSuffix name 't' with
    | some t => some (.thread t)
    | none => (st.roles.find? (·.1 = name)).map (·.2)

def stepL (st : St) (name tid init : String) : Except String (St × List String) :=
  let ty := objType name
  match st.calib, st.calibRoles with
  | (ety, einit) :: crest, r :: rrest =>
    if st.started then .error s!"model=layout-calibration construction-incomplete at {name}"
    else if ety = ty && einit = init then
      .ok ({ st with calib := crest, calibRoles := rrest, roles := (name, r) :: st.roles }, [])
    else .error s!"model=layout-calibration expected {ety}={einit} ({showObj r}) got {name}={init}"
  | _, _ =>
    match tid.toNat? with
    | none => .error "bad-L-line"
    | some t =>
      if ty = "bool" then
        match st.pendClone t with
        | some h2 => .ok ({ st with roles := (name, .sClosed h2) :: st.roles, pendClone := upd st.pendClone t none }, ["L-clone-flag"])
        | none =>
          let g := st.nflag t
          .ok ({ st with roles := (name, .flag t g) :: st.roles, nflag := upd st.nflag t (g + 1) }, ["L-stack-flag"])
      else .error s!"model=unexpected-object {name}"

def valEq (tok : String) (v : Nat) : Bool := tok = "-" || tok.toNat? = some v

def stepAline (st : St) (t : Nat) (kind obj ord old new ok : String) : Except String (St × List String) :=
  if kind = "spawn" || kind = "join" || kind = "exit" || kind = "lockwait" || kind = "wake" then .ok (st, [])
  else
    match parseKind kind with
    | none => .error s!"model=unknown-action-kind {kind}"
    | some k =>
      match next st.c st.s t with
      | none => .error s!"model=no-enabled-action pc={showPc (st.s.th t).pc} impl={kind} {obj}"
      | some (a, s') =>
        let pcs := showPc (st.s.th t).pc
        if a.kind ≠ k then .error s!"model=[{showKind a.kind} {showObj a.obj}] pc={pcs} kind-differs"
        else match lookupObj st obj with
          | none => .error s!"model=[{showKind a.kind} {showObj a.obj}] pc={pcs} unknown-object {obj}"
          | some o =>
            if o ≠ a.obj then .error s!"model=[{showKind a.kind} {showObj a.obj}] pc={pcs} object-differs impl={showObj o}"
            else
              let ordOk :=
                if k = .cas then
                  match ord.splitOn "/" with
                  | [x, y] => (match parseOrd x, parseOrd y with
                               | some x, some y => ordGe x a.ord && ordGe y a.ord2
                               | _, _ => false)
                  | _ => false
                else match parseOrd ord with
                  | some x => ordGe x a.ord
                  | none => false
              if !ordOk then .error s!"model=[{showKind a.kind} {showObj a.obj}] pc={pcs} ordering-weaker-than-model impl={ord}"
              else
                let valsOk :=
                  match k with
                  | .load | .store | .swap | .fadd | .fsub => valEq old a.old && valEq new a.new
                  | .cas => valEq old a.old && valEq new a.new && ok = (if a.ok then "1" else "0")
                  | .unpark =>
                    (match a.obj with
                     | .thread u => valEq old (b2n (st.s.token u))
                     | _ => true)
                  | _ => true
                if !valsOk then
                  .error s!"model=[{showKind a.kind} {showObj a.obj} {a.old}->{a.new} ok={a.ok}] pc={pcs} values-differ"
                else .ok ({ st with s := s', steps := st.steps + 1 }, ["A:" ++ pcs])

def stepC (st : St) (t : Nat) (ws : List String) : Except String (St × List String) :=
  let st := { st with started := true }
  if st.calib ≠ [] then .error "model=layout-calibration construction-incomplete"
  else
  match parseOp st.async ws with
  | none =>
    -- harness-level refusals are decided by the `R` line; anything else is an unmodelled form
    let modelledName := ["send", "try_send", "recv", "try_recv", "recv_timeout0", "clone", "close", "drop", "dropfut",
                         "poll", "wakes", "fut", "len", "is_empty", "is_full", "capacity", "is_closed"]
    if modelledName.contains (ws.headD "") then .ok ({ st with exp := upd st.exp t .noop }, [])
    else .ok ({ st with skip := some ("skip:unmodelled:" ++ ws.headD "?") }, [])
  | some op =>
    let known : Bool := match op with
      | .poll f => st.futs f == 1
      | .wakes f | .dropFut f => st.futs f != 0
      | .futSend f _ _ | .futRecv f => st.futs f == 0
      | _ => true
    if !known then .ok ({ st with exp := upd st.exp t .noop }, ["call-harness-level"]) else
    let s0 := { st.s with prog := upd st.s.prog t [op] }
    match stepCall st.c s0 t with
    | none => .ok ({ st with exp := upd st.exp t .noop }, ["call-refused"])
    | some (_, s') =>
      let pc := match op with
        | .clone _ h2 => upd st.pendClone t (some h2)
        | _ => st.pendClone
      .ok ({ st with s := s', exp := upd st.exp t .ret, pendClone := pc }, ["C:" ++ ws.headD "?"])

def stepR (st : St) (t : Nat) (res : String) : Except String (St × List String) :=
  match st.exp t with
  | .noop =>
    if res = "unsupported" || res.startsWith "invalid" then .ok ({ st with exp := upd st.exp t .idle }, ["R:harness-level"])
    else .error s!"model=call-not-enabled impl={res}"
  | .idle => .error "model=no-call-pending"
  | .ret =>
    let x := st.s.th t
    if x.pc ≠ .ret then .error s!"model=not-at-return pc={showPc x.pc} impl={res}"
    else
      let mr := showRes x.op x.res
      if mr ≠ res then .error s!"model={mr}"
      else match stepRet st.s t with
        | none => .error "model=ret-not-enabled"
        | some (_, s') =>
          let futs := match x.op with
            | .futSend f _ _ | .futRecv f => upd st.futs f 1
            | .poll f => if x.res = .pending then st.futs else upd st.futs f 2
            | .dropFut f => upd st.futs f 0
            | _ => st.futs
          .ok ({ st with s := s', exp := upd st.exp t .idle, futs := futs }, ["R:" ++ mr])

def step (st : St) (op _res : List String) : Except String (St × List String) :=
  match st.skip with
  | some _ => .ok (st, [])
  | none =>
    match op with
    | "P" :: _ => .ok (st, [])
    | "S" :: _ => .ok (st, [])
    | "D" :: _ => .ok (st, [])
    | ["L", name, tid, _site, init] => stepL st name tid init
    | ["A", t, kind, obj, ord, old, new, ok] =>
      (match t.toNat? with
       | some t => stepAline st t kind obj ord old new ok
       | none => .error "bad-A-line")
    | "C" :: t :: ws =>
      (match t.toNat? with
       | some t => stepC st t ws
       | none => .error "bad-C-line")
    | ["R", t, res] =>
      (match t.toNat? with
       | some t => stepR st t res
       | none => .error "bad-R-line")
    | ["X", status] =>
      if status = "ok" then .ok (st, ["X:ok"])
      else if status.startsWith "deadlock" then .ok (st, ["X:deadlock"])
      else .ok (st, ["X:" ++ status])
    | _ => .error "bad-line"

def finish (st : St) : Except String (List String) :=
  match st.skip with
  | some r => .ok [r]
  | none => .ok ["case-checked"]

def engine : Engine St := { init := init, step := step, finish := finish }

end Fv.Driver.Mpsc3B
