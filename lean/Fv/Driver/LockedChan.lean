import Fv.Driver.Proto
import Fv.Chan.Mpmc2B
import Fv.Chan.RendezvousB
/-
Engine `lockedchan`: tie (i) for the lock-based channel cores.

For every `chanh` case of the flavours `mpmc_b`, `mpmc_b_async` (model `Fv.Chan.Mpmc2B`) and `rdv_spsc`, `rdv_mpsc`,
`rdv_mpmc` and their `_async` variants (model `Fv.Chan.RendezvousB`) the C/R history
of the real code must be a behaviour of the B-model: we search for a run of the model (a sequence of model
steps at critical-section granularity) such that
  * every step of an operation lies between its `C` and its `R` event (real-time order),
  * every operation returns exactly the result token the implementation returned,
  * the `wakes f` / `dropfut f → ok:woken` observations of manual-poll programs equal the model's wake
    counters at some instant inside the observation's window,
  * a thread that panicked with `unreachable!` is at the model's `panicked` control state at the end.
The search is a DFS over "which in-flight operation takes its next step", memoised on
(event index, model state, in-flight bookkeeping). Handle-level behaviour that never reaches the core
(closed-flag checks, `to_sync`/`to_async`, `capacity`) is interpreted here.
-/
namespace Fv.Driver.LockedChan
open Fv.Driver

/-! ## generic matcher -/

inductive Status where
  | rest                  -- no operation in progress
  | fresh                 -- future created, never polled
  | running
  | pending               -- future returned Pending
  | fin (tok : String)    -- operation returned `tok`
  | dropped               -- future dropped before completion
  | panicked
deriving Repr, DecidableEq

inductive OpK where
  | send (v : Nat) | trySend (v : Nat) | recv | tryRecv | recvTimeout0
  | sendFut (v : Nat) | recvFut
  | cloneS | cloneR | closeS | closeR | probe
deriving Repr, DecidableEq

structure Iface (σ : Type) where
  call : σ → Nat → OpK → Option σ
  adv : σ → Nat → Option σ
  poll : σ → Nat → Option σ
  dropFut : σ → Nat → Option σ
  status : σ → Nat → Status
  wakes : σ → Nat → Nat
  key : σ → List Nat → List Nat
  /-- name of the action `adv` would perform for this agent (tie (ii) / tags) -/
  label : σ → Nat → String
  /-- a WAITING waiter record is still enqueued although its owner's operation is over: the real code
  now holds a dangling pointer (use-after-free when the next notifier CASes it) -/
  stale : σ → List Nat → Bool

/-- what an operation of the transcript means for the model -/
inductive Kind where
  | direct                           -- no model action (result decided by the handle layer)
  | sync (op : OpK)                  -- call, then run to completion
  | futNew (op : OpK)                -- create a manual future
  | poll                             -- poll a manual future
  | wakes                            -- observe the wake counter of a manual future
  | dropFut                          -- drop a manual future
  | ablock (op : OpK)                -- blocking form on an async handle: poll / park-until-woken loop
  | probe (what : String)            -- len / is_empty / is_full
deriving Repr, DecidableEq

structure Item where
  tid : Nat
  agent : Nat
  kind : Kind
  expect : Option String             -- the implementation's result (none: the op never returned)
deriving Repr

inductive Ev where
  | call (item : Item)
  | ret (tid : Nat)
deriving Repr

structure Entry where
  tid : Nat
  agent : Nat
  kind : Kind
  expect : Option String
  phase : Nat                        -- 0 not started, 1 running, 2 completed
  result : String := ""
  woken : Bool := false              -- dropFut: wakes > 0 at the drop / ablock: stale park token
deriving Repr, DecidableEq

structure Node (σ : Type) where
  i : Nat
  s : σ
  es : List Entry

def hashKey (k : List Nat) : Nat := k.foldl (fun h x => (h * 1000003 + x + 7) % 1000000007) 17

structure Vis where
  tab : Array (List (List Nat))
  count : Nat := 0
  maxI : Nat := 0                    -- furthest event index reached (diagnostics)
  sawStale : Bool := false           -- some explored state had a dangling WAITING waiter record (F17: UB from here on)

def Vis.empty : Vis := { tab := Array.replicate 4099 [] }
def Vis.has (v : Vis) (k : List Nat) : Bool :=
  let b := hashKey k % 4099
  (v.tab[b]!).contains k
def Vis.add (v : Vis) (k : List Nat) : Vis :=
  let b := hashKey k % 4099
  { v with tab := v.tab.set! b (k :: v.tab[b]!), count := v.count + 1 }

def strCode (s : String) : Nat := s.foldl (fun h c => (h * 257 + c.toNat) % 1000000007) 5

def entryKey (e : Entry) : List Nat :=
  [e.tid, e.agent, e.phase, strCode e.result, if e.woken then 1 else 0]

def capTok (cap : Nat) (what : String) (n : Nat) : String :=
  if what = "len" then s!"n:{n}"
  else if what = "is_empty" then (if n = 0 then "true" else "false")
  else (if n = cap then "true" else "false")

/-- result token of a completed model operation -/
def finTok : Status → Option String
  | .fin t => some t
  | _ => none

structure Ctx (σ : Type) where
  m : Iface σ
  evs : Array Ev
  agents : List Nat
  cap : Nat
  panicTid : Option Nat              -- `X panic:<tid>` with the unreachable! message
  budget : Nat := 400000

/-- next step of an in-flight entry; `none` = not enabled right now. -/
def stepEntry {σ} (c : Ctx σ) (s : σ) (e : Entry) : Option (σ × Entry) :=
  let m := c.m
  match e.kind with
  | .direct => if e.phase = 0 then some (s, { e with phase := 2, result := e.expect.getD "" }) else none
  | .sync op =>
    if e.phase = 0 then (m.call s e.agent op).map (fun s' => (s', { e with phase := 1 }))
    else
      (m.adv s e.agent).map (fun s' =>
        match m.status s' e.agent with
        | .fin t => (s', { e with phase := 2, result := t })
        | .panicked => (s', { e with phase := 2, result := "PANIC" })
        | _ => (s', e))
  | .probe what =>
    if e.phase = 0 then (m.call s e.agent .probe).map (fun s' => (s', { e with phase := 1 }))
    else
      (m.adv s e.agent).map (fun s' =>
        match m.status s' e.agent with
        | .fin t => (s', { e with phase := 2, result := capTok c.cap what (((t.drop 2).toString.toNat?).getD 0) })
        | _ => (s', e))
  | .futNew op =>
    if e.phase = 0 then (m.call s e.agent op).map (fun s' => (s', { e with phase := 2, result := "ok" })) else none
  | .poll =>
    if e.phase = 0 then
      match m.status s e.agent with
      | .fin _ => some (s, { e with phase := 2, result := "invalid:done" })
      | .dropped => some (s, { e with phase := 2, result := "invalid:done" })
      | _ =>
        (m.poll s e.agent).map (fun s' =>
          match m.status s' e.agent with
          | .fin t => (s', { e with phase := 2, result := "ready:" ++ t })
          | .pending => (s', { e with phase := 2, result := "pending" })
          | _ => (s', { e with phase := 1 }))
    else
      (m.adv s e.agent).map (fun s' =>
        match m.status s' e.agent with
        | .fin t => (s', { e with phase := 2, result := "ready:" ++ t })
        | .pending => (s', { e with phase := 2, result := "pending" })
        | _ => (s', e))
  | .wakes =>
    if e.phase = 0 then some (s, { e with phase := 2, result := s!"n:{m.wakes s e.agent}" }) else none
  | .dropFut =>
    if e.phase = 0 then
      match m.status s e.agent with
      | .fresh | .pending =>
        let w := decide (0 < m.wakes s e.agent)
        (m.dropFut s e.agent).map (fun s' =>
          match m.status s' e.agent with
          | .dropped => (s', { e with phase := 2, result := if w then "ok:woken" else "ok" })
          | _ => (s', { e with phase := 1, woken := w }))
      | _ => some (s, { e with phase := 2, result := "ok" })
    else
      (m.adv s e.agent).map (fun s' =>
        match m.status s' e.agent with
        | .dropped => (s', { e with phase := 2, result := if e.woken then "ok:woken" else "ok" })
        | _ => (s', e))
  | .ablock op =>
    if e.phase = 0 then
      let stale := decide (0 < m.wakes s e.agent)
      ((m.call s e.agent op).bind (fun s1 => m.poll s1 e.agent)).map (fun s' =>
        match m.status s' e.agent with
        | .fin t => (s', { e with phase := 2, result := t })
        | _ => (s', { e with phase := 1, woken := stale }))
    else
      match m.status s e.agent with
      | .pending =>
        -- the executor thread parks until its waker fired (or a stale park token lets it through once)
        let fin (s' : σ) (e' : Entry) : σ × Entry :=
          match m.status s' e.agent with
          | .fin t => (s', { e' with phase := 2, result := t })
          | _ => (s', e')
        if 0 < m.wakes s e.agent then (m.poll s e.agent).map (fun s' => fin s' e)
        else if e.woken then (m.poll s e.agent).map (fun s' => fin s' { e with woken := false })
        else none
      | _ =>
        (m.adv s e.agent).map (fun s' =>
          match m.status s' e.agent with
          | .fin t => (s', { e with phase := 2, result := t })
          | _ => (s', e))

def nodeKey {σ} (c : Ctx σ) (n : Node σ) : List Nat :=
  n.i :: (c.m.key n.s c.agents ++ (n.es.map entryKey).flatten)

def replaceEntry (es : List Entry) (e' : Entry) : List Entry :=
  es.map (fun e => if e.tid = e'.tid then e' else e)

def goalOk {σ} (c : Ctx σ) (n : Node σ) : Bool :=
  match c.panicTid with
  | none => true
  | some t => n.es.any (fun e => e.tid = t && e.result = "PANIC")

inductive Outcome where
  | found (steps : Nat)
  | notFound
  | budget
deriving Inhabited

instance : Inhabited Vis := ⟨{ tab := #[] }⟩

/-- DFS. Returns the outcome and the visited table. `fuel` bounds the recursion depth. -/
partial def dfs {σ} (c : Ctx σ) (n : Node σ) (depth : Nat) (vis : Vis) : Outcome × Vis :=
  if vis.count > c.budget then (.budget, vis) else
  let k := nodeKey c n
  if vis.has k then (.notFound, vis) else
  let vis := vis.add k
  let vis := if n.i > vis.maxI then { vis with maxI := n.i } else vis
  let vis := if !vis.sawStale && c.m.stale n.s c.agents then { vis with sawStale := true } else vis
  -- eager consumption of the next event
  match c.evs[n.i]? with
  | some (.call it) =>
    let e : Entry := { tid := it.tid, agent := it.agent, kind := it.kind, expect := it.expect, phase := 0 }
    dfs c { n with i := n.i + 1, es := e :: n.es.filter (fun x => x.tid ≠ it.tid) } depth vis
  | some (.ret tid) =>
    match n.es.find? (fun e => e.tid = tid) with
    | some e =>
      if e.phase = 2 then
        if some e.result = e.expect then
          dfs c { n with i := n.i + 1, es := n.es.filter (fun x => x.tid ≠ tid) } depth vis
        else (.notFound, vis)
      else advance c n depth vis
    | none => (.notFound, vis)
  | none =>
    if goalOk c n then (.found depth, vis) else advance c n depth vis
where
  advance (c : Ctx σ) (n : Node σ) (depth : Nat) (vis : Vis) : Outcome × Vis :=
    -- prefer the entry whose return comes first in the remaining events
    let order := n.es.filter (fun e => e.phase ≠ 2)
    let rec go (cands : List Entry) (vis : Vis) : Outcome × Vis :=
      match cands with
      | [] => (.notFound, vis)
      | e :: rest =>
        match stepEntry c n.s e with
        | none => go rest vis
        | some (s', e') =>
          match dfs c { n with s := s', es := replaceEntry n.es e' } (depth + 1) vis with
          | (.found d, vis') => (.found d, vis')
          | (.budget, vis') => (.budget, vis')
          | (.notFound, vis') => go rest vis'
    go order vis

/-! ## transcript interpretation (handle layer) -/

structure Handle where
  name : String
  sender : Bool
  async : Bool
  closed : Bool := false
deriving Repr

structure Pending where
  tid : Nat
  op : List String
deriving Repr

structure St where
  flavour : String := ""
  cap : Nat := 0
  lines : List (String × Nat × List String) := []      -- reversed: ("C"/"R", tid, tokens)
  status : String := ""
  skip : Option String := none

def kv (ws : List String) (key : String) : Option String :=
  (ws.find? (fun w => w.startsWith (key ++ "="))).map (fun w => (w.drop (key.length + 1)).toString)

def isRdv (f : String) : Bool := f.startsWith "rdv_"
def supported (f : String) : Bool := f = "mpmc_b" || f = "mpmc_b_async" || isRdv f

def init (ws : List String) : Except String St :=
  match kv ws "flavour", (kv ws "cap").bind String.toNat? with
  | some f, some c => .ok { flavour := f, cap := c, skip := if supported f then none else some "skip-flavour" }
  | _, _ => .error "missing flavour= / cap="

def step (st : St) (op _res : List String) : Except String (St × List String) :=
  match op with
  | "C" :: t :: rest =>
    match t.toNat? with
    | some tid => .ok ({ st with lines := ("C", tid, rest) :: st.lines }, [])
    | none => .error "bad-C"
  | "R" :: t :: rest =>
    match t.toNat? with
    | some tid => .ok ({ st with lines := ("R", tid, rest) :: st.lines }, [])
    | none => .error "bad-R"
  | ["X", status] => .ok ({ st with status := status }, [])
  | _ => .ok (st, [])

def isBatch (o : String) : Bool :=
  o = "send_batch" || o = "try_send_batch" || o = "send_batch_mut" || o = "try_send_batch_mut" ||
  o = "recv_batch" || o = "try_recv_batch" || o = "recv_batch_mut" || o = "try_recv_batch_mut" ||
  o = "send_batch_fut" || o = "recv_batch_fut"

structure Interp where
  handles : List Handle
  futs : List (String × Nat)         -- manual future name ↦ agent id
  nextFut : Nat := 1000
  items : List (String × Nat × Option Item) := []   -- reversed events: ("C", tid, item) / ("R", tid, none)
  skip : Option String := none
  f3 : Bool := false                 -- a closed handle was converted (F3: the copy is open again, counts underflow)
  rdv : Bool := false                -- rendezvous flavour: len / is_empty / is_full are constants of the handle layer

def findHandle (hs : List Handle) (n : String) : Option Handle := hs.find? (fun h => h.name = n)
def setHandle (hs : List Handle) (h : Handle) : List Handle :=
  if hs.any (fun x => x.name = h.name) then hs.map (fun x => if x.name = h.name then h else x) else h :: hs

/-- translate one `C` line (with the result the implementation gave, if any) -/
def interpCall (ip : Interp) (tid : Nat) (op : List String) (res : Option String) : Interp :=
  let mk (k : Kind) (agent : Nat := tid) : Interp :=
    { ip with items := ("C", tid, some { tid := tid, agent := agent, kind := k, expect := res }) :: ip.items }
  let direct : Interp := mk .direct
  let bad := match res with
    | some r => r.startsWith "invalid" || r = "unsupported"
    | none => false
  if bad then direct else
  match op with
  | ["fut", f, "=", "send_fut", h, v] =>
    match findHandle ip.handles h, v.toNat? with
    | some _, some v =>
      let a := ip.nextFut
      { (mk (.futNew (.sendFut v)) a) with futs := (f, a) :: ip.futs, nextFut := a + 1 }
    | _, _ => { ip with skip := some "skip-parse" }
  | ["fut", f, "=", "recv_fut", _h] =>
    let a := ip.nextFut
    { (mk (.futNew .recvFut) a) with futs := (f, a) :: ip.futs, nextFut := a + 1 }
  | "fut" :: _ => { ip with skip := some "skip-batch" }
  | ["poll", f] =>
    match ip.futs.find? (fun x => x.1 = f) with
    | some (_, a) => mk .poll a
    | none => { ip with skip := some "skip-parse" }
  | ["wakes", f] =>
    match ip.futs.find? (fun x => x.1 = f) with
    | some (_, a) => mk .wakes a
    | none => { ip with skip := some "skip-parse" }
  | ["dropfut", f] =>
    match ip.futs.find? (fun x => x.1 = f) with
    | some (_, a) => mk .dropFut a
    | none => { ip with skip := some "skip-parse" }
  | [o, h] | [o, h, _] =>
    if isBatch o then { ip with skip := some "skip-batch" } else
    if o = "drop" then
      match ip.futs.find? (fun x => x.1 = h) with
      | some (_, a) => mk .dropFut a
      | none =>
        match findHandle ip.handles h with
        | some hd =>
          let ip' := { ip with handles := setHandle ip.handles { hd with closed := true } }
          let mk' (k : Kind) : Interp :=
            { ip' with items := ("C", tid, some { tid := tid, agent := tid, kind := k, expect := res }) :: ip'.items }
          if hd.closed then mk' .direct else mk' (.sync (if hd.sender then .closeS else .closeR))
        | none => { ip with skip := some "skip-parse" }
    else
    match findHandle ip.handles h with
    | none => { ip with skip := some "skip-parse" }
    | some hd =>
      let arg := (op.getD 2 "")
      if o = "close" then
        let ip' := { ip with handles := setHandle ip.handles { hd with closed := true } }
        let mk' (k : Kind) : Interp :=
          { ip' with items := ("C", tid, some { tid := tid, agent := tid, kind := k, expect := res }) :: ip'.items }
        if hd.closed then mk' .direct else mk' (.sync (if hd.sender then .closeS else .closeR))
      else if o = "clone" then
        let ip' := { ip with handles := setHandle ip.handles { hd with name := arg, closed := false } }
        { ip' with items := ("C", tid, some { tid := tid, agent := tid, kind := .sync (if hd.sender then .cloneS else .cloneR),
                                               expect := res }) :: ip'.items }
      else if o = "to_async" || o = "to_sync" then
        let ip' := { ip with handles := setHandle ip.handles { hd with async := (o = "to_async"), closed := false },
                             f3 := ip.f3 || hd.closed }
        { ip' with items := ("C", tid, some { tid := tid, agent := tid, kind := .direct, expect := res }) :: ip'.items }
      else if o = "len" || o = "is_empty" || o = "is_full" then (if ip.rdv then direct else mk (.probe o))
      else if o = "capacity" || o = "is_closed" || o = "sender_count" then direct
      else if o = "send" then
        match arg.toNat? with
        | some v =>
          if hd.async then mk (.ablock (.sendFut v))            -- AsyncSender::send has no closed-flag check
          else if hd.closed then direct else mk (.sync (.send v))
        | none => { ip with skip := some "skip-parse" }
      else if o = "try_send" then
        match arg.toNat? with
        | some v => if hd.closed then direct else mk (.sync (.trySend v))
        | none => { ip with skip := some "skip-parse" }
      else if o = "recv" then
        if hd.async then mk (.ablock .recvFut) else if hd.closed then direct else mk (.sync .recv)
      else if o = "try_recv" then (if hd.closed then direct else mk (.sync .tryRecv))
      else if o = "recv_timeout0" then (if hd.closed then direct else mk (.sync .recvTimeout0))
      else { ip with skip := some "skip-op" }
  | _ => { ip with skip := some "skip-op" }

/-- expected result of an op that the handle layer answers without touching the core -/
def directExpect (op : List String) (closed : Bool) : Option String :=
  match op with
  | ["send", _, _] => if closed then some "err:closed" else none
  | ["try_send", _, v] => if closed then some ("err:closed:" ++ v) else none
  | ["recv", _] => if closed then some "err:disconnected" else none
  | ["try_recv", _] => if closed then some "err:disconnected" else none
  | ["recv_timeout0", _] => if closed then some "err:disconnected" else none
  | ["close", _] => if closed then some "err:close" else none
  | ["drop", _] => some "ok"
  | _ => none

/-! ## model interface: mpmc bounded v2 -/

namespace Mp
open Fv.Chan.Mpmc2B

def opOf : OpK → Op
  | .send v => .send v | .trySend v => .trySend v | .recv => .recv | .tryRecv => .tryRecv
  | .recvTimeout0 => .recvTimeout0 | .sendFut v => .sendFut v | .recvFut => .recvFut
  | .cloneS => .cloneS | .cloneR => .cloneR | .closeS => .closeS | .closeR => .closeR | .probe => .probe

def resTok : Res → String
  | .sendOk _ => "ok"
  | .sendFull v => s!"err:full:{v}"
  | .sendClosed v => s!"err:closed:{v}"
  | .sendClosedDrop _ => "err:closed"
  | .recvOk v => s!"ok:{v}"
  | .recvEmpty => "err:empty"
  | .recvDisc => "err:disconnected"
  | .recvTimeout => "err:timeout"
  | .unit => "ok"
  | .num n => s!"n:{n}"
  | .futDropped => "dropped"
  | .panicked => "PANIC"

def status (s : State) (a : Nat) : Status :=
  match s.pc a with
  | .idle => .rest
  | .done .futDropped => .dropped
  | .done .panicked => .panicked
  | .done r => .fin (resTok r)
  | .asNew _ _ => .fresh
  | .arNew _ => .fresh
  | .asPend _ _ => .pending
  | .arPend _ => .pending
  | _ => .running

def wsCode : WS → Nat
  | .waiting => 0 | .success => 1 | .closed => 2 | .cancelled => 3

def resCode : Res → List Nat
  | .sendOk v => [1, v] | .sendFull v => [2, v] | .sendClosed v => [3, v] | .sendClosedDrop v => [4, v]
  | .recvOk v => [5, v] | .recvEmpty => [6] | .recvDisc => [7] | .recvTimeout => [8] | .unit => [9]
  | .num n => [10, n] | .futDropped => [11] | .panicked => [12]

def pcCode : PC → List Nat
  | .idle => [0] | .done r => 1 :: resCode r
  | .sTry v r => [2, v, r] | .sReg v r => [3, v, r] | .sWait v r => [4, v, r] | .sPark v r => [5, v, r]
  | .sUnl v r c => [6, v, r, if c then 1 else 0] | .tsTry v => [7, v]
  | .rTry r => [8, r] | .rReg r => [9, r] | .rWait r => [10, r] | .rPark r => [11, r] | .rUnl r => [12, r] | .trTry => [13]
  | .toTry r => [14, r] | .toReg r => [15, r] | .toRetry r => [16, r] | .toCas r => [17, r] | .toUnl r => [18, r]
  | .toFin r => [19, r]
  | .asNew v r => [20, v, r] | .asTry v r => [21, v, r] | .asReg v r => [22, v, r] | .asPend v r => [23, v, r]
  | .asUnl v r c => [24, v, r, if c then 1 else 0] | .asRef v r => [25, v, r] | .fdUnlS v r => [26, v, r]
  | .arNew r => [27, r] | .arTry r => [28, r] | .arReg r => [29, r] | .arPend r => [30, r] | .arUnl r => [31, r]
  | .fdUnlR r => [32, r]
  | .hCloneS => [33] | .hCloneR => [34] | .hCloseS => [35] | .hCloseR => [36] | .hProbe => [37]
  | .hWake ws => 38 :: ws

def key (s : State) (agents : List Nat) : List Nat :=
  s.queue ++ [999999, s.senders, s.receivers] ++ s.wss ++ [999998] ++ s.was ++ [999997] ++ s.wsr ++ [999996] ++ s.war ++
  [999995, s.nextRec] ++ (List.range s.nextRec).map (fun r => wsCode (s.st r)) ++
  (agents.map (fun a => pcCode (s.pc a) ++ [999994, s.wakes a])).flatten

def label (s : State) (a : Nat) : String :=
  match s.pc a with
  | .sTry .. => "try_send_core" | .tsTry .. => "try_send_core" | .asTry .. => "try_send_core"
  | .sReg .. => "send-register" | .asReg .. => "send-register"
  | .sWait .. => "load-state" | .rWait .. => "load-state"
  | .sPark .. => "park" | .rPark .. => "park"
  | .sUnl .. => "unlink" | .asUnl .. => "unlink" | .rUnl .. => "unlink" | .arUnl .. => "unlink" | .toUnl .. => "unlink"
  | .fdUnlS .. => "unlink" | .fdUnlR .. => "unlink"
  | .rTry .. => "try_recv_core" | .trTry => "try_recv_core" | .toTry .. => "try_recv_core" | .toRetry .. => "try_recv_core"
  | .toFin .. => "try_recv_core" | .arTry .. => "try_recv_core"
  | .rReg .. => "recv-register" | .toReg .. => "recv-register" | .arReg .. => "recv-register"
  | .toCas .. => "cancel-cas" | .asRef .. => "refresh-waker"
  | .hCloneS => "clone" | .hCloneR => "clone" | .hCloseS => "close" | .hCloseR => "close" | .hProbe => "len"
  | .hWake .. => "wake"
  | _ => "-"

/-- a finished / dropped / idle agent still owns an enqueued WAITING receiver record (finding F17; unreachable in
the model since fix cd494c8 — kept as a diagnostic: `sawStale` is reported in the mismatch line) -/
def stale (s : State) (agents : List Nat) : Bool :=
  (s.war ++ s.wsr).any (fun r => decide (s.st r = .waiting) &&
    (match s.pc (s.owner r) with
     | .rWait r' => r' != r | .rPark r' => r' != r | .toCas r' => r' != r | .arPend r' => r' != r
     | .arTry r' => r' != r | .arReg r' => r' != r
     | _ => true)) && agents.length > 0

def iface : Iface State :=
  { call := fun s a op => Fv.Chan.Mpmc2B.step s a (.call (opOf op)),
    adv := fun s a => Fv.Chan.Mpmc2B.step s a .adv,
    poll := fun s a => Fv.Chan.Mpmc2B.step s a .poll,
    dropFut := fun s a => Fv.Chan.Mpmc2B.step s a .dropFut,
    status := status, wakes := fun s a => s.wakes a, key := key, label := label, stale := stale }

end Mp


/-! ## model interface: rendezvous core -/

namespace Rv
open Fv.Chan.RendezvousB

def opOf : OpK → Option Op
  | .send v => some (.send v) | .trySend v => some (.trySend v) | .recv => some .recv | .tryRecv => some .tryRecv
  | .recvTimeout0 => some .recvTimeout0 | .sendFut v => some (.sendFut v) | .recvFut => some .recvFut
  | .cloneS => some .cloneS | .cloneR => some .cloneR | .closeS => some .closeS | .closeR => some .closeR | .probe => none

def resTok : Res → String
  | .sendOk _ => "ok"
  | .sendFull v => s!"err:full:{v}"
  | .sendClosed v => s!"err:closed:{v}"
  | .sendClosedDrop _ => "err:closed"
  | .recvOk v => s!"ok:{v}"
  | .recvEmpty => "err:empty"
  | .recvDisc => "err:disconnected"
  | .recvTimeout => "err:timeout"
  | .unit => "ok"
  | .futDropped => "dropped"
  | .panicked => "PANIC"

def status (s : State) (a : Nat) : Status :=
  match s.pc a with
  | .idle => .rest
  | .done .futDropped => .dropped
  | .done .panicked => .panicked
  | .done r => .fin (resTok r)
  | .asNew _ _ => .fresh
  | .arNew _ => .fresh
  | .asPend _ _ => .pending
  | .arPend _ => .pending
  | _ => .running

def rsCode : RS → Nat
  | .waiting => 0 | .done => 1 | .cancelled => 2 | .disconnected => 3

def resCode : Res → List Nat
  | .sendOk v => [1, v] | .sendFull v => [2, v] | .sendClosed v => [3, v] | .sendClosedDrop v => [4, v]
  | .recvOk v => [5, v] | .recvEmpty => [6] | .recvDisc => [7] | .recvTimeout => [8] | .unit => [9]
  | .futDropped => [11] | .panicked => [12]

def pcCode : PC → List Nat
  | .idle => [0] | .done r => 1 :: resCode r | .wakeThen a r => 2 :: a :: resCode r
  | .sLock v r => [3, v, r] | .sWait v r => [4, v, r] | .sPark v r => [5, v, r] | .tsLock v => [6, v]
  | .rLock r => [7, r] | .rWait r => [8, r] | .rPark r => [9, r] | .trLock => [10]
  | .toLock r => [11, r] | .toLoad r => [12, r] | .toCas r => [13, r] | .toUnl r => [14, r] | .toFin r => [15, r]
  | .asNew v r => [16, v, r] | .asLock v r => [17, v, r] | .asPend v r => [18, v, r] | .asRef v r => [19, v, r]
  | .asFin v r => [20, v, r] | .fdUnlS v r => [21, v, r]
  | .arNew r => [22, r] | .arLock r => [23, r] | .arPend r => [24, r] | .arRef r => [25, r] | .arFin r => [26, r]
  | .fdUnlR r => [27, r]
  | .hCloneS => [28] | .hCloneR => [29] | .hCloseS => [30] | .hCloseR => [31] | .hWake ws => 32 :: ws

def key (s : State) (agents : List Nat) : List Nat :=
  s.sq ++ [999999, s.senders, s.receivers] ++ s.rq ++ [999998, s.nextRec] ++
  ((List.range s.nextRec).map (fun r => [rsCode (s.st r), (s.slot r).getD 999990])).flatten ++
  (agents.map (fun a => pcCode (s.pc a) ++ [999994, s.wakes a])).flatten

def label (s : State) (a : Nat) : String :=
  match s.pc a with
  | .wakeThen .. => "wake" | .hWake .. => "wake"
  | .sLock .. => "send-lock" | .tsLock .. => "send-lock" | .asLock .. => "send-lock"
  | .rLock .. => "recv-lock" | .trLock => "recv-lock" | .toLock .. => "recv-lock" | .arLock .. => "recv-lock"
  | .sWait .. => "load-state" | .rWait .. => "load-state" | .toLoad .. => "load-state" | .toFin .. => "load-state"
  | .asFin .. => "load-state" | .arFin .. => "load-state"
  | .sPark .. => "park" | .rPark .. => "park"
  | .toCas .. => "cancel-cas"
  | .toUnl .. => "unlink" | .fdUnlS .. => "unlink" | .fdUnlR .. => "unlink"
  | .asRef .. => "refresh-waker" | .arRef .. => "refresh-waker"
  | .hCloneS => "clone" | .hCloneR => "clone" | .hCloseS => "close" | .hCloseR => "close"
  | _ => "-"

def iface : Iface State :=
  { call := fun s a op => (opOf op).bind (fun o => Fv.Chan.RendezvousB.step s a (.call o)),
    adv := fun s a => Fv.Chan.RendezvousB.step s a .adv,
    poll := fun s a => Fv.Chan.RendezvousB.step s a .poll,
    dropFut := fun s a => Fv.Chan.RendezvousB.step s a .dropFut,
    status := status, wakes := fun s a => s.wakes a, key := key, label := label, stale := fun _ _ => false }

end Rv

/-! ## putting it together -/

def initialHandles (flavour : String) : List Handle :=
  let a := flavour.endsWith "_async"
  [{ name := "s0", sender := true, async := a }, { name := "r0", sender := false, async := a }]

/-- pair each `C` with the `R` of the same thread that follows it -/
def resultOf (lines : List (String × Nat × List String)) (tid : Nat) : Option String :=
  match lines.find? (fun l => l.2.1 = tid) with
  | some ("R", _, toks) => some (" ".intercalate toks)
  | _ => none

def interpret (flavour : String) (lines : List (String × Nat × List String)) : Interp :=
  let rec go (ls : List (String × Nat × List String)) (ip : Interp) : Interp :=
    match ls with
    | [] => ip
    | (k, tid, toks) :: rest =>
      if ip.skip.isSome then ip else
      if k = "C" then go rest (interpCall ip tid toks (resultOf rest tid))
      else go rest { ip with items := ("R", tid, none) :: ip.items }
  go lines { handles := initialHandles flavour, futs := [], rdv := isRdv flavour }

def finish (st : St) : Except String (List String) :=
  match st.skip with
  | some why => .ok [why]
  | none =>
    let lines := st.lines.reverse
    let ip := interpret st.flavour lines
    match ip.skip with
    | some why => .ok [why]
    | none =>
      let evs : Array Ev := (ip.items.reverse.map (fun (k, tid, it) =>
        match it with
        | some item => Ev.call item
        | none => if k = "R" then Ev.ret tid else Ev.ret tid)).toArray
      let tids := (lines.map (fun l => l.2.1)).eraseDups
      let agents := tids ++ ip.futs.map (·.2)
      let panicTid : Option Nat :=
        if st.status.startsWith "panic:" then
          match (st.status.splitOn ":") with
          | _ :: t :: msg :: _ => if msg.startsWith "internal_error" || (msg.splitOn "unreachable").length > 1 || (msg.splitOn "state_was_finished").length > 1 then t.toNat? else none
          | _ => none
        else none
      if st.status.startsWith "panic:" && panicTid.isNone then .ok ["skip-foreign-panic"] else
      let (out, vis) :=
        if isRdv st.flavour then
          let c : Ctx Fv.Chan.RendezvousB.State :=
            { m := Rv.iface, evs := evs, agents := agents, cap := st.cap, panicTid := panicTid }
          dfs c { i := 0, s := Fv.Chan.RendezvousB.init, es := [] } 0 Vis.empty
        else
          let c : Ctx Fv.Chan.Mpmc2B.State :=
            { m := Mp.iface, evs := evs, agents := agents, cap := st.cap, panicTid := panicTid }
          dfs c { i := 0, s := Fv.Chan.Mpmc2B.init st.cap, es := [] } 0 Vis.empty
      match out with
      | .found _ =>
        .ok (["history-explained", "flavour-" ++ st.flavour] ++ (if panicTid.isSome then ["panic-F5-explained"] else []) ++
             (if st.status.startsWith "deadlock" then ["deadlock-case"] else []))
      | .budget => .ok ["search-budget"]
      | .notFound =>
        -- (until fix cd494c8 of finding F17 a history past a dangling WAITING record — `sawStale` — was excused here as
        -- undefined behaviour; the repaired model has no such state (`mpmc2_no_dangling_waiter_record`), so an
        -- unexplained history is a mismatch whatever was explored)
        if ip.f3 then .ok ["known-F3-conversion-of-closed-handle"] else
        let evDesc := match evs[vis.maxI]? with
          | some (.call it) => s!"C tid={it.tid} expect={it.expect.getD "-"}"
          | some (.ret tid) => s!"R tid={tid}"
          | none => "end"
        .error s!"model=no-run-of-the-B-model-explains-this-history status={st.status} stuck-at-event={vis.maxI} [{evDesc}] explored={vis.count}{if vis.sawStale then " saw-dangling-waiter-record" else ""}"

def engine : Engine St := { init := init, step := step, finish := finish }

end Fv.Driver.LockedChan
