/-
Generic line-protocol replayer shared by every `fvdrv_*` executable.

Transcript (written by the Rust harness, see /verif/docs/CONVENTIONS.md):
  #case <id> <config tokens...>
  <op tokens> => <implementation result tokens>
  !monitor <signature> | <message>        (ignored here)
  #end
The engine's `step` is given the op and the implementation's result and either
accepts (new model state + branch tags) or rejects with a message; oracles
(hash order, random victims) are therefore *inputs* checked for admissibility.
-/
namespace Fv.Driver

structure Engine (σ : Type) where
  init : List String → Except String σ
  step : σ → List String → List String → Except String (σ × List String)
  /-- called at `#end`; may reject (e.g. history not linearizable) -/
  finish : σ → Except String (List String) := fun _ => .ok []

def words (s : String) : List String :=
  (s.splitOn " ").filter (· ≠ "")

def bumpTag (tags : List (String × Nat)) (t : String) : List (String × Nat) :=
  match tags with
  | [] => [(t, 1)]
  | (k, n) :: rest => if k = t then (k, n + 1) :: rest else (k, n) :: bumpTag rest t

structure Loop (σ : Type) where
  cur : Option (String × σ) := none     -- current case id and model state
  dead : Bool := false                  -- a mismatch was already reported for this case
  lineNo : Nat := 0
  cases : Nat := 0
  lines : Nat := 0
  tags : List (String × Nat) := []

def splitArrow (l : String) : String × String :=
  match l.splitOn " => " with
  | [a] => (a, "")
  | a :: rest => (a, " => ".intercalate rest)
  | [] => ("", "")

def feed {σ} (e : Engine σ) (st : Loop σ) (raw : String) : Loop σ × Option String :=
  let l := (raw.trimAscii).toString
  if l.startsWith "#case " then
    let ws := words l
    let id := ws.getD 1 "?"
    match e.init (ws.drop 2) with
    | .ok s => ({ st with cur := some (id, s), dead := false, lineNo := 0, cases := st.cases + 1 }, none)
    | .error m => ({ st with cur := none, dead := true, lineNo := 0, cases := st.cases + 1 },
                   some s!"MISMATCH case={id} line=0 bad-case-header {m}")
  else if l.startsWith "#end" then
    match st.cur, st.dead with
    | some (id, s), false =>
      match e.finish s with
      | .ok ts => ({ st with cur := none, tags := ts.foldl bumpTag st.tags }, none)
      | .error m => ({ st with cur := none }, some s!"MISMATCH case={id} line=end {m}")
    | _, _ => ({ st with cur := none }, none)
  else if l.startsWith "#" || l.startsWith "!" || l.isEmpty then (st, none)
  else
    match st.cur, st.dead with
    | some (id, s), false =>
      let (op, res) := splitArrow l
      let n := st.lineNo + 1
      match e.step s (words op) (words res) with
      | .ok (s', ts) =>
        ({ st with cur := some (id, s'), lineNo := n, lines := st.lines + 1, tags := ts.foldl bumpTag st.tags }, none)
      | .error m =>
        ({ st with dead := true, lineNo := n, lines := st.lines + 1 },
         some s!"MISMATCH case={id} line={n} op=[{op}] impl=[{res}] {m}")
    | _, _ => (st, none)

partial def loop {σ} (e : Engine σ) (h : IO.FS.Stream) (st : Loop σ) : IO (Loop σ) := do
  let line ← h.getLine
  if line.isEmpty then return st
  let (st', msg) := feed e st line
  match msg with
  | some m => IO.println m
  | none => pure ()
  loop e h st'

def runEngine {σ} (e : Engine σ) : IO UInt32 := do
  let st ← loop e (← IO.getStdin) {}
  for (k, n) in st.tags do
    IO.println s!"TAG {k} {n}"
  IO.println s!"OK cases={st.cases} lines={st.lines}"
  return 0

/-- Parse helpers used by engines. -/
def nat? (s : String) : Option Nat := s.toNat?

def natList? (s : String) : Option (List Nat) :=
  -- "[]" or "[1,2,3]" or "1,2,3" or "-"
  let t := (s.replace "[" "").replace "]" ""
  if t.isEmpty || t = "-" then some []
  else (t.splitOn ",").mapM (fun x => x.toNat?)

def showNatList (l : List Nat) : String :=
  "[" ++ ",".intercalate (l.map toString) ++ "]"

end Fv.Driver
