import Fv.Driver.Proto
import Fv.Chan.MpscUB
/-
Engine `chainb` (mpsc part): replays `chanh … --atomics` transcripts of the flavours `mpsc_u`,
`mpsc_u_async` on the step-level model `Fv.Chan.MpscUB` (which embeds `Fv.Chan.ChainB`).

Trace inclusion, action by action.  For every `A <tid> …` line of a thread that is inside an API
call, the model computes the action its program counter dictates (`expectS` / `expectR`: kind,
object ROLE, memory ordering, value before / after, CAS outcome); the line must be that action
(same kind, same object, same values; ordering at least as strong as the model's — weaker is a
MISMATCH) and the model then takes the step.  τ steps (no visible action) are taken silently.
`C` lines are the call steps, `R` lines must carry the result the model computed.
Objects: `L` lines bind creation-order object ids to roles.  The channel constructor's sequence
is the calibration (`calib`): a changed field order / a new atomic fails loudly.  Slab objects are
bound when the model performs `alloc_slab` (1 × u32 `remaining`, N × ptr `next`), the `notified`
flag when a blocking receive starts, a new `closed` flag at `to_async` / `to_sync`.
Pointer values are canonical tokens `p<k>`; the token ↔ node bijection is learned at first
sight and enforced afterwards.
-/
namespace Fv.Driver.ChainB
open Fv.Chan
open Fv.Chan.MpscUB (State SPC RPC TPC SOp ROp Res TRes Waker Label)

inductive Role where
  | stubNext | head | rdrop | senders | swCnt | awCnt | shard (i : Nat) | shardCur | consumed
  | rclosed | rem (b : Nat) | next (b i : Nat) | notif
  -- mpmc unbounded
  | wcnt | rcount | rclosedH (r : Nat) | cell (r : Nat) | cmState | cm
deriving DecidableEq, Repr

inductive MRole where
  | pool | sw | aw
deriving DecidableEq, Repr

inductive Val where
  | nat (n : Nat)
  | ptr (n : Option ChainB.NodeId)
  | none
deriving DecidableEq, Repr

inductive Obj where
  | atom (r : Role)
  | mutex (m : MRole)
  | thread (t : Nat)
  | waker (w : Waker)
  | none
deriving DecidableEq, Repr

structure Act where
  kind : String
  obj : Obj := .none
  ord : String := "-"
  old : Val := .none
  new : Val := .none
  ok : Option Bool := none
deriving Repr

inductive Exp where
  | tau
  | act (a : Act)
  | alloc            -- `alloc_slab`: announced by its `L` lines
  | stuck
deriving Repr

def b2n (b : Bool) : Nat := if b then 1 else 0

def nextRole : ChainB.NodeId → Role
  | .stub => .stubNext
  | .nd b i => .next b i

/-! ### expected action of a chain label -/

def chainAct (cfg : ChainB.Cfg) (c : ChainB.State) (h : Nat) : ChainB.Label → Exp
  | .pBump => .tau
  | .pSealDec =>
    match c.pslab h with
    | some b =>
      let rel := cfg.N - c.ppos h + 1
      .act { kind := "fsub", obj := .atom (.rem b), ord := "rel", old := .nat (c.rem b), new := .nat (c.rem b - rel) }
    | none => .stuck
  | .pRelFence => .act { kind := "fence", ord := "acq" }
  | .pRelLock => .act { kind := "lock", obj := .mutex .pool }
  | .pRelUnlock => .act { kind := "unlock", obj := .mutex .pool }
  | .pAcqLock => .act { kind := "lock", obj := .mutex .pool }
  | .pAcqUnlock => .act { kind := "unlock", obj := .mutex .pool }
  | .pRearmRem =>
    match c.ppc h with
    | .rearmRem b => .act { kind := "store", obj := .atom (.rem b), ord := "rlx", old := .nat (c.rem b), new := .nat (cfg.N + 1) }
    | _ => .stuck
  | .pRearmNode =>
    match c.ppc h with
    | .rearmNode b i => .act { kind := "store", obj := .atom (.next b i), ord := "rlx", old := .ptr (c.next (.nd b i)), new := .ptr none }
    | _ => .stuck
  | .pAlloc => .alloc
  | .pPrelink =>
    let prev := c.run h (c.rlen h - 2)
    .act { kind := "store", obj := .atom (nextRole prev), ord := "rlx", old := .ptr (c.next prev), new := .ptr (some (c.run h (c.rlen h - 1))) }
  | .pSwap =>
    .act { kind := "swap", obj := .atom .head, ord := "acqrel", old := .ptr (some c.head), new := .ptr (some (c.run h (c.rlen h - 1))) }
  | .pLink =>
    match c.ppc h with
    | .link _ old first => .act { kind := "store", obj := .atom (nextRole old), ord := "rel", old := .ptr (c.next old), new := .ptr (some first) }
    | _ => .stuck
  | .pDropDec => .act { kind := "fsub", obj := .atom .senders, ord := "acqrel", old := .nat c.senders, new := .nat (c.senders - 1) }
  | .pClone _ => .act { kind := "fadd", obj := .atom .senders, ord := "rlx", old := .nat c.senders, new := .nat (c.senders + 1) }
  | .cPopLoad => .act { kind := "load", obj := .atom (nextRole c.tail), ord := "acq", old := .ptr (c.next c.tail), new := .ptr (c.next c.tail) }
  | .cRetDec =>
    match c.cpc with
    | .retDec (.nd b _) _ => .act { kind := "fsub", obj := .atom (.rem b), ord := "rel", old := .nat (c.rem b), new := .nat (c.rem b - 1) }
    | _ => .stuck
  | .cRelFence => .act { kind := "fence", ord := "acq" }
  | .cRelLock => .act { kind := "lock", obj := .mutex .pool }
  | .cRelUnlock => .act { kind := "unlock", obj := .mutex .pool }
  | .cFinLoad => .act { kind := "load", obj := .atom (nextRole c.tail), ord := "rlx", old := .ptr (c.next c.tail), new := .ptr (c.next c.tail) }
  | .cRet => .tau
  | .cFinStart => .tau
  | .pStart _ => .tau
  | .pClose => .tau

def wakerObj (w : Option Waker) : Obj := match w with | some w => .waker w | none => .none

def expectS (cfg : MpscUB.Cfg) (s : State) (h : Nat) : Exp :=
  let ld (r : Role) (o : String) (v : Nat) : Exp := .act { kind := "load", obj := .atom r, ord := o, old := .nat v, new := .nat v }
  let st (r : Role) (o : String) (v w : Nat) : Exp := .act { kind := "store", obj := .atom r, ord := o, old := .nat v, new := .nat w }
  match s.spc h with
  | .idle => .stuck
  | .done => .stuck
  | .chk => ld .rdrop "acq" (b2n s.rdrop)
  | .chain | .closeChain =>
    match MpscUB.pNext cfg s.ch h with
    | some l => chainAct cfg.chain s.ch h l
    | none => .stuck
  | .rec_ =>
    let i := s.sshard h % cfg.shards
    .act { kind := "fadd", obj := .atom (.shard i), ord := "rlx", old := .nat (s.shard i), new := .nat (s.shard i + s.sn h) }
  | .nFence => .act { kind := "fence", ord := "sc" }
  | .nLoadS => ld .swCnt "rlx" s.swCnt
  | .nLockS | .wLockS => .act { kind := "lock", obj := .mutex .sw }
  | .nCntS | .wCntS => st .swCnt "rel" s.swCnt 0
  | .nFlagS | .wFlagS => st .notif "rel" (b2n s.notif) 1
  | .nUnlockS | .wUnlockS => .act { kind := "unlock", obj := .mutex .sw }
  | .nUnparkS | .wUnparkS =>
    match s.swk h with
    | some w => .act { kind := "unpark", obj := .thread w, old := .nat (b2n (s.token w)), new := .nat 1 }
    | none => .stuck
  | .nLoadA => ld .awCnt "rlx" s.awCnt
  | .nLockA | .wLockA => .act { kind := "lock", obj := .mutex .aw }
  | .nCntA | .wCntA => st .awCnt "rel" s.awCnt 0
  | .nUnlockA | .wUnlockA => .act { kind := "unlock", obj := .mutex .aw }
  | .nWakeA | .wWakeA => .act { kind := "wake", obj := wakerObj (s.sawk h) }
  | .nUnparkA | .wUnparkA =>
    match s.sawk h with
    | some (.task w) => .act { kind := "unpark", obj := .thread w, old := .nat (b2n (s.token w)), new := .nat 1 }
    | _ => .stuck
  | .cloneCnt => chainAct cfg.chain s.ch h (.pClone 0)
  | .cloneShard => .act { kind := "fadd", obj := .atom .shardCur, ord := "rlx", old := .nat s.shardCur, new := .nat (s.shardCur + 1) }
  | .lenShard i => ld (.shard i) "rlx" (s.shard i)
  | .lenCons => ld .consumed "rlx" s.consumed
  | .closedLoad => ld .rdrop "acq" (b2n s.rdrop)
  | .scLoad => ld .senders "rlx" s.ch.senders
  | .afterClose => .tau
  | .fin =>
    match MpscUB.cNext s.ch with
    | some l => chainAct cfg.chain s.ch 0 l
    | none => .stuck

def expectR (cfg : MpscUB.Cfg) (s : State) : Exp :=
  let ld (r : Role) (o : String) (v : Nat) : Exp := .act { kind := "load", obj := .atom r, ord := o, old := .nat v, new := .nat v }
  let st (r : Role) (o : String) (v w : Nat) : Exp := .act { kind := "store", obj := .atom r, ord := o, old := .nat v, new := .nat w }
  let park : Exp := .act { kind := "park", old := .nat 1, new := .nat 0 }
  match s.rpc with
  | .idle => .stuck
  | .done => .stuck
  | .closedLoad => ld .rclosed "rlx" (b2n s.rclosed)
  | .pop => chainAct cfg.chain s.ch 0 .cPopLoad
  | .inPop =>
    match s.ch.cpc with
    | .done _ => .tau
    | _ =>
      match MpscUB.cNext s.ch with
      | some l => chainAct cfg.chain s.ch 0 l
      | none => .stuck
  | .cons => .act { kind := "fadd", obj := .atom .consumed, ord := "rlx", old := .nat s.consumed, new := .nat (s.consumed + 1) }
  | .senders => ld .senders "acq" s.ch.senders
  | .gLockS | .uLockS => .act { kind := "lock", obj := .mutex .sw }
  | .gUnlockS | .uUnlockS => .act { kind := "unlock", obj := .mutex .sw }
  | .gCntS => st .swCnt "rel" s.swCnt 1
  | .uCntS => st .swCnt "rel" s.swCnt 0
  | .gFence | .gFenceA => .act { kind := "fence", ord := "sc" }
  | .park | .execPark => park
  | .swapFlag => .act { kind := "swap", obj := .atom .notif, ord := "acq", old := .nat (b2n s.notif), new := .nat 0 }
  | .gLockA | .uLockA => .act { kind := "lock", obj := .mutex .aw }
  | .gUnlockA | .uUnlockA => .act { kind := "unlock", obj := .mutex .aw }
  | .gCntA => st .awCnt "rel" s.awCnt 1
  | .uCntA => st .awCnt "rel" s.awCnt 0
  | .closeCas =>
    .act { kind := "cas", obj := .atom .rclosed, ord := "acqrel", old := .nat (b2n s.rclosed), new := .nat 1, ok := some (!s.rclosed) }
  | .closeSwap => .act { kind := "swap", obj := .atom .rclosed, ord := "acqrel", old := .nat (b2n s.rclosed), new := .nat 1 }
  | .dropStore => st .rdrop "rel" (b2n s.rdrop) 1
  | .lenShard i => ld (.shard i) "rlx" (s.shard i)
  | .lenCons => ld .consumed "rlx" s.consumed
  | .emptyLoad => .act { kind := "load", obj := .atom (nextRole s.ch.tail), ord := "acq", old := .ptr (s.ch.next s.ch.tail), new := .ptr (s.ch.next s.ch.tail) }
  | .iscSenders => ld .senders "acq" s.ch.senders
  | .scLoad => ld .senders "rlx" s.ch.senders
  | .convLoad => ld .rclosed "rlx" (b2n s.rclosed)
  | .release => .tau
  | .fin =>
    match MpscUB.cNext s.ch with
    | some l => chainAct cfg.chain s.ch 0 l
    | none => .stuck

def expect (cfg : MpscUB.Cfg) (s : State) (t : Nat) : Exp :=
  match s.tpc t with
  | .idle => .stuck
  | .onS h => expectS cfg s h
  | .onR => expectR cfg s

/-! ### engine state -/

structure FutInfo where
  name : String
  id : Nat
  recv : Bool
  handle : Nat := 0          -- sender handle (send futures)
  vals : List Nat := []      -- send futures
  max : Nat := 1
  single : Bool := true
  live : Bool := true
deriving Repr

structure St where
  cfg : MpscUB.Cfg := {}
  s : State := MpscUB.init
  roles : List (Nat × Role) := []       -- atomic object number ↦ role
  mroles : List (Nat × MRole) := []
  ptrs : List (String × ChainB.NodeId) := []
  calibLeft : List String := []          -- construction sequence still expected
  calibDone : Bool := false
  pending : List (Nat × List String) := []   -- tid ↦ op tokens of a `C` line not yet applied to the model
  lastOp : List (Nat × List String) := []    -- tid ↦ op tokens of the call in progress
  slabFill : Option (Nat × Nat × Nat) := none -- (tid, slab, next node index) while the L lines of alloc_slab arrive
  futs : List FutInfo := []
  rasync : Bool := false
  nA : Nat := 0
  wbase : List (String × Nat) := []

def kv (ws : List String) (key : String) : Option String :=
  (ws.find? (fun w => w.startsWith (key ++ "="))).map (fun w => (w.drop (key.length + 1)).toString)

/-- the construction sequence of `MpscShared::new` + the first sender / receiver handle:
type tags in creation order (`m` = shim mutex, `A` = the `next_shard` fetch_add of the first sender) -/
def calib (shards : Nat) : List String :=
  ["ptr:stubNext", "ptr:head", "m:pool", "bool:rdrop", "usize:senders", "m:sw", "m:aw", "usize:swCnt", "usize:awCnt"]
  ++ (List.range shards).map (fun i => s!"usize:shard{i}") ++ ["usize:shardCur", "usize:consumed", "A:shardCur", "bool:rclosed"]

def init (ws : List String) : Except String St :=
  match kv ws "flavour" with
  | some "mpsc_u" => .ok { calibLeft := calib 16 }
  | some "mpsc_u_async" => .ok { calibLeft := calib 16, rasync := true }
  | some f => .error s!"flavour {f} not handled by engine chainb"
  | none => .error "missing flavour"

/-! ### parsing -/

def objNum (tok : String) : Option (Nat × String) :=
  -- "a27:ptr" ↦ (27, "ptr");  "m2" ↦ (2, "m")
  match tok.toList with
  | 'a' :: rest =>
    match (String.ofList rest).splitOn ":" with
    | [n, ty] => n.toNat?.map (fun k => (k, ty))
    | _ => none
  | 'm' :: rest => (String.ofList rest).toNat?.map (fun k => (k, "m"))
  | _ => none

def threadNum (tok : String) : Option Nat :=
  match tok.toList with
  | 't' :: rest => (String.ofList rest).toNat?
  | _ => none

def roleOfName (n : String) : Option Role :=
  match n with
  | "stubNext" => some .stubNext | "head" => some .head | "rdrop" => some .rdrop | "senders" => some .senders
  | "swCnt" => some .swCnt | "awCnt" => some .awCnt | "shardCur" => some .shardCur | "consumed" => some .consumed
  | "rclosed" => some .rclosed
  | _ => if n.startsWith "shard" then (n.drop 5).toString.toNat?.map Role.shard else none

def mroleOfName (n : String) : Option MRole :=
  match n with | "pool" => some .pool | "sw" => some .sw | "aw" => some .aw | _ => none

def showVal : Val → String
  | .nat n => toString n
  | .ptr none => "null"
  | .ptr (some .stub) => "stub"
  | .ptr (some (.nd b i)) => s!"node({b},{i})"
  | .none => "-"

def showObj : Obj → String
  | .atom r => reprStr r
  | .mutex m => reprStr m
  | .thread t => s!"t{t}"
  | .waker (.task t) => s!"t{t}"
  | .waker (.fut f) => s!"fut#{f}"
  | .none => "-"

def showAct (a : Act) : String :=
  s!"{a.kind} {showObj a.obj} {a.ord} {showVal a.old} {showVal a.new}" ++
    (match a.ok with | some b => s!" ok={b}" | none => "")

/-- `tr` (trace) at least as strong as `m` (model) -/
def ordGe (tr m : String) : Bool :=
  if m == "-" then true
  else if tr == m then true
  else match m with
    | "rlx" => tr == "acq" || tr == "rel" || tr == "acqrel" || tr == "sc"
    | "acq" => tr == "acqrel" || tr == "sc"
    | "rel" => tr == "acqrel" || tr == "sc"
    | "acqrel" => tr == "sc"
    | _ => false

/-- the memory of this node has been returned to the allocator (its address may be reused) -/
def deadNode (c : ChainB.State) : ChainB.NodeId → Bool
  | .stub => c.nst .stub == .retired
  | .nd b _ => c.sst b == .freed

/-- match a trace value token against a model value; pointer tokens are bound on first sight -/
def matchVal (st : St) (tok : String) (v : Val) : Except String St :=
  match v with
  | .none => .ok st
  | .nat n => if tok.toNat? == some n then .ok st else .error s!"value trace={tok} model={n}"
  | .ptr none => if tok == "p0" then .ok st else .error s!"value trace={tok} model=null"
  | .ptr (some nd) =>
    if tok == "p0" then .error s!"value trace=null model={showVal v}"
    else
      match st.ptrs.find? (fun p => p.1 == tok), st.ptrs.find? (fun p => p.2 == nd) with
      | some (_, nd'), other =>
        if nd' == nd then .ok st
        else if deadNode st.s.ch nd' && other.isNone then
          -- the allocator reused the address of a freed object (the stub box / a freed slab)
          .ok { st with ptrs := (tok, nd) :: st.ptrs.filter (fun p => p.1 != tok) }
        else .error s!"pointer {tok} is {showVal (.ptr (some nd'))} model={showVal v}"
      | none, some (tok', _) => .error s!"pointer of {showVal v} is {tok'} trace={tok}"
      | none, none => .ok { st with ptrs := (tok, nd) :: st.ptrs }

def futName (w : Waker) (st : St) : String :=
  match w with
  | .task t => s!"t{t}"
  | .fut f => match st.futs.find? (fun i => i.id == f) with | some i => "f" ++ i.name | none => s!"f?{f}"

def matchObj (st : St) (tok : String) (o : Obj) : Except String Unit :=
  match o with
  | .none => .ok ()
  | .thread t => if tok == s!"t{t}" then .ok () else .error s!"object trace={tok} model=t{t}"
  | .waker w =>
    let n := futName w st
    -- manual-future wakers are logged as `f<name>`, where the future's name itself starts with `f`
    if tok == n || ("f" ++ tok) == n || tok == (n.drop 1).toString then .ok () else .error s!"object trace={tok} model={n}"
  | .mutex m =>
    match objNum tok with
    | some (k, "m") =>
      match st.mroles.find? (fun p => p.1 == k) with
      | some (_, m') => if m' == m then .ok () else .error s!"object trace={tok}={reprStr m'} model={reprStr m}"
      | none => .error s!"unknown mutex {tok}"
    | _ => .error s!"object trace={tok} model={reprStr m}"
  | .atom r =>
    match objNum tok with
    | some (k, _) =>
      match st.roles.find? (fun p => p.1 == k) with
      | some (_, r') => if r' == r then .ok () else .error s!"object trace={tok}={reprStr r'} model={reprStr r}"
      | none => .error s!"unknown object {tok} model={reprStr r}"
    | none => .error s!"object trace={tok} model={reprStr r}"

def bindRole (st : St) (k : Nat) (r : Role) : St :=
  { st with roles := (k, r) :: st.roles.filter (fun p => p.2 != r) }

/-! ### model stepping -/

def advance (st : St) (t : Nat) : Except String St :=
  match MpscUB.step st.cfg st.s t .adv with
  | some s' => .ok { st with s := s' }
  | none => .error "model=step-not-enabled"

/-- take silent steps of thread `t` (bounded) -/
def taus (st : St) (t : Nat) : Nat → Except String St
  | 0 => .ok st
  | fuel + 1 =>
    match expect st.cfg st.s t with
    | .tau => do let st' ← advance st t; taus st' t fuel
    | _ => .ok st

def parseH (tok : String) : Option (Bool × Nat) :=
  match tok.toList with
  | 's' :: r => (String.ofList r).toNat?.map (fun i => (true, i))
  | 'r' :: r => (String.ofList r).toNat?.map (fun i => (false, i))
  | _ => none

def isSendForm (n : String) : Bool :=
  n == "send" || n == "try_send" || n == "send_batch" || n == "try_send_batch" || n == "send_batch_mut" || n == "try_send_batch_mut"

/-- translate the op tokens of a `C` line into a model call (or `none`: the harness answers by itself) -/
def callOf (st : St) (ws : List String) : Except String (Option Label × St) :=
  match ws with
  | ["fut", f, "=", kind, h] =>
    match kind, parseH h with
    | "recv_fut", some (false, _) =>
      let id := st.futs.length
      .ok (some (.callR (.mkFut id 1 true)), { st with futs := { name := f, id := id, recv := true } :: st.futs })
    | _, _ => .ok (none, st)
  | ["fut", f, "=", kind, h, a] =>
    match kind, parseH h with
    | "recv_batch_fut", some (false, _) =>
      match a.toNat? with
      | some n =>
        let id := st.futs.length
        .ok (some (.callR (.mkFut id n false)), { st with futs := { name := f, id := id, recv := true, max := n, single := false } :: st.futs })
      | none => .error "bad-op"
    | "send_fut", some (true, i) =>
      match natList? a with
      | some vs => .ok (none, { st with futs := { name := f, id := st.futs.length, recv := false, handle := i, vals := vs } :: st.futs })
      | none => .error "bad-op"
    | "send_batch_fut", some (true, i) =>
      match natList? a with
      | some vs => .ok (none, { st with futs := { name := f, id := st.futs.length, recv := false, handle := i, vals := vs } :: st.futs })
      | none => .error "bad-op"
    | _, _ => .ok (none, st)
  | [name, f] =>
    if name == "poll" || name == "wakes" || name == "dropfut" || (name == "drop" && f.startsWith "f") then
      match st.futs.find? (fun i => i.name == f && i.live) with
      | none => .ok (none, st)
      | some fi =>
        if name == "poll" then
          if fi.recv then .ok (some (.callR .poll), st)
          else .ok (some (.callS fi.handle (.send fi.vals)), { st with futs := st.futs.map (fun i => if i.name == f then { i with live := false } else i) })
        else if name == "wakes" then .ok (none, st)
        else
          if fi.recv then
            -- dropping a resolved future is a harness no-op
            if st.s.fut.isSome then .ok (some (.callR .dropFut), { st with futs := st.futs.map (fun i => if i.name == f then { i with live := false } else i) })
            else .ok (none, { st with futs := st.futs.map (fun i => if i.name == f then { i with live := false } else i) })
          else .ok (none, { st with futs := st.futs.map (fun i => if i.name == f then { i with live := false } else i) })
    else
    match parseH f with
    | none => .ok (none, st)
    | some (true, h) =>
      match name with
      | "close" => .ok (some (.callS h .close), st)
      | "drop" => .ok (some (.callS h .drop), st)
      | "len" | "is_empty" => .ok (some (.callS h .len), st)
      | "is_closed" => .ok (some (.callS h .isClosed), st)
      | "sender_count" => .ok (some (.callS h .senderCount), st)
      | "to_async" | "to_sync" => .ok (some (.callS h .convert), st)
      | _ => .ok (none, st)
    | some (false, _) =>
      match name with
      | "recv" => .ok (some (.callR (if st.rasync then .recvAsync 1 true else .recv 1)), st)
      | "try_recv" => .ok (some (.callR (.tryRecv 1)), st)
      | "recv_timeout0" => .ok (if st.rasync then none else some (.callR .timeout0), st)
      | "close" => .ok (some (.callR .close), st)
      | "drop" => .ok (some (.callR .drop), st)
      | "len" => .ok (some (.callR .len), st)
      | "is_empty" => .ok (some (.callR .isEmpty), st)
      | "is_closed" => .ok (some (.callR .isClosed), st)
      | "sender_count" => .ok (some (.callR .senderCount), st)
      | "to_async" => .ok (if st.rasync then none else some (.callR .convert), st)
      | "to_sync" => .ok (if st.rasync then some (.callR .convert) else none, st)
      | _ => .ok (none, st)
  | [name, h, a] =>
    match parseH h with
    | none => .ok (none, st)
    | some (true, i) =>
      if isSendForm name then
        match natList? a with
        | some vs => .ok (some (.callS i (.send vs)), st)
        | none => .error "bad-op"
      else if name == "clone" then
        match parseH a with
        | some (true, j) => .ok (some (.callS i (.clone j)), st)
        | _ => .error "bad-op"
      else .ok (none, st)
    | some (false, _) =>
      match a.toNat? with
      | none => .ok (none, st)
      | some n =>
        match name with
        | "recv_batch" | "recv_batch_mut" => .ok (some (.callR (if st.rasync then .recvAsync n false else .recv n)), st)
        | "try_recv_batch" | "try_recv_batch_mut" => .ok (some (.callR (.tryRecv n)), st)
        | _ => .ok (none, st)
  | _ => .ok (none, st)

/-- apply a pending `C` line of thread `t` to the model -/
def flush (st : St) (t : Nat) : Except String St :=
  match st.pending.find? (fun p => p.1 == t) with
  | none => .ok st
  | some (_, ws) =>
    let st := { st with pending := st.pending.filter (fun p => p.1 != t) }
    match callOf st ws with
    | .error e => .error e
    | .ok (none, st') => .ok st'
    | .ok (some l, st') =>
      match MpscUB.step st'.cfg st'.s t l with
      | some s' => .ok { st' with s := s', lastOp := (t, ws) :: st'.lastOp.filter (fun p => p.1 != t) }
      | none => .error s!"model=call-not-enabled {reprStr l}"

def showTRes : TRes → String
  | .ok vs => s!"ok{showNatList vs}"
  | .empty => "empty"
  | .disc => "disconnected"

def showRes : Res → String
  | .unit => "ok" | .sent n => s!"sent:{n}" | .closed => "closed" | .got r => showTRes r | .timeout => "timeout"
  | .pending => "pending" | .bool b => toString b | .nat n => s!"n:{n}" | .closeErr => "err:close"

def fieldList (tok key : String) : Option (List Nat) :=
  match (tok.splitOn (key ++ "=[")) with
  | [_, rest] =>
    match rest.splitOn "]" with
    | inner :: _ => natList? inner
    | [] => none
  | _ => none

/-- does the harness result token agree with the model result? -/
def resOk (name tok : String) (r : Res) : Bool :=
  let tok := if tok.startsWith "ready:" then (tok.drop 6).toString else tok
  match r with
  | .unit => tok == "ok" || tok == "ok:woken"
  | .closeErr => tok == "err:close"
  | .sent n =>
    if tok == "ok" then n == 1 && (name == "send" || name == "try_send" || name == "poll")
    else tok.startsWith s!"n:{n}" && (tok == s!"n:{n}" || tok.startsWith s!"n:{n}:")
  | .closed => tok.startsWith "err:closed"
  | .timeout => tok == "err:timeout"
  | .pending => tok == "pending"
  | .bool b => if name == "is_empty" then tok == toString b else tok == toString b
  | .nat n => if name == "is_empty" then tok == toString (n == 0) else tok == s!"n:{n}"
  | .got .empty => tok == "err:empty"
  | .got .disc => tok == "err:disconnected"
  | .got (.ok vs) =>
    if tok.startsWith "ok:[" then natList? (tok.drop 3).toString == some vs
    else if tok.startsWith "ok:" then (match vs with | [v] => (tok.drop 3).toString.toNat? == some v | _ => false)
    else if tok.startsWith "n:" then fieldList tok "out" == some vs || (vs == [] && tok == "n:0")
    else if tok == "ok" then vs == []
    else false

def opNameOf (ws : List String) : String :=
  match ws with
  | "fut" :: _ => "fut"
  | n :: _ => n
  | [] => ""

/-- branch tags for the evidence, computed from the model state before thread `t` steps -/
def branchTags (st : St) (t : Nat) : List String :=
  let c := st.s.ch
  let pT (h : Nat) : List String :=
    match c.ppc h with
    | .rearmRem _ => ["slab-recycle"]
    | .relUnlock _ _ => [if c.pool.length < st.cfg.chain.poolCap then "slab-to-pool" else "slab-freed"]
    | .prelink => ["batch-prelink"]
    | .sealing => ["seal-partial-slab"]
    | .build => if c.ppos h = st.cfg.chain.N && c.rlen h < (c.pvals h).length then ["seal-exhausted-slab"] else []
    | _ => []
  let cT : List String :=
    match c.cpc with
    | .relUnlock _ _ => [if c.pool.length < st.cfg.chain.poolCap then "slab-to-pool" else "slab-freed"]
    | .finLoad => ["final-walk"]
    | _ => []
  match st.s.tpc t with
  | .onS h => (if st.s.spc h == .chain || st.s.spc h == .closeChain then pT h else []) ++ (if st.s.spc h == .fin then cT else [])
            ++ (if st.s.spc h == .nLockS then ["notify-sync-waiter"] else []) ++ (if st.s.spc h == .nLockA then ["notify-async-waiter"] else [])
            ++ (if st.s.spc h == .wLockS then ["last-sender-wake-all"] else [])
  | .onR =>
    (match st.s.rpc with
     | .pop => (if c.next c.tail == none && c.k < c.len then ["pop-sees-unlinked-gap"] else [])
               ++ (if st.s.rround == 1 && (c.next c.tail).isSome then ["straggler-redrain-hit"] else [])
     | .inPop => cT
     | .fin => cT
     | .park => ["recv-parked"]
     | .execPark => ["async-recv-parked"]
     | .gLockS => ["register-sync"]
     | .gLockA => ["register-async"]
     | _ => [])
  | .idle => []

/-! ### lines -/

def stepL (st : St) (obj : String) (t : Nat) (initTok : String) : Except String (St × List String) :=
  match objNum obj with
  | none => .error s!"bad object {obj}"
  | some (k, ty) =>
    match st.calibLeft with
    | exp :: rest =>
      -- channel construction: fixed order
      match exp.splitOn ":" with
      | [ety, nm] =>
        if ety == "A" then .error s!"calibration: expected the next_shard fetch_add, got construction of {obj}"
        else if ety != ty then .error s!"calibration: object {obj} has type {ty}, expected {exp} (layout of MpscShared changed?)"
        else if ety == "m" then
          match mroleOfName nm with
          | some m => .ok ({ st with mroles := (k, m) :: st.mroles, calibLeft := rest }, [])
          | none => .error "calibration table"
        else
          match roleOfName nm with
          | some r =>
            let st1 := { bindRole st k r with calibLeft := rest }
            if r == .head then
              (matchVal st1 initTok (.ptr (some .stub))).map (fun s => (s, []))
            else .ok (st1, [])
          | none => .error "calibration table"
      | _ => .error "calibration table"
    | [] =>
      do
      let st ← flush st t
      -- dynamic constructions
      match st.slabFill with
      | some (t', b, i) =>
        if t' == t && ty == "ptr" then
          let st1 := bindRole st k (.next b i)
          let fill := if i + 1 < st.cfg.chain.N then some (t, b, i + 1) else none
          .ok ({ st1 with slabFill := fill }, [])
        else .error s!"alloc_slab of thread {t'} interrupted by construction of {obj}"
      | none =>
        if ty == "u32" then
          -- alloc_slab: the model must be at `alloc`
          let st ← taus st t 8
          match expect st.cfg st.s t with
          | .alloc =>
            let b := st.s.ch.nextSlab
            if initTok.toNat? != some (st.cfg.chain.N + 1) then .error s!"remaining initial value {initTok}, model={st.cfg.chain.N + 1}"
            else
              let st1 ← advance st t
              .ok ({ bindRole st1 k (.rem b) with slabFill := some (t, b, 0) }, ["slab-alloc"])
          | e => .error s!"construction of a slab but model expects {reprStr e}"
        else if ty == "bool" then
          -- `notified` of a blocking receive, or the `closed` flag of a converted handle
          match st.s.tpc t with
          | .onR =>
            if st.s.rpc == .convLoad || (st.s.rpc == .done && st.s.rop == .convert) then
              .ok ({ bindRole st k .rclosed with rasync := !st.rasync }, ["convert"])
            else .ok (bindRole st k .notif, [])
          | _ => .error s!"unexpected construction of {obj} by thread {t}"
        else .error s!"unexpected construction of {obj} by thread {t}"

def stepA (st : St) (t : Nat) (kind obj ord old new ok : String) : Except String (St × List String) :=
  if kind == "spawn" || kind == "join" || kind == "exit" || kind == "lockwait" then .ok (st, [])
  else
  match st.calibLeft with
  | exp :: rest =>
    if exp == "A:shardCur" then
      if kind == "fadd" && old == "0" && new == "1" then
        match objNum obj with
        | some (k, _) =>
          if ((st.roles.find? (fun p => p.1 == k)).map (·.2)) == some Role.shardCur then .ok ({ st with calibLeft := rest }, ["calibrated"])
          else .error "calibration: next_shard on the wrong object"
        | none => .error "calibration"
      else .error "calibration: expected next_shard fetch_add 0→1"
    else .error s!"calibration: action before construction finished (expected {exp})"
  | [] =>
    do
    let st ← flush st t
    if st.slabFill.isSome && (st.slabFill.map (·.1)) == some t then .error "alloc_slab: fewer node constructions than SLAB_NODES"
    let st ← taus st t 8
    match expect st.cfg st.s t with
    | .act a =>
      if a.kind != kind then .error s!"model=[{showAct a}]"
      else
        match matchObj st obj a.obj with
        | .error e => .error s!"{e} model=[{showAct a}]"
        | .ok () =>
          let trOrd := (ord.splitOn "/").headD ord
          if !ordGe trOrd a.ord then .error s!"ordering weaker than the model: trace={ord} model=[{showAct a}]"
          else
            match matchVal st old a.old with
            | .error e => .error s!"old {e} model=[{showAct a}]"
            | .ok st1 =>
              match matchVal st1 new (match a.ok with | some false => a.old | _ => a.new) with
              | .error e => .error s!"new {e} model=[{showAct a}]"
              | .ok st2 =>
                let okOk := match a.ok with | some b => ok == (if b then "1" else "0") | none => true
                if !okOk then .error s!"cas outcome trace={ok} model=[{showAct a}]"
                else
                  match advance st2 t with
                  | .ok st3 => .ok ({ st3 with nA := st3.nA + 1 }, branchTags st t)
                  | .error e => .error s!"{e} after [{showAct a}]"
    | e => .error s!"model expects {reprStr e}"

def stepR (st : St) (t : Nat) (tok : String) : Except String (St × List String) :=
  if tok == "unsupported" || tok.startsWith "invalid:" then
    .ok ({ st with pending := st.pending.filter (fun p => p.1 != t) }, ["harness-level"])
  else do
    let hadPending := (st.pending.find? (fun p => p.1 == t)).isSome
    let pendWs := ((st.pending.find? (fun p => p.1 == t)).map (·.2)).getD []
    let st ← flush st t
    let st ← taus st t 8
    match st.s.tpc t with
    | .idle =>
      -- harness-level op without a model call (`wakes`, `fut = send_fut`, dropping a resolved future)
      if hadPending then
        match pendWs with
        | ["wakes", f] =>
          match st.futs.find? (fun i => i.name == f) with
          | some fi =>
            if fi.recv then
              let base := ((st.wbase.find? (fun p => p.1 == f)).map (·.2)).getD 0
              if tok == s!"n:{st.s.wakes fi.id - base}" then .ok (st, ["wakes"]) else .error s!"model=n:{st.s.wakes fi.id - base}"
            else .ok (st, [])
          | none => .ok (st, [])
        | _ => .ok (st, [])
      else .error "return without call"
    | .onS h =>
      if st.s.spc h != .done then .error s!"model=still-running [{reprStr (st.s.spc h)}]"
      else
        let name := opNameOf ((st.lastOp.find? (fun p => p.1 == t)).map (·.2) |>.getD [])
        if !resOk name tok (st.s.sres h) then .error s!"model={showRes (st.s.sres h)}"
        else
          match MpscUB.step st.cfg st.s t .ret with
          | some s' => .ok ({ st with s := s' }, [name])
          | none => .error "model=ret-not-enabled"
    | .onR =>
      if st.s.rpc != .done then .error s!"model=still-running [{reprStr st.s.rpc}]"
      else
        let name := opNameOf ((st.lastOp.find? (fun p => p.1 == t)).map (·.2) |>.getD [])
        if !resOk name tok st.s.rres then .error s!"model={showRes st.s.rres}"
        else
          let woken := match st.s.rop with | .dropFut => true | _ => false
          let _ := woken
          match MpscUB.step st.cfg st.s t .ret with
          | some s' => .ok ({ st with s := s' }, [name])
          | none => .error "model=ret-not-enabled"

def step (st : St) (op _res : List String) : Except String (St × List String) :=
  match op with
  | "P" :: _ => .ok (st, [])
  | "S" :: _ => .ok (st, [])
  | "D" :: _ => .ok (st, [])
  | ["X", status] => .ok (st, [if status == "ok" then "end-ok" else "end-" ++ ((status.splitOn ":").headD status)])
  | ["L", obj, tid, _loc, initTok] =>
    match tid.toNat? with
    | some t => stepL st obj t initTok
    | none => .error "bad-line"
  | ["A", tid, kind, obj, ord, old, new, ok] =>
    match tid.toNat? with
    | some t => stepA st t kind obj ord old new ok
    | none => .error "bad-line"
  | "C" :: tid :: ws =>
    match tid.toNat? with
    | some t =>
      let st :=
        match ws with
        | ["poll", f] =>
          match st.futs.find? (fun (i : FutInfo) => i.name == f && i.live) with
          | some fi => { st with wbase := (f, st.s.wakes fi.id) :: st.wbase.filter (fun p => p.1 != f) }
          | none => st
        | _ => st
      .ok ({ st with pending := (t, ws) :: st.pending.filter (fun p => p.1 != t) }, [])
    | none => .error "bad-line"
  | ["R", tid, tok] =>
    match tid.toNat? with
    | some t => stepR st t tok
    | none => .error "bad-line"
  | _ => .error "bad-line"

def finish (st : St) : Except String (List String) :=
  if !st.calibLeft.isEmpty then .error "calibration: construction sequence incomplete" else .ok [s!"actions-matched"]

def engine : Engine St := { init := init, step := step, finish := finish }

end Fv.Driver.ChainB
