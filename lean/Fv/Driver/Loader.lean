import Fv.Driver.Proto
import Fv.Cache.Loader
/-
Engine `loader`: replays the step sequence the real `fetch_with` / loader-task code took under the
T3 scheduler on the small-step model `Fv.Cache.Loader`; every step must be enabled in the model and
its observable outcome (hit/miss, leader/join, wait/done v, loaded value) must be the model's.
-/
namespace Fv.Driver.Loader
open Fv.Cache.Loader

structure St where
  s : State
  callers : Nat

def kv (ws : List String) (key : String) : Option String :=
  (ws.find? (fun w => w.startsWith (key ++ "="))).map (fun w => (w.drop (key.length + 1)).toString)

def init (ws : List String) : Except String St :=
  match (kv ws "callers").bind String.toNat?, kv ws "grace" with
  | some n, some g => .ok { s := Fv.Cache.Loader.init n (g == "1"), callers := n }
  | _, _ => .error "missing callers= / grace="

def showPC : PC → String
  | .idle => "idle" | .start k => s!"start {k}" | .atPending k => s!"atPending {k}"
  | .spawning k f => s!"spawning {k} {f}" | .waitFut f => s!"waitFut {f}" | .parking f => s!"parking {f}"
  | .done v => s!"done {v}" | .ldStart k f => s!"ldStart {k} {f}" | .ldInsert k f v => s!"ldInsert {k} {f} {v}"
  | .ldRemove k f v => s!"ldRemove {k} {f} {v}" | .ldComplete k f v => s!"ldComplete {k} {f} {v}" | .ldDone => "ldDone"

def doStep (st : St) (t : Nat) (l : Label) (okPc : PC → Bool) (tag : String) (extra : State → State → Bool := fun _ _ => true) :
    Except String (St × List String) :=
  match step st.s t l with
  | none => .error s!"model=step-not-enabled pc={showPC (st.s.pc t)}"
  | some s' =>
    if okPc (s'.pc t) && extra st.s s' then .ok ({ st with s := s' }, [tag])
    else .error s!"model=[pc {showPC (s'.pc t)}]"

def step (st : St) (op res : List String) : Except String (St × List String) :=
  match op with
  | "P" :: _ => .ok (st, [])
  | "S" :: _ => .ok (st, [])
  | ["X", status] =>
    if status = "ok" then .ok (st, ["end-ok"])
    else .error s!"model=never-deadlocks (theorem C15_quiescent_all_returned) impl={status}"
  | [ts, "call", k] =>
    match ts.toNat?, k.toNat? with
    | some t, some k => doStep st t (.call k) (fun pc => pc == .start k) "call"
    | _, _ => .error "bad-op"
  | [ts, "mapRead"] =>
    match ts.toNat?, res with
    | some t, ["miss"] => doStep st t .mapRead (fun pc => match pc with | .atPending _ => true | _ => false) "read-miss"
    | some t, ["hit", v] =>
      doStep st t .mapRead (fun pc => some pc == v.toNat?.map PC.done) "read-hit" (fun a b => a.nextTid == b.nextTid)
    | some t, ["hit", v, "refresh"] =>
      doStep st t .mapRead (fun pc => some pc == v.toNat?.map PC.done) "read-stale-refresh" (fun a b => a.nextTid + 1 == b.nextTid)
    | _, _ => .error "bad-op"
  | [ts, "pendingCS"] =>
    match ts.toNat?, res with
    | some t, ["leader"] => doStep st t .pendingCS (fun pc => match pc with | .spawning _ _ => true | _ => false) "elect-leader"
    | some t, ["join"] => doStep st t .pendingCS (fun pc => match pc with | .waitFut _ => true | _ => false) "join-pending"
    | _, _ => .error "bad-op"
  | [ts, "spawn"] =>
    match ts.toNat? with
    | some t => doStep st t .spawn (fun pc => match pc with | .waitFut _ => true | _ => false) "spawn"
    | none => .error "bad-op"
  | [ts, "futCS"] =>
    match ts.toNat?, res with
    | some t, ["wait"] => doStep st t .futCS (fun pc => match pc with | .parking _ => true | _ => false) "register-waiter"
    | some t, ["done", v] => doStep st t .futCS (fun pc => some pc == v.toNat?.map PC.done) "future-complete"
    | _, _ => .error "bad-op"
  | [ts, "park"] =>
    match ts.toNat? with
    | some t => doStep st t .park (fun _ => true) "park-woken"
    | none => .error "bad-op"
  | [ts, "spurious"] =>
    match ts.toNat? with
    | some t => doStep st t .spurious (fun _ => true) "park-spurious"
    | none => .error "bad-op"
  | [ts, "load"] =>
    match ts.toNat?, res with
    | some t, [v] => doStep st t .load (fun pc => match pc with | .ldInsert _ _ v' => some v' == v.toNat? | _ => false) "load"
    | _, _ => .error "bad-op"
  | [ts, "mapInsert"] =>
    match ts.toNat? with
    | some t => doStep st t .mapInsert (fun _ => true) "map-insert"
    | none => .error "bad-op"
  | [ts, "pendRemove"] =>
    match ts.toNat? with
    | some t => doStep st t .pendRemove (fun _ => true) "pending-remove"
    | none => .error "bad-op"
  | [ts, "complete"] =>
    match ts.toNat? with
    | some t => doStep st t .complete (fun _ => true) "complete"
    | none => .error "bad-op"
  | [ts, "invalidate", k] =>
    match ts.toNat?, k.toNat? with
    | some t, some k => doStep st t (.invalidate k) (fun _ => true) "invalidate"
    | _, _ => .error "bad-op"
  | [ts, "envInvalidate", k] =>
    match ts.toNat?, k.toNat? with
    | some t, some k => doStep st t (.invalidate k) (fun _ => true) "expire-beyond-grace"
    | _, _ => .error "bad-op"
  | [ts, "envExpire", k] =>
    match ts.toNat?, k.toNat? with
    | some t, some k => doStep st t (.expire k) (fun _ => true) "expire-stale"
    | _, _ => .error "bad-op"
  | [_, "advance", _] => .ok (st, ["advance"])
  | _ => .error "bad-op"

def engine : Engine St := { init := init, step := step }

end Fv.Driver.Loader
