import Fv.Driver.Proto
import Fv.Chan.SpmcB
/-
Engine `spmcb`: replays `chanh … --atomics` transcripts of flavour `spmc` (sync handles) on the
step-level model `Fv.Chan.SpmcB`. Trace inclusion: every `A` line a thread executes inside a
`C`..`R` window must be THE enabled action of that thread in the model — same kind, same object
role, the value read / written, the CAS outcome, a memory ordering at least as strong as the one
the model records — after the model's silent (non-atomic) steps; `C` must be an enabled call and
`R` the result the model computed.

Object roles come from CREATION ORDER (`L` lines): the constructor of `SpmcShared` creates, for a
capacity n: n × (slot sequence, slot waker mutex), live_idx, active_readers[0], [1], writer mutex,
head, tails_mutex, park flag (u8), producer_dropped, the first cursor cell, the sender's `closed`,
the receiver's `closed`. The calibration check compares the TYPES of that prefix and fails loudly
(`layout-changed`) when a field is added / reordered. `clone` creates (cell, closed flag),
`to_async`/`to_sync` one closed flag.
-/
namespace Fv.Driver.SpmcB
open Fv.Chan.SpmcB

inductive HK where
  | sender | receiver (cell : Nat)
deriving Repr, DecidableEq

structure Pend where
  op : List String            -- op tokens (for result formatting)
  form : String
  items : List Nat := []      -- batch sends: the input
  handle : String := ""
  newName : String := ""      -- clone: the new handle's name
  newCell : Nat := 0
  model : Bool := true        -- a model operation is running on this thread
  expect : Option String := none   -- harness-level result expected (no fibre call)
deriving Repr

structure St where
  s : State
  cap : Nat
  roles : List (String × Obj) := []
  nStatic : Nat := 0            -- L lines consumed by the calibration prefix
  handles : List (String × HK × Bool) := [("s0", .sender, false), ("r0", .receiver 0, false)]   -- name, kind, async
  pend : List (Nat × Pend) := []
  skip : Option String := none
  tearNext : Nat := 0
  /-- per thread: payloads the model's `bVals` step read and whose `clone` lines are still to come -/
  clones : List (Nat × List Nat) := []

def kv (ws : List String) (key : String) : Option String :=
  (ws.find? (fun w => w.startsWith (key ++ "="))).map (fun w => (w.drop (key.length + 1)).toString)

def init (ws : List String) : Except String St :=
  match kv ws "flavour", (kv ws "cap").bind String.toNat? with
  | some "spmc", some cap =>
    if cap = 0 then .error "cap=0"
    else .ok { s := Fv.Chan.SpmcB.init cap, cap := cap }
  | some f, _ => .ok { s := Fv.Chan.SpmcB.init 1, cap := 1, skip := some s!"flavour-{f}" }
  | _, _ => .error "missing flavour= / cap="

/-- expected type of the k-th object created by the constructor (atomics and mutexes interleaved) -/
def staticRole (cap k : Nat) : Option (String × Obj) :=
  if k < 2 * cap then
    (if k % 2 = 0 then some ("usize", .seq (k / 2)) else some ("mutex", .wkMx (k / 2)))
  else
    match k - 2 * cap with
    | 0 => some ("usize", .live)
    | 1 => some ("usize", .readers 0)
    | 2 => some ("usize", .readers 1)
    | 3 => some ("mutex", .wlock)
    | 4 => some ("usize", .head)
    | 5 => some ("mutex", .tailsMx)
    | 6 => some ("u8", .flag)
    | 7 => some ("bool", .pdropped)
    | 8 => some ("usize", .cell 0)
    | 9 => some ("bool", .sclosed)
    | 10 => some ("bool", .rclosed 0)
    | _ => none

def objType (name : String) : String :=
  if name.startsWith "m" then "mutex"
  else match name.splitOn ":" with
    | [_, ty] => ty
    | _ => "?"

def setRole (roles : List (String × Obj)) (name : String) (o : Obj) : List (String × Obj) :=
  (name, o) :: roles.filter (fun p => p.1 != name)

def lookupRole (roles : List (String × Obj)) (name : String) : Option Obj :=
  (roles.find? (fun p => p.1 == name)).map (·.2)

def pendOf (st : St) (t : Nat) : Option Pend := (st.pend.find? (fun p => p.1 == t)).map (·.2)
def setPend (st : St) (t : Nat) (p : Option Pend) : St :=
  let rest := st.pend.filter (fun q => q.1 != t)
  match p with
  | some p => { st with pend := (t, p) :: rest }
  | none => { st with pend := rest }

def handleOf (st : St) (h : String) : Option (HK × Bool) := (st.handles.find? (fun p => p.1 == h)).map (·.2)
def setHandle (st : St) (h : String) (v : Option (HK × Bool)) : St :=
  let rest := st.handles.filter (fun p => p.1 != h)
  match v with
  | some v => { st with handles := (h, v) :: rest }
  | none => { st with handles := rest }

def showObj : Obj → String
  | .seq j => s!"seq[{j}]" | .head => "head" | .live => "live_idx" | .readers i => s!"readers[{i}]"
  | .flag => "park_flag" | .pdropped => "producer_dropped" | .cell r => s!"cursor[{r}]"
  | .sclosed => "sender.closed" | .rclosed r => s!"receiver[{r}].closed" | .wkMx j => s!"wakers_mutex[{j}]"
  | .wlock => "writer_lock" | .tailsMx => "tails_mutex" | .thread t => s!"t{t}" | .none => "-"

def showKind : AK → String
  | .load => "load" | .store => "store" | .swap => "swap" | .cas => "cas" | .fadd => "fadd" | .fsub => "fsub"
  | .fence => "fence" | .lock => "lock" | .unlock => "unlock" | .park => "park" | .unpark => "unpark" | .spin => "spin"

def showOrd : Ord → String
  | .rlx => "rlx" | .acq => "acq" | .rel => "rel" | .acqrel => "acqrel" | .sc => "sc" | .na => "-"

def parseOrd : String → Option Ord
  | "rlx" => some .rlx | "acq" => some .acq | "rel" => some .rel | "acqrel" => some .acqrel | "sc" => some .sc
  | "-" => some .na | _ => none

/-- `impl` is at least as strong as `model` -/
def ordGe (impl model : Ord) : Bool :=
  match model, impl with
  | .na, _ => true
  | .rlx, _ => impl != .na
  | .acq, .acq | .acq, .acqrel | .acq, .sc => true
  | .rel, .rel | .rel, .acqrel | .rel, .sc => true
  | .acqrel, .acqrel | .acqrel, .sc => true
  | .sc, .sc => true
  | _, _ => false

def showAct (a : Act) : String :=
  let o := if a.kind == .cas then s!"{showOrd a.ord}/{showOrd a.ordF}" else showOrd a.ord
  s!"{showKind a.kind} {showObj a.obj} {o} {a.old}->{a.new} ok={a.ok}"

/-- is the next step of thread `t` one of the silent (non-atomic) ones? The payload copy-outs `rVal` / `bVals`
are NOT silent any more: the harness logs every `V::clone` (`A <tid> clone v<id>`), so they are matched in trace
order by `doClone` — a cursor store that precedes the copy-out it covers is a MISMATCH. -/
def isSilent (s : State) (t : Nat) : Bool :=
  match s.pc t with
  | .snd (.wVal ..) => true
  | .rcv _ (.mMod _ (.wMut1 ..)) => true
  | .rcv _ (.mMod _ (.wMut2 ..)) => true
  | _ => false

def runSilent (s : State) (t : Nat) : Nat → State
  | 0 => s
  | n + 1 => if isSilent s t then (match act s t with | some s' => runSilent s' t n | none => s) else s

def showPC (p : PC) : String := toString (repr p)

def natTok (x : String) : Nat := x.toNat?.getD 0

def clonesOf (st : St) (t : Nat) : List Nat := ((st.clones.find? (fun p => p.1 == t)).map (·.2)).getD []
def setClones (st : St) (t : Nat) (l : List Nat) : St :=
  let rest := st.clones.filter (fun q => q.1 != t)
  if l.isEmpty then { st with clones := rest } else { st with clones := (t, l) :: rest }

/-- one logged payload clone `A t clone v<id>`: it must be the model's `rVal` step (single receive), the
`bVals` step (first payload of a batch; the model reads the k payloads at that point) or one of the remaining
payloads of that batch — and the payload read must be the one the model's slot holds. -/
def doClone (st : St) (t : Nat) (obj : String) : Except String (St × List String) :=
  let id := natTok (obj.drop 1).toString
  match clonesOf st t with
  | e :: rest =>
    if e == id then .ok (setClones st t rest, ["a:clone"])
    else .error s!"model=[clone v{e}] impl=[clone {obj}] (payload of a batch copy-out differs) pc={showPC (st.s.pc t)}"
  | [] =>
    match st.s.pc t with
    | .rcv _ (.rVal _ c) =>
      let e := st.s.val (c % st.s.cap)
      if e != id then .error s!"model=[clone v{e}] impl=[clone {obj}] pc={showPC (st.s.pc t)}"
      else match act st.s t with
        | some s1 => .ok ({ st with s := s1 }, ["a:clone"])
        | none => .error "model=clone-step-not-enabled"
    | .rcv _ (.bVals _ c k) =>
      let vs := (List.range k).map (fun i => st.s.val ((c + i) % st.s.cap))
      match vs, act st.s t with
      | e :: rest, some s1 =>
        if e != id then .error s!"model=[clone v{e}] impl=[clone {obj}] pc={showPC (st.s.pc t)}"
        else .ok (setClones { st with s := s1 } t rest, ["a:clone"])
      | _, _ => .error "model=clone-step-not-enabled"
    | pc => .error s!"model=no-payload-clone-expected-here impl=[clone {obj}] pc={showPC pc}"

/-- compare one `A` line with the model's next action of thread `t` and take the step -/
def doAction (st : St) (t : Nat) (kind obj ord old new ok : String) : Except String (St × List String) :=
  if kind == "clone" then doClone st t obj else
  if !(clonesOf st t).isEmpty then
    .error s!"model=[clone v{(clonesOf st t).headD 0}] (batch copy-out not finished) impl=[{kind} {obj}] pc={showPC (st.s.pc t)}"
  else
  let s0 := runSilent st.s t 4
  match actInfo s0 t with
  | none =>
    match s0.pc t with
    | .rcv _ (.rVal ..) | .rcv _ (.bVals ..) =>
      .error s!"model=[clone of the slot payload] impl=[{kind} {obj}] (action before the payload copy-out) pc={showPC (s0.pc t)}"
    | _ => .error s!"model=no-visible-action pc={showPC (s0.pc t)}"
  | some a =>
    -- object
    let objOk : Bool :=
      match a.kind with
      | .fence | .park | .spin => obj == "-"
      | .unpark => obj == showObj a.obj
      | _ => lookupRole st.roles obj == some a.obj
    let kindOk := kind == showKind a.kind
    let (ordS, ordF) := match ord.splitOn "/" with
      | [x] => (parseOrd x, some Ord.na)
      | [x, y] => (parseOrd x, parseOrd y)
      | _ => (none, none)
    let ordOk := match ordS, ordF with
      | some x, some y => ordGe x a.ord && (a.kind != .cas || ordGe y a.ordF)
      | _, _ => false
    let valOk : Bool :=
      match a.kind with
      | .fence | .spin | .lock | .unlock => true
      | .park => true
      | .unpark => new == "1" && (old == toString a.old)
      | .cas => natTok old == a.old && natTok new == a.new && ok == (if a.ok then "1" else "0")
      | _ => natTok old == a.old && natTok new == a.new
    if kindOk && objOk && ordOk && valOk then
      match act s0 t with
      | some s1 => .ok ({ st with s := s1 }, [s!"a:{showKind a.kind}"])
      | none => .error s!"model=action-not-enabled {showAct a} pc={showPC (s0.pc t)}"
    else
      let why := (if kindOk then "" else "kind ") ++ (if objOk then "" else "object ") ++
                 (if ordOk then "" else "ordering ") ++ (if valOk then "" else "value ")
      .error s!"model=[{showAct a}] differs-in=[{why.trimAscii}] impl-obj-role={(lookupRole st.roles obj).map showObj} pc={showPC (s0.pc t)}"

def listTok (l : List Nat) : String := "[" ++ ",".intercalate (l.map toString) ++ "]"

/-- the result token the harness prints for a model result -/
def showRes (p : Pend) (r : Res) : String :=
  match r with
  | .unit => "ok"
  | .closeErr => "err:close"
  | .sOk => "ok"
  | .sFull => s!"err:full:{p.items.headD 0}"
  | .sClosed => if p.form == "try_send" then s!"err:closed:{p.items.headD 0}" else "err:closed"
  | .sBatch k closed =>
    let total := p.items.length
    let isMut := p.form.endsWith "_mut"
    if isMut then
      if closed then s!"err:closed:left={listTok (p.items.drop k)}" else s!"n:{k}:left={listTok (p.items.drop k)}"
    else if k == total && !closed then s!"n:{k}"
    else
      let why := if closed then "closed" else "full"
      s!"err:{why}:sent={listTok (p.items.take k)}:unsent={listTok (p.items.drop k)}"
  | .rOk vs =>
    if p.form == "recv" || p.form == "try_recv" || p.form == "recv_timeout0" then s!"ok:{vs.headD 0}"
    else if p.form.endsWith "_mut" then s!"n:{vs.length}:out={listTok vs}"
    else s!"ok:{listTok vs}"
  | .rEmpty => "err:empty"
  | .rDisc => "err:disconnected"
  | .rTimeout => "err:timeout"
  | .num n => s!"n:{n}"
  | .bool b => if b then "true" else "false"

def callModel (st : St) (t : Nat) (op : Op) (p : Pend) : Except String (St × List String) :=
  match stepCall st.s t op with
  | some s1 => .ok (setPend { st with s := s1 } t (some p), [s!"c:{p.form}"])
  | none => .error s!"model=call-not-enabled form={p.form} pc={showPC (st.s.pc t)}"

def noModel (st : St) (t : Nat) (p : Pend) (tag : String) : Except String (St × List String) :=
  .ok (setPend st t (some { p with model := false }), [tag])

def doCall (st : St) (t : Nat) (ws : List String) : Except String (St × List String) :=
  let form := ws.headD ""
  let h := ws.getD 1 ""
  let base : Pend := { op := ws, form := form, handle := h }
  match handleOf st h with
  | none => noModel st t base "c:no-handle"
  | some (hk, isAsync) =>
    let blockingForm := form ∈ ["send", "recv", "send_batch", "recv_batch", "send_batch_mut", "recv_batch_mut"]
    if isAsync && blockingForm then
      .ok ({ st with skip := some "async-form" }, ["skipped:async-form"])
    else if form == "recv_timeout" then
      -- the timed receive with a real timeout parks in `park_timeout` (ring_buffer.rs `recv_timeout`), which the
      -- scheduler can end by firing the timeout: not in the B model (its `tmo` kind is `recv_timeout(0)`)
      .ok ({ st with skip := some "recv_timeout" }, ["skipped:recv_timeout"])
    else
    match hk, form with
    | .sender, "send" => callModel st t (.send (natTok (ws.getD 2 ""))) { base with items := [natTok (ws.getD 2 "")] }
    | .sender, "try_send" => callModel st t (.trySend (natTok (ws.getD 2 ""))) { base with items := [natTok (ws.getD 2 "")] }
    | .sender, "send_batch" | .sender, "send_batch_mut" =>
      let vs := (Fv.Driver.natList? (ws.getD 2 "-")).getD []
      callModel st t (.sendBatch vs true) { base with items := vs }
    | .sender, "try_send_batch" | .sender, "try_send_batch_mut" =>
      let vs := (Fv.Driver.natList? (ws.getD 2 "-")).getD []
      callModel st t (.sendBatch vs false) { base with items := vs }
    | .sender, "close" => callModel st t .sClose base
    | .sender, "drop" => callModel st t .sDrop base
    | .sender, "len" => callModel st t (.sProbe .len) base
    | .sender, "is_empty" => callModel st t (.sProbe .isEmpty) base
    | .sender, "is_full" => callModel st t (.sProbe .isFull) base
    | .sender, "is_closed" => callModel st t (.sProbe .isClosed) base
    | .sender, "to_async" | .sender, "to_sync" =>
      if (form == "to_async") == isAsync then noModel st t base "c:unsupported"
      else callModel st t .sConv base
    | .receiver r, "recv" => callModel st t (.recv r .blk none) base
    | .receiver r, "try_recv" => callModel st t (.recv r .try none) base
    | .receiver r, "recv_timeout0" =>
      if isAsync then noModel st t base "c:unsupported" else callModel st t (.recv r .tmo none) base
    | .receiver r, "recv_batch" | .receiver r, "recv_batch_mut" =>
      callModel st t (.recv r .blk (some (natTok (ws.getD 2 "")))) base
    | .receiver r, "try_recv_batch" | .receiver r, "try_recv_batch_mut" =>
      callModel st t (.recv r .try (some (natTok (ws.getD 2 "")))) base
    | .receiver r, "clone" =>
      let nn := ws.getD 2 ""
      if (handleOf st nn).isSome then noModel st t base "c:exists"
      else callModel st t (.clone r) { base with newName := nn, newCell := st.s.nextCell }
    | .receiver r, "close" => callModel st t (.rClose r) base
    | .receiver r, "drop" => callModel st t (.rDrop r) base
    | .receiver r, "len" => callModel st t (.rProbe r .len) base
    | .receiver r, "is_empty" => callModel st t (.rProbe r .isEmpty) base
    | .receiver r, "is_full" => callModel st t (.rProbe r .isFull) base
    | .receiver r, "is_closed" => callModel st t (.rProbe r .isClosed) base
    | .receiver r, "to_async" | .receiver r, "to_sync" =>
      if (form == "to_async") == isAsync then noModel st t base "c:unsupported"
      else callModel st t (.rConv r) base
    | _, "capacity" => noModel st t { base with expect := some s!"n:{st.cap}" } "c:capacity"
    | _, _ => noModel st t base "c:unsupported"

def doReturn (st : St) (t : Nat) (res : String) : Except String (St × List String) :=
  match pendOf st t with
  | none => .error "model=return-without-call"
  | some p =>
    let st1 := setPend st t none
    if !p.model then
      match p.expect with
      | some e => if e == res then .ok (st1, ["r:harness"]) else .error s!"model={e}"
      | none =>
        if res.startsWith "invalid" || res == "unsupported" then .ok (st1, ["r:harness"])
        else .error s!"model=no-fibre-call-expected impl={res}"
    else
      match st.s.pc t with
      | .ret r =>
        let e := showRes p r
        if e == res then
          -- bookkeeping of handle names
          let st2 :=
            if p.form == "clone" then setHandle st1 p.newName (some (.receiver p.newCell, (handleOf st p.handle).map (·.2) |>.getD false))
            else if p.form == "drop" then setHandle st1 p.handle none
            else if p.form == "to_async" || p.form == "to_sync" then
              match handleOf st p.handle with
              | some (hk, a) => setHandle st1 p.handle (some (hk, !a))
              | none => st1
            else st1
          .ok (st2, [s!"r:{p.form}"])
        else .error s!"model={e}"
      | pc => .error s!"model=operation-not-finished pc={showPC pc}"

/-- an `L` line: calibration prefix, or an object created by `clone` / `to_async` / `to_sync` -/
def doCreate (st : St) (name : String) (t : Nat) : Except String (St × List String) :=
  let ty := objType name
  match staticRole st.cap st.nStatic with
  | some (ety, role) =>
    if ety == ty then .ok ({ st with roles := setRole st.roles name role, nStatic := st.nStatic + 1 }, ["l:static"])
    else .error s!"model=layout-changed object#{st.nStatic} expected-type={ety} role={showObj role} impl={name}"
  | none =>
    match pendOf st t with
    | some p =>
      if p.form == "clone" && ty == "usize" then .ok ({ st with roles := setRole st.roles name (.cell p.newCell) }, ["l:cell"])
      else if p.form == "clone" && ty == "bool" then .ok ({ st with roles := setRole st.roles name (.rclosed p.newCell) }, ["l:closed"])
      else if (p.form == "to_async" || p.form == "to_sync") && ty == "bool" then
        match handleOf st p.handle with
        | some (.sender, _) => .ok ({ st with roles := setRole st.roles name .sclosed }, ["l:closed"])
        | some (.receiver r, _) => .ok ({ st with roles := setRole st.roles name (.rclosed r) }, ["l:closed"])
        | none => .error s!"model=unexpected-object {name}"
      else .error s!"model=unexpected-object {name} during {p.form}"
    | none => .error s!"model=unexpected-object {name} outside-any-call"

def step (st : St) (op res : List String) : Except String (St × List String) :=
  if st.skip.isSome then .ok (st, []) else
  match op with
  | "P" :: _ => .ok (st, [])
  | "S" :: _ => .ok (st, [])
  | "D" :: _ => .ok (st, [])
  | ["X", status] => .ok (st, [if status == "ok" then "x:ok" else if status.startsWith "deadlock" then "x:deadlock" else "x:other"])
  | "X" :: _ => .ok (st, ["x:other"])
  | "L" :: name :: ts :: _ => doCreate st name (natTok ts)
  | ["A", ts, kind, obj, ord, old, new, ok] =>
    let t := natTok ts
    if kind ∈ ["lockwait", "spawn", "join", "exit", "wake", "yield"] then .ok (st, [])
    else
      match pendOf st t with
      | none => .ok (st, ["a:outside-call"])          -- channel construction, thread start-up
      | some p =>
        if !p.model then .error s!"model=no-action-expected (harness-level op {p.form})"
        else
          -- `Slot::drop` of the last handle: the sequence loads of the teardown
          match st.s.pc t, lookupRole st.roles obj with
          | .ret _, some (.seq j) =>
            if kind == "load" && j == st.tearNext then
              let s1 := if st.s.torn then some st.s else stepTeardown st.s
              match s1 with
              | some s1 =>
                if natTok old == st.s.seq j then .ok ({ st with s := s1, tearNext := j + 1 }, ["a:teardown"])
                else .error s!"model=[teardown load seq[{j}] = {st.s.seq j}]"
              | none => .error "model=teardown-not-enabled (a handle is still alive in the model)"
            else .error s!"model=unexpected-teardown-action"
          | _, _ => doAction st t kind obj ord old new ok
  | "C" :: ts :: rest =>
    let _ := res
    doCall st (natTok ts) rest
  | ["R", ts, r] => doReturn st (natTok ts) r
  | ["R", ts] => doReturn st (natTok ts) ""
  | _ => .error "bad-line"

def finish (st : St) : Except String (List String) :=
  match st.skip with
  | some why => .ok [s!"skipped:{why}"]
  | none => .ok ["case-ok"]

def engine : Engine St := { init := init, step := step, finish := finish }

end Fv.Driver.SpmcB
