import Fv.Driver.Proto
import Fv.Chan.SpscB
/-
Engine `spscb`: replays `chanh … --flavours spsc --mode conc --atomics` transcripts on the
step-level model `Fv.Chan.SpscB` (trace inclusion, one visible action per line).

  L <obj> <tid> <file>:<line> <init>                 object construction  → role table
  C <tid> <op> <handle> [args]                       model `call` step
  A <tid> <kind> <obj> <ordering> <old> <new> <ok>   model step with the matching label; checked:
        the step is enabled for the thread's role, the object has the role the model expects,
        ordering at least as strong as `ordAt`, value read (`old`) and value left in the cell (`new`)
  R <tid> <result>                                   model `ret` step, same result
  X <status>                                         `deadlock:` threads must be parked without token

ROLE TABLE (single place): `layout` below — creation order of the atomics / mutexes of
`SpscShared::new_internal` + `bounded_sync` (calibrated on every case: type and initial value of the
first twelve constructions must be exactly these, otherwise `layout-changed`).
Cases with operations the model does not cover yet (batch forms, conversions, `is_closed`) are
counted under TAG `skip:<op>` and not checked further.
-/
namespace Fv.Driver.SpscB
open Fv.Chan.SpscB

inductive ObjRole where
  | atom (o : Obj)
  | mutex (r : Role)
deriving Repr, DecidableEq

/-- creation order → (type token, initial value, role) -/
def layout : List (String × String × ObjRole) :=
  [ ("usize", "0", .atom .tail),            -- ring.p.tail
    ("usize", "0", .atom .head),            -- ring.c.head
    ("usize", "1", .atom (.count .P)),      -- sender_count
    ("usize", "1", .atom (.count .C)),      -- receiver_count
    ("bool", "0", .atom (.dropped .P)),     -- producer_dropped
    ("bool", "0", .atom (.dropped .C)),     -- consumer_dropped
    ("mutex", "-", .mutex .P),              -- producer_waiter
    ("mutex", "-", .mutex .C),              -- consumer_waiter
    ("usize", "0", .atom (.gate .P)),       -- send_waiters
    ("usize", "0", .atom (.gate .C)),       -- recv_waiters
    ("bool", "0", .atom (.closed .P)),      -- BoundedSyncSender.closed
    ("bool", "0", .atom (.closed .C)) ]     -- BoundedSyncReceiver.closed

structure St where
  s : State
  skip : Option String := none
  nL : Nat := 0                               -- constructions seen
  objs : List (String × ObjRole) := []        -- object id → role
  tidRole : List (Nat × Role) := []           -- thread currently inside a call of that role
  roleTid : List (Role × Nat) := []           -- last thread that ran a call of the role
  opKind : List (Role × String) := []         -- harness op token of the running call (result format)

def kv (ws : List String) (key : String) : Option String :=
  (ws.find? (fun w => w.startsWith (key ++ "="))).map (fun w => (w.drop (key.length + 1)).toString)

def init (ws : List String) : Except String St :=
  let cap := ((kv ws "cap").bind String.toNat?).getD 0
  let st : St := { s := Fv.Chan.SpscB.init cap [] [] }
  if kv ws "flavour" != some "spsc" then .ok { st with skip := some "skip:flavour" }
  else if kv ws "atomics" != some "1" then .ok { st with skip := some "skip:no-atomics" }
  else if cap = 0 then .error "cap=0"
  else .ok st

def lookup {α β} [BEq α] (l : List (α × β)) (a : α) : Option β := (l.find? (fun p => p.1 == a)).map (·.2)
def setKV {α β} [BEq α] (l : List (α × β)) (a : α) (b : β) : List (α × β) := (a, b) :: l.filter (fun p => !(p.1 == a))

def showRole : Role → String | .P => "P" | .C => "C"

def showRes (opk : String) : Res → String
  | .ok => "ok"
  | .okV v => s!"ok:{v}"
  | .full v => s!"err:full:{v}"
  | .closedV v => s!"err:closed:{v}"
  | .closed => "err:closed"
  | .disc => "err:disconnected"
  | .empty => "err:empty"
  | .timeout => "err:timeout"
  | .closeErr => "err:close"
  | .n k =>
    if opk = "is_empty" then (if k = 0 then "true" else "false")
    else s!"n:{k}"

def showMic (m : Mic) : String := (reprStr m)

def parseOrd : String → Option Ord
  | "rlx" => some .relaxed | "acq" => some .acquire | "rel" => some .release
  | "acqrel" => some .acqrel | "sc" => some .seqcst | _ => none

def handleRole (h : String) : Option Role :=
  if h = "s0" then some .P else if h = "r0" then some .C else none

/-- harness op → model op -/
def parseOp (ws : List String) (r : Role) : Option Op :=
  match ws, r with
  | ["send", _, v], .P => v.toNat?.map Op.send
  | ["try_send", _, v], .P => v.toNat?.map Op.trySend
  | ["recv", _], .C => some .recv
  | ["try_recv", _], .C => some .tryRecv
  | ["recv_timeout0", _], .C => some .recvTimeout0
  | ["recv_timeout", _], .C => some .recvTimeout
  | ["len", _], _ => some .len
  | ["is_empty", _], _ => some .len
  | ["close", _], _ => some .close
  | ["drop", _], _ => some .drop
  | _, _ => none

def objType (id : String) : String :=
  if id.startsWith "m" then "mutex" else (id.splitOn ":").getD 1 "?"

/-- one model step; the value checks compare the cell before / after with the transcript -/
def doStep (st : St) (r : Role) (l : Label) (o : Option Obj) (ord : Option Ord) (old new : String) (tag : String) :
    Except String (St × List String) :=
  let m := (st.s.loc r).m
  match step st.s r l with
  | none => .error s!"model=step-not-enabled role={showRole r} at={showMic m} k={reprStr (st.s.loc r).k}"
  | some s' =>
    let ordOk := match ord with
      | some x => x.ge (ordAt m)
      | none => true
    if !ordOk then .error s!"model=ordering-weaker-than-model at={showMic m} need={reprStr (ordAt m)}"
    else
      let valOk := match o with
        | some ob => (old == toString (valOf st.s ob)) && (new == toString (valOf s' ob))
        | none => true
      if !valOk then
        match o with
        | some ob => .error s!"model=value old={valOf st.s ob} new={valOf s' ob} at={showMic m}"
        | none => .error "model=value"
      else .ok ({ st with s := s' }, [tag])

/-- The timed receive's deadline test is not a visible action: the trace shows only which way it went. The thread is
at the point where it would wait (`park` when registered, `rgLock` when not); if the next thing it does is not that —
registered: a `lock` (unregister) instead of `parkt`; not registered: the call returns — the deadline had passed and the
model takes its `deadline` step first. -/
def deadlineFirst (st : St) (r : Role) (kind : String) : St :=
  let l := st.s.loc r
  let passed :=
    l.tm && l.k == .rL &&
      ((l.m == .park && kind != "parkt") || (l.m == .rgLock && kind == "return"))
  if passed then
    match Fv.Chan.SpscB.step st.s r .deadline with
    | some s' => { st with s := s' }
    | none => st
  else st

def stepA (st0 : St) (t : Nat) (kind obj ord old new ok : String) : Except String (St × List String) :=
  let st := match lookup st0.tidRole t with
    | some r => deadlineFirst st0 r kind
    | none => st0
  if kind == "spawn" || kind == "join" || kind == "exit" || kind == "yield" || kind == "wake" then .ok (st, [])
  else
  match lookup st.tidRole t with
  | none => .error s!"action-outside-call tid={t} kind={kind}"
  | some r =>
    let o? := lookup st.objs obj
    let ordP := parseOrd ((ord.splitOn "/").getD 0 "")
    match kind, o? with
    | "load", some (.atom o) => doStep st r (.load o) (some o) ordP old new s!"A:load"
    | "store", some (.atom o) => doStep st r (.store o) (some o) ordP old new s!"A:store"
    | "swap", some (.atom o) => doStep st r (.swap o) (some o) ordP old new s!"A:swap"
    | "cas", some (.atom o) =>
      -- success flag must agree with the cell value the model sees
      let succ := (valOf st.s o == 0)
      if (ok == "1") != succ then .error s!"model=cas-outcome model-success={succ}"
      else doStep st r (.cas o) (some o) ordP old new s!"A:cas"
    | "fsub", some (.atom o) => doStep st r (.fsub o) (some o) ordP old new s!"A:fsub"
    | "fence", _ => doStep st r .fence none ordP old new "A:fence"
    | "lock", some (.mutex q) => doStep st r (.lock q) none none old new "A:lock"
    | "lockwait", some (.mutex q) =>
      if st.s.locked q then .ok (st, ["A:lockwait"]) else .error "model=mutex-free-but-impl-blocked"
    | "unlock", some (.mutex q) => doStep st r (.unlock q) none none old new "A:unlock"
    | "park", _ =>
      if old == "1" then doStep st r .park none none old new "A:park"
      else doStep st r .spurious none none old new "A:park-spurious"
    | "parkt", _ =>
      -- `park_timeout` returned: with the token (unparked), or because the scheduler fired the timeout — the model's
      -- park step that returns without a token; only the timed receive parks this way
      if !(st.s.loc r).tm then .error "model=park_timeout-outside-the-timed-receive"
      else if old == "1" then doStep st r .park none none old new "A:parkt"
      else doStep st r .spurious none none old new "A:parkt-timeout"
    | "unpark", _ =>
      -- target thread must be the thread running the other role
      let tgt := ((obj.drop 1).toString).toNat?
      let q := other r
      if lookup st.roleTid q != tgt then .error s!"model=unpark-target expected-tid={reprStr (lookup st.roleTid q)}"
      else if (old == "1") != st.s.tok q then .error s!"model=token-before model={st.s.tok q}"
      else doStep st r (.unpark q) none none old new "A:unpark"
    | "spin", _ => doStep st r .spin none none old new "A:spin"
    | _, _ => .error s!"unknown-action kind={kind} obj={obj}"

def step (st : St) (op _res : List String) : Except String (St × List String) :=
  match st.skip with
  | some _ => .ok (st, [])
  | none =>
  match op with
  | "P" :: _ => .ok (st, [])
  | "S" :: _ => .ok (st, [])
  | "D" :: _ => .ok (st, [])
  | ["L", id, tid, _loc, ini] =>
    let ty := objType id
    if st.nL < layout.length then
      match layout[st.nL]? with
      | some (ty', ini', role) =>
        if ty == ty' && ini == ini' && tid == "0" then
          .ok ({ st with nL := st.nL + 1, objs := (id, role) :: st.objs }, ["L:layout"])
        else .error s!"layout-changed construction#{st.nL + 1} got={ty}/{ini} expected={ty'}/{ini'}"
      | none => .error "layout"
    else
      -- later constructions: the stack-local `notified` of the calling thread's operation
      match tid.toNat?.bind (lookup st.tidRole) with
      | some r =>
        if ty == "bool" && ini == "0" then
          .ok ({ st with nL := st.nL + 1, objs := setKV (st.objs.filter (fun p => p.2 != .atom (.flag r))) id (.atom (.flag r)) }, ["L:notified"])
        else .error s!"unexpected-construction {id} init={ini}"
      | none => .error s!"construction-outside-call {id}"
  | "C" :: tids :: rest =>
    match tids.toNat?, rest with
    | some t, opk :: h :: _ =>
      if st.nL < layout.length then .error s!"layout-changed only {st.nL} constructions before the first call"
      else
      match handleRole h with
      | none => .ok ({ st with skip := some s!"skip:handle" }, [])
      | some r =>
        if opk == "capacity" then .ok ({ st with tidRole := setKV st.tidRole t r, opKind := setKV st.opKind r opk }, ["C:capacity"])
        else
        match parseOp rest r with
        | none => .ok ({ st with skip := some s!"skip:{opk}" }, [])
        | some mop =>
          let s1 := { st.s with prog := upd st.s.prog r [mop] }
          match Fv.Chan.SpscB.step s1 r .call with
          | none => .error s!"model=call-not-enabled role={showRole r} at={showMic (st.s.loc r).m}"
          | some s' =>
            .ok ({ st with s := s', tidRole := setKV st.tidRole t r, roleTid := setKV st.roleTid r t,
                           opKind := setKV st.opKind r opk }, [s!"C:{opk}"])
    | _, _ => .error "bad-C"
  | ["R", tids, res] =>
    match tids.toNat? with
    | none => .error "bad-R"
    | some t =>
      match lookup st.tidRole t with
      | none => .error "return-without-call"
      | some r =>
        let st := deadlineFirst st r "return"
        let opk := (lookup st.opKind r).getD ""
        let st1 := { st with tidRole := st.tidRole.filter (fun p => p.1 != t) }
        if opk == "capacity" then
          if res == s!"n:{st.s.cap}" then .ok (st1, ["R:capacity"]) else .error s!"model=n:{st.s.cap}"
        else
        match (st.s.loc r).m with
        | .ret mr =>
          let want := if opk == "is_empty" || opk == "len" then showRes opk mr else showRes opk mr
          if want != res then .error s!"model={want}"
          else
            match Fv.Chan.SpscB.step st.s r .ret with
            | some s' => .ok ({ st1 with s := s' }, [s!"R:{(res.splitOn ":").take 2 |> ":".intercalate}"])
            | none => .error "model=ret-not-enabled"
        | m => .error s!"model=not-at-return at={showMic m}"
  | ["X", status] =>
    if status.startsWith "deadlock:" then
      -- every blocked thread ≥ 1 must be parked without a token in the model
      let tids := ((status.drop 9).toString.splitOn ",").filterMap String.toNat?
      let bad := tids.filter (fun t => t != 0 &&
        match lookup st.tidRole t with
        | some r => !((st.s.loc r).m == .park && st.s.tok r == false)
        | none => true)
      if bad.isEmpty then .ok (st, ["X:deadlock-agrees"]) else .error s!"model=not-blocked tids={bad}"
    else .ok (st, [s!"X:{(status.splitOn ":").getD 0 ""}"])
  | "A" :: tids :: kind :: obj :: ord :: old :: new :: ok :: _ =>
    match tids.toNat? with
    | some t => stepA st t kind obj ord old new ok
    | none => .error "bad-A"
  | _ => .error "bad-line"

def finish (st : St) : Except String (List String) :=
  match st.skip with
  | some why => .ok [why]
  | none => .ok ["case-checked"]

def engine : Engine St := { init := init, step := step, finish := finish }

end Fv.Driver.SpscB
