import Fv.Driver.Proto
import Fv.Cache.Conc
/-
Engine `cacheconc`: replays the critical-section step sequence the real sync cache paths took under
the T3 baton scheduler (harness `conch`) on the small-step model `Fv.Cache.Conc`. Every step must
be enabled in the model for that thread, its observable outcome (value read, old/new, removed/absent,
over/under capacity, admitted key and cost, eviction argument, return value) must be the model's,
and after every scheduling decision the implementation's `current_cost` and resident map must
equal the model's.
-/
namespace Fv.Driver.CacheConc
open Fv.Cache.Conc

structure St where
  c : Cfg
  s : State
  nkeys : Nat
  strict : Bool := false                       -- the transcript carries acq / clock lines (conch v2)
  evs : List (Nat × List Acc) := []            -- per thread: acquisitions / clock reads seen since its last step line
  pre : List (Nat × List Acc) := []            -- per thread: lock-free prefix events still expected after a `call`
  ttlPending : List Nat := []                  -- threads whose `ttlAdvance => nonempty` awaits its `ttlMap` line

def getL (l : List (Nat × List Acc)) (t : Nat) : List Acc := ((l.find? (·.1 == t)).map (·.2)).getD []
def setL (l : List (Nat × List Acc)) (t : Nat) (v : List Acc) : List (Nat × List Acc) :=
  (t, v) :: l.filter (·.1 != t)

def showK : MKind → String | .lock => "l" | .tryl => "tl" | .alock => "la"
def showAcc : Acc → String
  | .shard i w a => s!"shard{i}:{if w then "w" else "r"}{if a then "a" else ""}"
  | .maint i k => s!"maint{i}:{showK k}"
  | .batch k => s!"batch:{showK k}"
  | .clock => "clock"
def showAccs (l : List Acc) : String := "[" ++ ",".intercalate (l.map showAcc) ++ "]"

def parseK : String → Option MKind | "l" => some .lock | "tl" => some .tryl | "la" => some .alock | _ => none

/-- `shard3` / `maint0` / `batch` + kind → event; `none` = an acquisition the model never performs -/
def parseAcc (role kind : String) : Option Acc :=
  if role.startsWith "shard" then
    match (role.drop 5).toNat?, kind with
    | some i, "r" => some (.shard i false false)
    | some i, "w" => some (.shard i true false)
    | some i, "ra" => some (.shard i false true)
    | some i, "wa" => some (.shard i true true)
    | _, _ => none
  else if role.startsWith "maint" then
    match (role.drop 5).toNat?, parseK kind with
    | some i, some k => some (.maint i k)
    | _, _ => none
  else if role = "batch" then (parseK kind).map Acc.batch
  else none

def kv (ws : List String) (key : String) : Option String :=
  (ws.find? (fun w => w.startsWith (key ++ "="))).map (fun w => (w.drop (key.length + 1)).toString)

def u64max : Nat := 18446744073709551615

def init (ws : List String) : Except String St :=
  match (kv ws "threads").bind String.toNat?, (kv ws "shards").bind String.toNat?, kv ws "cap",
        (kv ws "nkeys").bind String.toNat? with
  | some n, some sh, some cap, some nk =>
    let capN := if cap = "inf" then some u64max else cap.toNat?
    match capN with
    | some cp =>
      let ttl := ((kv ws "ttl").bind String.toNat?).getD 0
      let tti := ((kv ws "tti").bind String.toNat?).getD 0
      let t0 := ((kv ws "t0").bind String.toNat?).getD 1000000000
      .ok { c := { nThreads := n, nShards := sh, capacity := cp, ttl := ttl, tti := tti, track := kv ws "track" != some "0" },
            s := { Fv.Cache.Conc.init with now := t0 }, nkeys := nk, strict := (kv ws "track").isSome }
    | none => .error "bad cap="
  | _, _, _, _ => .error "missing threads= / shards= / cap= / nkeys="

def showPC (p : PC) : String := toString (repr p)

def showMap (s : State) (nk : Nat) : String :=
  let items := (List.range nk).filterMap (fun k => (s.map k).map (fun e => s!"{k}:{e.val}"))
  if items.isEmpty then "-" else ",".intercalate items

/-- expected `done` result for a `ret=` token -/
def retOf (tok : String) : Option (Option Nat) :=
  if tok = "unit" || tok = "none" then some none
  else if tok = "true" then some (some 1)
  else if tok = "false" then some (some 0)
  else tok.toNat?.map some

def parseOp : List String → Option Op
  | ["get", k] => k.toNat?.map Op.get
  | ["peek", k] => k.toNat?.map Op.peek
  | ["insert", k, v, c] => do some (.insert (← k.toNat?) (← v.toNat?) (← c.toNat?) none)
  | ["insertttl", k, v, c, d] => do some (.insert (← k.toNat?) (← v.toNat?) (← c.toNat?) (some (← d.toNat?)))
  | ["remove", k] => k.toNat?.map Op.remove
  | ["compute", k, d] => do some (.compute (← k.toNat?) (← d.toNat?))
  | ["trycompute", k, d] => do some (.tryCompute (← k.toNat?) (← d.toNat?))
  | ["orinsert", k, v, c] => do some (.orInsert (← k.toNat?) (← v.toNat?) (← c.toNat?))
  | ["clear"] => some .clear
  | ["maint", sh, lim, full] => do some (.maint (← sh.toNat?) (← lim.toNat?) (full == "1"))
  | _ => none

/-- result tokens without the `ret=` / `cur=` / `m=` observation tokens -/
def outcome (res : List String) : List String :=
  res.filter (fun w => !(w.startsWith "ret=" || w.startsWith "cur=" || w.startsWith "m="))

/-- run one model step and check outcome, return value and observation -/
def doStep (st : St) (t : Nat) (l : Label) (res : List String) (tag : String)
    (check : State → State → Bool := fun _ _ => true) : Except String (St × List String) :=
  let isCall := match l with | .call _ _ => true | _ => false
  let expected := if isCall then [] else getL st.pre t ++ footprint st.c st.s t l
  let seen := getL st.evs t
  let fpOk := !st.strict || seen == expected ||
    (match footprintAlt st.c st.s t l with | some a => seen == getL st.pre t ++ a | none => false)
  if !fpOk then
    .error s!"model=footprint {showAccs expected} impl-footprint={showAccs seen} pc={showPC (st.s.pc t)}"
  else
  let st := if isCall then { st with pre := setL st.pre t (footprint st.c st.s t l) }
            else { st with pre := setL st.pre t [], evs := setL st.evs t [] }
  match step st.c st.s t l with
  | none => .error s!"model=step-not-enabled pc={showPC (st.s.pc t)}"
  | some s' =>
    if !check st.s s' then .error s!"model=outcome-differs pc-before={showPC (st.s.pc t)} pc-after={showPC (s'.pc t)}"
    else
      let retChk : Except String Unit :=
        match kv res "ret" with
        | some tok =>
          match retOf tok, s'.pc t with
          | some r, .done r' => if r = r' then .ok () else .error s!"model=returns {showPC (s'.pc t)}"
          | _, p => .error s!"model=does-not-return-here pc-after={showPC p}"
        | none =>
          match s'.pc t, l with
          | _, .advance _ => .ok ()
          | .done _, _ => .error s!"model=returns-here {showPC (s'.pc t)}"
          | _, _ => .ok ()
      match retChk with
      | .error e => .error e
      | .ok () =>
        let curChk := match (kv res "cur").bind String.toNat? with
          | some cu => if cu = obs s' then none else some s!"model=[cur {obs s'}]"
          | none => none
        let mapChk := match kv res "m" with
          | some m => if m = showMap s' st.nkeys then none else some s!"model=[m {showMap s' st.nkeys}]"
          | none => none
        match curChk, mapChk with
        | some e, _ => .error e
        | _, some e => .error e
        | none, none => .ok ({ st with s := s' }, [tag])

def isDone : PC → Bool | .done _ => true | _ => false

/-- the thread cannot take its next step because a lock it needs is held (by a `clear` / a maintenance pass) -/
def waiting (c : Cfg) (s : State) (t : Nat) : Bool :=
  let held (i : Nat) := (s.sheld i).isSome
  match s.pc t with
  | .clr acq pend =>
    if s.amode t then acq.length + pend.length == c.nShards && !pend.isEmpty && pend.all held
    else decide (acq.length < c.nShards) && held acq.length
  | .rd k _ => held (shardOf c k)
  | .ins k _ _ _ _ => held (shardOf c k)
  | .rm k => held (shardOf c k)
  | .cmp k _ _ => held (shardOf c k)
  | .oi k _ _ => held (shardOf c k)
  | .mLock sh _ _ => (s.mlock sh).isSome
  | .mVictim _ _ (vk :: _) _ _ => held (shardOf c vk)
  | .mTtlMap m _ => held m.sh
  | .mTti m => decide (c.tti ≠ 0) && held m.sh
  | .mCapMap m _ _ => held m.sh
  | _ => false

def step (st : St) (op res : List String) : Except String (St × List String) :=
  match op with
  | "P" :: _ => .ok (st, [])
  | "S" :: _ => .ok (st, [])
  | [ts, "acq", role, kind] =>
    match ts.toNat?, parseAcc role kind with
    | some t, some (.shard i true a) =>
      -- inside `clear` every shard acquisition is a model step of its own (the lock stays held)
      match st.s.pc t with
      | .clr _ _ =>
        if a != st.s.amode t then .error s!"model=footprint [shard{i}:{if st.s.amode t then "wa" else "w"}] impl-footprint=[{showAcc (.shard i true a)}]"
        else
          match Fv.Cache.Conc.step st.c st.s t (.clrAcq i) with
          | some s' => .ok ({ st with s := s' }, ["clear-acquires-shard"])
          | none => .error s!"model=step-not-enabled clrAcq {i} pc={showPC (st.s.pc t)}"
      | _ => .ok ({ st with evs := setL st.evs t (getL st.evs t ++ [.shard i true a]) }, ["acq-shard"])
    | some t, some a => .ok ({ st with evs := setL st.evs t (getL st.evs t ++ [a]) }, [s!"acq-{showAcc a |>.takeWhile (fun ch => !ch.isDigit && ch != ':')}"])
    | some _, none => .error s!"model=never-takes-this-lock role={role} kind={kind}"
    | none, _ => .error "bad-op"
  | [ts, "repoll"] =>
    match ts.toNat? with
    | some t =>
      match st.s.pc t with
      | .clr _ pend =>
        -- a re-polled async `clear` acquires, in index order, every pending shard that is free now
        let s' := pend.foldl (fun (acc : State) j =>
          match Fv.Cache.Conc.step st.c acc t (.clrGet j) with | some s1 => s1 | none => acc) st.s
        .ok ({ st with s := s' }, ["clear-repoll"])
      | _ => .ok (st, ["repoll"])
    | none => .error "bad-op"
  | [ts, "clock"] =>
    match ts.toNat? with
    | some t => .ok ({ st with evs := setL st.evs t (getL st.evs t ++ [.clock]) }, ["clock-read"])
    | none => .error "bad-op"
  | [ts, "advance", d] =>
    match ts.toNat?, d.toNat? with
    | some t, some d => doStep st t (.advance d) res "clock-advance"
    | _, _ => .error "bad-op"
  | ["X", status] =>
    if status = "ok" then
      if st.evs.any (fun p => !p.2.isEmpty) then .error "model=acquisitions-or-clock-reads-outside-any-step"
      else if decide (Quiescent st.c st.s) then
        .ok (st, ["end-ok", if st.s.dirty then "end-accounting-drift-predicted" else "end-accounting-clean"])
      else .error "model=not-quiescent-at-end"
    else if status.startsWith "deadlock" then
      -- a deadlock is accepted only if the model is deadlocked too: every unfinished thread waits for a held lock
      let ts := List.range st.c.nThreads
      if ts.all (fun t => isRest (st.s.pc t) || waiting st.c st.s t) && ts.any (fun t => !isRest (st.s.pc t)) then
        .ok (st, ["end-deadlock-predicted"])
      else .error s!"model=not-deadlocked impl={status}"
    else .error s!"model=every-step-is-non-blocking impl={status}"
  | ts :: "call" :: rest =>
    match ts.toNat?, parseOp rest with
    | some t, some o => doStep st t (.call o false) res s!"call-{rest.headD "?"}"
    | _, _ => .error "bad-op"
  | ts :: "acall" :: rest =>
    match ts.toNat?, parseOp rest with
    | some t, some o => doStep st t (.call o true) res s!"acall-{rest.headD "?"}"
    | _, _ => .error "bad-op"
  | [ts, lab] =>
    match ts.toNat? with
    | none => .error "bad-op"
    | some t =>
      let out := outcome res
      let pcIs (f : PC → Bool) : State → State → Bool := fun _ s' => f (s'.pc t)
      match lab, out with
      | "read", ["none"] =>
        doStep st t .read res
          (match st.s.pc t with | .rd k _ => (if (st.s.map k).isSome then "read-expired" else "read-miss") | _ => "read-miss")
          (pcIs (· == .done none))
      | "read", ["some", v] => doStep st t .read res "read-hit" (pcIs (fun p => some p == v.toNat?.map (fun x => PC.done (some x))))
      | "insMap", ["new"] => doStep st t .insMap res "insert-fresh" (pcIs (fun p => match p with | .insEv _ _ => true | _ => false))
      | "insMap", ["old"] => doStep st t .insMap res "insert-overwrite" (pcIs (fun p => match p with | .insSub _ _ _ => true | _ => false))
      | "insSub", _ => doStep st t .insSub res "insert-sub-old-cost"
      | "insEv", _ => doStep st t .insEv res "insert-event-push"
      | "insAdd", _ => doStep st t .insAdd res "insert-add-cost"
      | "coopSkip", _ => doStep st t .coopSkip res "coop-skip"
      | "coopLock", _ => doStep st t .coopLock res "coop-maintenance"
      | "rmMap", ["none"] => doStep st t .rmMap res "remove-absent" (pcIs (· == .done none))
      | "rmMap", ["some", v] =>
        doStep st t .rmMap res "remove-found" (pcIs (fun p => match p with | .rmPol _ v' _ _ => some v' == v.toNat? | _ => false))
      | "rmPol", _ => doStep st t .rmPol res "remove-policy"
      | "rmSub", _ => doStep st t .rmSub res "remove-sub-cost"
      | "rmNote", _ => doStep st t (.rmNote true) res "remove-notify"
      | "compute", ["ok"] => doStep st t (.compute false) res "compute-ok" (pcIs (· == .done (some 1)))
      | "compute", ["nf"] => doStep st t (.compute false) res "compute-notfound" (pcIs (· == .done none))
      | "compute", ["fail"] =>
        doStep st t (.compute true) res "compute-fail" (fun s s' => (s'.pc t == .done (some 0)) || (s'.pc t == s.pc t && (s.map (match s.pc t with | .cmp k _ _ => k | _ => 0)).isSome))
      | "oiMap", ["ins"] => doStep st t .oiMap res "or_insert-vacant" (pcIs (fun p => match p with | .oiEv _ _ _ => true | _ => false))
      | "oiMap", ["occ", v] => doStep st t .oiMap res "or_insert-occupied" (pcIs (fun p => some p == v.toNat?.map (fun x => PC.done (some x))))
      | "oiEv", _ => doStep st t .oiEv res "or_insert-event-push"
      | "oiAdd", _ => doStep st t .oiAdd res "or_insert-add-cost"
      | "clear", _ =>
        -- transcripts without acquisition lines (conch v1): take the shard locks silently, in order
        let st := if st.strict then st else
          (List.range st.c.nShards).foldl (fun (acc : St) i =>
            match Fv.Cache.Conc.step acc.c acc.s t (.clrAcq i) with | some s1 => { acc with s := s1 } | none => acc) st
        doStep st t .clear res (if pendingAdj st.c st.s ≠ 0 then "clear-overlapping-inflight" else "clear")
      | "mLock", _ => doStep st t .mLock res "maint-lock"
      | "recv", _ =>
        doStep st t .recv res (match st.s.pc t with | .mDrain m _ _ => (if (st.s.events m.sh).isEmpty then "recv-empty" else "recv-event") | _ => "recv")
      | "victim", ["removed"] => doStep st t .victim res "victim-removed" (fun s s' => s'.nextRid == s.nextRid + 1)
      | "victim", ["absent"] => doStep st t .victim res "victim-absent" (fun s s' => s'.nextRid == s.nextRid)
      | "evSub", _ => doStep st t .evSub res "evict-sub-cost"
      | "evNote", _ => doStep st t (.evNote true) res "evict-notify"
      | "ttlAdvance", ["[]"] => doStep st t (.ttlAdvance []) res "ttl-none"
      | "ttlAdvance", ["nonempty"] => .ok ({ st with ttlPending := t :: st.ttlPending }, ["ttl-due"])
      | "ttlMap", [ks] =>
        -- the expiry set of the timer wheel is an oracle: the keys the implementation removed (plus a phantom)
        match Fv.Driver.natList? ks with
        | some ks =>
          if !st.ttlPending.contains t then .error "model=no-ttl-due"
          else
            match Fv.Cache.Conc.step st.c st.s t (.ttlAdvance (ks ++ [1000003])) with
            | none => .error s!"model=step-not-enabled pc={showPC (st.s.pc t)}"
            | some s1 =>
              let sh := match s1.pc t with | .mTtlMap m _ => m.sh | _ => 0
              let removed := (removeKeys st.c.nShards sh s1.map (ks ++ [1000003])).2.map (·.1)
              if removed != ks then .error s!"model=[ttl-removes {Fv.Driver.showNatList removed}]"
              else doStep { st with s := s1, ttlPending := st.ttlPending.filter (· != t) } t (.ttlMap true) res
                     (if ks.isEmpty then "ttl-map-nothing" else "ttl-map-removes")
        | none => .error "bad-op"
      | "ttiMap", [ks] =>
        match Fv.Driver.natList? ks with
        | some ks =>
          let sh := match st.s.pc t with | .mTti m => m.sh | _ => 0
          let removed := if st.c.tti = 0 then [] else (removeKeys st.c.nShards sh st.s.map (expiredOf st.c st.s ks)).2.map (·.1)
          if removed != ks then .error s!"model=[tti-removes {Fv.Driver.showNatList removed}]"
          else doStep st t (.ttiMap ks true) res (if st.c.tti = 0 then "tti-off" else if ks.isEmpty then "tti-nothing" else "tti-removes")
        | none => .error "bad-op"
      | "capLoad", o =>
        -- transcripts of conch v1 have no `ttiMap` line: with TTI off that step is a no-op, take it silently
        let st := match st.s.pc t, st.strict, st.c.tti with
          | .mTti _, false, 0 => (match Fv.Cache.Conc.step st.c st.s t (.ttiMap [] true) with | some s1 => { st with s := s1 } | none => st)
          | _, _, _ => st
        match o with
        | ["over"] => doStep st t .capLoad res "capacity-over" (fun _ s' => match s'.pc t with | .mCapEvict _ _ => true | _ => false)
        | ["under"] => doStep st t .capLoad res "capacity-under" (fun _ s' => match s'.pc t with | .mUnlock _ => true | _ => false)
        | _ => .error "bad-op"
      | "capMap", _ =>
        doStep st t (.capMap true) res
          (match st.s.pc t with
           | .mCapMap m vs r => (if removedCost (removeKeys st.c.nShards m.sh st.s.map vs).2 = r then "capacity-map-exact" else "capacity-map-policy-cost-differs")
           | _ => "capacity-map")
      | "capSub", _ => doStep st t .capSub res "capacity-sub-cost"
      | "unlock", _ => doStep st t .unlock res "maint-unlock"
      | _, _ => .error "bad-op"
  | [ts, "admit", k, cst] =>
    match ts.toNat?, k.toNat?, cst.toNat? with
    | some t, some k, some cst =>
      let headOk : State → State → Bool := fun s _ =>
        match s.pc t with | .mAdmit _ ((k', c') :: _) => k' == k && c' == cst | _ => false
      match outcome res with
      | ["admit"] => doStep st t (.admit .admit) res "admit" headOk
      | ["reject"] => doStep st t (.admit .reject) res "admit-reject" headOk
      | ["evict", vs] =>
        match Fv.Driver.natList? vs with
        | some vs => doStep st t (.admit (.evict vs)) res (if vs.isEmpty then "admit-evict-none" else "admit-evict") headOk
        | none => .error "bad-op"
      | _ => .error "bad-op"
    | _, _, _ => .error "bad-op"
  | [ts, "capEvict", n] =>
    match ts.toNat?, n.toNat?, outcome res with
    | some t, some n, [vs, rel] =>
      match Fv.Driver.natList? vs, rel.toNat? with
      | some vs, some rel =>
        doStep st t (.capEvict vs rel) res (if vs.isEmpty then "capacity-evict-nothing" else "capacity-evict")
          (fun s _ => match s.pc t with | .mCapEvict _ n' => n' == n | _ => false)
      | _, _ => .error "bad-op"
    | _, _, _ => .error "bad-op"
  | _ => .error "bad-op"

def engine : Engine St := { init := init, step := step }

end Fv.Driver.CacheConc
