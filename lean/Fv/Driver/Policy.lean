import Fv.Driver.Proto
import Fv.Cache.Policy.Lru
import Fv.Cache.Policy.Fifo
import Fv.Cache.Policy.Sieve
import Fv.Cache.Policy.Clock
import Fv.Cache.Policy.Random
import Fv.Cache.Policy.Slru
import Fv.Cache.Policy.Arc
import Fv.Cache.Policy.TinyLfu
/-
Engine `policy`: replays `CachePolicy` call sequences on the policy models.
  #case <id> policy=<lru|fifo|sieve|clock|random|slru|arc|tinylfu> cap=<n>
  access k c => -          admit k c => admit | reject | evict:[k1,k2]
  remove k => -            evict n => [k1,k2] <freed>          clear => -
-/
namespace Fv.Driver.Policy
open Fv.Cache.Policy

inductive St where
  | lru (s : Lru.State)
  | fifo (s : Fifo.State)
  | sieve (s : Sieve.State)
  | clock (s : Clock.State)
  | random (s : Random.State)
  | slru (s : Slru.State) (protCap : Nat)
  | arc (s : Arc.State) (cap : Nat)
  | tinylfu (s : TinyLfu.State) (cfg : TinyLfu.Cfg)

def kv (ws : List String) : String → Option String := fun key =>
  (ws.find? (fun w => w.startsWith (key ++ "="))).map (fun w => (w.drop (key.length + 1)).toString)

def init (ws : List String) : Except String St :=
  match kv ws "policy", (kv ws "cap").bind String.toNat? with
  | some "lru", _ => .ok (.lru Lru.init)
  | some "fifo", _ => .ok (.fifo Fifo.init)
  | some "sieve", _ => .ok (.sieve Sieve.init)
  | some "clock", _ => .ok (.clock Clock.init)
  | some "random", _ => .ok (.random Random.init)
  | some "slru", some c => .ok (.slru Slru.init (Slru.protCapacity c))
  | some "arc", some c => .ok (.arc Arc.init c)
  | some "tinylfu", some c => let cfg := TinyLfu.mkCfg c; .ok (.tinylfu (TinyLfu.init cfg) cfg)
  | _, _ => .error "unknown policy / missing cap"

def showAdmission : Admission → String
  | .admit => "admit"
  | .reject => "reject"
  | .admitAndEvict vs => "evict:" ++ showNatList vs

def access : St → Nat → Nat → St
  | .lru s, k, c => .lru (Lru.access s k c)
  | .fifo s, k, c => .fifo (Fifo.access s k c)
  | .sieve s, k, c => .sieve (Sieve.access s k c)
  | .clock s, k, c => .clock (Clock.access s k c)
  | .random s, k, c => .random (Random.access s k c)
  | .slru s pc, k, c => .slru (Slru.access s k c pc) pc
  | .arc s cap, k, c => .arc (Arc.access s k c) cap
  | .tinylfu s cfg, k, c => .tinylfu (TinyLfu.access s cfg k c) cfg

def admit : St → Nat → Nat → St × Admission
  | .lru s, k, c => let (s', a) := Lru.admit s k c; (.lru s', a)
  | .fifo s, k, c => let (s', a) := Fifo.admit s k c; (.fifo s', a)
  | .sieve s, k, c => let (s', a) := Sieve.admit s k c; (.sieve s', a)
  | .clock s, k, c => let (s', a) := Clock.admit s k c; (.clock s', a)
  | .random s, k, c => let (s', a) := Random.admit s k c; (.random s', a)
  | .slru s pc, k, c => let (s', a) := Slru.admit s k c; (.slru s' pc, a)
  | .arc s cap, k, c => let (s', a) := Arc.admit s k c cap; (.arc s' cap, a)
  | .tinylfu s cfg, k, c => let (s', a) := TinyLfu.admit s cfg k c; (.tinylfu s' cfg, a)

def remove : St → Nat → St
  | .lru s, k => .lru (Lru.remove s k)
  | .fifo s, k => .fifo (Fifo.remove s k)
  | .sieve s, k => .sieve (Sieve.remove s k)
  | .clock s, k => .clock (Clock.remove s k)
  | .random s, k => .random (Random.remove s k)
  | .slru s pc, k => .slru (Slru.remove s k) pc
  | .arc s cap, k => .arc (Arc.remove s k) cap
  | .tinylfu s cfg, k => .tinylfu (TinyLfu.remove s k) cfg

def clear : St → St
  | .lru s => .lru (Lru.clear s)
  | .fifo s => .fifo (Fifo.clear s)
  | .sieve s => .sieve (Sieve.clear s)
  | .clock s => .clock (Clock.clear s)
  | .random s => .random (Random.clear s)
  | .slru s pc => .slru (Slru.clear s) pc
  | .arc s cap => .arc (Arc.clear s) cap
  | .tinylfu s cfg => .tinylfu (TinyLfu.clear s) cfg

/-- deterministic policies: model computes victims; random: oracle replay. -/
def evict (st : St) (n : Nat) (implVictims : List Nat) : Except String (St × List Nat × Nat) :=
  match st with
  | .lru s => let (s', vs, f) := Lru.evict s n; .ok (.lru s', vs, f)
  | .fifo s => let (s', vs, f) := Fifo.evict s n; .ok (.fifo s', vs, f)
  | .sieve s => let (s', vs, f) := Sieve.evict s n; .ok (.sieve s', vs, f)
  | .clock s => let (s', vs, f) := Clock.evict s n; .ok (.clock s', vs, f)
  | .random s =>
    match Random.evictWith s n implVictims 0 with
    | some (s', f) => .ok (.random s', implVictims, f)
    | none => .error "model=inadmissible-random-victims"
  | .slru s pc => let (s', vs, f) := Slru.evict s n pc; .ok (.slru s' pc, vs, f)
  | .arc s cap => let (s', vs, f) := Arc.evict s n cap; .ok (.arc s' cap, vs, f)
  | .tinylfu s cfg => let (s', vs, f) := TinyLfu.evict s cfg n; .ok (.tinylfu s' cfg, vs, f)

def expect (got want : String) (st : St) (tags : List String) : Except String (St × List String) :=
  if got = want then .ok (st, tags) else .error s!"model=[{want}]"

def step (st : St) (op res : List String) : Except String (St × List String) :=
  let r := " ".intercalate res
  match op with
  | ["access", k, c] =>
    match k.toNat?, c.toNat? with
    | some k, some c => expect r "-" (access st k c) ["access"]
    | _, _ => .error "bad-op"
  | ["admit", k, c] =>
    match k.toNat?, c.toNat? with
    | some k, some c =>
      let (st', a) := admit st k c
      expect r (showAdmission a) st' [match a with | .admitAndEvict _ => "admit-evict" | _ => "admit"]
    | _, _ => .error "bad-op"
  | ["remove", k] =>
    match k.toNat? with
    | some k => expect r "-" (remove st k) ["remove"]
    | none => .error "bad-op"
  | ["clear"] => expect r "-" (clear st) ["clear"]
  | ["evict", n] =>
    match n.toNat?, natList? (res.getD 0 "[]") with
    | some n, some iv =>
      match evict st n iv with
      | .ok (st', vs, f) =>
        expect r s!"{showNatList vs} {f}" st' [if vs.isEmpty then "evict-none" else if vs.length > 1 then "evict-multi" else "evict-one"]
      | .error m => .error m
    | _, _ => .error "bad-op"
  | _ => .error "bad-op"

def engine : Engine St := { init := init, step := step }

end Fv.Driver.Policy
