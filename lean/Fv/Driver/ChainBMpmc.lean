import Fv.Driver.ChainB
import Fv.Chan.MpmcUB
/-
Engine `chainb`, mpmc part: replays `chanh … --atomics` transcripts of `mpmc_u`, `mpmc_u_async`
on `Fv.Chan.MpmcUB`.  Same discipline as the mpsc part (`Fv.Driver.ChainB`).

The consumer mutex is a `HybridMutex`, not a shim primitive: its atomics (`sync/mutex.rs`,
`sync/wait_queue.rs`) appear in the trace.  They are projected: the successful CAS that sets LOCKED on
the mutex state word is the model's `lock` step, the `fetch_and` that clears LOCKED is `unlock`; every
other action on mutex-internal objects, and the park/unpark/spin/yield of the mutex slow path, is
skipped (counted under TAG mutex-internal; that protocol is validated by the C10 engine).
-/
namespace Fv.Driver.ChainB
open Fv.Chan
open Fv.Chan.MpmcUB (SPC RPC TPC SOp ROp Res TRes Waker Label)

namespace Mpmc

abbrev MState := MpmcUB.State

inductive Exp2 where
  | tau | act (a : Act) | alloc | lock | unlock | stuck
deriving Repr

def ofExp : Exp → Exp2
  | .tau => .tau | .act a => .act a | .alloc => .alloc | .stuck => .stuck

def wakerObj2 (w : Waker) : Obj :=
  match w with
  | .thread t => .thread t
  | .task t => .waker (.task t)
  | .fut f => .waker (.fut f)

def chainCfg (cfg : MpmcUB.Cfg) : MpscUB.Cfg := { chain := cfg.chain, shards := cfg.shards }

def expectS (cfg : MpmcUB.Cfg) (s : MState) (h : Nat) : Exp2 :=
  let ld (r : Role) (o : String) (v : Nat) : Exp2 := .act { kind := "load", obj := .atom r, ord := o, old := .nat v, new := .nat v }
  match s.spc h with
  | .idle => .stuck
  | .done => .stuck
  | .chk => ld .rdrop "acq" (b2n s.rdrop)
  | .chain | .closeChain =>
    match MpmcUB.pNext cfg s.ch h with
    | some l => ofExp (chainAct cfg.chain s.ch h l)
    | none => .stuck
  | .rec_ =>
    let i := s.sshard h % cfg.shards
    .act { kind := "fadd", obj := .atom (.shard i), ord := "rlx", old := .nat (s.shard i), new := .nat (s.shard i + s.sn h) }
  | .nFence => .act { kind := "fence", ord := "sc" }
  | .nLoad => ld .wcnt "rlx" s.wcnt
  | .nLock | .wLock => .lock
  | .nState | .wState =>
    match s.sstate h with
    | c :: _ => .act { kind := "store", obj := .atom (.cell c), ord := "rel", old := .nat (s.cst c), new := .nat 2 }
    | [] => .stuck
  | .nCnt | .wCnt => .act { kind := "store", obj := .atom .wcnt, ord := "rel", old := .nat s.wcnt, new := .nat s.waiters.length }
  | .nUnlock | .wUnlock => .unlock
  | .fire =>
    match s.sfire h with
    | .thread w :: _ => .act { kind := "unpark", obj := .thread w, old := .nat (b2n (s.token w)), new := .nat 1 }
    | w :: _ => .act { kind := "wake", obj := wakerObj2 w }
    | [] => .stuck
  | .fireUnpark =>
    match s.sfire h with
    | .task w :: _ => .act { kind := "unpark", obj := .thread w, old := .nat (b2n (s.token w)), new := .nat 1 }
    | _ => .stuck
  | .cloneCnt => ofExp (chainAct cfg.chain s.ch h (.pClone 0))
  | .cloneShard => .act { kind := "fadd", obj := .atom .shardCur, ord := "rlx", old := .nat s.shardCur, new := .nat (s.shardCur + 1) }
  | .lenShard i => ld (.shard i) "rlx" (s.shard i)
  | .lenCons => ld .consumed "rlx" s.consumed
  | .closedLoad => ld .rdrop "acq" (b2n s.rdrop)
  | .scLoad => ld .senders "rlx" s.ch.senders
  | .afterClose => .tau
  | .fin =>
    match MpmcUB.cNext s.ch with
    | some l => ofExp (chainAct cfg.chain s.ch 0 l)
    | none => .stuck

def expectR (cfg : MpmcUB.Cfg) (s : MState) (r : Nat) : Exp2 :=
  let ld (ro : Role) (o : String) (v : Nat) : Exp2 := .act { kind := "load", obj := .atom ro, ord := o, old := .nat v, new := .nat v }
  let st (ro : Role) (o : String) (v w : Nat) : Exp2 := .act { kind := "store", obj := .atom ro, ord := o, old := .nat v, new := .nat w }
  match s.rpc r with
  | .idle => .stuck
  | .done => .stuck
  | .closedLoad => ld (.rclosedH r) "rlx" (b2n (s.rclosed r))
  | .lock | .tfLock | .cwLock => .lock
  | .pop => ofExp (chainAct cfg.chain s.ch 0 .cPopLoad)
  | .inPop =>
    match s.ch.cpc with
    | .done _ => .tau
    | _ =>
      match MpmcUB.cNext s.ch with
      | some l => ofExp (chainAct cfg.chain s.ch 0 l)
      | none => .stuck
  | .cons => .act { kind := "fadd", obj := .atom .consumed, ord := "rlx", old := .nat s.consumed, new := .nat (s.consumed + 1) }
  | .senders => ld .senders "acq" s.ch.senders
  | .rmCnt | .tfCnt | .cwCnt => st .wcnt "rel" s.wcnt s.waiters.length
  | .rearm | .termRearm | .termRearm2 | .convRearm => st (.cell r) "rlx" (s.cst r) 0
  | .regCnt => st .wcnt "rel" s.wcnt (s.waiters.length + 1)
  | .fence => .act { kind := "fence", ord := "sc" }
  | .unlock | .tfUnlock | .cwUnlock => .unlock
  | .park | .execPark => .act { kind := "park", old := .nat 1, new := .nat 0 }
  | .stLoad | .tfLoad | .termLoad | .termLoad2 | .cwLoad => ld (.cell r) "acq" (s.cst r)
  | .selfWake => .act { kind := "wake", obj := wakerObj2 (s.rwaker r) }
  | .selfUnpark =>
    match s.rwaker r with
    | .task w => .act { kind := "unpark", obj := .thread w, old := .nat (b2n (s.token w)), new := .nat 1 }
    | _ => .stuck
  | .closeCas =>
    .act { kind := "cas", obj := .atom (.rclosedH r), ord := "acqrel", old := .nat (b2n (s.rclosed r)), new := .nat 1, ok := some (!s.rclosed r) }
  | .closeSwap => .act { kind := "swap", obj := .atom (.rclosedH r), ord := "acqrel", old := .nat (b2n (s.rclosed r)), new := .nat 1 }
  | .rcntDec => .act { kind := "fsub", obj := .atom .rcount, ord := "acqrel", old := .nat s.rcount, new := .nat (s.rcount - 1) }
  | .dropStore => st .rdrop "rel" (b2n s.rdrop) 1
  | .cloneCnt => .act { kind := "fadd", obj := .atom .rcount, ord := "rlx", old := .nat s.rcount, new := .nat (s.rcount + 1) }
  | .lenShard i => ld (.shard i) "rlx" (s.shard i)
  | .lenCons => ld .consumed "rlx" s.consumed
  | .iscClosed => ld (.rclosedH r) "rlx" (b2n (s.rclosed r))
  | .iscSenders => ld .senders "acq" s.ch.senders
  | .scLoad => ld .senders "rlx" s.ch.senders
  | .convLoad => ld (.rclosedH r) "rlx" (b2n (s.rclosed r))
  | .release => .tau
  | .fin =>
    match MpmcUB.cNext s.ch with
    | some l => ofExp (chainAct cfg.chain s.ch 0 l)
    | none => .stuck

def expect (cfg : MpmcUB.Cfg) (s : MState) (t : Nat) : Exp2 :=
  match s.tpc t with
  | .idle => .stuck
  | .onS h => expectS cfg s h
  | .onR r => expectR cfg s r

structure FutInfo2 where
  name : String
  id : Nat
  recv : Bool
  handle : Nat := 0
  vals : List Nat := []
  live : Bool := true
deriving Repr

structure St2 where
  cfg : MpmcUB.Cfg := {}
  s : MState := MpmcUB.init
  roles : List (Nat × Role) := []
  mroles : List (Nat × MRole) := []
  ptrs : List (String × ChainB.NodeId) := []
  calibLeft : List String := []
  pending : List (Nat × List String) := []
  lastOp : List (Nat × List String) := []
  slabFill : Option (Nat × Nat × Nat) := none
  newRecv : Option (Nat × Nat × Nat) := none     -- (tid, new receiver handle, objects still to bind: 2 = closed flag, 1 = cell)
  futs : List FutInfo2 := []
  rasync : List (Nat × Bool) := []               -- receiver handle ↦ async?
  wbase : List (String × Nat) := []              -- future name ↦ waker invocations at its last `poll` call
  mutexTail : List Nat := []                     -- threads inside the wake_next tail of a HybridMutex unlock
  async0 : Bool := false

def calib2 (shards : Nat) : List String :=
  ["ptr:stubNext", "ptr:head", "m:pool", "usize:cmState", "bool:cm", "usize:wcnt", "usize:senders", "usize:rcount", "bool:rdrop"]
  ++ (List.range shards).map (fun i => s!"usize:shard{i}") ++ ["usize:shardCur", "usize:consumed", "A:shardCur", "bool:rclosedH0", "u8:cell0"]

def init (ws : List String) : Except String St2 :=
  match kv ws "flavour" with
  | some "mpmc_u" => .ok { calibLeft := calib2 16 }
  | some "mpmc_u_async" => .ok { calibLeft := calib2 16, async0 := true, rasync := [(0, true)] }
  | _ => .error "flavour not handled"

def roleOfName2 (n : String) : Option Role :=
  match n with
  | "cmState" => some .cmState | "cm" => some .cm | "wcnt" => some .wcnt | "rcount" => some .rcount
  | "rclosedH0" => some (.rclosedH 0) | "cell0" => some (.cell 0)
  | _ => roleOfName n

def isAsyncR (st : St2) (r : Nat) : Bool :=
  match st.rasync.find? (fun p => p.1 == r) with
  | some (_, b) => b
  | none => st.async0

def deadNode2 (c : ChainB.State) : ChainB.NodeId → Bool
  | .stub => c.nst .stub == .retired
  | .nd b _ => c.sst b == .freed

def matchVal2 (st : St2) (tok : String) (v : Val) : Except String St2 :=
  match v with
  | .none => .ok st
  | .nat n => if tok.toNat? == some n then .ok st else .error s!"value trace={tok} model={n}"
  | .ptr none => if tok == "p0" then .ok st else .error s!"value trace={tok} model=null"
  | .ptr (some nd) =>
    if tok == "p0" then .error s!"value trace=null model={showVal v}"
    else
      match st.ptrs.find? (fun p => p.1 == tok), st.ptrs.find? (fun p => p.2 == nd) with
      | some (_, nd'), other =>
        if nd' == nd then .ok st
        else if deadNode2 st.s.ch nd' && other.isNone then
          .ok { st with ptrs := (tok, nd) :: st.ptrs.filter (fun p => p.1 != tok) }
        else .error s!"pointer {tok} is {showVal (.ptr (some nd'))} model={showVal v}"
      | none, some (tok', _) => .error s!"pointer of {showVal v} is {tok'} trace={tok}"
      | none, none => .ok { st with ptrs := (tok, nd) :: st.ptrs }

def futName2 (w : MpscUB.Waker) (st : St2) : String :=
  match w with
  | .task t => s!"t{t}"
  | .fut f => match st.futs.find? (fun i => i.id == f) with | some i => i.name | none => s!"?{f}"

def matchObj2 (st : St2) (tok : String) (o : Obj) : Except String Unit :=
  match o with
  | .none => .ok ()
  | .thread t => if tok == s!"t{t}" then .ok () else .error s!"object trace={tok} model=t{t}"
  | .waker w =>
    let n := futName2 w st
    if tok == n || tok == "f" ++ n || "f" ++ tok == n then .ok () else .error s!"object trace={tok} model={n}"
  | .mutex m =>
    match objNum tok with
    | some (k, "m") =>
      match st.mroles.find? (fun p => p.1 == k) with
      | some (_, m') => if m' == m then .ok () else .error s!"object trace={tok} model={reprStr m}"
      | none => .error s!"unknown mutex {tok}"
    | _ => .error s!"object trace={tok} model={reprStr m}"
  | .atom r =>
    match objNum tok with
    | some (k, _) =>
      match st.roles.find? (fun p => p.1 == k) with
      | some (_, r') => if r' == r then .ok () else .error s!"object trace={tok}={reprStr r'} model={reprStr r}"
      | none => .error s!"unknown object {tok} model={reprStr r}"
    | none => .error s!"object trace={tok} model={reprStr r}"

def roleOfObj (st : St2) (tok : String) : Option Role :=
  match objNum tok with
  | some (k, ty) => if ty == "m" then none else (st.roles.find? (fun p => p.1 == k)).map (·.2)
  | none => none

def bind2 (st : St2) (k : Nat) (r : Role) : St2 :=
  if r == .cm then { st with roles := (k, r) :: st.roles }
  else { st with roles := (k, r) :: st.roles.filter (fun p => p.2 != r) }

def advance2 (st : St2) (t : Nat) : Except String St2 :=
  match MpmcUB.step st.cfg st.s t .adv with
  | some s' => .ok { st with s := s' }
  | none => .error "model=step-not-enabled"

def taus2 (st : St2) (t : Nat) : Nat → Except String St2
  | 0 => .ok st
  | fuel + 1 =>
    match expect st.cfg st.s t with
    | .tau => do let st' ← advance2 st t; taus2 st' t fuel
    | _ => .ok st

/-- a park / unpark performed by the HybridMutex implementation: only the token moves -/
def envTok (st : St2) (t : Nat) (b : Bool) : St2 :=
  match MpmcUB.step st.cfg st.s t (.envToken b) with
  | some s' => { st with s := s' }
  | none => st

def callOf2 (st : St2) (ws : List String) : Except String (Option Label × St2) :=
  match ws with
  | ["fut", f, "=", kind, h] =>
    match kind, parseH h with
    | "recv_fut", some (false, r) =>
      let id := st.futs.length
      .ok (some (.callR r (.mkFut id 1)), { st with futs := { name := f, id := id, recv := true, handle := r } :: st.futs })
    | _, _ => .ok (none, st)
  | ["fut", f, "=", kind, h, a] =>
    match kind, parseH h with
    | "recv_batch_fut", some (false, r) =>
      match a.toNat? with
      | some n =>
        let id := st.futs.length
        .ok (some (.callR r (.mkFut id n)), { st with futs := { name := f, id := id, recv := true, handle := r } :: st.futs })
      | none => .error "bad-op"
    | "send_fut", some (true, i) | "send_batch_fut", some (true, i) =>
      match natList? a with
      | some vs => .ok (none, { st with futs := { name := f, id := st.futs.length, recv := false, handle := i, vals := vs } :: st.futs })
      | none => .error "bad-op"
    | _, _ => .ok (none, st)
  | [name, f] =>
    if name == "poll" || name == "wakes" || name == "dropfut" || (name == "drop" && f.startsWith "f") then
      match st.futs.find? (fun i => i.name == f && i.live) with
      | none => .ok (none, st)
      | some fi =>
        if name == "poll" then
          if fi.recv then .ok (some (.callR fi.handle .poll), st)
          else .ok (some (.callS fi.handle (.send fi.vals)), { st with futs := st.futs.map (fun i => if i.name == f then { i with live := false } else i) })
        else if name == "wakes" then .ok (none, st)
        else
          if fi.recv then
            if (st.s.rfut fi.handle).isSome then
              .ok (some (.callR fi.handle .dropFut), { st with futs := st.futs.map (fun i => if i.name == f then { i with live := false } else i) })
            else .ok (none, { st with futs := st.futs.map (fun i => if i.name == f then { i with live := false } else i) })
          else .ok (none, { st with futs := st.futs.map (fun i => if i.name == f then { i with live := false } else i) })
    else
    match parseH f with
    | none => .ok (none, st)
    | some (true, h) =>
      match name with
      | "close" => .ok (some (.callS h .close), st)
      | "drop" => .ok (some (.callS h .drop), st)
      | "len" | "is_empty" => .ok (some (.callS h .len), st)
      | "is_closed" => .ok (some (.callS h .isClosed), st)
      | "sender_count" => .ok (some (.callS h .senderCount), st)
      | "to_async" | "to_sync" => .ok (some (.callS h .convert), st)
      | _ => .ok (none, st)
    | some (false, r) =>
      let isA := isAsyncR st r
      match name with
      | "recv" => .ok (some (.callR r (if isA then .recvAsync 1 else .recv 1)), st)
      | "try_recv" => .ok (some (.callR r (.tryRecv 1)), st)
      | "recv_timeout0" => .ok (if isA then none else some (.callR r .timeout0), st)
      | "close" => .ok (some (.callR r .close), st)
      | "drop" => .ok (some (.callR r .drop), st)
      | "len" | "is_empty" => .ok (some (.callR r .len), st)
      | "is_closed" => .ok (some (.callR r .isClosed), st)
      | "sender_count" => .ok (some (.callR r .senderCount), st)
      | "to_async" => .ok (if isA then none else some (.callR r (.convert true)), st)
      | "to_sync" => .ok (if isA then some (.callR r (.convert false)) else none, st)
      | _ => .ok (none, st)
  | [name, h, a] =>
    match parseH h with
    | none => .ok (none, st)
    | some (true, i) =>
      if isSendForm name then
        match natList? a with
        | some vs => .ok (some (.callS i (.send vs)), st)
        | none => .error "bad-op"
      else if name == "clone" then
        match parseH a with
        | some (true, j) => .ok (some (.callS i (.clone j)), st)
        | _ => .error "bad-op"
      else .ok (none, st)
    | some (false, r) =>
      if name == "clone" then
        match parseH a with
        | some (false, r') => .ok (some (.callR r (.clone r')), { st with rasync := (r', isAsyncR st r) :: st.rasync })
        | _ => .error "bad-op"
      else
      match a.toNat? with
      | none => .ok (none, st)
      | some n =>
        match name with
        | "recv_batch" | "recv_batch_mut" => .ok (some (.callR r (if isAsyncR st r then .recvAsync n else .recv n)), st)
        | "try_recv_batch" | "try_recv_batch_mut" => .ok (some (.callR r (.tryRecv n)), st)
        | _ => .ok (none, st)
  | _ => .ok (none, st)

def flush2 (st : St2) (t : Nat) : Except String St2 :=
  match st.pending.find? (fun p => p.1 == t) with
  | none => .ok st
  | some (_, ws) =>
    let st := { st with pending := st.pending.filter (fun p => p.1 != t) }
    match callOf2 st ws with
    | .error e => .error e
    | .ok (none, st') => .ok st'
    | .ok (some l, st') =>
      match MpmcUB.step st'.cfg st'.s t l with
      | some s' => .ok { st' with s := s', lastOp := (t, ws) :: st'.lastOp.filter (fun p => p.1 != t) }
      | none => .error s!"model=call-not-enabled {reprStr l}"

def showTRes2 : TRes → String
  | .ok vs => s!"ok{showNatList vs}" | .empty => "empty" | .disc => "disconnected"

def showRes2 : Res → String
  | .unit => "ok" | .sent n => s!"sent:{n}" | .closed => "closed" | .got r => showTRes2 r | .timeout => "timeout"
  | .pending => "pending" | .bool b => toString b | .nat n => s!"n:{n}" | .closeErr => "err:close"

def toRes1 : Res → MpscUB.Res
  | .unit => .unit | .sent n => .sent n | .closed => .closed | .timeout => .timeout | .pending => .pending
  | .bool b => .bool b | .nat n => .nat n | .closeErr => .closeErr
  | .got (.ok vs) => .got (.ok vs) | .got .empty => .got .empty | .got .disc => .got .disc

def stepL2 (st : St2) (obj : String) (t : Nat) (loc initTok : String) : Except String (St2 × List String) :=
  match objNum obj with
  | none => .error s!"bad object {obj}"
  | some (k, ty) =>
    match st.calibLeft with
    | exp :: rest =>
      match exp.splitOn ":" with
      | [ety, nm] =>
        if ety == "A" then .error s!"calibration: expected the next_shard fetch_add, got construction of {obj}"
        else if ety != ty then .error s!"calibration: object {obj} has type {ty}, expected {exp} (layout of UnboundedShared changed?)"
        else if ety == "m" then
          match mroleOfName nm with
          | some m => .ok ({ st with mroles := (k, m) :: st.mroles, calibLeft := rest }, [])
          | none => .error "calibration table"
        else
          match roleOfName2 nm with
          | some r =>
            let st1 := { bind2 st k r with calibLeft := rest }
            if r == .head then (matchVal2 st1 initTok (.ptr (some .stub))).map (fun s => (s, []))
            else .ok (st1, [])
          | none => .error "calibration table"
      | _ => .error "calibration table"
    | [] =>
      if loc.startsWith "sync/" then
        -- HybridMutex internals (wait-queue nodes, …)
        .ok (bind2 st k .cm, ["mutex-internal"])
      else do
      let st ← flush2 st t
      match st.slabFill with
      | some (t', b, i) =>
        if t' == t && ty == "ptr" then
          let st1 := bind2 st k (.next b i)
          let fill := if i + 1 < st.cfg.chain.N then some (t, b, i + 1) else none
          .ok ({ st1 with slabFill := fill }, [])
        else .error s!"alloc_slab of thread {t'} interrupted by construction of {obj}"
      | none =>
        if ty == "u32" then
          let st ← taus2 st t 8
          match expect st.cfg st.s t with
          | .alloc =>
            let b := st.s.ch.nextSlab
            if initTok.toNat? != some (st.cfg.chain.N + 1) then .error s!"remaining initial value {initTok}"
            else
              let st1 ← advance2 st t
              .ok ({ bind2 st1 k (.rem b) with slabFill := some (t, b, 0) }, ["slab-alloc"])
          | e => .error s!"construction of a slab but model expects {reprStr e}"
        else
          -- receiver clone: a `closed` flag then a waiter cell; conversion: a `closed` flag (to_async keeps the cell)
          match st.s.tpc t with
          | .onR r =>
            match st.s.rop r with
            | .clone r' =>
              if ty == "bool" then .ok (bind2 st k (.rclosedH r'), [])
              else if ty == "u8" then .ok (bind2 st k (.cell r'), [])
              else .error s!"unexpected construction of {obj}"
            | .convert toA =>
              if ty == "bool" then
                .ok ({ bind2 st k (.rclosedH r) with rasync := (r, toA) :: st.rasync.filter (fun p => p.1 != r) }, ["convert"])
              else .error s!"unexpected construction of {obj}"
            | _ => .error s!"unexpected construction of {obj} by thread {t}"
          | _ => .error s!"unexpected construction of {obj} by thread {t}"

def bit0 (tok : String) : Bool := match tok.toNat? with | some n => n % 2 == 1 | none => false
def bit1 (tok : String) : Bool := match tok.toNat? with | some n => (n / 2) % 2 == 1 | none => false

def branchTags2 (st : St2) (t : Nat) : List String :=
  let c := st.s.ch
  match st.s.tpc t with
  | .onS h =>
    (match st.s.spc h with
     | .nState => ["notify-wake-one"]
     | .wState => ["last-sender-wake-all"]
     | .chain | .closeChain =>
       (match c.ppc h with
        | .rearmRem _ => ["slab-recycle"]
        | .relUnlock _ _ => [if c.pool.length < st.cfg.chain.poolCap then "slab-to-pool" else "slab-freed"]
        | .prelink => ["batch-prelink"]
        | _ => [])
     | .fin => (match c.cpc with | .finLoad => ["final-walk"] | _ => [])
     | _ => [])
  | .onR r =>
    (match st.s.rpc r with
     | .pop => (if c.next c.tail == none && c.k < c.len then ["pop-sees-unlinked-gap"] else [])
               ++ (if (st.s.rround r == 1 || st.s.rround r == 3) && (c.next c.tail).isSome then ["straggler-redrain-hit"] else [])
     | .inPop => (match c.cpc with
                  | .relUnlock _ _ => [if c.pool.length < st.cfg.chain.poolCap then "slab-to-pool-under-consumer-lock" else "slab-freed"]
                  | _ => [])
     | .park => ["recv-parked"]
     | .execPark => ["async-recv-parked"]
     | .regCnt => ["register-waiter"]
     | .stLoad => [if st.s.cst r == 2 then "woken-NOTIFIED" else "park-again"]
     | .termLoad => if st.s.cst r == 2 then ["poll-sees-NOTIFIED"] else []
     | .termLoad2 => ["entry-vanished-mid-poll"]
     | .cwLoad => [if st.s.cst r == 2 then "cancel-after-NOTIFIED(F2-shape)" else "cancel-entry-gone"]
     | .cwCnt => ["cancel-unregisters"]
     | .tfCnt => ["timeout-unregisters"]
     | .tfLoad => ["timeout-lost-race"]
     | .fin => (match c.cpc with | .finLoad => ["final-walk"] | _ => [])
     | _ => [])
  | .idle => []

def stepA2 (st : St2) (t : Nat) (kind obj ord old new ok : String) : Except String (St2 × List String) :=
  if kind == "spawn" || kind == "join" || kind == "exit" || kind == "lockwait" then .ok (st, [])
  else
  match st.calibLeft with
  | exp :: rest =>
    if exp == "A:shardCur" then
      if kind == "fadd" && old == "0" && new == "1" && roleOfObj st obj == some Role.shardCur then .ok ({ st with calibLeft := rest }, ["calibrated"])
      else .error "calibration: expected next_shard fetch_add 0→1"
    else .error s!"calibration: action before construction finished (expected {exp})"
  | [] =>
    do
    let st ← flush2 st t
    if st.slabFill.isSome && (st.slabFill.map (·.1)) == some t then .error "alloc_slab: fewer node constructions than SLAB_NODES"
    let st0 := st      -- τ steps are not taken for lines that turn out to be HybridMutex-internal
    let st ← taus2 st t 8
    let role := roleOfObj st obj
    let onMutex := role == some Role.cmState || role == some Role.cm
    let lockBitChanges := role == some Role.cmState && (bit0 old != bit0 new)
    let e := expect st.cfg st.s t
    if kind == "spin" || kind == "yield" then .ok (st0, ["mutex-internal"])
    else if onMutex && !lockBitChanges then .ok (st0, ["mutex-internal"])
    else
    match e with
    | .lock =>
      if lockBitChanges && (kind == "cas" || kind == "casw") && ok == "1" && bit0 new then
        if !ordGe ((ord.splitOn "/").headD ord) "acq" then .error s!"mutex acquire with ordering {ord}"
        else do
          let st1 ← advance2 st t
          .ok (st1, ["mutex-lock"] ++ branchTags2 st t)
      else if kind == "park" then
        if st.s.token t then .ok (envTok st0 t false, ["mutex-internal", "mutex-park"])
        else .error "park inside consumer.lock() but the model has no token for this thread"
      else if kind == "unpark" then
        match threadNum obj with
        | some x => .ok (envTok st0 x true, ["mutex-internal", "mutex-unpark"])
        | none => .error "bad unpark"
      else .error s!"model expects the consumer mutex to be acquired"
    | .unlock =>
      if lockBitChanges && kind == "fand" && bit0 old then
        if !ordGe ord "rel" then .error s!"mutex release with ordering {ord}"
        else do
          let st1 ← advance2 st t
          .ok (st1, ["mutex-unlock"] ++ (if bit1 old then ["mutex-unlock-with-queued-waiter"] else []))
      else .error s!"model expects the consumer mutex to be released"
    | .act a =>
      let objOk := match matchObj2 st obj a.obj with | .ok _ => true | .error _ => false
      if kind == "unpark" && (a.kind != "unpark" || !objOk) then
        -- wake_next of a HybridMutex unlock
        match threadNum obj with
        | some x => .ok (envTok st0 x true, ["mutex-internal", "mutex-unpark"])
        | none => .error "bad unpark"
      else if lockBitChanges then .error s!"consumer mutex LOCKED bit changed outside lock/unlock; model=[{showAct a}]"
      else if a.kind != kind then .error s!"model=[{showAct a}]"
      else
        match matchObj2 st obj a.obj with
        | .error e => .error s!"{e} model=[{showAct a}]"
        | .ok () =>
          let trOrd := (ord.splitOn "/").headD ord
          if !ordGe trOrd a.ord then .error s!"ordering weaker than the model: trace={ord} model=[{showAct a}]"
          else
            match matchVal2 st old a.old with
            | .error e => .error s!"old {e} model=[{showAct a}]"
            | .ok st1 =>
              match matchVal2 st1 new (match a.ok with | some false => a.old | _ => a.new) with
              | .error e => .error s!"new {e} model=[{showAct a}]"
              | .ok st2 =>
                let okOk := match a.ok with | some b => ok == (if b then "1" else "0") | none => true
                if !okOk then .error s!"cas outcome trace={ok} model=[{showAct a}]"
                else
                  match advance2 st2 t with
                  | .ok st3 => .ok (st3, branchTags2 st t)
                  | .error e => .error s!"{e} after [{showAct a}]"
    | e =>
      if kind == "unpark" then
        match threadNum obj with
        | some x => .ok (envTok st0 x true, ["mutex-internal", "mutex-unpark"])
        | none => .error "bad unpark"
      else .error s!"model expects {reprStr e}"

def stepR2 (st : St2) (t : Nat) (tok : String) : Except String (St2 × List String) :=
  if tok == "unsupported" || tok.startsWith "invalid:" then
    .ok ({ st with pending := st.pending.filter (fun p => p.1 != t) }, ["harness-level"])
  else do
    let hadPending := (st.pending.find? (fun p => p.1 == t)).isSome
    let pendWs := ((st.pending.find? (fun p => p.1 == t)).map (·.2)).getD []
    let st ← flush2 st t
    let st ← taus2 st t 8
    match st.s.tpc t with
    | .idle =>
      if hadPending then
        match pendWs with
        | ["wakes", f] =>
          match st.futs.find? (fun i => i.name == f) with
          | some fi =>
            if fi.recv then
              let base := ((st.wbase.find? (fun p => p.1 == f)).map (·.2)).getD 0
              if tok == s!"n:{st.s.wakes fi.id - base}" then .ok (st, ["wakes"]) else .error s!"model=n:{st.s.wakes fi.id - base}"
            else .ok (st, [])
          | none => .ok (st, [])
        | _ => .ok (st, [])
      else .error "return without call"
    | .onS h =>
      if st.s.spc h != .done then .error s!"model=still-running [{reprStr (st.s.spc h)}]"
      else
        let name := opNameOf ((st.lastOp.find? (fun p => p.1 == t)).map (·.2) |>.getD [])
        if !resOk name tok (toRes1 (st.s.sres h)) then .error s!"model={showRes2 (st.s.sres h)}"
        else
          match MpmcUB.step st.cfg st.s t .ret with
          | some s' => .ok ({ st with s := s' }, [name])
          | none => .error "model=ret-not-enabled"
    | .onR r =>
      if st.s.rpc r != .done then .error s!"model=still-running [{reprStr (st.s.rpc r)}]"
      else
        let name := opNameOf ((st.lastOp.find? (fun p => p.1 == t)).map (·.2) |>.getD [])
        if !resOk name tok (toRes1 (st.s.rres r)) then .error s!"model={showRes2 (st.s.rres r)}"
        else
          match MpmcUB.step st.cfg st.s t .ret with
          | some s' => .ok ({ st with s := s' }, [name])
          | none => .error "model=ret-not-enabled"

def step (st : St2) (op _res : List String) : Except String (St2 × List String) :=
  match op with
  | "P" :: _ => .ok (st, [])
  | "S" :: _ => .ok (st, [])
  | "D" :: _ => .ok (st, [])
  | ["X", status] => .ok (st, [if status == "ok" then "end-ok" else "end-" ++ ((status.splitOn ":").headD status)])
  | ["L", obj, tid, loc, initTok] =>
    match tid.toNat? with
    | some t => stepL2 st obj t loc initTok
    | none => .error "bad-line"
  | ["A", tid, kind, obj, ord, old, new, ok] =>
    match tid.toNat? with
    | some t => stepA2 st t kind obj ord old new ok
    | none => .error "bad-line"
  | "C" :: tid :: ws =>
    match tid.toNat? with
    | some t =>
      let st :=
        match ws with
        | ["poll", f] =>
          match st.futs.find? (fun (i : FutInfo2) => i.name == f && i.live) with
          | some fi => { st with wbase := (f, st.s.wakes fi.id) :: st.wbase.filter (fun p => p.1 != f) }
          | none => st
        | _ => st
      .ok ({ st with pending := (t, ws) :: st.pending.filter (fun p => p.1 != t) }, [])
    | none => .error "bad-line"
  | ["R", tid, tok] =>
    match tid.toNat? with
    | some t => stepR2 st t tok
    | none => .error "bad-line"
  | _ => .error "bad-line"

def finish (st : St2) : Except String (List String) :=
  if !st.calibLeft.isEmpty then .error "calibration: construction sequence incomplete" else .ok ["actions-matched"]

end Mpmc

/-! ### the combined engine -/

inductive AnySt where
  | mpsc (st : St)
  | mpmc (st : Mpmc.St2)
  /-- the rest of the case is not replayed: it calls a form the step-level chain models do not have (the timed
  receive `recv_timeout`, whose `park_timeout` the scheduler can end by firing the timeout) -/
  | skipped (why : String)

def initAny (ws : List String) : Except String AnySt :=
  match kv ws "flavour" with
  | some "mpsc_u" | some "mpsc_u_async" => (init ws).map AnySt.mpsc
  | some "mpmc_u" | some "mpmc_u_async" => (Mpmc.init ws).map AnySt.mpmc
  | some f => .error s!"flavour {f} not handled by engine chainb"
  | none => .error "missing flavour"

def stepAny (st : AnySt) (op res : List String) : Except String (AnySt × List String) :=
  match st, op with
  | .skipped _, _ => .ok (st, [])
  | _, "C" :: _ :: "recv_timeout" :: _ => .ok (.skipped "recv_timeout", ["skip:recv_timeout"])
  | _, _ =>
  match st with
  | .skipped _ => .ok (st, [])
  | .mpsc s => (step s op res).map (fun p => (AnySt.mpsc p.1, p.2))
  | .mpmc s => (Mpmc.step s op res).map (fun p => (AnySt.mpmc p.1, p.2))

def finishAny (st : AnySt) : Except String (List String) :=
  match st with
  | .mpsc s => finish s
  | .mpmc s => Mpmc.finish s
  | .skipped why => .ok [s!"skipped:{why}"]

def engineAny : Engine AnySt := { init := initAny, step := stepAny, finish := finishAny }

end Fv.Driver.ChainB
