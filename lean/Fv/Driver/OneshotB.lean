import Fv.Driver.Proto
import Fv.Chan.OneshotB
/-
Engine `oneshotb`: replays `chanh … --flavours oneshot --atomics` transcripts on the step-level model
`Fv.Chan.OneshotB` (trace inclusion: every visible action of the real code, run under the scheduler
shim with the `excsn_fibre_verif` seam on, must be THE enabled step of the handle it belongs to).

  L <obj> <tid> <file>:<line> <init>                 object construction → role table
  C <tid> <op> <handle> [args]                       model `call` step of the handle's agent
  A <tid> <kind> <obj> <ordering> <old> <new> <ok>   model `act` step; checked: kind, object role, ordering at
        least as strong as `ordAt` (CAS: also the failure ordering), value before / after, CAS outcome,
        park token, unpark target; `wake t<k>` / `wake f<name>` = the model's `wake` step with that waker
  R <tid> <result>                                   model `ret` step, same result
  X deadlock:…                                       every blocked thread ≥ 1 is parked without a token in the model
  D <id>:<k> …                                       per value: model drops (channel-side drop, or handed to the
        caller by recv / by a failed send, who drops it) must equal the implementation's drop counter

Actions that are invisible to the shim (`AtomicWaker::register`, `wake` that finds no waker, the `Arc`
release) are model steps of their own; the engine runs them EAGERLY right after the visible action
that precedes them — exactly where the real code runs them (the scheduling point precedes an action).

ROLE TABLE (single place): `layout` — creation order of `OneShotShared::new` + `oneshot()`; every later
construction must be the `closed` flag of a clone, made inside a `clone` call after its `fetch_add`.
-/
namespace Fv.Driver.OneshotB
open Fv.Chan.OneshotB

inductive ObjRole where
  | atom (o : Obj)
  | mutex
deriving Repr, DecidableEq

/-- creation order → (type token, initial value, role) -/
def layout : List (String × String × ObjRole) :=
  [ ("mutex", "-", .mutex),                  -- value_slot
    ("usize", "0", .atom .state),            -- state
    ("bool", "0", .atom .rdrop),             -- receiver_dropped
    ("usize", "1", .atom .scount),           -- sender_count
    ("bool", "0", .atom (.closed (.S 0))),   -- Sender.closed
    ("bool", "0", .atom (.closed .R)) ]      -- Receiver.closed

structure St where
  s : State
  skip : Option String := none
  nL : Nat := 0
  objs : List (String × ObjRole) := []
  hmap : List (String × Ag) := [("s0", .S 0), ("r0", .R)]
  fmap : List (String × Nat) := []              -- live manual future name → model id
  fnames : List (Nat × String) := []            -- model id → name (never removed: a stale waker keeps its name)
  tidAg : List (Nat × Ag) := []                 -- thread inside a fibre call on that handle
  opKind : List (Nat × String) := []            -- tid → harness op token of the running call
  cloneName : List (Nat × String) := []         -- tid → name the running `clone` gives the new handle
  cloneIdx : List (Nat × Nat) := []             -- tid → index of the handle its `clone` created (after the fetch_add)
  harness : List (Nat × String) := []           -- tid → expected prefix of a harness-level result (no fibre call)
  busy : List (String × String) := []           -- live manual future name → handle name

def kv (ws : List String) (key : String) : Option String :=
  (ws.find? (fun w => w.startsWith (key ++ "="))).map (fun w => (w.drop (key.length + 1)).toString)

def init (ws : List String) : Except String St :=
  let st : St := { s := Fv.Chan.OneshotB.init (fun _ => []) [] }
  if kv ws "flavour" != some "oneshot" then .ok { st with skip := some "skip:flavour" }
  else if kv ws "atomics" != some "1" then .ok { st with skip := some "skip:no-atomics" }
  else .ok st

def lookup {α β} [BEq α] (l : List (α × β)) (a : α) : Option β := (l.find? (fun p => p.1 == a)).map (·.2)
def setKV {α β} [BEq α] (l : List (α × β)) (a : α) (b : β) : List (α × β) := (a, b) :: l.filter (fun p => !(p.1 == a))
def delK {α β} [BEq α] (l : List (α × β)) (a : α) : List (α × β) := l.filter (fun p => !(p.1 == a))

def showAg : Ag → String
  | .S i => s!"S{i}"
  | .R => "R"

def showMic (m : Mic) : String := reprStr m

/-- result token for the op kind -/
def showRes (opk : String) : Res → String
  | .ok => "ok"
  | .okV v => if opk == "poll" then s!"ready:ok:{v}" else s!"ok:{v}"
  | .closedV v => s!"err:closed:{v}"
  | .sentV v => s!"err:sent:{v}"
  | .empty => "err:empty"
  | .disc => if opk == "poll" then "ready:err:disconnected" else "err:disconnected"
  | .closeErr => "err:close"
  | .b x => if x then "true" else "false"
  | .n k => s!"n:{k}"
  | .pending => "pending"
  | .woken => "ok:woken"

def parseOrd : String → Option Ord
  | "rlx" => some .relaxed | "acq" => some .acquire | "rel" => some .release
  | "acqrel" => some .acqrel | "sc" => some .seqcst | _ => none

def objType (id : String) : String :=
  if id.startsWith "m" then "mutex" else (id.splitOn ":").getD 1 "?"

/-- value a CAS at `m` expects to find -/
def casExpect : Mic → Nat
  | .dcCasST | .ciCasST | .tCasST => 2
  | _ => 0

def kindTok : Kind → String
  | .load => "load" | .store => "store" | .swap => "swap" | .cas => "cas" | .fadd => "fadd" | .fsub => "fsub"
  | .lock => "lock" | .unlock => "unlock" | .park => "park" | .unpark => "unpark" | .silent => "silent" | .none => "none"

/-- run the invisible steps of handle `a` that follow its last visible action -/
def silent (s : State) (a : Ag) : Nat → State × List String
  | 0 => (s, [])
  | fuel + 1 =>
    let m := (s.loc a).m
    if kindAt m == .silent && !(m == .wake && s.waker.isSome) then
      match stepAct s a with
      | some s' =>
        let (s2, ts) := silent s' a fuel
        (s2, s!"silent:{showMic m}" :: ts)
      | none => (s, [])
    else (s, [])

def afterStep (st : St) (a : Ag) (s' : State) (tags : List String) : St × List String :=
  let (s2, ts) := silent s' a 8
  ({ st with s := s2 }, tags ++ ts)

/-- one visible atomic action -/
def doAtomic (st : St) (t : Nat) (a : Ag) (kind : String) (role : ObjRole) (ord old new ok : String) :
    Except String (St × List String) :=
  let s := st.s
  let m := (s.loc a).m
  if kindTok (kindAt m) != kind then .error s!"model=kind {kindTok (kindAt m)} at={showMic m} agent={showAg a}"
  else
  match role, objAt a m with
  | .atom o, some o' =>
    if o != o' then .error s!"model=object {reprStr o'} impl={reprStr o} at={showMic m}"
    else
    let ords := ord.splitOn "/"
    let ordOk := match parseOrd (ords.getD 0 "") with
      | some x => x.ge (ordAt m)
      | none => false
    let ordFOk := if kind == "cas" then (match parseOrd (ords.getD 1 "") with
      | some x => x.ge (ordFail m)
      | none => false) else true
    if !ordOk then .error s!"model=ordering-weaker-than-model at={showMic m} need={reprStr (ordAt m)}"
    else if !ordFOk then .error s!"model=cas-failure-ordering-weaker-than-model at={showMic m} need={reprStr (ordFail m)}"
    else if old != toString (valOf s o) then .error s!"model=value-before {valOf s o} at={showMic m}"
    else if kind == "cas" && ((ok == "1") != (valOf s o == casExpect m)) then
      .error s!"model=cas-outcome expected-value={casExpect m} at={showMic m}"
    else
    match stepAct s a with
    | none => .error s!"model=step-not-enabled at={showMic m} agent={showAg a}"
    | some s' =>
      if new != toString (valOf s' o) then .error s!"model=value-after {valOf s' o} at={showMic m}"
      else
        -- a clone's fetch_add creates the handle: bind the new name
        let st1 := if m == .clFadd then
            { st with hmap := setKV st.hmap ((lookup st.cloneName t).getD "?") (.S s.nextH), cloneIdx := setKV st.cloneIdx t s.nextH }
          else st
        .ok (afterStep st1 a s' [s!"A:{kind}"])
  | _, _ => .error s!"model=object-role at={showMic m} agent={showAg a}"

def stepA (st : St) (t : Nat) (kind obj ord old new ok : String) : Except String (St × List String) :=
  if kind == "spawn" || kind == "join" || kind == "exit" || kind == "yield" || kind == "spin" then .ok (st, [])
  else
  match lookup st.tidAg t with
  | none => .error s!"action-outside-call tid={t} kind={kind}"
  | some a =>
    let s := st.s
    let m := (s.loc a).m
    match kind with
    | "lock" =>
      if kindAt m != .lock then .error s!"model=kind {kindTok (kindAt m)} at={showMic m}"
      else if lookup st.objs obj != some .mutex then .error "model=object-role mutex"
      else (match stepAct s a with
        | some s' => .ok (afterStep st a s' ["A:lock"])
        | none => .error s!"model=mutex-held-but-impl-acquired at={showMic m}")
    | "lockwait" =>
      if kindAt m != .lock then .error s!"model=kind {kindTok (kindAt m)} at={showMic m}"
      else if s.locked then .ok (st, ["A:lockwait"]) else .error "model=mutex-free-but-impl-blocked"
    | "unlock" =>
      if kindAt m != .unlock then .error s!"model=kind {kindTok (kindAt m)} at={showMic m}"
      else (match stepAct s a with
        | some s' => .ok (afterStep st a s' ["A:unlock"])
        | none => .error "model=step-not-enabled")
    | "park" =>
      if m != .park then .error s!"model=kind {kindTok (kindAt m)} at={showMic m}"
      else if old == "1" then
        (match stepAct s a with
         | some s' => .ok (afterStep st a s' ["A:park"])
         | none => .error "model=park-without-token")
      else (match stepSpurious s a with
         | some s' => .ok (afterStep st a s' ["A:park-spurious"])
         | none => .error "model=step-not-enabled")
    | "unpark" =>
      (match m with
       | .wkUnpark k =>
         if obj != s!"t{k}" then .error s!"model=unpark-target t{k}"
         else if (old == "1") != s.tok k then .error s!"model=token-before {s.tok k}"
         else (match stepAct s a with
           | some s' => .ok (afterStep st a s' ["A:unpark"])
           | none => .error "model=step-not-enabled")
       | _ => .error s!"model=kind {kindTok (kindAt m)} at={showMic m}")
    | "wake" =>
      if m != .wake then .error s!"model=not-at-wake at={showMic m}"
      else
        let want : Option String := match s.waker with
          | some (.task k) => some s!"t{k}"
          | some (.fut f) => lookup st.fnames f
          | none => none
        if want != some obj then .error s!"model=waker {reprStr want}"
        else (match stepAct s a with
          | some s' => .ok (afterStep st a s' ["A:wake"])
          | none => .error "model=step-not-enabled")
    | _ =>
      match lookup st.objs obj with
      | some role => doAtomic st t a kind role ord old new ok
      | none => .error s!"unknown-object {obj}"

/-- harness op → model op (`t` = calling thread) -/
def parseOp (st : St) (t : Nat) (ws : List String) (a : Ag) : Option Op :=
  match ws, a with
  | ["send", _, v], .S _ => v.toNat?.map Op.send
  | ["clone", _, _], .S _ => some .clone
  | ["is_sent", _], .S _ => some .isSent
  | ["is_closed", _], _ => some .isClosed
  | ["close", _], _ => some .close
  | ["drop", _], _ => some .drop
  | ["try_recv", _], .R => some .tryRecv
  | ["recv", _], .R => some (.recv t)
  | ["poll", f], .R => (lookup st.fmap f).map Op.poll
  | ["wakes", f], .R => (lookup st.fmap f).map Op.wakes
  | ["dropfut", f], .R => (lookup st.fmap f).map Op.dropfut
  | _, _ => none

def callModel (st : St) (t : Nat) (a : Ag) (opk : String) (mop : Op) : Except String (St × List String) :=
  let s1 := { st.s with prog := upd st.s.prog a [mop] }
  match stepCall s1 a with
  | none => .error s!"model=call-not-enabled agent={showAg a} at={showMic (st.s.loc a).m} gone={st.s.gone a}"
  | some s' =>
    let st1 := { st with tidAg := setKV st.tidAg t a, opKind := setKV st.opKind t opk }
    .ok (afterStep st1 a s' [s!"C:{opk}"])

def harnessLevel (st : St) (t : Nat) (pre : String) : Except String (St × List String) :=
  .ok ({ st with harness := setKV st.harness t pre }, [s!"C:harness-level:{pre}"])

def stepC (st : St) (t : Nat) (rest : List String) : Except String (St × List String) :=
  if st.nL < layout.length then .error s!"layout-changed only {st.nL} constructions before the first call"
  else
  match rest with
  | ["fut", f, "=", "recv_fut", h] =>
    if (lookup st.fmap f).isSome then harnessLevel st t "invalid:exists"
    else (match lookup st.hmap h with
      | some .R =>
        let id := st.fnames.length
        let st1 := { st with fmap := setKV st.fmap f id, fnames := st.fnames ++ [(id, f)], busy := setKV st.busy f h }
        callModel st1 t .R "fut" (.mkfut id)
      | some _ => harnessLevel st t "unsupported"
      | none => harnessLevel st t "invalid:nohandle")
  | "fut" :: _ => harnessLevel st t "un"      -- unsupported / invalid:…
  | [opk, x] =>
    -- future ops first (`drop f0` ≡ `dropfut f0`)
    if (opk == "poll" || opk == "wakes" || opk == "dropfut" || opk == "drop") && (lookup st.fmap x).isSome then
      let f := (lookup st.fmap x).getD 0
      let live := (lookup st.busy x).isSome
      if opk == "poll" && !live then harnessLevel st t "invalid:done"
      else
        let opk' := if opk == "drop" then "dropfut" else opk
        let mop := if opk' == "poll" then Op.poll f else if opk' == "wakes" then Op.wakes f else Op.dropfut f
        let st1 := if opk' == "dropfut" then { st with busy := delK st.busy x, fmap := delK st.fmap x } else st
        callModel st1 t .R opk' mop
    else if opk == "poll" || opk == "wakes" || opk == "dropfut" then harnessLevel st t "invalid:nofut"
    else
    match lookup st.hmap x with
    | none => harnessLevel st t "invalid:nohandle"
    | some a =>
      if st.s.gone a then harnessLevel st t "invalid:nohandle"
      else if opk == "drop" && st.busy.any (fun p => p.2 == x) then harnessLevel st t "invalid:busy"
      else
      match parseOp st t rest a with
      | none => harnessLevel st t (if st.busy.any (fun p => p.2 == x) then "invalid:busy" else "unsupported")
      | some mop => callModel st t a opk mop
  | [opk, x, y] =>
    match lookup st.hmap x with
    | none => harnessLevel st t "invalid:nohandle"
    | some a =>
      if st.s.gone a then harnessLevel st t "invalid:nohandle"
      else if opk == "clone" && (lookup st.hmap y).isSome then harnessLevel st t "invalid:exists"
      else
      match parseOp st t rest a with
      | none => harnessLevel st t "un"
      | some mop =>
        let st1 := if opk == "clone" then { st with cloneName := setKV st.cloneName t y } else st
        callModel st1 t a opk mop
  | _ => harnessLevel st t "un"

def count (x : Nat) (l : List Nat) : Nat := (l.filter (· == x)).length

def step (st : St) (op _res : List String) : Except String (St × List String) :=
  match st.skip with
  | some _ => .ok (st, [])
  | none =>
  match op with
  | "P" :: _ => .ok (st, [])
  | "S" :: _ => .ok (st, [])
  | ["L", id, tid, _loc, ini] =>
    let ty := objType id
    if st.nL < layout.length then
      match layout[st.nL]? with
      | some (ty', ini', role) =>
        if ty == ty' && ini == ini' && tid == "0" then
          .ok ({ st with nL := st.nL + 1, objs := (id, role) :: st.objs }, ["L:layout"])
        else .error s!"layout-changed construction#{st.nL + 1} got={ty}/{ini} expected={ty'}/{ini'}"
      | none => .error "layout"
    else
      -- later constructions: the `closed` flag of the handle a running `clone` has just created
      match tid.toNat?.bind (lookup st.cloneIdx) with
      | some i =>
        if ty == "bool" && ini == "0" then
          .ok ({ st with nL := st.nL + 1, objs := (id, .atom (.closed (.S i))) :: st.objs,
                         cloneIdx := delK st.cloneIdx (tid.toNat?.getD 0) }, ["L:clone-closed-flag"])
        else .error s!"unexpected-construction {id} init={ini}"
      | none => .error s!"construction-outside-clone {id}"
  | "C" :: tids :: rest =>
    match tids.toNat? with
    | some t => stepC st t rest
    | none => .error "bad-C"
  | ["R", tids, res] =>
    match tids.toNat? with
    | none => .error "bad-R"
    | some t =>
      match lookup st.harness t with
      | some pre =>
        if res.startsWith pre then .ok ({ st with harness := delK st.harness t }, [s!"R:harness-level"])
        else .error s!"model=harness-level-result {pre}… (the model made no fibre call)"
      | none =>
      match lookup st.tidAg t with
      | none => .error "return-without-call"
      | some a =>
        let opk := (lookup st.opKind t).getD ""
        let st1 := { st with tidAg := delK st.tidAg t, cloneName := delK st.cloneName t }
        match (st.s.loc a).m with
        | .ret mr =>
          let want := showRes opk mr
          if want != res then .error s!"model={want}"
          else
            -- a resolved manual future no longer borrows the handle
            let st2 := if opk == "poll" && res != "pending" then
                { st1 with busy := st1.busy.filter (fun p => some p.1 != (match (st.s.loc a).k with | .poll f => lookup st.fnames f | _ => none)) }
              else st1
            match stepRet st.s a with
            | some s' => .ok ({ st2 with s := s' }, [s!"R:{(res.splitOn ":").take 2 |> ":".intercalate}"])
            | none => .error "model=ret-not-enabled"
        | m => .error s!"model=not-at-return at={showMic m} agent={showAg a}"
  | ["X", status] =>
    if status.startsWith "deadlock:" then
      let tids := ((status.drop 9).toString.splitOn ",").filterMap String.toNat?
      let bad := tids.filter (fun t => t != 0 &&
        match lookup st.tidAg t with
        | some a => !((st.s.loc a).m == .park && (match (st.s.loc a).k with | .recv k => st.s.tok k == false | _ => false))
        | none => true)
      if !bad.isEmpty then .error s!"model=not-blocked tids={bad}"
      else
        let f18 := st.s.st == .taken && st.s.scount == 0
        .ok (st, ["X:deadlock-agrees"] ++ (if f18 then ["known-F18-parked-in-TAKEN-all-senders-gone"] else []))
    else .ok (st, [s!"X:{(status.splitOn ":").getD 0 ""}"])
  | "D" :: items =>
    -- per value id: how often the model says the payload is dropped
    let s := st.s
    let bad := items.filter (fun it =>
      match it.splitOn ":" with
      | [ids, ks] =>
        (match ids.toNat?, ks.toNat? with
         | some v, some k =>
           let returned := (List.range s.nextH).filter (fun i => s.sres i == some (.closedV v) || s.sres i == some (.sentV v))
           let inSlot := if s.slot == some v && !s.freed then 0 else 0
           count v s.dropped + count v s.received + returned.length + inSlot != k
         | _, _ => true)
      | _ => true)
    if bad.isEmpty then .ok (st, ["D:drop-counts-agree"]) else .error s!"model=drop-counts differ for {bad}"
  | "A" :: tids :: kind :: obj :: ord :: old :: new :: ok :: _ =>
    match tids.toNat? with
    | some t => stepA st t kind obj ord old new ok
    | none => .error "bad-A"
  | _ => .error "bad-line"

def finish (st : St) : Except String (List String) :=
  match st.skip with
  | some why => .ok [why]
  | none => .ok ["case-checked"]

def engine : Engine St := { init := init, step := step, finish := finish }

end Fv.Driver.OneshotB
