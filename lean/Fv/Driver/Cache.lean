import Fv.Driver.Proto
import Fv.Driver.Policy
import Fv.Cache.Model
/-
Engine `cache`: replays `cacheh` transcripts (real `fibre_cache::Cache` / `AsyncCache` driven
through the public API with an identity hasher, a frozen virtual clock, recording wrapper
policies and a recording eviction listener) on the sequential cache model `Fv.Cache.stepOp`.

  #case <id> policy=<lru|fifo|sieve|clock|random|slru|arc|tinylfu|null> pcap=<n> cap=<n|inf>
             shards=<n> ttl=<ms|-> tti=<ms|-> swr=<ms|-> wheel=<n> tick=<ms> mc=<always|never>
             moi=<0|1> lis=<0|1> t0=<ms>
  <op tokens> => <api result> [; P <policy calls>] [; N <notifications, sorted>] [; O <hash order>]

Manual stream operations (C17, a contended `IterStream`): `stream_open <batch>` (`; O` = hash order),
`stream_poll [n]` => `pending` | `item:k:v` | `end` (up to `n` polls, stopping after the first
`pending` / `end`), `hold_entry <k>` => `vacant` | `occupied` (a sync `cache.entry(k)` guard kept
alive: shard `k % shards` stays write-locked), `release_entry` => `- woke=<0|1>`.

The policy-call section is both an oracle (order of the coalesced read batch, order of
hash-ordered removals, random victims) and — compared call by call with the calls the model
makes — the strongest part of the tie.
-/
namespace Fv.Driver.Cache
open Fv.Cache
open Fv.Cache.Policy (Admission)

inductive Pol where
  | null
  | real (s : Fv.Driver.Policy.St)

def polOps : PolicyOps Pol where
  access := fun p k c => match p with
    | .null => .null
    | .real s => .real (Fv.Driver.Policy.access s k c)
  admit := fun p k c => match p with
    | .null => (.null, .admit)
    | .real s => let (s', a) := Fv.Driver.Policy.admit s k c; (.real s', a)
  remove := fun p k => match p with
    | .null => .null
    | .real s => .real (Fv.Driver.Policy.remove s k)
  evict := fun p n hint => match p with
    | .null => some (.null, [], 0)
    | .real s => match Fv.Driver.Policy.evict s n hint with
      | .ok (s', vs, f) => some (.real s', vs, f)
      | .error _ => none
  clear := fun p => match p with
    | .null => .null
    | .real s => .real (Fv.Driver.Policy.clear s)

/-- the hand-polled `IterStream` of the harness (`stream_open` / `stream_poll`): its model state,
    batch size and the hash order probed when it was opened -/
structure StreamD where
  st : StreamSt := {}
  batch : Nat := 1
  ord : List Nat := []

structure St where
  cfg : Cfg
  p0 : Pol
  s : State Pol
  /-- the open stream; dropped by every operation other than `stream_poll`, `hold_entry`,
      `release_entry`, `advance` -/
  stream : Option StreamD := none
  /-- shard whose write lock the harness holds through a kept `cache.entry(k)` guard -/
  guard : Option Nat := none

def kv := Fv.Driver.Policy.kv

def optNat (ws : List String) (key : String) : Except String (Option Nat) :=
  match kv ws key with
  | none => .ok none
  | some "-" => .ok none
  | some v => match v.toNat? with
    | some n => .ok (some n)
    | none => .error s!"bad {key}"

def reqNat (ws : List String) (key : String) : Except String Nat :=
  match (kv ws key).bind String.toNat? with
  | some n => .ok n
  | none => .error s!"missing {key}"

def init (ws : List String) : Except String St := do
  let policy := (kv ws "policy").getD "null"
  let pcap ← reqNat ws "pcap"
  let cap ← match kv ws "cap" with
    | some "inf" => pure (U64 - 1)
    | some v => match v.toNat? with
      | some n => pure n
      | none => throw "bad cap"
    | none => throw "missing cap"
  let shards ← reqNat ws "shards"
  let ttl ← optNat ws "ttl"
  let tti ← optNat ws "tti"
  let swr ← optNat ws "swr"
  let wheel ← reqNat ws "wheel"
  let tick ← reqNat ws "tick"
  let t0 ← reqNat ws "t0"
  let p0 ← if policy = "null" then pure Pol.null
    else match Fv.Driver.Policy.init [s!"policy={policy}", s!"cap={pcap}"] with
      | .ok s => pure (Pol.real s)
      | .error m => throw m
  let cfg : Cfg := {
    nshards := shards, capacity := cap, ttl := ttl, tti := tti, swr := swr,
    mcAlways := kv ws "mc" == some "always", moi := kv ws "moi" == some "1",
    trackReads := policy != "null", hasListener := kv ws "lis" == some "1",
    wheelSize := wheel, tickDur := tick }
  if shards = 0 ∨ wheel = 0 then throw "bad shards/wheel"
  pure { cfg := cfg, p0 := p0, s := State.fresh cfg p0 t0 }

/-! ### formatting -/
def showOpt : Option Nat → String
  | some v => s!"some:{v}"
  | none => "none"

def showAdm : Admission → String
  | .admit => "admit"
  | .reject => "reject"
  | .admitAndEvict vs => "ev" ++ showNatList vs

def showPCall : PCall → String
  | .access i k c => s!"ac:{i}:{k}:{c}"
  | .admit i k c d => s!"ad:{i}:{k}:{c}:{showAdm d}"
  | .remove i k => s!"rm:{i}:{k}"
  | .evict i n vs f => s!"ev:{i}:{n}:{showNatList vs}:{f}"
  | .clear i => s!"cl:{i}"

def pcallShard : PCall → Nat
  | .access i _ _ => i
  | .admit i _ _ _ => i
  | .remove i _ => i
  | .evict i _ _ _ => i
  | .clear i => i

def showReason : Reason → String
  | .capacity => "C"
  | .expired => "E"
  | .invalidated => "I"
  | .cleared => "X"

def notifKey (n : Notif) : Nat × Nat × String := (n.key, n.vid, showReason n.reason)

def insertSorted {α} (lt : α → α → Bool) (x : α) : List α → List α
  | [] => [x]
  | y :: ys => if lt x y then x :: y :: ys else y :: insertSorted lt x ys

def sortBy {α} (lt : α → α → Bool) (l : List α) : List α := l.foldl (fun acc x => insertSorted lt x acc) []

def showNotifs (ns : List Notif) : List String :=
  let l := sortBy (fun a b => a.key < b.key || (a.key == b.key && a.vid < b.vid)) ns
  l.map (fun n => s!"{n.key}:{n.vid}:{showReason n.reason}")

def showPairs (l : List (Nat × Nat)) : String :=
  let l := sortBy (fun a b => a.1 < b.1 || (a.1 == b.1 && a.2 < b.2)) l
  "[" ++ ",".intercalate (l.map (fun p => s!"{p.1}:{p.2}")) ++ "]"

def showCap (c : Nat) : String := if c = U64 - 1 then "inf" else toString c

def showSnap (sn : Snapshot) : String :=
  let l := sortBy (fun (a b : SnapEntry) => a.key < b.key) sn.entries
  "[" ++ ",".intercalate (l.map (fun p =>
      s!"{p.key}:{p.vid}:{p.cost}:" ++ (match p.ttlRemaining with | some d => toString d | none => "-"))) ++ "]"
    ++ s!" cap={showCap sn.capacity} shards={sn.shards}"

def showRet (opName : String) : Ret → String
  | .unit => "-"
  | .val v => showOpt v
  | .flag b => if b then "1" else "0"
  | .computed none => "notfound"
  | .computed (some none) => "fail"
  | .computed (some (some v)) => s!"ok:{v}"
  | .pairs l => if opName = "multi_invalidate" then "-" else showPairs l
  | .loaded v stale loader => s!"{v} stale={if stale then 1 else 0} loader={if loader then 1 else 0}"
  | .nums l => if opName = "cost" then toString (l.getD 9 0) else ",".intercalate (l.map toString)
  | .snap sn => showSnap sn

/-! ### parsing -/
def natsOf (s : String) : Option (List Nat) := natList? s

/-- `k:v:c,k:v:c` -/
def triples? (s : String) : Option (List (Nat × Nat × Nat)) :=
  if s = "-" then some [] else
  (s.splitOn ",").mapM (fun t =>
    match t.splitOn ":" with
    | [a, b, c] => do pure ((← a.toNat?), (← b.toNat?), (← c.toNat?))
    | _ => none)

/-- `after:d` -/
def inter? (ws : List String) : Option (Option (Nat × Nat)) :=
  match ws with
  | [] => some none
  | [t] => match t.splitOn ":" with
    | [a, d] => do pure (some ((← a.toNat?), (← d.toNat?)))
    | _ => none
  | _ => none

def stripAsync (name : String) : String × Bool :=
  if name.startsWith "a." then ((name.drop 2).toString, true) else (name, false)

def parseOp (ws : List String) : Option (String × Op) :=
  match ws with
  | [] => none
  | name :: args =>
    let (nm, async) := stripAsync name
    let n := fun (i : Nat) => (args.getD i "").toNat?
    let r : Option Op := match nm, args.length with
      | "get", 1 | "fetch", 1 => do pure (.get (← n 0))
      | "peek", 1 => do pure (.peek (← n 0))
      | "occ", 1 => do pure (.occupied (← n 0))
      | "insert", 3 => do pure (.insert async (← n 0) (← n 1) (← n 2))
      | "insert_ttl", 4 => do pure (.insertTtl async (← n 0) (← n 1) (← n 2) (← n 3))
      | "remove", 1 => do pure (.remove (← n 0))
      | "invalidate", 1 => do pure (.invalidate (← n 0))
      | "clear", 0 => some .clear
      | "advance", 1 => do pure (.advance (← n 0))
      | "maint", 0 => some .runMaintenance
      | "metrics", 0 | "cost", 0 => some .metrics
      | "or_insert", 3 => do pure (.orInsert (← n 0) (← n 1) (← n 2))
      | "compute", 2 | "try_compute", 2 => do pure (.compute (← n 0) (← n 1))
      | "fetch_with", 3 => do pure (.fetchWith (← n 0) (← n 1) (← n 2))
      | "multiget", 1 => do pure (.multiget async (← natsOf (args.getD 0 "")))
      | "multi_insert", 1 => do pure (.multiInsert (← triples? (args.getD 0 "")))
      | "multi_remove", 1 | "multi_invalidate", 1 => do pure (.multiRemove (← natsOf (args.getD 0 "")))
      | "iter", _ => do
          let b ← n 0
          pure (.iter b (← inter? (args.drop 1)))
      | "iter_snapshot", _ => do pure (.iterSnapshot (← inter? args))
      | "snapshot", 0 => some .snapshot
      | "restore", 0 => some .restore
      | "hold", 1 => do pure (.hold (← n 0))
      | "release", 0 => some .release
      | "gate", 1 => match args.getD 0 "" with
        | "close" => some (.gate true)
        | "open" => some (.gate false)
        | _ => none
      | _, _ => none
    r.map (fun op => (nm, op))

/-- split the result words into sections at `;` -/
def sections (ws : List String) : List (List String) :=
  let (cur, acc) := ws.foldl (fun (p : List String × List (List String)) w =>
    if w = ";" then ([], p.2 ++ [p.1]) else (p.1 ++ [w], p.2)) ([], [])
  acc ++ [cur]

def sectionOf (secs : List (List String)) (tag : String) : List String :=
  match secs.find? (fun s => s.head? == some tag) with
  | some s => s.drop 1
  | none => []

/-- hints from the implementation's policy-call log -/
def hintsOf (pl : List String) (nshards : Nat) : Oracle :=
  let parts := pl.map (fun t => t.splitOn ":")
  let acc := parts.filterMap (fun p => match p with
    | "ac" :: _ :: k :: _ => k.toNat?
    | _ => none)
  let rem := parts.filterMap (fun p => match p with
    | "rm" :: _ :: k :: _ => k.toNat?
    | _ => none)
  let ev := (List.range nshards).map (fun i =>
    match parts.find? (fun p => match p with
        | "ev" :: j :: _ => j.toNat? == some i
        | _ => false) with
    | some ("ev" :: _ :: _ :: vs :: _) => (natList? vs).getD []
    | _ => [])
  { accHint := acc, remHint := rem, evictHint := ev }

def stableByShard (l : List PCall) (nshards : Nat) : List PCall :=
  (List.range nshards).flatMap (fun i => l.filter (fun c => pcallShard c == i))

def showPoll : Poll → String
  | .pending => "pending"
  | .item k v => s!"item:{k}:{v}"
  | .done => "end"

/-- up to `n` polls, stopping after the first `Pending` or end -/
def pollN (cfg : Cfg) (s : State Pol) (locked : Nat → Bool) (d : StreamD) : Nat → StreamSt → List Poll → StreamSt × List Poll
  | 0, st, acc => (st, acc)
  | n + 1, st, acc =>
    let r := streamPoll cfg.nshards d.batch (fun i => s.shardKeys cfg d.ord i) s.map s.now cfg.tti locked st
    match r.2 with
    | .item k v => pollN cfg s locked d n r.1 (acc ++ [.item k v])
    | p => (r.1, acc ++ [p])

/-- the manual stream operations, which are not `Op`s of the sequential model: they never touch the
    cache state (`stream_open` performs the introspection flush through `stepOp .metrics`) -/
def stepStream (st : St) (op : List String) (api : String) : Option (Except String (St × List String)) :=
  match op with
  | ["hold_entry", k] => some <|
    match k.toNat? with
    | none => .error "bad-op"
    | some k =>
      if st.guard.isSome then .error "model=guard-already-held" else
      let mApi := if st.s.occupied k then "occupied" else "vacant"
      if mApi ≠ api then .error s!"model=[{mApi}]"
      else .ok ({ st with guard := some (st.cfg.shardOf k) }, ["hold_entry"])
  | ["release_entry"] => some <|
    if st.guard.isNone then .error "model=no-guard-held" else
    -- the release wakes the parked refill future (it is queued on that shard's lock), once
    let woke := match st.stream with
      | some d => if d.st.inflight.isSome then 1 else 0
      | none => 0
    let mApi := s!"- woke={woke}"
    if mApi ≠ api then .error s!"model=[{mApi}]"
    else .ok ({ st with guard := none }, ["release_entry"] ++ (if woke = 1 then ["stream-resume"] else []))
  | "stream_poll" :: args => some <|
    match st.stream with
    | none => .error "model=no-stream-open"
    | some d =>
      let n := match args with
        | [a] => a.toNat?.getD 1
        | _ => 1
      let locked : Nat → Bool := fun i => st.guard == some i
      let (ss, polls) := pollN st.cfg st.s locked d n d.st []
      let mApi := " ".intercalate (polls.map showPoll)
      if mApi ≠ api then .error s!"model=[{mApi}]"
      else
        let tags := ["stream_poll"] ++
          (if polls.contains .pending then
            (match ss.inflight with
             | some f =>
               (if d.st.inflight.isSome then ["stream-pending-again"]
                else if ss.cur.shard = 0 ∧ ss.cur.seen = 0 then ["stream-pending-first-refill"]
                else ["stream-pending-later-refill"]) ++
               (if f.shard + 1 = st.cfg.nshards then ["stream-pending-at-last-shard"]
                else if f.shard = 0 then ["stream-pending-at-first-shard"]
                else ["stream-pending-at-middle-shard"]) ++
               (if f.buffer.isEmpty then [] else ["stream-parked-with-partial-batch"])
             | none => [])
           else []) ++
          (if d.st.inflight.isSome ∧ ss.inflight.isNone then ["stream-parked-refill-completed"] else []) ++
          (if polls.contains .done then ["stream-end"] else [])
        .ok ({ st with stream := some { d with st := ss } }, tags)
  | _ => none

def step (st : St) (op res : List String) : Except String (St × List String) :=
  match stepStream st op (" ".intercalate ((sections res).getD 0 [])) with
  | some r => r
  | none =>
  if st.guard.isSome ∧ op.head? != some "advance" then .error "model=operation-while-entry-guard-held" else
  -- `stream_open b`: the introspection flush, then a fresh stream
  let (op, openBatch) := match op with
    | ["stream_open", b] => (["metrics"], b.toNat?)
    | _ => (op, none)
  match parseOp op with
  | none => .error "bad-op"
  | some (nm, o) =>
    let nm := if openBatch.isSome then "stream_open" else nm
    let secs := sections res
    let api := " ".intercalate (secs.getD 0 [])
    let implP := sectionOf secs "P"
    let implN := sectionOf secs "N"
    let implO := sectionOf secs "O"
    let orc := hintsOf implP st.cfg.nshards
    let orc := { orc with ord := (natList? (implO.getD 0 "[]")).getD [] }
    let (s', ret) := stepOp st.cfg polOps st.p0 orc st.s o
    if s'.oracleBad then .error "model=inadmissible-oracle" else
    let mApi := if nm = "stream_open" then "-" else showRet nm ret
    let plog := if nm = "multi_remove" ∨ nm = "multi_invalidate" then stableByShard s'.plog st.cfg.nshards else s'.plog
    let mP := plog.map showPCall
    let mN := showNotifs s'.delivered
    if mApi ≠ api then .error s!"model=[{mApi}]"
    else if mP ≠ implP then .error s!"model-policy-calls=[{" ".intercalate mP}]"
    else if mN ≠ implN then .error s!"model-notifications=[{" ".intercalate mN}]"
    else
      let tags := [nm] ++
        (if s'.removed.any (fun n => n.reason == .capacity) then ["evict-capacity"] else []) ++
        (if s'.removed.any (fun n => n.reason == .expired) then ["evict-expired"] else []) ++
        (if s'.sent.length > s'.delivered.length ∧ !s'.lis.gateClosed then ["notif-dropped"] else [])
      let stream := match openBatch with
        | some b => some { st := {}, batch := max b 1, ord := orc.ord : StreamD }
        | none => if nm = "advance" then st.stream else none
      .ok ({ st with s := s', stream := stream }, tags)

def engine : Engine St := { init := init, step := step }

end Fv.Driver.Cache
