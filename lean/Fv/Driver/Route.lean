import Fv.Driver.Proto
import Fv.Log.Route
import Fv.Log.Pipeline
/-
Engine `route`: replays a child-process logging session on the routing + pipeline models.

  #case <id> threads=<k>
  appender <name> <cap> <block|drop>                       (declaration order = appender number)
  root <level> <a,b|-> [add|nonadd]                        (root's additive flag is ignored by the code)
  logger <name|~> <level> <add|nonadd> <a,b|->
  emit <thread> <seq> <log|tracing> <target|~> <level> => <a,b|->     appenders whose stream got it
  shutdown <shutdown|drop|scope|shutdownthread|dropthread|panicdrop|paniccatch> => ok
  stream <appender> => <t.s,t.s,...|-> <disconnected|timeout>        stream content in receive order

Block appenders are drained concurrently by the harness, so the model's delivered set must be
exactly the implementation's. Drop appenders are not drained before shutdown: which events are
kept is decided by thread interleaving (an oracle); admissibility = kept ⊆ routed, per thread a
prefix of what was routed, and the number kept is min(capacity, routed).
-/
namespace Fv.Driver.Route
open Fv.Log

structure St where
  appNames : List String := []
  appCfg : List (Nat × Bool) := []          -- (capacity, block?)
  loggers : List Logger := []
  rootLevel : Nat := 3                       -- the default root `process_raw_config` adds
  rootApps : List Appender := []
  closed : Bool := false
  /-- (thread, seq, appenders the model routes to), newest first; pre-shutdown emits only -/
  routed : List (Nat × Nat × List Appender) := []
  streamsSeen : List Appender := []
  sawShutdown : Bool := false
  guardEnd : Pipeline.GuardEnd := .shutdownCall false
  guardName : String := "shutdown"
  /-- `kind=race` cases: events per thread -/
  raceN : Option Nat := none

def St.cfg (s : St) : Config :=
  { appenders := List.range s.appNames.length, loggers := s.loggers,
    rootLevel := s.rootLevel, rootAppenders := s.rootApps }

def level? : String → Option Nat
  | "off" => some 0 | "error" => some 1 | "warn" => some 2 | "info" => some 3
  | "debug" => some 4 | "trace" => some 5 | _ => none

def logLevel? : String → Option LogLevel
  | "error" => some .error | "warn" => some .warn | "info" => some .info
  | "debug" => some .debug | "trace" => some .trace | _ => none

def name? (s : String) : Name := if s = "~" then [] else s.toList

def appIndex (s : St) (n : String) : Option Nat := s.appNames.idxOf? n

def apps? (s : St) (tok : String) : Option (List Appender) :=
  if tok = "-" || tok.isEmpty then some []
  else (tok.splitOn ",").mapM (appIndex s)

def insertSorted (x : Nat) : List Nat → List Nat
  | [] => [x]
  | y :: ys => if x < y then x :: y :: ys else if x = y then y :: ys else y :: insertSorted x ys

def sortDedup (l : List Nat) : List Nat := l.foldr insertSorted []

def showApps (s : St) (l : List Appender) : String :=
  if l.isEmpty then "-" else ",".intercalate ((sortDedup l).map (fun i => s.appNames.getD i "?"))

def isBlock (s : St) (a : Appender) : Bool := (s.appCfg.getD a (1, true)).2
def capOf (s : St) (a : Appender) : Nat := (s.appCfg.getD a (1, true)).1

def msg? (tok : String) : Option Pipeline.Msg :=
  match tok.splitOn "." with
  | [t, q] => match t.toNat?, q.toNat? with
    | some t, some q => some { thread := t, seq := q }
    | _, _ => none
  | _ => none

def msgs? (tok : String) : Option (List Pipeline.Msg) :=
  if tok = "-" || tok.isEmpty then some [] else (tok.splitOn ",").mapM msg?

/-- sequence numbers the model routes to appender `a` from thread `t`, in emission order -/
def expectedSeqs (s : St) (a : Appender) (t : Nat) : List Nat :=
  (s.routed.reverse.filter (fun r => r.1 == t && r.2.2.contains a)).map (fun r => r.2.1)

def threadsOf (s : St) : List Nat := sortDedup (s.routed.map (·.1))

/-- the harness's names for the ways the guard ends (see `end_guard` in logproch.rs) -/
def guardEnd? : String → Option Pipeline.GuardEnd
  | "shutdown" => some (.shutdownCall false)
  | "shutdownthread" => some (.shutdownCall true)
  | "drop" => some (.drop false false)
  | "scope" => some (.drop false false)
  | "dropthread" => some (.drop true false)
  | "panicdrop" => some (.drop true true)
  | "paniccatch" => some (.drop false true)
  | _ => none

/-- schedule that feeds the impl's receive order through the Pipeline model -/
def scheduleOf (g : Pipeline.GuardEnd) (ms : List Pipeline.Msg) : List Pipeline.Step :=
  (ms.flatMap (fun m => [.sendBegin m, .sendEnd m, .consume])) ++ Pipeline.shutdownSteps g ++ [.seeDisconnected]

def isPrefix (a b : List Nat) : Bool := a.isPrefixOf b

def stepEmit (s : St) (t q : Nat) (api target lvl : String) (res : List String) : Except String (St × List String) :=
  let cfg := s.cfg
  let tgt := name? target
  match level? lvl, apps? s (res.getD 0 "-") with
  | some l, some got =>
    if l = 0 then .error "bad-op event level off" else
    let ev : Event := { target := tgt, level := l }
    let raw := route cfg ev
    let viaApi : Option (List Appender) :=
      if api = "log" then (logLevel? lvl).map (fun ll => emitLog cfg tgt ll)
      else if api = "tracing" then some (emitTracing cfg tgt l) else none
    match viaApi with
    | none => .error "bad-op api"
    | some ex0 =>
      let ex := if s.closed then [] else ex0
      let okBlock := (List.range s.appNames.length).all (fun a =>
        if isBlock s a then got.contains a == ex.contains a else (!got.contains a || ex.contains a))
      if !okBlock then .error s!"model=[{showApps s ex}]" else
      let spec := routeSpecList cfg ev
      let w := pickWinner ((actors cfg).map (fun a => findMostSpecificRule a.2 tgt))
      let tags :=
        [ "emit-" ++ api,
          if s.closed then "emit-after-shutdown" else if ex.isEmpty then "deliver-none"
          else if ex.length = 1 then "deliver-one" else "deliver-many" ] ++
        (if (gateOf w).isSome then ["gate-nonadditive"] else []) ++
        (match w with | none => ["rule-none(root-fallback-only)"] | some _ => []) ++
        (if sortDedup spec != sortDedup raw then ["code-differs-from-spec"] else []) ++
        (if sortDedup ex0 != sortDedup raw then ["prefilter-changed-result"] else []) ++
        (if !raw.isEmpty && (maxLevel cfg < l || !eventEnabled cfg ev) then ["prefilter-rejects-deliverable"] else []) ++
        (if sortDedup got != sortDedup ex then ["drop-overflow"] else [])
      if tags.contains "prefilter-changed-result" then .error "model=prefilter-changed-result" else
      let s' := if s.closed then s else { s with routed := (t, q, ex) :: s.routed }
      .ok (s', tags)
  | _, _ => .error "bad-op emit"

def stepStream (s : St) (aName : String) (res : List String) : Except String (St × List String) :=
  match appIndex s aName, msgs? (res.getD 0 "-") with
  | some a, some ms =>
    let status := res.getD 1 "?"
    if status != "disconnected" then .error "model=[disconnected]" else
    let block := isBlock s a
    let ths := sortDedup (threadsOf s ++ ms.map (·.thread))
    let perThreadOk := ths.all (fun t =>
      let got := ((Pipeline.ofThread t ms).map (·.seq))
      let want := expectedSeqs s a t
      if block then got == want else isPrefix got want)
    if !perThreadOk then
      .error s!"model=per-thread-sequences-differ appender={aName} block={block}"
    else
      let total := ((threadsOf s).map (fun t => (expectedSeqs s a t).length)).foldl (· + ·) 0
      if !block && ms.length != min (capOf s a) total then
        .error s!"model=drop-kept-count want={min (capOf s a) total}"
      else
        -- run the Pipeline model on the observed order
        let p0 := Pipeline.init (max (capOf s a) 1) (if block then .block else .dropNewest) .stream
        match Pipeline.run p0 (scheduleOf s.guardEnd ms) with
        | some p =>
          if p.out == ms && p.phase == .exited && p.accepted == ms then
            .ok ({ s with streamsSeen := a :: s.streamsSeen },
                 [if ms.isEmpty then "stream-empty" else if block then "stream-block" else
                    (if ms.length < total then "stream-drop-overflowed" else "stream-drop")])
          else .error "model=pipeline-out-differs"
        | none => .error "model=pipeline-schedule-not-enabled"
  | _, _ => .error "bad-op stream"

/-- "0-3,5,7-9" → [0,1,2,3,5,7,8,9] -/
def ranges? (tok : String) : Option (List Nat) :=
  if tok = "-" || tok.isEmpty then some [] else
  ((tok.splitOn ",").mapM (fun (part : String) =>
    match part.splitOn "-" with
    | [a] => (String.toNat? a).map (fun a => [a])
    | [a, b] => match String.toNat? a, String.toNat? b with
      | some a, some b => some ((List.range (b + 1 - a)).map (· + a))
      | _, _ => none
    | _ => none)).map List.flatten

def dropKey (k : String) (tok : String) : String :=
  if tok.startsWith (k ++ "=") then (tok.drop (k.length + 1)).toString else tok

/-- shutdown-race case (see harness `child_race`): `snap` emits of this thread had returned before
shutdown began, `got` is what the appender delivered. Model: every behaviour of the Pipeline has
`got ⊇ [0, snap)` (`C19_no_loss_at_shutdown_partial`), strictly increasing (`C19_per_thread_order`,
`C19_exactly_once`); the observed outcome is replayed as a Pipeline schedule in which the writer's
final drain ends on `Disconnected` (no `graceExpired` step: `graceEarly` stays false). -/
def stepRace (s : St) (n : Nat) (app : String) (t : Nat) (res : List String) : Except String (St × List String) :=
  match (dropKey "snap" (res.getD 0 "")).toNat?, ranges? (dropKey "got" (res.getD 1 "")) with
  | some snap, some got =>
    let ordered := res.getD 2 "" == "ordered=1"
    let nodup := res.getD 3 "" == "dups=0"
    let status := res.getD 4 ""
    let wantStatus := if app == "S" then "disconnected" else "flushed"
    if !ordered then .error "model=per-thread-order" else
    if !nodup then .error "model=exactly-once" else
    if status != wantStatus then .error s!"model=[{wantStatus}]" else
    if got.any (· ≥ n) then .error "model=unknown-seq" else
    if !(List.range snap).all (fun q => got.contains q) then .error "model=accepted-before-shutdown-must-be-delivered" else
    if got != List.range got.length then .error "model=gap-in-block-appender-sequence" else
    let consumer : Pipeline.Consumer := if app == "S" then .stream else .writer
    let mk (q : Nat) : List Pipeline.Step := [.sendBegin ⟨t, q⟩, .sendEnd ⟨t, q⟩, .consume]
    let pre := (got.filter (· < snap)).flatMap mk
    let conc := (got.filter (· ≥ snap)).flatMap mk
    let late : List Pipeline.Step := if got.length < n then [.sendBegin ⟨t, n⟩] else []
    let fin : List Pipeline.Step := match consumer with
      | .writer => [.seeFlag, .drainDisconnected]
      | .stream => [.seeDisconnected]
    let sd := match Pipeline.shutdownSteps s.guardEnd with
      | [a, b] => some (a, b)
      | _ => none
    match sd.bind (fun (a, b) => Pipeline.run (Pipeline.init 1 .block consumer) (pre ++ [a] ++ conc ++ [b] ++ late ++ fin)) with
    | some p =>
      if p.phase == .exited && !p.graceEarly && p.out.map (·.seq) == got && p.accepted == p.out && p.dropped.isEmpty then
        .ok (s, ["race-" ++ app, "race-guard-" ++ s.guardName, if got.length > snap then "race-concurrent-emits-delivered" else "race-exact",
                 if got.length < n then "race-late-emits-refused" else "race-all-before-close"])
      else .error "model=pipeline-out-differs"
    | none => .error "model=pipeline-schedule-not-enabled"
  | _, _ => .error "bad-op race"

def step (s : St) (op res : List String) : Except String (St × List String) :=
  match op with
  | ["race", app, t] =>
    match s.raceN, t.toNat? with
    | some n, some t => stepRace s n app t res
    | _, _ => .error "bad-op race outside kind=race case"
  | ["appender", n, cap, pol] =>
    match cap.toNat? with
    | some c => .ok ({ s with appNames := s.appNames ++ [n], appCfg := s.appCfg ++ [(c, pol == "block")] }, [])
    | none => .error "bad-op appender"
  | ["root", lvl, apps] =>
    match level? lvl, apps? s apps with
    | some l, some as => .ok ({ s with rootLevel := l, rootApps := as }, [])
    | _, _ => .error "bad-op root"
  | ["root", lvl, apps, _additiveIgnored] =>
    match level? lvl, apps? s apps with
    | some l, some as => .ok ({ s with rootLevel := l, rootApps := as }, ["cfg-root-additive-flag-given"])
    | _, _ => .error "bad-op root"
  | ["logger", n, lvl, add, apps] =>
    match level? lvl, apps? s apps with
    | some l, some as =>
      .ok ({ s with loggers := s.loggers ++ [{ name := name? n, level := l, appenders := as, additive := add == "add" }] },
           (if as.isEmpty then [if add == "add" then "cfg-additive-logger-no-appenders" else "cfg-nonadditive-logger-no-appenders"] else []))
    | _, _ => .error "bad-op logger"
  | ["emit", t, q, api, target, lvl] =>
    match t.toNat?, q.toNat? with
    | some t, some q => stepEmit s t q api target lvl res
    | _, _ => .error "bad-op emit"
  | ["shutdown", kind] =>
    match guardEnd? kind with
    | none => .error "bad-op shutdown kind"
    | some g =>
      if res.getD 0 "" = "ok" then .ok ({ s with closed := true, sawShutdown := true, guardEnd := g }, ["shutdown-" ++ kind])
      else .error "model=[ok]"
  | ["stream", a] => stepStream s a res
  | _ => .error "bad-op"

def finish (s : St) : Except String (List String) :=
  if s.sawShutdown && !(List.range s.appNames.length).all (fun a => s.streamsSeen.contains a) then
    .error "model=missing-stream-line"
  else .ok []

def init (ws : List String) : Except String St :=
  if ws.contains "kind=race" then
    match (ws.find? (·.startsWith "n=")).bind (fun w => (w.drop 2).toString.toNat?),
          (ws.find? (·.startsWith "sd=")).bind (fun w => (guardEnd? (w.drop 3).toString).map (fun g => (g, (w.drop 3).toString))) with
    | some n, some (g, nm) => .ok { raceN := some n, guardEnd := g, guardName := nm }
    | _, _ => .error "race case without n= / known sd="
  else .ok {}

def engine : Engine St := { init := init, step := step, finish := finish }

end Fv.Driver.Route
