import Fv.Driver.Proto
import Fv.Sync.Mutex
import Fv.Sync.RwLock
/-
Engine `lock`: validates `chanh` transcripts of flavours `mutex` / `rwlock` against the B-level
models `Fv.Sync.Mutex` / `Fv.Sync.RwLock` (see /verif/harness/chan/README.md for the format).

 (i)  API level (always): the `C`/`R` history is accepted by the lock spec - an acquisition may
      return only when its guard is compatible with every guard that is definitely held at that
      moment (acquisition returned, release not yet called); results have the right shape.
 (ii) step level (`atomics=1`): every `A` line of a thread must be an ENABLED transition of the
      model for that thread: same kind, same object role, same value read / written, same CAS
      outcome, logged ordering at least as strong as the model's.  `C` lines take the model's
      `call` step, `R` lines its `ret` step with the same result.  First divergence = MISMATCH.

Object roles (the ONE role table: `roleOfSite`): from the `L` lines - type + source file of the
construction site.  Calibration: the first two objects of a case must be the state word and the
list spinlock bit, created by tid 0 with initial value 0 before any call; any other atomic that
is not a waiter node's `state` is a loud error.  Node `state` cells are bound, at construction,
to the node of the constructing thread's current waiter (stack node of the thread, or heap node
of the future it is polling) and re-checked on every access.
-/
namespace Fv.Driver.Lock
open Fv.Sync

/-! ### tokens -/

def parseOrd : String → Option Ord
  | "rlx" => some .relaxed | "acq" => some .acquire | "rel" => some .release
  | "acqrel" => some .acqRel | "sc" => some .seqCst
  | _ => none

def parseOrdPair (s : String) : Option (Ord × Ord) :=
  match s.splitOn "/" with
  | [a, b] => match parseOrd a, parseOrd b with
    | some x, some y => some (x, y)
    | _, _ => none
  | _ => none

inductive Role | state | listLock | node
  deriving DecidableEq, Repr

/-- THE role table: (atomic type, construction site file) ↦ role -/
def roleOfSite (ty site : String) : Option Role :=
  let file := (site.splitOn ":").getD 0 ""
  if ty = "usize" && (file = "sync/mutex.rs" || file = "sync/rwlock.rs") then some .state
  else if ty = "bool" && file = "sync/wait_queue.rs" then some .listLock
  else if ty = "u8" && file = "sync/wait_queue.rs" then some .node
  else none

def objType (obj : String) : String := ((obj.splitOn ":").getD 1 "")

/-! ### model interface (so the engine is written once for both locks) -/

structure Iface (σ Op : Type) where
  next : σ → Tid → List (Label Op × σ)
  addProg : σ → Tid → Op → σ
  cur : σ → Tid → Option Fid
  wakes : σ → Fid → Nat
  unresolved : σ → Fid → Bool        -- the future exists and has not returned Ready
  showPc : σ → Tid → String

def mutexIface (cfg : Mutex.Cfg) : Iface Mutex.State Mutex.MOp where
  next := Mutex.next cfg
  addProg := fun s t op => { s with prog := upd s.prog t (s.prog t ++ [op]) }
  cur := fun s t => (s.th t).cur
  wakes := fun s f => s.wakes f
  unresolved := fun s f => match (s.fut f).phase with
    | .fresh | .startedNoNode | .startedNode => true
    | _ => false
  showPc := fun s t => reprStr (s.th t).pc

def rwIface (cfg : RwLock.Cfg) : Iface RwLock.State RwLock.ROp where
  next := RwLock.next cfg
  addProg := fun s t op => { s with prog := upd s.prog t (s.prog t ++ [op]) }
  cur := fun s t => (s.th t).cur
  wakes := fun s f => s.wakes f
  unresolved := fun s f => match (s.fut f).phase with
    | .fresh | .startedNoNode | .startedNode => true
    | _ => false
  showPc := fun s t => reprStr (s.th t).pc

/-- does the logged action `lg` realise the model transition label `m`?  Orderings: the logged
one must be at least as strong as the model's. -/
def lblMatch {Op : Type} [DecidableEq Op] (m lg : Label Op) : Bool :=
  match m, lg with
  | .call a, .call b => a = b
  | .ret a, .ret b => a = b
  | .load o1 r1 v1, .load o2 r2 v2 => o1 = o2 && r1.le r2 && v1 = v2
  | .store o1 r1 v1, .store o2 r2 v2 => o1 = o2 && r1.le r2 && v1 = v2
  | .rmw o1 k1 r1 a1 b1, .rmw o2 k2 r2 a2 b2 => o1 = o2 && k1 = k2 && r1.le r2 && a1 = a2 && b1 = b2
  | .cas o1 w1 s1 f1 a1 b1 k1, .cas o2 w2 s2 f2 a2 b2 k2 =>
    o1 = o2 && w1 = w2 && s1.le s2 && f1.le f2 && a1 = a2 && b1 = b2 && k1 = k2
  | .park, .park => true
  | .parkSpur, .parkSpur => true
  | .unpark a, .unpark b => a = b
  | .yield, .yield => true
  | .spin, .spin => true
  | _, _ => false

def showLbl {Op : Type} [Repr Op] (l : Label Op) : String :=
  (((reprStr l).replace "Fv.Sync." "").replace "Label." "").replace "\n" " "

/-! ### engine state -/

inductive Pending
  | model (name : String) (arg : String) (excl : Bool)   -- `R` must be the model's `ret`; op name, guard / future name
  | invalid                                               -- harness-level `invalid:*`, no model step
  deriving Repr

structure Tables where
  atomics : Bool := false
  stateObj : Option String := none
  lockObj : Option String := none
  nodeObj : List (String × Nid) := []
  /-- guard name ↦ (thread whose environment holds it, exclusive?) -/
  guards : List (String × Tid × Bool) := []
  /-- (owning thread, future name) ↦ (model id, guard name, exclusive?) -/
  futs : List ((Tid × String) × (Fid × String × Bool)) := []
  nextFid : Nat := 1
  pending : List (Tid × Pending) := []
  /-- guards definitely held: acquisition returned, release not yet called -/
  held : List (String × Bool) := []
  /-- counting-waker wakes the model performed that the log has not confirmed yet -/
  expectWake : List (Tid × Fid) := []
  anyCall : Bool := false
  nObjs : Nat := 0

structure St (σ Op : Type) where
  m : σ
  tb : Tables

def kv (ws : List String) (key : String) : Option String :=
  (ws.find? (fun w => w.startsWith (key ++ "="))).map (fun w => (w.drop (key.length + 1)).toString)

def lookupFut (tb : Tables) (t : Tid) (name : String) : Option ((Tid × String) × (Fid × String × Bool)) :=
  match tb.futs.find? (fun e => e.1 = (t, name)) with
  | some e => some e
  | none => if t = 0 then tb.futs.find? (fun e => e.1.2 = name) else none   -- teardown by tid 0

def lookupGuard (tb : Tables) (t : Tid) (name : String) : Option (String × Tid × Bool) :=
  match tb.guards.find? (fun e => e.1 = name ∧ e.2.1 = t) with
  | some e => some e
  | none => if t = 0 then tb.guards.find? (fun e => e.1 = name) else none     -- teardown by tid 0

def guardExists (tb : Tables) (t : Tid) (name : String) : Bool :=
  (tb.guards.find? (fun e => e.1 = name ∧ e.2.1 = t)).isSome

def fidOfNid : Nid → Option Fid
  | .fut f => some f
  | .thr _ => none

variable {σ Op : Type} [DecidableEq Op] [Repr Op]

/-- take the model transition of thread `t` realising the logged label -/
def takeStep (I : Iface σ Op) (m : σ) (t : Tid) (lg : Label Op) : Except String σ :=
  match (I.next m t).find? (fun p => lblMatch p.1 lg) with
  | some (_, m') => .ok m'
  | none =>
    let en := ", ".intercalate ((I.next m t).map (fun p => showLbl p.1))
    .error s!"model=not-enabled tid={t} pc=[{I.showPc m t}] logged=[{showLbl lg}] enabled=[{en}]"

/-- counting-waker wakes performed by a model step (difference of the `wakes` counters over the
known futures) -/
def newWakes (I : Iface σ Op) (tb : Tables) (m m' : σ) (t : Tid) : List (Tid × Fid) :=
  tb.futs.foldl (fun acc e =>
    let f := e.2.1
    let d := I.wakes m' f - I.wakes m f
    acc ++ List.replicate d (t, f)) []

/-! ### per-flavour op translation -/

inductive Flav | mutex | rwlock
  deriving DecidableEq, Repr

structure OpTr (Op : Type) where
  /-- acquisition op name ↦ (model op for a fresh future id, exclusive?, is async/block_on) -/
  acquire : String → Fid → Option (Op × Bool)
  release : Bool → Op                      -- by guard kind
  give : Tid → Bool → Op
  newFut : String → Fid → Option (Op × Bool)   -- `lock_fut` / `read_fut` / `write_fut`
  poll : Fid → Op
  dropFut : Fid → Op
  wakes : Fid → Op

def mutexTr : OpTr Mutex.MOp where
  acquire := fun n f => match n with
    | "lock" => some (.lock, true) | "try_lock" => some (.tryLock, true)
    | "lock_async" => some (.lockAsync f, true)
    | _ => none
  release := fun _ => .unlock
  give := fun to _ => .give to
  newFut := fun n f => match n with
    | "lock_fut" => some (.newFut f, true)
    | _ => none
  poll := .poll
  dropFut := .dropFut
  wakes := .wakes

def rwTr : OpTr RwLock.ROp where
  acquire := fun n f => match n with
    | "read" => some (.read, false) | "try_read" => some (.tryRead, false)
    | "write" => some (.write, true) | "try_write" => some (.tryWrite, true)
    | "read_async" => some (.readAsync f, false) | "write_async" => some (.writeAsync f, true)
    | _ => none
  release := fun excl => if excl then .unwrite else .unread
  give := fun to excl => .give to excl
  newFut := fun n f => match n with
    | "read_fut" => some (.newFut f false, false) | "write_fut" => some (.newFut f true, true)
    | _ => none
  poll := .poll
  dropFut := .dropFut
  wakes := .wakes

def setPending (tb : Tables) (t : Tid) (p : Pending) : Tables :=
  { tb with pending := (t, p) :: tb.pending.filter (·.1 ≠ t), anyCall := true }

/-- perform `call op` (+ record what the `R` line must be) -/
def doCall (I : Iface σ Op) (st : St σ Op) (t : Tid) (op : Op) (p : Pending) : Except String (St σ Op) := do
  let m1 := I.addProg st.m t op
  let m2 ← takeStep I m1 t (.call op)
  return { m := m2, tb := setPending st.tb t p }

/-- a guard held in another thread's environment is released by tid 0 at teardown: the model
moves it first (`give`, two steps of the idle owner) -/
def moveGuard (I : Iface σ Op) (T : OpTr Op) (m : σ) (owner to : Tid) (excl : Bool) : Except String σ := do
  if owner = to then return m
  let op := T.give to excl
  let m1 := I.addProg m owner op
  let m2 ← takeStep I m1 owner (.call op)
  takeStep I m2 owner (.ret .ok)

def onCall (I : Iface σ Op) (T : OpTr Op) (st : St σ Op) (t : Tid) (ws : List String) :
    Except String (St σ Op × List String) := do
  let tb := st.tb
  if (tb.pending.find? (·.1 = t)).isSome then throw s!"protocol=call-while-pending tid={t}"
  let name := ws.getD 0 ""
  let a1 := ws.getD 1 ""
  let fid := tb.nextFid
  match T.acquire name fid with
  | some (op, excl) =>
    if a1.isEmpty || guardExists tb t a1 then
      return ({ st with tb := setPending tb t .invalid }, ["op:" ++ name ++ ":invalid"])
    let st' ← doCall I { st with tb := { tb with nextFid := fid + 1 } } t op (.model name a1 excl)
    return (st', ["op:" ++ name])
  | none =>
  match name with
  | "unlock" | "unread" | "unwrite" =>
    match lookupGuard tb t a1 with
    | none => return ({ st with tb := setPending tb t .invalid }, ["op:unlock:invalid"])
    | some (_, owner, excl) =>
      let m1 ← moveGuard I T st.m owner t excl
      let tb1 := { tb with guards := tb.guards.filter (fun e => ¬ (e.1 = a1 ∧ e.2.1 = owner)),
                           held := tb.held.erase (a1, excl) }
      let st' ← doCall I { m := m1, tb := tb1 } t (T.release excl) (.model "unlock" a1 excl)
      return (st', ["op:unlock" ++ (if owner = t then "" else ":teardown")])
  | "fut" =>
    -- fut f = lock_fut g
    let kind := ws.getD 3 ""
    let g := ws.getD 4 ""
    match T.newFut kind fid with
    | none => return ({ st with tb := setPending tb t .invalid }, ["op:fut:invalid"])
    | some (op, excl) =>
      if ws.getD 2 "" ≠ "=" || a1.isEmpty || g.isEmpty || (tb.futs.find? (fun e => e.1 = (t, a1))).isSome then
        return ({ st with tb := setPending tb t .invalid }, ["op:fut:invalid"])
      let tb1 := { tb with nextFid := fid + 1, futs := ((t, a1), (fid, g, excl)) :: tb.futs }
      let st' ← doCall I { st with tb := tb1 } t op (.model "fut" a1 excl)
      return (st', ["op:" ++ kind])
  | "poll" =>
    match lookupFut tb t a1 with
    | none => return ({ st with tb := setPending tb t .invalid }, ["op:poll:invalid"])
    | some (_, (f, _, excl)) =>
      let st' ← doCall I st t (T.poll f) (.model "poll" a1 excl)
      return (st', ["op:poll"])
  | "wakes" =>
    match lookupFut tb t a1 with
    | none => return ({ st with tb := setPending tb t .invalid }, ["op:wakes:invalid"])
    | some (_, (f, _, excl)) =>
      let st' ← doCall I st t (T.wakes f) (.model "wakes" a1 excl)
      return (st', ["op:wakes"])
  | "dropfut" | "drop" =>
    match lookupFut tb t a1 with
    | none => return ({ st with tb := setPending tb t .invalid }, ["op:dropfut:invalid"])
    | some (key, (f, _, excl)) =>
      let woken := I.unresolved st.m f && I.wakes st.m f > 0
      let _ := key
      let st' ← doCall I st t (T.dropFut f)
        (.model (if woken then "dropfut:woken" else "dropfut") a1 excl)
      return (st', [if woken then "op:dropfut:woken" else "op:dropfut"])
  | _ => throw s!"protocol=unknown-lock-op [{name}]"

/-- API-level spec: grant only when compatible with the guards definitely held -/
def grant (tb : Tables) (t : Tid) (g : String) (excl : Bool) : Except String Tables :=
  let bad := if excl then tb.held.length > 0 else tb.held.any (·.2)
  if bad then .error s!"spec=guard-granted-while-incompatible-guard-held guard={g} excl={excl} held={tb.held.length}"
  else .ok { tb with held := (g, excl) :: tb.held, guards := (g, t, excl) :: tb.guards }

def onRet (I : Iface σ Op) (st : St σ Op) (t : Tid) (res : String) : Except String (St σ Op × List String) := do
  let tb := st.tb
  let some (_, p) := tb.pending.find? (·.1 = t) | throw s!"protocol=return-without-call tid={t}"
  let tb := { tb with pending := tb.pending.filter (·.1 ≠ t) }
  if (res.splitOn ":coexist").length > 1 then throw s!"spec=harness-probe-saw-coexisting-guards [{res}]"
  match p with
  | .invalid =>
    if res.startsWith "invalid" || res = "unsupported" then return ({ st with tb := tb }, ["ret:invalid"])
    else throw s!"model=[invalid] (harness-level validity tables disagree)"
  | .model name arg excl =>
    let r : Option Res :=
      if res.startsWith "invalid" then some .invalid
      else match res with
        | "ok" => some .ok | "ok:woken" => some .ok | "none" => some .none | "pending" => some .pending
        | "ready:ok" => some .ready
        | _ => if res.startsWith "n:" then ((res.drop 2).toString.toNat?).map Res.n else none
    let some r := r | throw s!"protocol=unknown-result [{res}]"
    let m' ← takeStep I st.m t (.ret r)
    -- result shape vs op
    if name = "dropfut" && res = "ok:woken" then throw "model=[ok] harness says the dropped future had been woken"
    if name = "dropfut:woken" && res = "ok" then throw "model=[ok:woken] harness says the dropped future had not been woken"
    let mut tb := tb
    let mut tags := ["ret:" ++ (if res.startsWith "n:" then "n" else res)]
    if r = .ok && name ≠ "unlock" && name ≠ "fut" && name ≠ "dropfut" && name ≠ "dropfut:woken" && name ≠ "wakes" then
      tb ← grant tb t arg excl
    if name = "dropfut" || name = "dropfut:woken" then
      match lookupFut tb t arg with
      | some (key, _) => tb := { tb with futs := tb.futs.filter (fun e => e.1 ≠ key) }
      | none => pure ()
    if r = .ready then
      match lookupFut tb t arg with
      | some (_, (_, g, e)) =>
        if guardExists tb t g then throw "driver-unsupported=poll-ready-into-existing-guard-name"
        tb ← grant tb t g e
      | none => throw "protocol=ready-for-unknown-future"
    return ({ m := m', tb := tb }, tags)

def parseObj (tb : Tables) (obj : String) : Except String Obj :=
  if some obj = tb.stateObj then .ok .state
  else if some obj = tb.lockObj then .ok .listLock
  else match tb.nodeObj.find? (·.1 = obj) with
    | some (_, n) => .ok (.nodeState n)
    | none => .error s!"roles=unknown-object [{obj}]"

def onLine (I : Iface σ Op) (T : OpTr Op) (st : St σ Op) (ws : List String) :
    Except String (St σ Op × List String) := do
  let tb := st.tb
  match ws with
  | "P" :: _ | "S" :: _ | "D" :: _ => return (st, [])
  | ["X", status] =>
    let k := (status.splitOn ":").getD 0 status
    return (st, ["status:" ++ k])
  | "L" :: obj :: tidS :: site :: init :: _ =>
    let some t := tidS.toNat? | throw "protocol=bad-L-line"
    match roleOfSite (objType obj) site with
    | none => throw s!"roles=calibration: unexpected atomic [{obj}] constructed at [{site}]"
    | some .state =>
      if tb.stateObj.isSome || tb.anyCall || t ≠ 0 || init ≠ "0" || tb.nObjs ≠ 0 then
        throw s!"roles=calibration: state word must be the first object, created once by tid 0 with value 0 [{obj} {site}]"
      return ({ st with tb := { tb with stateObj := some obj, nObjs := 1 } }, [])
    | some .listLock =>
      if tb.lockObj.isSome || tb.anyCall || t ≠ 0 || init ≠ "0" || tb.nObjs ≠ 1 then
        throw s!"roles=calibration: list spinlock must be the second object, created once by tid 0 with value 0 [{obj} {site}]"
      return ({ st with tb := { tb with lockObj := some obj, nObjs := 2 } }, [])
    | some .node =>
      if init ≠ "0" then throw s!"roles=node state must start WAITING [{obj}]"
      let n : Nid := match I.cur st.m t with
        | none => .thr t
        | some f => .fut f
      let nodeObj := (obj, n) :: tb.nodeObj.filter (fun e => e.2 ≠ n)
      return ({ st with tb := { tb with nodeObj := nodeObj, nObjs := tb.nObjs + 1 } }, ["node-created"])
  | "C" :: tidS :: rest =>
    let some t := tidS.toNat? | throw "protocol=bad-C-line"
    onCall I T st t rest
  | ["R", tidS, res] =>
    let some t := tidS.toNat? | throw "protocol=bad-R-line"
    if (tb.expectWake.find? (·.1 = t)).isSome then throw "model=counting-waker wake not confirmed by the log before return"
    onRet I st t res
  | ["A", tidS, kind, obj, ord, old, new, ok] =>
    let some t := tidS.toNat? | throw "protocol=bad-A-line"
    if kind = "spawn" || kind = "join" || kind = "exit" then return (st, [])
    if kind = "wake" then
      if obj.startsWith "f" then
        -- a counting waker fired: the model must have just done it (same thread, same future; the
        -- order among the wakes of one `wake_waiters` batch is not compared)
        let nameOf (f : Fid) : Option String := (tb.futs.find? (fun e => e.2.1 = f)).map (fun e => e.1.2)
        let hit := tb.expectWake.find? (fun e => e.1 = t && (nameOf e.2 = some obj || nameOf e.2 = some (obj.drop 1).toString))
        match hit with
        | some e => return ({ st with tb := { tb with expectWake := tb.expectWake.erase e } }, ["wake-task"])
        | none => throw s!"model=no-wake-owed [{obj}] by {t}"
      else return (st, ["wake-executor"])    -- `wake t<k>`: the `unpark t<k>` action follows
    if (tb.pending.find? (·.1 = t)).isNone then throw s!"protocol=action-outside-call tid={t} kind={kind}"
    if (tb.expectWake.find? (·.1 = t)).isSome then throw "model=counting-waker wake not confirmed by the log"
    let num (s : String) : Except String Nat := match s.toNat? with
      | some n => .ok n
      | none => .error s!"protocol=bad-number [{s}]"
    let lg : Label Op ← match kind with
      | "load" => do
        let some r := parseOrd ord | throw "protocol=bad-ordering"
        pure (.load (← parseObj tb obj) r (← num old))
      | "store" => do
        let some r := parseOrd ord | throw "protocol=bad-ordering"
        pure (.store (← parseObj tb obj) r (← num new))
      | "swap" | "for" | "fand" | "fadd" | "fsub" => do
        let some r := parseOrd ord | throw "protocol=bad-ordering"
        let k : RmwKind := match kind with
          | "swap" => .swap | "for" => .or | "fand" => .and | "fadd" => .add | _ => .sub
        pure (.rmw (← parseObj tb obj) k r (← num old) (← num new))
      | "cas" | "casw" => do
        let some (r1, r2) := parseOrdPair ord | throw "protocol=bad-ordering"
        pure (.cas (← parseObj tb obj) (kind = "casw") r1 r2 (← num old) (← num new) (ok = "1"))
      | "park" => pure .park
      | "unpark" => do
        let some u := ((obj.drop 1).toString).toNat? | throw "protocol=bad-unpark-target"
        pure (.unpark u)
      | "yield" => pure .yield
      | "spin" => pure .spin
      | _ => throw s!"protocol=unknown-action-kind [{kind}]"
    let m' ← takeStep I st.m t lg
    let ew := newWakes I tb st.m m' t
    let tag := match lg with
      | .cas _ _ _ _ _ _ false => "a:cas-fail"
      | .rmw .listLock _ _ 1 _ => "a:listlock-contended"
      | _ => "a:" ++ kind
    return ({ m := m', tb := { tb with expectWake := tb.expectWake ++ ew } }, [tag])
  | _ => throw s!"protocol=unknown-line [{" ".intercalate ws}]"

/-! ### the engine (sum of the two instantiations) -/

inductive LockSt
  | mutex (s : St Mutex.State Mutex.MOp)
  | rwlock (s : St RwLock.State RwLock.ROp)

def init (ws : List String) : Except String LockSt :=
  let tb : Tables := { atomics := kv ws "atomics" = some "1" }
  match kv ws "flavour" with
  | some "mutex" => .ok (.mutex { m := Mutex.init (fun _ => []), tb := tb })
  | some "rwlock" => .ok (.rwlock { m := RwLock.init (fun _ => []), tb := tb })
  | _ => .error "flavour must be mutex or rwlock"

def step (st : LockSt) (op res : List String) : Except String (LockSt × List String) :=
  if ¬ res.isEmpty then .error "protocol=unexpected-result-part"
  else match st with
  | .mutex s => (onLine (mutexIface {}) mutexTr s op).map (fun p => (.mutex p.1, p.2))
  | .rwlock s => (onLine (rwIface {}) rwTr s op).map (fun p => (.rwlock p.1, p.2))

def engine : Engine LockSt := { init := init, step := step }

end Fv.Driver.Lock
