import Fv.Driver.Proto
import Fv.Ioc.Container
/-
Engine `ioc`: replays `fibre_ioc` registration / resolution histories on `Fv.Ioc`.
  #case <id> mode=seq|stress
  reg_instance <c> <key> <id> => -
  reg_singleton <c> <key> <dep>... => -          dep = <c>:<key> (resolve_from!) or <c>:<key>? (maybe_resolve_from!)
  reg_transient <c> <key> <dep>... => -
  resolve <c> <key> => some:<id> | none | panic:cycle | panic:missing
  count <c> <key> => <completed factory runs of the current registration> | -
  par <c>:<key>... +<c>:<key>=<id>... => <outcome per resolver thread>
containers: g (global) = 0, c<i> = 1+i, l<i> = 100+i;  keys: T<i> / U<i> (trait object) [.name]
`par`: real threads released by a barrier; the engine runs the small-step model (`runSched`) under
a few canonical schedules and accepts iff one of them explains the observed outcomes.  In
mode=stress instance ids are compared up to an injective renaming (the id counter is shared by
racing factories), in mode=seq exactly.
-/
namespace Fv.Driver.Ioc
open Fv.Ioc

structure St where
  w : World := {}
  stress : Bool := false
  /-- (model id, implementation id) -/
  ren : List (Nat × Nat) := []

def parseCont (s : String) : Option Nat :=
  if s = "g" then some 0
  else if s.startsWith "c" then (s.drop 1).toString.toNat?.map (· + 1)
  else if s.startsWith "l" then (s.drop 1).toString.toNat?.map (· + 100)
  else none

def nameCode (s : String) : Nat := s.toList.foldl (fun a ch => a * 256 + ch.toNat) 0

def parseKey (s : String) : Option Key :=
  let (tyTok, name) : String × Option Nat :=
    match s.splitOn "." with
    | [t] => (t, none)
    | t :: rest => (t, some (nameCode (".".intercalate rest)))
    | [] => ("", none)
  if tyTok.startsWith "T" then (tyTok.drop 1).toString.toNat?.map (fun n => ⟨n, name⟩)
  else if tyTok.startsWith "U" then (tyTok.drop 1).toString.toNat?.map (fun n => ⟨100 + n, name⟩)
  else none

def parseSlot (s : String) : Option Slot :=
  match s.splitOn ":" with
  | [c, k] => do let c ← parseCont c; let k ← parseKey k; pure ⟨c, k⟩
  | _ => none

def parseDep (s : String) : Option Dep :=
  let opt := s.endsWith "?"
  let body := if opt then (s.dropEnd 1).toString else s
  (parseSlot body).map (fun sl => ⟨sl.c, sl.k, !opt⟩)

def showOutcome : Outcome → String
  | .some id => s!"some:{id}"
  | .none => "none"
  | .panic .cycle => "panic:cycle"
  | .panic .missing => "panic:missing"
  | .diverge => "diverge"

def tagOutcome : Outcome → String
  | .some _ => "resolve-some"
  | .none => "resolve-none"
  | .panic .cycle => "resolve-panic-cycle"
  | .panic .missing => "resolve-panic-missing"
  | .diverge => "resolve-diverge"

def init (ws : List String) : Except String St :=
  if ws.contains "mode=stress" then .ok { stress := true } else .ok {}

/-- extend the renaming with `m ↔ i` if consistent and injective -/
def bind (ren : List (Nat × Nat)) (m i : Nat) : Option (List (Nat × Nat)) :=
  match ren.find? (fun p => p.1 = m) with
  | some p => if p.2 = i then some ren else none
  | none => if ren.any (fun p => p.2 = i) then none else some ((m, i) :: ren)

/-- compare a model outcome with an implementation result token -/
def matchOutcome (st : St) (o : Outcome) (tok : String) : Option St :=
  if !st.stress then (if showOutcome o = tok then some st else none)
  else
    match o with
    | .some m =>
      if tok.startsWith "some:" then
        match (tok.drop 5).toString.toNat? with
        | some i => (bind st.ren m i).map (fun r => { st with ren := r })
        | none => none
      else none
    | o => if showOutcome o = tok then some st else none

def matchAll (st : St) : List Outcome → List String → Option St
  | [], [] => some st
  | o :: os, t :: ts => (matchOutcome st o t).bind (fun st' => matchAll st' os ts)
  | _, _ => none

def jobOutcomes (js : List Job) : List Outcome :=
  js.filterMap (fun j => match j with
    | .resolver _ _ (.done o) => some o
    | .resolver _ _ _ => some .diverge
    | _ => none)

/-- canonical schedules for `k` resolvers (indices `0..k-1`) and `m` registrars (`k..k+m-1`) -/
def schedules (k m : Nat) : List (List Nat) :=
  let res := (List.range k).flatMap (fun i => [i, i])
  let resRev := (List.range k).reverse.flatMap (fun i => [i, i])
  let begins := List.range k
  let regs := (List.range m).map (· + k)
  [regs ++ res, res ++ regs, regs ++ begins ++ begins, begins ++ regs ++ begins ++ regs, regs ++ resRev,
   begins ++ begins.reverse ++ regs]

def parsePar (toks : List String) : Option (List Job × List Job) :=
  toks.foldlM (init := ([], [])) fun (rs, gs) t =>
    if t.startsWith "+" then
      match (t.drop 1).toString.splitOn "=" with
      | [sl, id] => do
        let s ← parseSlot sl; let id ← id.toNat?
        pure (rs, gs ++ [Job.registrar s (.inst id) false])
      | _ => none
    else do
      let s ← parseSlot t
      pure (rs ++ [Job.resolver s.c s.k .ready], gs)

def firstSome {α β} (f : α → Option β) : List α → Option β
  | [] => none
  | a :: as => match f a with
    | some b => some b
    | none => firstSome f as

def step (st : St) (op res : List String) : Except String (St × List String) :=
  let r := " ".intercalate res
  match op with
  | ["reg_instance", c, k, id] =>
    match parseCont c, parseKey k, id.toNat? with
    | some c, some k, some id =>
      if r = "-" then .ok ({ st with w := (applyOp st.w (.regInstance c k id)).1 }, ["reg-instance"]) else .error "model=[-]"
    | _, _, _ => .error "bad-op"
  | "reg_singleton" :: c :: k :: deps =>
    match parseCont c, parseKey k, deps.mapM parseDep with
    | some c, some k, some ds =>
      if r = "-" then .ok ({ st with w := (applyOp st.w (.regSingleton c k ds)).1 },
        [if ds.isEmpty then "reg-singleton" else "reg-singleton-deps"]) else .error "model=[-]"
    | _, _, _ => .error "bad-op"
  | "reg_transient" :: c :: k :: deps =>
    match parseCont c, parseKey k, deps.mapM parseDep with
    | some c, some k, some ds =>
      if r = "-" then .ok ({ st with w := (applyOp st.w (.regTransient c k ds)).1 },
        [if ds.isEmpty then "reg-transient" else "reg-transient-deps"]) else .error "model=[-]"
    | _, _, _ => .error "bad-op"
  | ["resolve", c, k] =>
    match parseCont c, parseKey k with
    | some c, some k =>
      let (w', o) := resolve st.w c k
      match matchOutcome { st with w := w' } o r with
      | some st' => .ok (st', [tagOutcome o])
      | none => .error s!"model=[{showOutcome o}]"
    | _, _ => .error "bad-op"
  | ["count", c, k] =>
    match parseCont c, parseKey k with
    | some c, some k =>
      let m := match st.w.count ⟨c, k⟩ with
        | some n => toString n
        | none => "-"
      if m = r then .ok (st, ["count"]) else .error s!"model=[{m}]"
    | _, _ => .error "bad-op"
  | "par" :: toks =>
    match parsePar toks with
    | some (rs, gs) =>
      let cf0 : Conf := { w := st.w, jobs := rs ++ gs }
      let try1 (sched : List Nat) : Option St :=
        let cf := runSched cf0 sched
        matchAll { st with w := cf.w } (jobOutcomes cf.jobs) res
      match firstSome try1 (schedules rs.length gs.length) with
      | some st' => .ok (st', ["par", s!"par-{rs.length}"])
      | none =>
        let cf := runSched cf0 ((schedules rs.length gs.length).headD [])
        .error s!"model=[{" ".intercalate ((jobOutcomes cf.jobs).map showOutcome)}] (no canonical schedule explains the outcomes)"
    | none => .error "bad-op"
  | _ => .error "bad-op"

def engine : Engine St := { init := init, step := step }

end Fv.Driver.Ioc
