import Fv.Driver.Proto
import Fv.Log.Json
import Fv.Log.Pattern
import Fv.Log.Roller
/-
Engine `log` (C20): replays encoder and roller cases of /verif/harness/log (`logh`) on the models.
Text tokens are `x<hex of UTF-8>`; `-` is `None`.

  #case <id> kind=json flatten=<0|1> tsms=.. level=L target=x.. name=x.. msg=x..|- span=.. parent=.. tid=.. tname=..
  #case <id> kind=pattern pat=x.. <same event tokens>
    field <xkey> s|d <xval> => -      field <xkey> i <int> => -     field <xkey> b <0|1> => -
    field <xkey> f <bits> => <xjson|-> <xdisplay>        (float renderings: serde_json / Display, oracle)
    timestamp => <x rfc3339>                              (chrono, oracle)
    datefmt <xopts> => <x rendered>                       (chrono, oracle)
    format => <x output bytes> | panic
  #case <id> kind=roller t0=<secs> r0=<xprefix>,<xsuffix>,<gran>,<maxsize|->,<retain|->,<xgzsuffix|->,<keep> [r1=..]
    pre <xname> <id,id|-> [gz] => -     open <r> => ok      restart <r> => ok
    write <r> <id> <len> => <len>       advance <secs> => -
    list => <xname>=[ids][!gz] ...      (sorted by name; `-` when empty)
-/
namespace Fv.Driver.Log
open Fv.Log

def hexNib (c : Char) : Option Nat :=
  if '0' ≤ c ∧ c ≤ '9' then some (c.toNat - 48)
  else if 'a' ≤ c ∧ c ≤ 'f' then some (c.toNat - 87)
  else none

def unhexGo : List Char → ByteArray → Option ByteArray
  | [], acc => some acc
  | [_], _ => none
  | a :: b :: rest, acc =>
    match hexNib a, hexNib b with
    | some x, some y => unhexGo rest (acc.push (UInt8.ofNat (x * 16 + y)))
    | _, _ => none

def textOfTok (tok : String) : Option Text :=
  match tok.toList with
  | 'x' :: h =>
    match unhexGo h ByteArray.empty with
    | some b => (String.fromUTF8? b).map String.toList
    | none => none
  | _ => none

def optTextOfTok (tok : String) : Option (Option Text) :=
  if tok = "-" then some none else (textOfTok tok).map some

def hexDigits : Array Char := #['0','1','2','3','4','5','6','7','8','9','a','b','c','d','e','f']

def tokOfText (t : Text) : String :=
  let b := (String.ofList t).toUTF8
  let cs := b.foldl (fun (acc : Array Char) (x : UInt8) =>
    (acc.push (hexDigits[x.toNat / 16]!)).push (hexDigits[x.toNat % 16]!)) (Array.mkEmpty (2 * b.size + 1) |>.push 'x')
  String.ofList cs.toList

def kv (ws : List String) (key : String) : Option String :=
  (ws.find? (fun w => w.startsWith (key ++ "="))).map (fun w => (w.drop (key.length + 1)).toString)

inductive Kind
  | json (flatten : Bool)
  | pattern (pat : Text)

structure RollerSt where
  pols : Array Roller.Policy
  sts : Array (Option Roller.RState)
  fs : Roller.FS
  now : Nat
  /-- two directory entries compared equal under `Ord for RolledFile` when a roll sorted them: which one
  retention/compression hits then depends on `read_dir` order (not modelled); later listings are not compared -/
  tainted : Bool := false

inductive St
  | enc (k : Kind) (ev : Event)
  | roller (s : RollerSt)

def levelOf (s : String) : Option Level :=
  match s with
  | "TRACE" => some .trace | "DEBUG" => some .debug | "INFO" => some .info | "WARN" => some .warn | "ERROR" => some .error
  | _ => none

def granOf (s : String) : Option Roller.Gran :=
  match s with
  | "minutely" => some .minutely | "hourly" => some .hourly | "daily" => some .daily | "never" => some .never
  | _ => none

def optNat (s : String) : Option (Option Nat) := if s = "-" then some none else s.toNat?.map some

def polOf (tok : String) : Option Roller.Policy :=
  match tok.splitOn "," with
  | [p, s, g, ms, rt, gz, keep] =>
    match textOfTok p, textOfTok s, granOf g, optNat ms, optNat rt, optTextOfTok gz, keep.toNat? with
    | some p, some s, some g, some ms, some rt, some gz, some keep =>
      some { pfx := p, sfx := s, gran := g, maxSize := ms, maxRetained := rt,
             compression := gz.map (fun sfx => { suffix := sfx, keep := keep }) }
    | _, _, _, _, _, _, _ => none
  | _ => none

def collectPols (ws : List String) : Nat → Nat → Array Roller.Policy → Except String (Array Roller.Policy)
  | 0, _, acc => .ok acc
  | fuel + 1, i, acc =>
    match kv ws s!"r{i}" with
    | none => .ok acc
    | some tok =>
      match polOf tok with
      | some p => collectPols ws fuel (i + 1) (acc.push p)
      | none => .error s!"bad policy r{i}"

def init (ws : List String) : Except String St :=
  match kv ws "kind" with
  | some "roller" =>
    match (kv ws "t0").bind String.toNat?, collectPols ws 4 0 #[] with
    | some t0, .ok pols => .ok (.roller { pols := pols, sts := pols.map (fun _ => none), fs := [], now := t0 })
    | none, _ => .error "missing t0"
    | _, .error m => .error m
  | some k =>
    let txt (key : String) : Option Text := (kv ws key).bind textOfTok
    let opt (key : String) : Option (Option Text) := (kv ws key).bind optTextOfTok
    match (kv ws "level").bind levelOf, txt "target", txt "name", opt "msg", opt "span", opt "parent", opt "tid", opt "tname" with
    | some lv, some tg, some nm, some msg, some sp, some pa, some ti, some tn =>
      let ev : Event := { timestamp := [], level := lv, target := tg, name := nm, message := msg, spanId := sp,
                          parentId := pa, threadId := ti, threadName := tn }
      if k = "json" then .ok (.enc (.json (kv ws "flatten" = some "1")) ev)
      else if k = "pattern" then
        match txt "pat" with
        | some p => .ok (.enc (.pattern p) ev)
        | none => .error "missing pat"
      else .error "unknown kind"
    | _, _, _, _, _, _, _, _ => .error "bad event header"
  | none => .error "missing kind"

def setField (ev : Event) (k : Text) (v : LogValue) : Event :=
  { ev with fields := ev.fields.filter (fun e => e.1 ≠ k) ++ [(k, v)] }

def intOf (s : String) : Option Int :=
  match s.toList with
  | '-' :: r => (String.ofList r).toNat?.map (fun n => - (n : Int))
  | _ => s.toNat?.map (fun n => (n : Int))

def ok (st : St) (tags : List String) : Except String (St × List String) := .ok (st, tags)

def coreKeyPresent (ev : Event) (k : Text) : Bool :=
  Json.containsKey k (Json.coreMap ev)

def stepEnc (k : Kind) (ev : Event) (op res : List String) : Except String (St × List String) :=
  match op with
  | ["field", key, ty, val] =>
    match textOfTok key with
    | none => .error "bad-field-key"
    | some key =>
      match ty with
      | "s" => match textOfTok val with | some v => ok (.enc k (setField ev key (.str v))) [] | none => .error "bad-field"
      | "d" => match textOfTok val with | some v => ok (.enc k (setField ev key (.debug v))) [] | none => .error "bad-field"
      | "i" => match intOf val with | some v => ok (.enc k (setField ev key (.int v))) [] | none => .error "bad-field"
      | "b" => ok (.enc k (setField ev key (.bool (val = "1")))) []
      | "f" =>
        match res with
        | [j, d] =>
          match optTextOfTok j, textOfTok d with
          | some j, some d =>
            -- hypothesis `Json.FloatsOk` of the round-trip theorems, checked on every oracle value
            let tokOk := match j with
              | none => true
              | some r => !r.isEmpty && r.all Json.numChar && (Json.parseIntTok r).isNone
            if tokOk then ok (.enc k (setField ev key (.float j d))) [if j.isNone then "float-nonfinite" else "float-finite"]
            else .error "float-oracle-not-a-float-token"
          | _, _ => .error "bad-float-oracle"
        | _ => .error "bad-float-oracle"
      | _ => .error "bad-field-type"
  | ["timestamp"] =>
    match res with
    | [t] => match textOfTok t with | some t => ok (.enc k { ev with timestamp := t }) [] | none => .error "bad-timestamp"
    | _ => .error "bad-timestamp"
  | ["datefmt", o] =>
    match textOfTok o, res with
    | some o, [r] =>
      match textOfTok r with
      | some r => ok (.enc k { ev with dateFmt := ev.dateFmt ++ [(o, r)] }) []
      | none => .error "bad-datefmt-oracle"
    | _, _ => .error "bad-datefmt"
  | ["format"] =>
    let r := " ".intercalate res
    match k with
    | .json fl =>
      let out := Json.formatEvent fl ev
      let want := tokOfText out
      if r ≠ want then .error s!"model=[{want}]"
      else
        -- run the model's decoder on the (identical) output: the round trip of C20, evaluated
        match Json.decodeEvent fl out with
        | none => .error "model-decoder-rejects-output"
        | some v =>
          if v.level ≠ ev.level.text ∨ v.target ≠ ev.target then .error "model-decoder-level-target-differ"
          else
            let coll := fl && ev.fields.any (fun e => coreKeyPresent ev e.1)
            ok (.enc k ev) ([if fl then "json-flat" else "json-nested"] ++ (if coll then ["json-core-key-collision"] else [])
              ++ (if ev.fields.isEmpty then ["json-no-fields"] else []))
    | .pattern pat =>
      let segs := Pattern.parse pat
      let missing := segs.any (fun s => match s with
        | .spec c _ (some o) => c = 'd' && (lookup o ev.dateFmt).isNone
        | _ => false)
      if missing then .error "missing-datefmt-oracle"
      else
        let padded := segs.any (fun s => match s with | .spec _ (some _) _ => true | _ => false)
        match Pattern.formatEvent pat ev with
        | none => if r = "panic" then ok (.enc k ev) ["pattern-panic"] else .error "model=[panic]"
        | some out =>
          let want := tokOfText out
          if r = want then ok (.enc k ev) [if padded then "pattern-padded" else "pattern-plain"] else .error s!"model=[{want}]"
  | _ => .error "bad-op"

def insertByName (e : Text × Roller.File) : Roller.FS → Roller.FS
  | [] => [e]
  | f :: rest => if ltText e.1 f.1 then e :: f :: rest else f :: insertByName e rest

def showListing (fs : Roller.FS) : String :=
  if fs.isEmpty then "-"
  else
    let sorted := fs.foldl (fun acc e => insertByName e acc) []
    " ".intercalate (sorted.map (fun e =>
      tokOfText e.1 ++ "=" ++ showNatList (e.2.recs.map (·.1)) ++ (if e.2.gz then "!gz" else "")))

def hasTie : List Roller.RolledFile → Bool
  | a :: b :: rest => (a.stamp = b.stamp && a.seq = b.seq) || hasTie (b :: rest)
  | _ => false

def anyTie (s : RollerSt) (fs : Roller.FS) : Bool := s.pols.any (fun p => hasTie (Roller.findRolled p fs))

def idsOf (s : String) : Option (List Nat) := if s = "-" then some [] else natList? s

def stepRoller (s : RollerSt) (op res : List String) : Except String (St × List String) :=
  let r := " ".intercalate res
  match op with
  | "pre" :: name :: ids :: rest =>
    match textOfTok name, idsOf ids with
    | some name, some ids =>
      ok (.roller { s with fs := Roller.fsSet s.fs name { recs := ids.map (fun i => (i, 16)), gz := rest = ["gz"] } }) ["pre"]
    | _, _ => .error "bad-pre"
  | [o, ri] =>
    if o = "open" ∨ o = "restart" then
      match ri.toNat? with
      | some i =>
        match s.pols[i]? with
        | some p =>
          let (fs, st) := Roller.openRoller p s.fs s.now
          if r = "ok" then ok (.roller { s with fs := fs, sts := s.sts.setIfInBounds i (some st) }) [o] else .error "model=[ok]"
        | none => .error "bad-roller-index"
      | none => .error "bad-op"
    else if o = "advance" then
      match ri.toNat? with
      | some d => ok (.roller { s with now := s.now + d }) []
      | none => .error "bad-op"
    else .error "bad-op"
  | ["write", ri, id, len] =>
    match ri.toNat?, id.toNat?, len.toNat? with
    | some i, some id, some len =>
      match s.pols[i]?, (s.sts[i]?).join with
      | some p, some st =>
        let before := (Roller.findRolled p s.fs).length
        let timeRoll := Roller.periodStart p.gran s.now > st.pstart
        let (fs, st') := Roller.write p s.fs st (id, len) s.now
        let after := (Roller.findRolled p fs).length
        if r = toString len then
          let tie := !s.tainted && (anyTie s s.fs || anyTie s fs)
          ok (.roller { s with fs := fs, sts := s.sts.setIfInBounds i (some st'), tainted := s.tainted || tie })
            ((if timeRoll then ["roll-time"] else []) ++ (if st'.size = 0 ∧ len > 0 then ["roll-size"] else [])
              ++ (if after < before + (if timeRoll then 1 else 0) + (if st'.size = 0 ∧ len > 0 then 1 else 0) then ["retention-delete"] else [])
              ++ (if tie then ["tie-oracle"] else []) ++ ["write"])
        else .error s!"model=[{len}]"
      | _, _ => .error "write-on-closed-roller"
    | _, _, _ => .error "bad-op"
  | ["list"] =>
    let want := showListing s.fs
    if s.tainted then ok (.roller s) ["list-skipped-after-tie"]
    else if r = want then ok (.roller s) (["list"] ++ (if s.fs.any (fun e => e.2.gz) then ["list-with-gz"] else []))
    else .error s!"model=[{want}]"
  | _ => .error "bad-op"

def step (st : St) (op res : List String) : Except String (St × List String) :=
  match st with
  | .enc k ev => stepEnc k ev op res
  | .roller s => stepRoller s op res

def engine : Engine St := { init := init, step := step }

end Fv.Driver.Log
