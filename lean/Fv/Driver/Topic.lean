import Fv.Driver.Proto
import Fv.Chan.Topic
/-
Engine `topic`: replays topic pub/sub API programs on the model `Fv.Chan.Topic`.
  #case <id> prop=<C08|C04|all> cap=<n> kind=<sync|async> keys=<int|str>
  send h t v => ok | closed           sclone h => h<n>        sclose h => ok | closeerr
  sdrop h => unit                     sconv h => unit          sisclosed h => true | false
  sub r t => unit                     unsub r t => unit        rclone r => h<n>
  rclose r => ok | closeerr           rdrop r => unit          rconv r => unit
  tryrecv r => msg t v | empty | disc
  recv r    => msg t v | disc | wouldblock (sync, not executed) | pending (async poll) | skip
  rto0 r    => msg t v | disc | timeout
  next r    => msg t v | none | pending
  risclosed r / isempty r => true | false          cap r => <n>
Any operation on a missing/dropped handle or of the wrong flavour => invalid (not executed).
`recv r => skip`: the harness could not decide without blocking (empty mailbox, is_closed()
true); accepted iff the model agrees with those two observations.
-/
namespace Fv.Driver.Topic
open Fv.Chan.Topic

def kv (ws : List String) (key : String) : Option String :=
  (ws.find? (fun w => w.startsWith (key ++ "="))).map (fun w => (w.drop (key.length + 1)).toString)

def init (ws : List String) : Except String St :=
  match (kv ws "cap").bind String.toNat?, kv ws "kind" with
  | some c, some "sync" => .ok (Fv.Chan.Topic.init c .sync)
  | some c, some "async" => .ok (Fv.Chan.Topic.init c .async)
  | _, _ => .error "missing cap= / kind="

def parseOp (ws : List String) : Option Op :=
  match ws with
  | ["send", h, t, v] => do some (.send (← h.toNat?) (← t.toNat?) (← v.toNat?))
  | ["sclone", h] => do some (.sClone (← h.toNat?))
  | ["sclose", h] => do some (.sClose (← h.toNat?))
  | ["sdrop", h] => do some (.sDrop (← h.toNat?))
  | ["sconv", h] => do some (.sConv (← h.toNat?))
  | ["sisclosed", h] => do some (.sIsClosed (← h.toNat?))
  | ["sub", r, t] => do some (.subscribe (← r.toNat?) (← t.toNat?))
  | ["unsub", r, t] => do some (.unsubscribe (← r.toNat?) (← t.toNat?))
  | ["rclone", r] => do some (.rClone (← r.toNat?))
  | ["rclose", r] => do some (.rClose (← r.toNat?))
  | ["rdrop", r] => do some (.rDrop (← r.toNat?))
  | ["rconv", r] => do some (.rConv (← r.toNat?))
  | ["tryrecv", r] => do some (.tryRecv (← r.toNat?))
  | ["recv", r] => do some (.recv (← r.toNat?))
  | ["rto0", r] => do some (.recvTimeout0 (← r.toNat?))
  | ["next", r] => do some (.pollNext (← r.toNat?))
  | ["risclosed", r] => do some (.rIsClosed (← r.toNat?))
  | ["isempty", r] => do some (.isEmpty (← r.toNat?))
  | ["cap", r] => do some (.capacity (← r.toNat?))
  | _ => none

def showRes : Res → String
  | .unit => "unit"
  | .ok => "ok"
  | .closed => "closed"
  | .closeErr => "closeerr"
  | .msg t v => s!"msg {t} {v}"
  | .empty => "empty"
  | .disc => "disc"
  | .timeout => "timeout"
  | .wouldBlock => "wouldblock"
  | .pending => "pending"
  | .none => "none"
  | .bool b => if b then "true" else "false"
  | .nat n => toString n
  | .handle n => s!"h{n}"
  | .invalid => "invalid"

def resKind : Res → String
  | .msg _ _ => "msg"
  | .bool _ => "bool"
  | .nat _ => "nat"
  | .handle _ => "handle"
  | r => showRes r

/-- branch tags: which interesting path the model took -/
def tagsFor (s s' : St) (op : Op) (res : Res) : List String :=
  let base := [s!"{(showOpName op)}:{resKind res}"]
  let extra :=
    match op, res with
    | .send _ t _, .ok =>
      let tgt := (subsOf s t).filter (fun r => isLive s.rxs r)
      (if tgt.any (fun r => mailboxFull s r) then ["send:drop-newest-full"] else []) ++
      (if tgt.isEmpty then ["send:no-subscriber"] else []) ++
      (if tgt.any (fun r => !subscribedTo s r t) then ["send:to-closed-receiver"] else []) ++
      (if tgt.any (fun r => match s.rxs[r]? with | some x => x.disc | none => false) then ["send:to-disconnected-mailbox"] else [])
    | .sClose _, .ok => if sendersGone s' then ["sclose:last"] else ["sclose:other-sender-alive"]
    | .rClone _, .handle n =>
      match s'.rxs[n]? with
      | some x => if x.hasDisp then [] else ["rclone:dead"]
      | none => []
    | _, .disc => if sendersGone s then [] else ["disc:while-sender-alive"]
    | _, _ => []
  let wrap := if s'.rcount > 1000000 then ["rcount:wrapped"] else []
  base ++ extra ++ wrap
where
  showOpName : Op → String
    | .send .. => "send" | .sClone _ => "sclone" | .sClose _ => "sclose" | .sDrop _ => "sdrop"
    | .sConv _ => "sconv" | .sIsClosed _ => "sisclosed" | .subscribe .. => "sub"
    | .unsubscribe .. => "unsub" | .rClone _ => "rclone" | .rClose _ => "rclose"
    | .rDrop _ => "rdrop" | .rConv _ => "rconv" | .tryRecv _ => "tryrecv" | .recv _ => "recv"
    | .recvTimeout0 _ => "rto0" | .pollNext _ => "next" | .rIsClosed _ => "risclosed"
    | .isEmpty _ => "isempty" | .capacity _ => "cap"

def step (s : St) (opw resw : List String) : Except String (St × List String) :=
  match parseOp opw with
  | none => .error "unparsable op"
  | some op =>
    let impl := " ".intercalate resw
    match op, impl with
    | .recv r, "skip" =>
      -- not executed on the implementation; check the two observations the harness made
      match rxLive s r with
      | some x =>
        if x.buf.isEmpty && (x.closed || !upgradable s x) then .ok (s, ["recv:skip"])
        else .error s!"model=not-skippable(buf={x.buf.length},closed={x.closed})"
      | none => .error "model=invalid"
    | _, _ =>
      let (s', res) := Fv.Chan.Topic.step s op
      if showRes res = impl then .ok (s', tagsFor s s' op res)
      else .error s!"model={showRes res}"

def engine : Engine St := { init := init, step := step }

end Fv.Driver.Topic
