import Fv.Driver.LockedChan
def main : IO UInt32 := Fv.Driver.runEngine Fv.Driver.LockedChan.engine
