import Fv.Driver.Policy
def main : IO UInt32 := Fv.Driver.runEngine Fv.Driver.Policy.engine
