import Fv.Driver.CacheConc
def main : IO UInt32 := Fv.Driver.runEngine Fv.Driver.CacheConc.engine
