import Fv.Driver.OneshotB
def main : IO UInt32 := Fv.Driver.runEngine Fv.Driver.OneshotB.engine
