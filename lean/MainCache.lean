import Fv.Driver.Cache
def main : IO UInt32 := Fv.Driver.runEngine Fv.Driver.Cache.engine
