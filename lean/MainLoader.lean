import Fv.Driver.Loader
def main : IO UInt32 := Fv.Driver.runEngine Fv.Driver.Loader.engine
