import Fv.Driver.SpscB
def main : IO UInt32 := Fv.Driver.runEngine Fv.Driver.SpscB.engine
