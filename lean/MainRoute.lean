import Fv.Driver.Route
def main : IO UInt32 := Fv.Driver.runEngine Fv.Driver.Route.engine
