import Fv.Driver.Lock
def main : IO UInt32 := Fv.Driver.runEngine Fv.Driver.Lock.engine
