import Fv.Driver.Topic
def main : IO UInt32 := Fv.Driver.runEngine Fv.Driver.Topic.engine
