import Fv.Driver.SpmcB
def main : IO UInt32 := Fv.Driver.runEngine Fv.Driver.SpmcB.engine
