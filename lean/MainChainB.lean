import Fv.Driver.ChainBMpmc
def main : IO UInt32 := Fv.Driver.runEngine Fv.Driver.ChainB.engineAny
