import Fv.Driver.ChainB
def main : IO UInt32 := Fv.Driver.runEngine Fv.Driver.ChainB.engine
