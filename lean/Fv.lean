import Fv.Driver.Proto
