import Fv.Driver.Ioc
def main : IO UInt32 := Fv.Driver.runEngine Fv.Driver.Ioc.engine
