import Fv.Driver.Mpsc3B
def main : IO UInt32 := Fv.Driver.runEngine Fv.Driver.Mpsc3B.engine
