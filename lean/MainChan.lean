import Fv.Driver.Chan
def main (args : List String) : IO UInt32 :=
  Fv.Driver.runEngine (Fv.Driver.Chan.engine (args.contains "--liveness"))
