import Fv.Driver.Chan
def main : IO UInt32 := Fv.Driver.runEngine Fv.Driver.Chan.engine
