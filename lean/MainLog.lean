import Fv.Driver.Log
def main : IO UInt32 := Fv.Driver.runEngine Fv.Driver.Log.engine
