"""./check setup : build everything from files on disk (offline): every Lean property module and
driver executable, every harness crate against /repo's working tree. Checks rebuild on demand, so a
partial failure here is reported but does not stop the rest."""
import glob, os, re, shutil, sys, time
from . import sh, LEAN, VERIF, BUILD, REPO, CHAN_RUSTFLAGS

def main():
    t0 = time.time()
    rc_all = 0
    lf = open(os.path.join(LEAN, "lakefile.toml")).read()
    exes = re.findall(r'\[\[lean_exe\]\]\s*name\s*=\s*"([^"]+)"', lf)
    mods = ["Fv.Props." + os.path.basename(p)[:-5] for p in sorted(glob.glob(os.path.join(LEAN, "Fv", "Props", "*.lean")))]
    for tgt in mods + exes:
        rc, out, err = sh(["lake", "build", tgt], cwd=LEAN, timeout=7200)
        print("lake build %-24s rc=%d (%.0fs)" % (tgt, rc, time.time() - t0)); sys.stdout.flush()
        if rc:
            rc_all = 1; sys.stdout.write((out + err)[-1500:] + "\n")
    for d in sorted(glob.glob(os.path.join(VERIF, "harness", "*", "Cargo.toml"))):
        name = os.path.basename(os.path.dirname(d))
        if name == "common":
            continue
        hdir = os.path.dirname(d)
        if not os.path.exists(os.path.join(hdir, "Cargo.lock")) and os.path.exists(os.path.join(REPO, "Cargo.lock")):
            shutil.copy(os.path.join(REPO, "Cargo.lock"), os.path.join(hdir, "Cargo.lock"))
        flags = CHAN_RUSTFLAGS if name == "chan" else "--cfg excsn_fibre_verif"
        env = {"CARGO_TARGET_DIR": os.path.join(BUILD, "cargo", name), "RUSTFLAGS": flags}
        rc, out, err = sh(["cargo", "build", "--release", "--offline"], cwd=hdir, env=env, timeout=7200)
        print("cargo build harness/%-12s rc=%d (%.0fs)" % (name, rc, time.time() - t0)); sys.stdout.flush()
        if rc:
            rc_all = 1; sys.stdout.write(err[-1500:] + "\n")
    return rc_all
