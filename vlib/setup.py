"""./check setup : build everything from files on disk (offline)."""
import os, sys
from . import sh, LEAN, VERIF

def main():
    rc, out, err = sh(["lake", "build"], cwd=LEAN, timeout=7200)
    sys.stdout.write(out[-2000:]); sys.stderr.write(err[-2000:])
    return rc
