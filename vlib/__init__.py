"""Common machinery for /verif/check.

One property run = proof obligations (Lean) + correspondence ties (impl vs model
on the same inputs) + monitors (property predicate evaluated on the
implementation's own histories) + known findings + evidence + verdict.

See /verif/docs/CONVENTIONS.md for the transcript protocol.
"""
import hashlib
import json
import os
import re
import shutil
import subprocess
import sys
import time

VERIF = os.path.dirname(os.path.dirname(os.path.abspath(__file__)))
REPO = os.environ.get("VERIF_REPO", "/repo")
BUILD = os.path.join(VERIF, ".build")
LEAN = os.path.join(VERIF, "lean")
# RUSTFLAGS of EVERY build of the channel harness (harness/chan): the repository's own `--cfg loom` switch routes
# the migrated channels and hybrid locks onto the scheduler shim, the hook guard additionally puts `fibre::oneshot`
# on the same primitive seam (verif hook in oneshot/core.rs + mod.rs), so oneshot is really interleaved too.
# The one place to change it (harness/chan/.cargo/config.toml repeats it for bare `cargo build`).
CHAN_RUSTFLAGS = "--cfg loom --cfg excsn_fibre_verif"
ALLOWED_AXIOMS = {"propext", "Classical.choice", "Quot.sound"}
TRUSTED_BASE = [
    "Lean 4.33.0 kernel",
    "axioms: subset of {propext, Classical.choice, Quot.sound} (audited per theorem by #print axioms on every run)",
    "Lean compiler/runtime for the executable use of the model in the fvdrv_* drivers",
    "the hand-written correspondence harness (/verif/harness/*), its canonicalisation and /verif/check",
    "rustc/std and the third-party crates the code delegates to",
]
# `admit` only as a standalone tactic (the policy models have a function called `admit`)
BAD_TOKENS = re.compile(r"\bsorry\b|(?:^|[\s;(])(?<!\| )admit[ \t]*(?:$|;|<;>)|^axiom |native_decide|bv_decide|implemented_by|\bunsafe |maxHeartbeats 0", re.M)


def sh(cmd, cwd=None, env=None, timeout=None, input=None):
    e = dict(os.environ)
    e.update({"CARGO_NET_OFFLINE": "true"})
    if env:
        e.update(env)
    # own process group: on a timeout the whole pipeline (sh -c "harness | awk", worker processes) is killed,
    # not just its first process (an orphaned harness would keep leaking threads)
    p = subprocess.Popen(cmd, cwd=cwd, env=e, stdin=subprocess.PIPE if input is not None else None,
                         stdout=subprocess.PIPE, stderr=subprocess.PIPE, text=True, errors="replace",
                         start_new_session=True)
    try:
        out, err = p.communicate(input=input, timeout=timeout)
    except subprocess.TimeoutExpired:
        try:
            os.killpg(p.pid, 9)
        except OSError:
            pass
        p.communicate()
        raise
    return p.returncode, out, err


def strip_lean_comments(src):
    # remove nested block comments and line comments (good enough for the token audit)
    out, i, depth, n = [], 0, 0, len(src)
    while i < n:
        if src.startswith("/-", i):
            depth += 1; i += 2; continue
        if depth and src.startswith("-/", i):
            depth -= 1; i += 2; continue
        if depth:
            if src[i] == "\n":
                out.append("\n")
            i += 1; continue
        if src.startswith("--", i):
            while i < n and src[i] != "\n":
                i += 1
            continue
        out.append(src[i]); i += 1
    return "".join(out)


class Tie:
    """Result of one correspondence run."""
    def __init__(self, name):
        self.name = name
        self.cases = 0
        self.lines = 0
        self.distinct = 0
        self.mismatches = []      # (case_id, text)
        self.monitor_fails = []   # (case_id, signature, message)
        self.tags = {}
        self.samples = []
        self.errors = []          # machinery errors (build failed, driver crashed)
        self.transcript = None
        self.wall = 0.0


class Ctx:
    def __init__(self, prop, tier, seed, replay=None):
        self.prop, self.tier, self.seed, self.replay = prop, tier, seed, replay
        self.t0 = time.time()
        self.obligations = 0
        self.discharged = 0
        self.proof_failures = []   # names / messages
        self.ties = []
        self.known_printed = []
        self.violations = []       # (replay_path, found_input: bool)
        self.notes = []
        self.extra = {}
        self.assumptions = []
        self.theorems = []
        self.rundir = os.path.join(BUILD, "run", prop)
        os.makedirs(self.rundir, exist_ok=True)
        os.makedirs(os.path.join(VERIF, "evidence"), exist_ok=True)
        os.makedirs(os.path.join(VERIF, "replays"), exist_ok=True)
        kf = json.load(open(os.path.join(VERIF, "known_findings.json")))
        self.known = [f for f in kf.get("open", []) if f["property"] == prop]
        self.quick = tier == "quick"

    # ---------------------------------------------------------------- Lean
    def lean_obligations(self, module, theorems, extra_modules=()):
        """Build the property module, audit axioms of every listed theorem,
        grep sources for forbidden tokens."""
        self.theorems += list(theorems)
        self.obligations += len(theorems)
        rc, out, err = sh(["lake", "build", module, *extra_modules], cwd=LEAN, timeout=3000)
        if rc != 0:
            msg = (out + err)[-3000:]
            self.proof_failures.append({"module": module, "error": "lake build failed", "log": msg})
            return False
        if "declaration uses 'sorry'" in out + err or "declaration uses `sorry`" in out + err:
            self.proof_failures.append({"module": module, "error": "a declaration uses sorry", "log": (out + err)[-2000:]})
        # forbidden tokens in every file the property module (transitively) imports from this development
        todo, seen_files = [module, *extra_modules], set()
        while todo:
            mod = todo.pop()
            path = os.path.join(LEAN, *mod.split(".")) + ".lean"
            if path in seen_files or not os.path.exists(path):
                continue
            seen_files.add(path)
            raw = open(path).read()
            src = strip_lean_comments(raw)
            m = BAD_TOKENS.search(src)
            if m:
                self.proof_failures.append({"module": path, "error": "forbidden token " + m.group(0).strip()})
            todo += re.findall(r"^import\s+(Fv\.[A-Za-z0-9_.]+)", src, re.M)
        self.extra["lean_files_scanned"] = len(seen_files)
        audit = os.path.join(self.rundir, "Audit.lean")
        with open(audit, "w") as fh:
            fh.write("import %s\n" % module)
            for m in extra_modules:
                fh.write("import %s\n" % m)
            for t in theorems:
                fh.write("#print axioms %s\n" % t)
        rc, out, err = sh(["lake", "env", "lean", audit], cwd=LEAN, timeout=1200)
        text = out + err
        ok_all = True
        # parse "'name' depends on axioms: [a, b]" / "'name' does not depend on any axioms"
        seen = {}
        for m in re.finditer(r"'([^']+)' (does not depend on any axioms|depends on axioms: \[([^\]]*)\])", text, re.S):
            axs = set(a.strip() for a in (m.group(3) or "").replace("\n", " ").split(",") if a.strip())
            seen[m.group(1)] = axs
        for t in theorems:
            if t not in seen:
                ok_all = False
                self.proof_failures.append({"theorem": t, "error": "not found / did not elaborate", "log": text[-1500:]})
            elif not seen[t] <= ALLOWED_AXIOMS:
                ok_all = False
                self.proof_failures.append({"theorem": t, "error": "inadmissible axioms", "axioms": sorted(seen[t])})
            else:
                self.discharged += 1
        self.extra.setdefault("axioms", {}).update({t: sorted(a) for t, a in seen.items()})
        if self.tier == "thorough":
            rc, out, err = sh(["lake", "env", "leanchecker", module], cwd=LEAN, timeout=3000)
            self.extra.setdefault("leanchecker", {})[module] = rc
            if rc != 0:
                ok_all = False
                self.proof_failures.append({"module": module, "error": "leanchecker rejected", "log": (out + err)[-1500:]})
        return ok_all and not self.proof_failures

    def lean_exe(self, name):
        rc, out, err = sh(["lake", "build", name], cwd=LEAN, timeout=3000)
        if rc != 0:
            raise RuntimeError("lake build %s failed:\n%s" % (name, (out + err)[-3000:]))
        return os.path.join(LEAN, ".lake", "build", "bin", name)

    # ---------------------------------------------------------------- Rust
    def cargo_build(self, harness, bin=None, rustflags="--cfg excsn_fibre_verif", release=True, features=None):
        """Build /verif/harness/<harness> against /repo's current working tree."""
        hdir = os.path.join(VERIF, "harness", harness)
        lock = os.path.join(REPO, "Cargo.lock")
        tgt = os.path.join(BUILD, "cargo", harness)
        os.makedirs(tgt, exist_ok=True)
        if os.path.exists(os.path.join(hdir, "Cargo.lock.seed")):
            shutil.copy(os.path.join(hdir, "Cargo.lock.seed"), os.path.join(hdir, "Cargo.lock"))
        elif os.path.exists(lock) and not os.path.exists(os.path.join(hdir, "Cargo.lock")):
            shutil.copy(lock, os.path.join(hdir, "Cargo.lock"))
        if REPO != "/repo":
            # mutation testing against a scratch copy of the repository without touching /repo: the
            # harness crates name /repo/... as path dependencies; cargo's `paths` override swaps in the
            # packages of the scratch tree, and a separate target dir keeps the normal cache clean
            tgt = os.path.join(BUILD, "cargo-alt", harness)
            os.makedirs(tgt, exist_ok=True)
        cmd = ["cargo", "build", "--offline"] + (["--release"] if release else [])
        if REPO != "/repo":
            cmd += ["--config", "paths=[%s]" % ",".join('"%s/%s"' % (REPO, d) for d in ("cache", "channels", "ioc", "logging"))]
        if bin:
            cmd += ["--bin", bin]
        if features:
            cmd += ["--features", features]
        env = {"CARGO_TARGET_DIR": tgt, "RUSTFLAGS": rustflags, "VERIF_REPO": REPO}
        rc, out, err = sh(cmd, cwd=hdir, env=env, timeout=3000)
        if rc != 0:
            raise RuntimeError("cargo build %s failed:\n%s" % (harness, err[-4000:]))
        return os.path.join(tgt, "release" if release else "debug", bin or harness)

    # ---------------------------------------------------------------- ties
    def tie(self, name, gen_cmd, drv_cmd, env=None, timeout=1800, keep_samples=3, input_text=None, shrink_with=None):
        """Run the implementation harness (gen_cmd -> transcript on stdout), then the Lean
        driver on that transcript. Collect mismatches, monitor failures, tags."""
        t = Tie(name)
        t.shrink_with = shrink_with   # [harness_bin, 'run'] for sequential op-line cases
        t.drv_cmd = drv_cmd
        t.env = env
        t0 = time.time()
        tr = os.path.join(self.rundir, name + ".transcript")
        try:
            rc, out, err = sh(gen_cmd, env=env, timeout=timeout, input=input_text)
        except subprocess.TimeoutExpired:
            t.errors.append("harness timeout: " + " ".join(gen_cmd)); self.ties.append(t); return t
        open(tr, "w").write(out)
        t.transcript = tr
        if rc != 0:
            t.errors.append("harness exit %d: %s" % (rc, err[-2000:]))
        cases = split_cases(out)
        t.cases = len(cases)
        t.lines = sum(len(c["lines"]) for c in cases.values())
        hs = set()
        for cid, c in cases.items():
            body = "\n".join(l.split(" => ")[0] for l in c["lines"])
            if len(c["lines"]) >= 2:
                hs.add(hashlib.sha1((c["header"].split(" ", 2)[-1] + "\n" + body).encode()).hexdigest())
            for l in c["monitors"]:
                sig, _, msg = l.partition(" | ")
                t.monitor_fails.append((cid, sig.strip(), msg.strip()))
        t.distinct = len(hs)
        for cid in list(cases)[:keep_samples]:
            c = cases[cid]
            t.samples.append({"case": c["header"], "lines": c["lines"][:40]})
        if drv_cmd is not None:
            try:
                rc, dout, derr = sh(drv_cmd, timeout=timeout, input=out)
            except subprocess.TimeoutExpired:
                t.errors.append("driver timeout"); self.ties.append(t); return t
            okline = False
            for l in dout.splitlines():
                if l.startswith("MISMATCH"):
                    m = re.search(r"case=(\S+)", l)
                    t.mismatches.append((m.group(1) if m else "?", l))
                elif l.startswith("TAG "):
                    p = l.split()
                    t.tags[p[1]] = t.tags.get(p[1], 0) + int(p[2])
                elif l.startswith("OK "):
                    okline = True
                    m = re.search(r"cases=(\d+)", l)
                    if m and int(m.group(1)) != t.cases:
                        t.errors.append("driver saw %s cases, harness produced %d" % (m.group(1), t.cases))
            if rc != 0 or not okline:
                t.errors.append("driver exit %d / no OK line: %s" % (rc, (dout[-500:] + derr[-1500:])))
        t.wall = time.time() - t0
        t.cases_map = cases
        self.ties.append(t)
        return t

    # ---------------------------------------------------------------- shrinking
    def shrink(self, tie, cid, want_sig=None, budget_s=40):
        """Delta-debug the op lines of a failing sequential case. The failure to preserve is the
        monitor signature `want_sig`, or (want_sig None) any model/implementation mismatch."""
        c = getattr(tie, "cases_map", {}).get(cid)
        if not c or not tie.shrink_with:
            return None
        ops = [l.split(" => ")[0] for l in c["lines"]]
        header = c["header"]
        t_end = time.time() + budget_s
        tmp = os.path.join(self.rundir, "shrink.case")

        def fails(cand):
            open(tmp, "w").write(header + "\n" + "\n".join(cand) + "\n#end\n")
            try:
                rc, out, err = sh(tie.shrink_with + [tmp], env=tie.env, timeout=60)
            except subprocess.TimeoutExpired:
                return False, ""
            if want_sig is not None:
                ok = any(l.startswith("!monitor " + want_sig) for l in out.splitlines())
                return ok, out
            if tie.drv_cmd is None:
                return False, out
            try:
                rc, dout, derr = sh(tie.drv_cmd, timeout=60, input=out)
            except subprocess.TimeoutExpired:
                return False, out
            return ("MISMATCH" in dout), out + "".join("# " + l + "\n" for l in dout.splitlines() if l.startswith("MISMATCH"))

        ok, best_out = fails(ops)
        if not ok:
            return None
        n = 2
        while len(ops) >= 2 and time.time() < t_end:
            chunk = max(1, len(ops) // n)
            reduced = False
            for i in range(0, len(ops), chunk):
                cand = ops[:i] + ops[i + chunk:]
                if not cand:
                    continue
                ok, out = fails(cand)
                if ok:
                    ops, best_out, reduced = cand, out, True
                    n = max(n - 1, 2)
                    break
                if time.time() > t_end:
                    break
            if not reduced:
                if chunk == 1:
                    break
                n = min(len(ops), n * 2)
        return best_out

    # ---------------------------------------------------------------- verdict
    def write_replay(self, kind, tie, cid, text, extra=None):
        cases = getattr(tie, "cases_map", {}) if tie else {}
        path = os.path.join(VERIF, "replays", "%s_%s_%s.replay" % (self.prop, kind, re.sub(r"\W+", "_", str(cid))[:40]))
        with open(path, "w") as fh:
            fh.write("# property %s tier %s seed %d\n# kind: %s\n# %s\n" % (self.prop, self.tier, self.seed, kind, text.replace("\n", "\n# ")))
            if extra:
                fh.write("# " + extra.replace("\n", "\n# ") + "\n")
            if tie is not None:
                fh.write("# tie: %s\n# re-run: ./check %s --replay %s\n" % (tie.name, self.prop, path))
            c = cases.get(cid)
            if c:
                fh.write(c["header"] + "\n" + "\n".join(c["raw"]) + "\n#end\n")
        return path

    def finish(self, nontrivial_rule="case with >= 2 operation lines, distinct by (config, op sequence) hash"):
        known_sigs = {f["signature"]: f for f in self.known}
        out_lines = []
        printed_known = set()
        violation = None   # (path, found_input)
        for t in self.ties:
            for cid, sig, msg in t.monitor_fails:
                if sig in known_sigs:
                    if sig not in printed_known:
                        printed_known.add(sig)
                        out_lines.append("KNOWN-FINDING: property=%s %s (%s)" % (self.prop, sig, known_sigs[sig].get("what", msg)))
                elif violation is None or not violation[1]:
                    p = self.write_replay("monitor", t, cid, "implementation history violates the property: %s | %s" % (sig, msg))
                    small = self.shrink(t, cid, want_sig=sig)
                    if small:
                        open(p, "a").write("# ---- minimised (delta debugging over the op list), re-run on the implementation:\n" + small)
                    violation = (p, True)
        if violation is None:
            for t in self.ties:
                # a disagreement on a case whose implementation history already exhibits a listed known
                # finding is that finding (the spec-level model says what the property says), not a new alarm
                # Only where the property script says its model is spec-level there (`attribute_mismatches`):
                # the channel / cache models mirror the code's known defects, so for them a disagreement is
                # always a broken correspondence, also on a case that exhibits a known finding.
                known_cases = {cid for cid, sig, _ in t.monitor_fails if sig in known_sigs} if getattr(self, "attribute_mismatches", False) else set()
                attributed = [m for m in t.mismatches if m[0] in known_cases]
                t.mismatches = [m for m in t.mismatches if m[0] not in known_cases]
                t.attributed_to_known = len(attributed)
                if t.mismatches:
                    cid, text = t.mismatches[0]
                    p = self.write_replay("correspondence", t, cid,
                                          "model/implementation correspondence broken in tie '%s': %s" % (t.name, text),
                                          "no implementation history violating the property itself was found in this run")
                    small = self.shrink(t, cid, want_sig=None)
                    if small:
                        open(p, "a").write("# ---- minimised disagreement (delta debugging over the op list):\n" + small)
                    violation = (p, False); break
                if t.errors:
                    p = self.write_replay("machinery", t, "err", "tie '%s' could not be checked: %s" % (t.name, "; ".join(t.errors)))
                    violation = (p, False); break
        if violation is None and self.proof_failures:
            p = os.path.join(VERIF, "replays", "%s_proof.replay" % self.prop)
            json.dump({"property": self.prop, "broken_obligations": self.proof_failures}, open(p, "w"), indent=1)
            violation = (p, False)
        ev = {
            "property_id": self.prop, "tier": self.tier, "seed": self.seed, "level": "proof",
            "coverage": {
                "obligations": self.obligations, "discharged": self.discharged,
                "checker_cmd": "cd /verif/lean && lake build <module> && lake env lean <audit file with #print axioms per theorem>" + (" && lake env leanchecker <module>" if self.tier == "thorough" else ""),
                "trusted_base": TRUSTED_BASE,
                "theorems": self.theorems,
                "evaluations": sum(t.cases for t in self.ties),
                "distinct_nontrivial": sum(t.distinct for t in self.ties),
                "rule": nontrivial_rule,
                "traces_validated_against_impl": sum(t.cases for t in self.ties if not t.errors),
                "samples": [s for t in self.ties for s in t.samples][:6],
                "ties": [{"name": t.name, "cases": t.cases, "op_lines": t.lines, "distinct_nontrivial": t.distinct,
                          "mismatches": len(t.mismatches), "mismatches_attributed_to_known_findings": getattr(t, "attributed_to_known", 0), "monitor_failures": len(t.monitor_fails),
                          "branch_tags": t.tags, "errors": t.errors, "wall_s": round(t.wall, 2)} for t in self.ties],
                "known_findings_reproduced": sorted(printed_known),
                "proof_failures": self.proof_failures,
                "notes": self.notes,
            },
            "assumptions": self.assumptions,
            "wall_s": round(time.time() - self.t0, 2),
            "violations": 1 if violation else 0,
        }
        ev["coverage"].update(self.extra)
        json.dump(ev, open(os.path.join(VERIF, "evidence", self.prop + ".json"), "w"), indent=1)
        for l in out_lines:
            print(l)
        if violation:
            print("VIOLATION property=%s replay=%s%s" % (self.prop, violation[0], "" if violation[1] else " no-failing-input-found"))
            return 1
        print("OK property=%s obligations=%d/%d cases=%d wall=%.1fs" % (
            self.prop, self.discharged, self.obligations, sum(t.cases for t in self.ties), time.time() - self.t0))
        return 0


def split_cases(text):
    """Transcript -> {case_id: {header, lines (op => result), monitors, raw}}"""
    cases, cur = {}, None
    for l in text.splitlines():
        if l.startswith("#case "):
            cid = l.split()[1]
            cur = {"header": l, "lines": [], "monitors": [], "raw": []}
            cases[cid] = cur
        elif l.startswith("#end"):
            cur = None
        elif cur is not None:
            cur["raw"].append(l)
            if l.startswith("!monitor "):
                cur["monitors"].append(l[len("!monitor "):])
            elif not l.startswith("#"):
                cur["lines"].append(l)
    return cases
