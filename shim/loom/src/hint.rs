//! `loom::hint`: spin hints are yielding scheduling points.

#[inline]
pub fn spin_loop() {
  crate::rt::yield_point_kind("spin");
}

/// Same contract as `std::hint::unreachable_unchecked`.
///
/// # Safety
/// Reaching this is undefined behaviour.
#[inline]
pub unsafe fn unreachable_unchecked() -> ! {
  std::hint::unreachable_unchecked()
}
