//! `loom::thread` subset: scheduler threads with std fallbacks for
//! unregistered callers.

use crate::rt::{self, ThreadInner};
use std::fmt;

#[derive(Clone)]
pub struct Thread {
  inner: ThreadInner,
}

#[derive(Clone, Copy, Debug, PartialEq, Eq, Hash)]
pub enum ThreadId {
  Sched { exec: u64, tid: usize },
  Real(std::thread::ThreadId),
}

impl Thread {
  pub fn unpark(&self) {
    rt::unpark(&self.inner);
  }

  pub fn id(&self) -> ThreadId {
    match &self.inner {
      ThreadInner::Sched { exec, tid } => ThreadId::Sched { exec: rt::exec_id(exec), tid: *tid },
      ThreadInner::Real(t) => ThreadId::Real(t.id()),
    }
  }

  pub fn name(&self) -> Option<&str> {
    match &self.inner {
      ThreadInner::Sched { .. } => None,
      ThreadInner::Real(t) => t.name(),
    }
  }

  /// Scheduler thread id, if this is a scheduler thread (shim extension).
  pub fn sched_tid(&self) -> Option<usize> {
    match &self.inner {
      ThreadInner::Sched { tid, .. } => Some(*tid),
      ThreadInner::Real(_) => None,
    }
  }
}

impl fmt::Debug for Thread {
  fn fmt(&self, f: &mut fmt::Formatter<'_>) -> fmt::Result {
    match &self.inner {
      ThreadInner::Sched { tid, .. } => write!(f, "Thread(sched {})", tid),
      ThreadInner::Real(_) => write!(f, "Thread(real)"),
    }
  }
}

pub fn current() -> Thread {
  Thread { inner: rt::current_thread_inner() }
}

pub fn park() {
  rt::park();
}

/// Shim extension (not in loom): `park` with a timeout, see `rt::park_timeout`. fibre reaches it through its
/// `internal::sync` seam when built with `--cfg loom --cfg excsn_fibre_verif`.
pub fn park_timeout(dur: std::time::Duration) {
  rt::park_timeout(dur);
}

pub fn yield_now() {
  rt::yield_point();
}

pub fn panicking() -> bool {
  std::thread::panicking()
}

enum JoinInner<T> {
  Sched(rt::SchedJoin<T>),
  Real(std::thread::JoinHandle<T>),
}

pub struct JoinHandle<T> {
  inner: JoinInner<T>,
}

impl<T> JoinHandle<T> {
  pub fn join(self) -> std::thread::Result<T> {
    match self.inner {
      JoinInner::Sched(j) => j.join(),
      JoinInner::Real(j) => j.join(),
    }
  }

  pub fn thread(&self) -> Thread {
    match &self.inner {
      JoinInner::Sched(j) => Thread { inner: j.thread() },
      JoinInner::Real(j) => Thread { inner: ThreadInner::Real(j.thread().clone()) },
    }
  }

  pub fn is_finished(&self) -> bool {
    match &self.inner {
      JoinInner::Sched(j) => j.is_finished(),
      JoinInner::Real(j) => j.is_finished(),
    }
  }

  /// Scheduler thread id of the spawned thread (shim extension).
  pub fn sched_tid(&self) -> Option<usize> {
    match &self.inner {
      JoinInner::Sched(j) => Some(j.tid()),
      JoinInner::Real(_) => None,
    }
  }
}

impl<T> fmt::Debug for JoinHandle<T> {
  fn fmt(&self, f: &mut fmt::Formatter<'_>) -> fmt::Result {
    f.write_str("JoinHandle")
  }
}

pub fn spawn<F, T>(f: F) -> JoinHandle<T>
where
  F: FnOnce() -> T + Send + 'static,
  T: Send + 'static,
{
  Builder::new().spawn(f).expect("spawn")
}

#[derive(Debug, Default)]
pub struct Builder {
  name: Option<String>,
  stack_size: Option<usize>,
}

impl Builder {
  pub fn new() -> Self {
    Builder { name: None, stack_size: None }
  }

  pub fn name(mut self, name: String) -> Self {
    self.name = Some(name);
    self
  }

  pub fn stack_size(mut self, size: usize) -> Self {
    self.stack_size = Some(size);
    self
  }

  pub fn spawn<F, T>(self, f: F) -> std::io::Result<JoinHandle<T>>
  where
    F: FnOnce() -> T + Send + 'static,
    T: Send + 'static,
  {
    match rt::spawn_sched(self.name.clone(), self.stack_size, f) {
      Ok(j) => Ok(JoinHandle { inner: JoinInner::Sched(j) }),
      Err(f) => {
        let mut b = std::thread::Builder::new();
        if let Some(n) = self.name {
          b = b.name(n);
        }
        if let Some(s) = self.stack_size {
          b = b.stack_size(s);
        }
        b.spawn(f).map(|j| JoinHandle { inner: JoinInner::Real(j) })
      }
    }
  }
}
