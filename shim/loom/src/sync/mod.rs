//! `loom::sync` subset.

pub mod atomic;
mod mutex;

pub use mutex::{Mutex, MutexGuard};
/// Reference counting is not a scheduling point in this shim: `Arc` is std's.
/// (Refcount traffic is not observable at the API level; who runs the shared
/// state's destructor is, and that is decided by the order of the handle
/// drops, whose other actions *are* scheduling points.)
pub use std::sync::Arc;
pub use std::sync::{LockResult, PoisonError, TryLockError, TryLockResult, Weak};
