//! `loom::sync::atomic` subset: std atomics behind a scheduling point.

use crate::rt;
use std::fmt;
pub use std::sync::atomic::Ordering;

#[inline]
pub fn fence(order: Ordering) {
  rt::sched_point();
  std::sync::atomic::fence(order);
}

#[inline]
pub fn compiler_fence(order: Ordering) {
  std::sync::atomic::compiler_fence(order);
}

macro_rules! common {
  ($name:ident, $std:ty, $t:ty) => {
    #[repr(transparent)]
    pub struct $name {
      v: $std,
    }

    impl $name {
      #[inline]
      pub const fn new(v: $t) -> Self {
        Self { v: <$std>::new(v) }
      }
      #[inline]
      pub fn load(&self, o: Ordering) -> $t {
        rt::sched_point();
        self.v.load(o)
      }
      #[inline]
      pub fn store(&self, val: $t, o: Ordering) {
        rt::sched_point();
        self.v.store(val, o)
      }
      #[inline]
      pub fn swap(&self, val: $t, o: Ordering) -> $t {
        rt::sched_point();
        self.v.swap(val, o)
      }
      #[inline]
      pub fn compare_exchange(&self, cur: $t, new: $t, s: Ordering, f: Ordering) -> Result<$t, $t> {
        rt::sched_point();
        self.v.compare_exchange(cur, new, s, f)
      }
      /// Never fails spuriously in this shim (documented deviation).
      #[inline]
      pub fn compare_exchange_weak(&self, cur: $t, new: $t, s: Ordering, f: Ordering) -> Result<$t, $t> {
        rt::sched_point();
        self.v.compare_exchange(cur, new, s, f)
      }
      /// One scheduling point, then the whole read-modify-write atomically.
      #[inline]
      pub fn fetch_update<F>(&self, s: Ordering, f: Ordering, func: F) -> Result<$t, $t>
      where
        F: FnMut($t) -> Option<$t>,
      {
        rt::sched_point();
        self.v.fetch_update(s, f, func)
      }
      #[inline]
      pub fn get_mut(&mut self) -> &mut $t {
        self.v.get_mut()
      }
      #[inline]
      pub fn into_inner(self) -> $t {
        self.v.into_inner()
      }
      /// loom API: exclusive access through a closure.
      #[inline]
      pub fn with_mut<R>(&mut self, f: impl FnOnce(&mut $t) -> R) -> R {
        f(self.v.get_mut())
      }
      /// loom API.
      ///
      /// # Safety
      /// Caller guarantees there is no concurrent writer.
      #[inline]
      pub unsafe fn unsync_load(&self) -> $t {
        self.v.load(Ordering::Relaxed)
      }
      #[inline]
      pub fn as_ptr(&self) -> *mut $t {
        self.v.as_ptr()
      }
    }

    impl fmt::Debug for $name {
      fn fmt(&self, f: &mut fmt::Formatter<'_>) -> fmt::Result {
        // not a scheduling point
        fmt::Debug::fmt(&self.v.load(Ordering::Relaxed), f)
      }
    }

    impl From<$t> for $name {
      fn from(v: $t) -> Self {
        Self::new(v)
      }
    }
  };
}

macro_rules! int_atomic {
  ($name:ident, $std:ty, $t:ty) => {
    common!($name, $std, $t);

    impl Default for $name {
      fn default() -> Self {
        Self::new(0)
      }
    }

    impl $name {
      #[inline]
      pub fn fetch_add(&self, val: $t, o: Ordering) -> $t {
        rt::sched_point();
        self.v.fetch_add(val, o)
      }
      #[inline]
      pub fn fetch_sub(&self, val: $t, o: Ordering) -> $t {
        rt::sched_point();
        self.v.fetch_sub(val, o)
      }
      #[inline]
      pub fn fetch_and(&self, val: $t, o: Ordering) -> $t {
        rt::sched_point();
        self.v.fetch_and(val, o)
      }
      #[inline]
      pub fn fetch_nand(&self, val: $t, o: Ordering) -> $t {
        rt::sched_point();
        self.v.fetch_nand(val, o)
      }
      #[inline]
      pub fn fetch_or(&self, val: $t, o: Ordering) -> $t {
        rt::sched_point();
        self.v.fetch_or(val, o)
      }
      #[inline]
      pub fn fetch_xor(&self, val: $t, o: Ordering) -> $t {
        rt::sched_point();
        self.v.fetch_xor(val, o)
      }
      #[inline]
      pub fn fetch_max(&self, val: $t, o: Ordering) -> $t {
        rt::sched_point();
        self.v.fetch_max(val, o)
      }
      #[inline]
      pub fn fetch_min(&self, val: $t, o: Ordering) -> $t {
        rt::sched_point();
        self.v.fetch_min(val, o)
      }
    }
  };
}

int_atomic!(AtomicU8, std::sync::atomic::AtomicU8, u8);
int_atomic!(AtomicU16, std::sync::atomic::AtomicU16, u16);
int_atomic!(AtomicU32, std::sync::atomic::AtomicU32, u32);
int_atomic!(AtomicU64, std::sync::atomic::AtomicU64, u64);
int_atomic!(AtomicUsize, std::sync::atomic::AtomicUsize, usize);
int_atomic!(AtomicI8, std::sync::atomic::AtomicI8, i8);
int_atomic!(AtomicI16, std::sync::atomic::AtomicI16, i16);
int_atomic!(AtomicI32, std::sync::atomic::AtomicI32, i32);
int_atomic!(AtomicI64, std::sync::atomic::AtomicI64, i64);
int_atomic!(AtomicIsize, std::sync::atomic::AtomicIsize, isize);

common!(AtomicBool, std::sync::atomic::AtomicBool, bool);

impl Default for AtomicBool {
  fn default() -> Self {
    Self::new(false)
  }
}

impl AtomicBool {
  #[inline]
  pub fn fetch_and(&self, val: bool, o: Ordering) -> bool {
    rt::sched_point();
    self.v.fetch_and(val, o)
  }
  #[inline]
  pub fn fetch_nand(&self, val: bool, o: Ordering) -> bool {
    rt::sched_point();
    self.v.fetch_nand(val, o)
  }
  #[inline]
  pub fn fetch_or(&self, val: bool, o: Ordering) -> bool {
    rt::sched_point();
    self.v.fetch_or(val, o)
  }
  #[inline]
  pub fn fetch_xor(&self, val: bool, o: Ordering) -> bool {
    rt::sched_point();
    self.v.fetch_xor(val, o)
  }
}

#[repr(transparent)]
pub struct AtomicPtr<T> {
  v: std::sync::atomic::AtomicPtr<T>,
}

impl<T> AtomicPtr<T> {
  #[inline]
  pub const fn new(p: *mut T) -> Self {
    Self { v: std::sync::atomic::AtomicPtr::new(p) }
  }
  #[inline]
  pub fn load(&self, o: Ordering) -> *mut T {
    rt::sched_point();
    self.v.load(o)
  }
  #[inline]
  pub fn store(&self, p: *mut T, o: Ordering) {
    rt::sched_point();
    self.v.store(p, o)
  }
  #[inline]
  pub fn swap(&self, p: *mut T, o: Ordering) -> *mut T {
    rt::sched_point();
    self.v.swap(p, o)
  }
  #[inline]
  pub fn compare_exchange(&self, cur: *mut T, new: *mut T, s: Ordering, f: Ordering) -> Result<*mut T, *mut T> {
    rt::sched_point();
    self.v.compare_exchange(cur, new, s, f)
  }
  #[inline]
  pub fn compare_exchange_weak(&self, cur: *mut T, new: *mut T, s: Ordering, f: Ordering) -> Result<*mut T, *mut T> {
    rt::sched_point();
    self.v.compare_exchange(cur, new, s, f)
  }
  #[inline]
  pub fn fetch_update<F>(&self, s: Ordering, f: Ordering, func: F) -> Result<*mut T, *mut T>
  where
    F: FnMut(*mut T) -> Option<*mut T>,
  {
    rt::sched_point();
    self.v.fetch_update(s, f, func)
  }
  #[inline]
  pub fn get_mut(&mut self) -> &mut *mut T {
    self.v.get_mut()
  }
  #[inline]
  pub fn into_inner(self) -> *mut T {
    self.v.into_inner()
  }
  #[inline]
  pub fn with_mut<R>(&mut self, f: impl FnOnce(&mut *mut T) -> R) -> R {
    f(self.v.get_mut())
  }
  /// # Safety
  /// Caller guarantees there is no concurrent writer.
  #[inline]
  pub unsafe fn unsync_load(&self) -> *mut T {
    self.v.load(Ordering::Relaxed)
  }
}

impl<T> Default for AtomicPtr<T> {
  fn default() -> Self {
    Self::new(std::ptr::null_mut())
  }
}

impl<T> fmt::Debug for AtomicPtr<T> {
  fn fmt(&self, f: &mut fmt::Formatter<'_>) -> fmt::Result {
    // never print addresses
    f.write_str("AtomicPtr(..)")
  }
}

impl<T> From<*mut T> for AtomicPtr<T> {
  fn from(p: *mut T) -> Self {
    Self::new(p)
  }
}
