//! `loom::sync::atomic` subset: std atomics behind a scheduling point.
//!
//! Every atomic carries its creation index within the current execution (0 =
//! created outside a tracing execution) so that `--atomics` traces can name
//! objects by construction order.

use crate::rt;
use std::fmt;
pub use std::sync::atomic::Ordering;

#[inline]
pub fn fence(order: Ordering) {
  rt::sched_point();
  std::sync::atomic::fence(order);
  if rt::tracing() {
    rt::log_action("fence", "-", rt::ord_token(order), "-", "-", "-");
  }
}

#[inline]
pub fn compiler_fence(order: Ordering) {
  std::sync::atomic::compiler_fence(order);
}

trait Tok {
  fn tok(&self) -> String;
}
macro_rules! tok_int {
  ($($t:ty),*) => { $( impl Tok for $t { fn tok(&self) -> String { self.to_string() } } )* };
}
tok_int!(u8, u16, u32, u64, usize, i8, i16, i32, i64, isize);
impl Tok for bool {
  fn tok(&self) -> String {
    if *self { "1".into() } else { "0".into() }
  }
}
impl<T> Tok for *mut T {
  fn tok(&self) -> String {
    rt::ptr_token(*self as usize)
  }
}

#[cold]
fn log(kind: &str, id: u32, ty: &str, ord: String, old: String, new: String, ok: &str) {
  let obj = if id == 0 { format!("a?:{}", ty) } else { format!("a{}:{}", id, ty) };
  rt::log_action(kind, &obj, &ord, &old, &new, ok);
}

fn o1(o: Ordering) -> String {
  rt::ord_token(o).to_string()
}
fn o2(s: Ordering, f: Ordering) -> String {
  format!("{}/{}", rt::ord_token(s), rt::ord_token(f))
}

macro_rules! common {
  ($name:ident, $std:ty, $t:ty, $tyname:expr) => {
    pub struct $name {
      v: $std,
      id: u32,
    }

    impl $name {
      #[inline]
      #[track_caller]
      pub fn new(v: $t) -> Self {
        let id = if rt::tracing() { rt::new_obj(false, $tyname, &Tok::tok(&v), std::panic::Location::caller()) } else { 0 };
        Self { v: <$std>::new(v), id }
      }
      #[inline]
      pub fn load(&self, o: Ordering) -> $t {
        rt::sched_point();
        let r = self.v.load(o);
        if rt::tracing() {
          log("load", self.id, $tyname, o1(o), r.tok(), r.tok(), "-");
        }
        r
      }
      #[inline]
      pub fn store(&self, val: $t, o: Ordering) {
        rt::sched_point();
        if rt::tracing() {
          let old = self.v.load(Ordering::Relaxed);
          self.v.store(val, o);
          log("store", self.id, $tyname, o1(o), old.tok(), val.tok(), "-");
        } else {
          self.v.store(val, o)
        }
      }
      #[inline]
      pub fn swap(&self, val: $t, o: Ordering) -> $t {
        rt::sched_point();
        let r = self.v.swap(val, o);
        if rt::tracing() {
          log("swap", self.id, $tyname, o1(o), r.tok(), val.tok(), "-");
        }
        r
      }
      #[inline]
      pub fn compare_exchange(&self, cur: $t, new: $t, s: Ordering, f: Ordering) -> Result<$t, $t> {
        rt::sched_point();
        let r = self.v.compare_exchange(cur, new, s, f);
        if rt::tracing() {
          match r {
            Ok(old) => log("cas", self.id, $tyname, o2(s, f), old.tok(), new.tok(), "1"),
            Err(old) => log("cas", self.id, $tyname, o2(s, f), old.tok(), old.tok(), "0"),
          }
        }
        r
      }
      /// Never fails spuriously in this shim (documented deviation).
      #[inline]
      pub fn compare_exchange_weak(&self, cur: $t, new: $t, s: Ordering, f: Ordering) -> Result<$t, $t> {
        rt::sched_point();
        let r = self.v.compare_exchange(cur, new, s, f);
        if rt::tracing() {
          match r {
            Ok(old) => log("casw", self.id, $tyname, o2(s, f), old.tok(), new.tok(), "1"),
            Err(old) => log("casw", self.id, $tyname, o2(s, f), old.tok(), old.tok(), "0"),
          }
        }
        r
      }
      /// One scheduling point, then the whole read-modify-write atomically.
      #[inline]
      pub fn fetch_update<F>(&self, s: Ordering, f: Ordering, func: F) -> Result<$t, $t>
      where
        F: FnMut($t) -> Option<$t>,
      {
        rt::sched_point();
        let r = self.v.fetch_update(s, f, func);
        if rt::tracing() {
          let now = self.v.load(Ordering::Relaxed);
          match r {
            Ok(old) => log("fupd", self.id, $tyname, o2(s, f), old.tok(), now.tok(), "1"),
            Err(old) => log("fupd", self.id, $tyname, o2(s, f), old.tok(), old.tok(), "0"),
          }
        }
        r
      }
      #[inline]
      pub fn get_mut(&mut self) -> &mut $t {
        self.v.get_mut()
      }
      #[inline]
      pub fn into_inner(self) -> $t {
        self.v.into_inner()
      }
      /// loom API: exclusive access through a closure.
      #[inline]
      pub fn with_mut<R>(&mut self, f: impl FnOnce(&mut $t) -> R) -> R {
        f(self.v.get_mut())
      }
      /// loom API.
      ///
      /// # Safety
      /// Caller guarantees there is no concurrent writer.
      #[inline]
      pub unsafe fn unsync_load(&self) -> $t {
        self.v.load(Ordering::Relaxed)
      }
      #[inline]
      pub fn as_ptr(&self) -> *mut $t {
        self.v.as_ptr()
      }
    }

    impl fmt::Debug for $name {
      fn fmt(&self, f: &mut fmt::Formatter<'_>) -> fmt::Result {
        // not a scheduling point
        fmt::Debug::fmt(&self.v.load(Ordering::Relaxed), f)
      }
    }

    impl From<$t> for $name {
      #[track_caller]
      fn from(v: $t) -> Self {
        Self::new(v)
      }
    }
  };
}

macro_rules! rmw {
  ($name:ident, $t:ty, $tyname:expr, $( ($m:ident, $kind:expr) ),*) => {
    impl $name {
      $(
        #[inline]
        pub fn $m(&self, val: $t, o: Ordering) -> $t {
          rt::sched_point();
          let r = self.v.$m(val, o);
          if rt::tracing() {
            let now = self.v.load(Ordering::Relaxed);
            log($kind, self.id, $tyname, o1(o), r.tok(), now.tok(), "-");
          }
          r
        }
      )*
    }
  };
}

macro_rules! int_atomic {
  ($name:ident, $std:ty, $t:ty, $tyname:expr) => {
    common!($name, $std, $t, $tyname);

    impl Default for $name {
      #[track_caller]
      fn default() -> Self {
        Self::new(0)
      }
    }

    rmw!($name, $t, $tyname, (fetch_add, "fadd"), (fetch_sub, "fsub"), (fetch_and, "fand"), (fetch_nand, "fnand"),
      (fetch_or, "for"), (fetch_xor, "fxor"), (fetch_max, "fmax"), (fetch_min, "fmin"));
  };
}

int_atomic!(AtomicU8, std::sync::atomic::AtomicU8, u8, "u8");
int_atomic!(AtomicU16, std::sync::atomic::AtomicU16, u16, "u16");
int_atomic!(AtomicU32, std::sync::atomic::AtomicU32, u32, "u32");
int_atomic!(AtomicU64, std::sync::atomic::AtomicU64, u64, "u64");
int_atomic!(AtomicUsize, std::sync::atomic::AtomicUsize, usize, "usize");
int_atomic!(AtomicI8, std::sync::atomic::AtomicI8, i8, "i8");
int_atomic!(AtomicI16, std::sync::atomic::AtomicI16, i16, "i16");
int_atomic!(AtomicI32, std::sync::atomic::AtomicI32, i32, "i32");
int_atomic!(AtomicI64, std::sync::atomic::AtomicI64, i64, "i64");
int_atomic!(AtomicIsize, std::sync::atomic::AtomicIsize, isize, "isize");

common!(AtomicBool, std::sync::atomic::AtomicBool, bool, "bool");

impl Default for AtomicBool {
  #[track_caller]
  fn default() -> Self {
    Self::new(false)
  }
}

rmw!(AtomicBool, bool, "bool", (fetch_and, "fand"), (fetch_nand, "fnand"), (fetch_or, "for"), (fetch_xor, "fxor"));

pub struct AtomicPtr<T> {
  v: std::sync::atomic::AtomicPtr<T>,
  id: u32,
}

impl<T> AtomicPtr<T> {
  #[inline]
  #[track_caller]
  pub fn new(p: *mut T) -> Self {
    let id = if rt::tracing() { rt::new_obj(false, "ptr", &p.tok(), std::panic::Location::caller()) } else { 0 };
    Self { v: std::sync::atomic::AtomicPtr::new(p), id }
  }
  #[inline]
  pub fn load(&self, o: Ordering) -> *mut T {
    rt::sched_point();
    let r = self.v.load(o);
    if rt::tracing() {
      log("load", self.id, "ptr", o1(o), r.tok(), r.tok(), "-");
    }
    r
  }
  #[inline]
  pub fn store(&self, p: *mut T, o: Ordering) {
    rt::sched_point();
    if rt::tracing() {
      let old = self.v.load(Ordering::Relaxed);
      self.v.store(p, o);
      log("store", self.id, "ptr", o1(o), old.tok(), p.tok(), "-");
    } else {
      self.v.store(p, o)
    }
  }
  #[inline]
  pub fn swap(&self, p: *mut T, o: Ordering) -> *mut T {
    rt::sched_point();
    let r = self.v.swap(p, o);
    if rt::tracing() {
      log("swap", self.id, "ptr", o1(o), r.tok(), p.tok(), "-");
    }
    r
  }
  #[inline]
  pub fn compare_exchange(&self, cur: *mut T, new: *mut T, s: Ordering, f: Ordering) -> Result<*mut T, *mut T> {
    rt::sched_point();
    let r = self.v.compare_exchange(cur, new, s, f);
    if rt::tracing() {
      match r {
        Ok(old) => log("cas", self.id, "ptr", o2(s, f), old.tok(), new.tok(), "1"),
        Err(old) => log("cas", self.id, "ptr", o2(s, f), old.tok(), old.tok(), "0"),
      }
    }
    r
  }
  #[inline]
  pub fn compare_exchange_weak(&self, cur: *mut T, new: *mut T, s: Ordering, f: Ordering) -> Result<*mut T, *mut T> {
    rt::sched_point();
    let r = self.v.compare_exchange(cur, new, s, f);
    if rt::tracing() {
      match r {
        Ok(old) => log("casw", self.id, "ptr", o2(s, f), old.tok(), new.tok(), "1"),
        Err(old) => log("casw", self.id, "ptr", o2(s, f), old.tok(), old.tok(), "0"),
      }
    }
    r
  }
  #[inline]
  pub fn fetch_update<F>(&self, s: Ordering, f: Ordering, func: F) -> Result<*mut T, *mut T>
  where
    F: FnMut(*mut T) -> Option<*mut T>,
  {
    rt::sched_point();
    let r = self.v.fetch_update(s, f, func);
    if rt::tracing() {
      let now = self.v.load(Ordering::Relaxed);
      match r {
        Ok(old) => log("fupd", self.id, "ptr", o2(s, f), old.tok(), now.tok(), "1"),
        Err(old) => log("fupd", self.id, "ptr", o2(s, f), old.tok(), old.tok(), "0"),
      }
    }
    r
  }
  #[inline]
  pub fn get_mut(&mut self) -> &mut *mut T {
    self.v.get_mut()
  }
  #[inline]
  pub fn into_inner(self) -> *mut T {
    self.v.into_inner()
  }
  #[inline]
  pub fn with_mut<R>(&mut self, f: impl FnOnce(&mut *mut T) -> R) -> R {
    f(self.v.get_mut())
  }
  /// # Safety
  /// Caller guarantees there is no concurrent writer.
  #[inline]
  pub unsafe fn unsync_load(&self) -> *mut T {
    self.v.load(Ordering::Relaxed)
  }
}

impl<T> Default for AtomicPtr<T> {
  #[track_caller]
  fn default() -> Self {
    Self::new(std::ptr::null_mut())
  }
}

impl<T> fmt::Debug for AtomicPtr<T> {
  fn fmt(&self, f: &mut fmt::Formatter<'_>) -> fmt::Result {
    // never print addresses
    f.write_str("AtomicPtr(..)")
  }
}

impl<T> From<*mut T> for AtomicPtr<T> {
  #[track_caller]
  fn from(p: *mut T) -> Self {
    Self::new(p)
  }
}
