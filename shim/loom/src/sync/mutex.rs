//! Scheduler-aware `Mutex` with std's poisoning API.

use crate::rt;
use std::fmt;
use std::ops::{Deref, DerefMut};
use std::sync::{LockResult, PoisonError, TryLockError, TryLockResult};

pub struct Mutex<T: ?Sized> {
  inner: std::sync::Mutex<T>,
}

pub struct MutexGuard<'a, T: ?Sized> {
  guard: Option<std::sync::MutexGuard<'a, T>>,
  addr: usize,
}

impl<T> Mutex<T> {
  pub const fn new(value: T) -> Self {
    Mutex { inner: std::sync::Mutex::new(value) }
  }

  pub fn into_inner(self) -> LockResult<T> {
    self.inner.into_inner()
  }
}

impl<T: ?Sized> Mutex<T> {
  fn addr(&self) -> usize {
    &self.inner as *const _ as *const u8 as usize
  }

  fn wrap<'a>(&'a self, g: std::sync::MutexGuard<'a, T>) -> MutexGuard<'a, T> {
    MutexGuard { guard: Some(g), addr: self.addr() }
  }

  pub fn lock(&self) -> LockResult<MutexGuard<'_, T>> {
    if !rt::is_registered() {
      return match self.inner.lock() {
        Ok(g) => Ok(self.wrap(g)),
        Err(p) => Err(PoisonError::new(self.wrap(p.into_inner()))),
      };
    }
    loop {
      rt::sched_point();
      match self.inner.try_lock() {
        Ok(g) => return Ok(self.wrap(g)),
        Err(TryLockError::Poisoned(p)) => return Err(PoisonError::new(self.wrap(p.into_inner()))),
        Err(TryLockError::WouldBlock) => rt::mutex_block(self.addr()),
      }
    }
  }

  pub fn try_lock(&self) -> TryLockResult<MutexGuard<'_, T>> {
    rt::sched_point();
    match self.inner.try_lock() {
      Ok(g) => Ok(self.wrap(g)),
      Err(TryLockError::Poisoned(p)) => Err(TryLockError::Poisoned(PoisonError::new(self.wrap(p.into_inner())))),
      Err(TryLockError::WouldBlock) => Err(TryLockError::WouldBlock),
    }
  }

  pub fn get_mut(&mut self) -> LockResult<&mut T> {
    self.inner.get_mut()
  }

  pub fn is_poisoned(&self) -> bool {
    self.inner.is_poisoned()
  }
}

impl<T: Default> Default for Mutex<T> {
  fn default() -> Self {
    Mutex::new(T::default())
  }
}

impl<T> From<T> for Mutex<T> {
  fn from(v: T) -> Self {
    Mutex::new(v)
  }
}

impl<T: ?Sized + fmt::Debug> fmt::Debug for Mutex<T> {
  fn fmt(&self, f: &mut fmt::Formatter<'_>) -> fmt::Result {
    // Never take the lock here (Debug must not be a scheduling point).
    f.write_str("Mutex { .. }")
  }
}

impl<T: ?Sized> Deref for MutexGuard<'_, T> {
  type Target = T;
  fn deref(&self) -> &T {
    self.guard.as_ref().unwrap()
  }
}

impl<T: ?Sized> DerefMut for MutexGuard<'_, T> {
  fn deref_mut(&mut self) -> &mut T {
    self.guard.as_mut().unwrap()
  }
}

impl<T: ?Sized> Drop for MutexGuard<'_, T> {
  fn drop(&mut self) {
    // unlock is a visible action: decide who runs next *before* releasing
    rt::sched_point();
    self.guard = None;
    rt::mutex_released(self.addr);
  }
}

impl<T: ?Sized + fmt::Debug> fmt::Debug for MutexGuard<'_, T> {
  fn fmt(&self, f: &mut fmt::Formatter<'_>) -> fmt::Result {
    fmt::Debug::fmt(&**self, f)
  }
}
