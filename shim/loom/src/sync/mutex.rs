//! Scheduler-aware `Mutex` with std's poisoning API.

use crate::rt;
use std::fmt;
use std::ops::{Deref, DerefMut};
use std::sync::{LockResult, PoisonError, TryLockError, TryLockResult};

pub struct Mutex<T: ?Sized> {
  id: u32,
  inner: std::sync::Mutex<T>,
}

pub struct MutexGuard<'a, T: ?Sized> {
  guard: Option<std::sync::MutexGuard<'a, T>>,
  addr: usize,
  id: u32,
}

fn mlog(kind: &str, id: u32, ok: &str) {
  if rt::tracing() {
    let obj = if id == 0 { "m?".to_string() } else { format!("m{}", id) };
    rt::log_action(kind, &obj, "-", "-", "-", ok);
  }
}

impl<T> Mutex<T> {
  #[track_caller]
  pub fn new(value: T) -> Self {
    let id = if rt::tracing() { rt::new_obj(true, "mutex", "-", std::panic::Location::caller()) } else { 0 };
    Mutex { id, inner: std::sync::Mutex::new(value) }
  }

  pub fn into_inner(self) -> LockResult<T> {
    self.inner.into_inner()
  }
}

impl<T: ?Sized> Mutex<T> {
  fn addr(&self) -> usize {
    &self.inner as *const _ as *const u8 as usize
  }

  fn wrap<'a>(&'a self, g: std::sync::MutexGuard<'a, T>) -> MutexGuard<'a, T> {
    MutexGuard { guard: Some(g), addr: self.addr(), id: self.id }
  }

  pub fn lock(&self) -> LockResult<MutexGuard<'_, T>> {
    if !rt::is_registered() {
      return match self.inner.lock() {
        Ok(g) => Ok(self.wrap(g)),
        Err(p) => Err(PoisonError::new(self.wrap(p.into_inner()))),
      };
    }
    loop {
      rt::sched_point();
      match self.inner.try_lock() {
        Ok(g) => {
          mlog("lock", self.id, "-");
          return Ok(self.wrap(g));
        }
        Err(TryLockError::Poisoned(p)) => {
          mlog("lock", self.id, "-");
          return Err(PoisonError::new(self.wrap(p.into_inner())));
        }
        Err(TryLockError::WouldBlock) => {
          mlog("lockwait", self.id, "-");
          rt::mutex_block(self.addr())
        }
      }
    }
  }

  pub fn try_lock(&self) -> TryLockResult<MutexGuard<'_, T>> {
    rt::sched_point();
    match self.inner.try_lock() {
      Ok(g) => {
        mlog("trylock", self.id, "1");
        Ok(self.wrap(g))
      }
      Err(TryLockError::Poisoned(p)) => {
        mlog("trylock", self.id, "1");
        Err(TryLockError::Poisoned(PoisonError::new(self.wrap(p.into_inner()))))
      }
      Err(TryLockError::WouldBlock) => {
        mlog("trylock", self.id, "0");
        Err(TryLockError::WouldBlock)
      }
    }
  }

  pub fn get_mut(&mut self) -> LockResult<&mut T> {
    self.inner.get_mut()
  }

  pub fn is_poisoned(&self) -> bool {
    self.inner.is_poisoned()
  }
}

impl<T: Default> Default for Mutex<T> {
  #[track_caller]
  fn default() -> Self {
    Mutex::new(T::default())
  }
}

impl<T> From<T> for Mutex<T> {
  #[track_caller]
  fn from(v: T) -> Self {
    Mutex::new(v)
  }
}

impl<T: ?Sized + fmt::Debug> fmt::Debug for Mutex<T> {
  fn fmt(&self, f: &mut fmt::Formatter<'_>) -> fmt::Result {
    // Never take the lock here (Debug must not be a scheduling point).
    f.write_str("Mutex { .. }")
  }
}

impl<T: ?Sized> Deref for MutexGuard<'_, T> {
  type Target = T;
  fn deref(&self) -> &T {
    self.guard.as_ref().unwrap()
  }
}

impl<T: ?Sized> DerefMut for MutexGuard<'_, T> {
  fn deref_mut(&mut self) -> &mut T {
    self.guard.as_mut().unwrap()
  }
}

impl<T: ?Sized> Drop for MutexGuard<'_, T> {
  fn drop(&mut self) {
    // unlock is a visible action: decide who runs next *before* releasing
    rt::sched_point();
    self.guard = None;
    rt::mutex_released(self.addr);
    mlog("unlock", self.id, "-");
  }
}

impl<T: ?Sized + fmt::Debug> fmt::Debug for MutexGuard<'_, T> {
  fn fmt(&self, f: &mut fmt::Formatter<'_>) -> fmt::Result {
    fmt::Debug::fmt(&**self, f)
  }
}
