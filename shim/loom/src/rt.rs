//! Deterministic baton-passing scheduler.
//!
//! Exactly one registered thread holds the baton at any time. Every *visible
//! action* (atomic op, fence, mutex lock/unlock, park, unpark, spin_loop,
//! yield_now, spawn, join, thread exit, harness `sched_point`) first asks the
//! scheduler who runs next. Threads that are not registered (the process main
//! thread, threads of an abandoned execution that somehow wake up) fall through
//! to plain std behaviour and never touch scheduler state.
//!
//! Decision recording: a decision is recorded (and a schedule entry consumed)
//! only when there are at least two candidates. Candidates are the runnable
//! threads, minus the caller when the caller is yielding (`spin_loop` /
//! `yield_now`) and another runnable thread exists.

use std::cell::RefCell;
use std::panic::{catch_unwind, AssertUnwindSafe};
use std::sync::atomic::{AtomicU64, Ordering as StdOrdering};
use std::sync::{Arc, Condvar, Mutex, MutexGuard};

pub type Tid = usize;
pub const MAX_THREADS: usize = 16;

#[derive(Clone, Debug, PartialEq, Eq)]
pub enum Status {
  Ok,
  /// every unfinished thread is blocked; the list is the blocked tids
  Deadlock(Vec<Tid>),
  /// step budget exhausted (livelock or just a long run)
  Budget,
}

#[derive(Clone, Debug)]
pub enum Strategy {
  /// explicit schedule prefix, then "continue current thread, else lowest tid"
  Replay,
  /// seeded uniform choice among the candidates at every decision
  Random { seed: u64 },
  /// seeded PCT: random priorities, `depth - 1` priority change points
  Pct { seed: u64, depth: u32, est_steps: u32 },
}

#[derive(Clone, Debug)]
pub struct Config {
  pub strategy: Strategy,
  /// decisions to replay first (thread ids), consumed at real choice points
  pub schedule: Vec<Tid>,
  pub budget: usize,
  pub stack_size: usize,
  /// `Replay` default policy refinement: once the explicit schedule is
  /// exhausted, the first thread of this list that is a candidate runs; if none
  /// is, the usual default applies. Empty = plain default.
  pub prefer: Vec<Tid>,
  /// record every visible action (`A` lines) and object construction (`L` lines)
  pub trace: bool,
}

impl Default for Config {
  fn default() -> Self {
    Config { strategy: Strategy::Replay, schedule: Vec::new(), budget: 20_000, stack_size: 256 * 1024, prefer: Vec::new(), trace: false }
  }
}

#[derive(Clone, Debug)]
pub struct Decision {
  pub chosen: Tid,
  /// bitmask of candidate tids
  pub candidates: u32,
  /// the thread that held the baton, if it was itself a candidate
  pub current: Option<Tid>,
}

#[derive(Clone, Debug)]
pub struct Outcome {
  pub status: Status,
  pub decisions: Vec<Decision>,
  pub steps: usize,
  /// an explicit schedule entry named a thread that was not a candidate
  pub diverged: bool,
  pub threads: usize,
  /// `A ...` / `L ...` lines in execution order (empty unless `Config::trace`)
  pub trace: Vec<String>,
}

#[derive(Clone, Copy, Debug, PartialEq, Eq)]
enum TS {
  Runnable,
  Parked,
  /// parked with a timeout: the scheduler may make it runnable again without an unpark ("fire the timeout")
  ParkedT,
  Mutex(usize),
  Join(Tid),
  Finished,
}

struct Rng(u64);
impl Rng {
  fn next(&mut self) -> u64 {
    // splitmix64
    self.0 = self.0.wrapping_add(0x9E37_79B9_7F4A_7C15);
    let mut z = self.0;
    z = (z ^ (z >> 30)).wrapping_mul(0xBF58_476D_1CE4_E5B9);
    z = (z ^ (z >> 27)).wrapping_mul(0x94D0_49BB_1331_11EB);
    z ^ (z >> 31)
  }
  fn below(&mut self, n: u64) -> u64 {
    if n == 0 { 0 } else { self.next() % n }
  }
}

struct State {
  ts: Vec<TS>,
  token: Vec<bool>,
  /// the timeout of a `ParkedT` thread was fired by the scheduler (it was not unparked)
  fired: Vec<bool>,
  active: Option<Tid>,
  abort: Option<Status>,
  done: bool,
  steps: usize,
  budget: usize,
  strategy: Strategy,
  schedule: Vec<Tid>,
  prefer: Vec<Tid>,
  cursor: usize,
  decisions: Vec<Decision>,
  diverged: bool,
  rng: Rng,
  prio: Vec<i64>,
  low: i64,
  change_points: Vec<usize>,
}

pub(crate) struct Exec {
  id: u64,
  m: Mutex<State>,
  cv: Vec<Condvar>,
  done_cv: Condvar,
  stack_size: usize,
  trace: bool,
  tlog: Mutex<TraceLog>,
}

#[derive(Default)]
struct TraceLog {
  lines: Vec<String>,
  next_atomic: u32,
  next_mutex: u32,
  ptrs: std::collections::HashMap<usize, u32>,
}

static EXEC_IDS: AtomicU64 = AtomicU64::new(1);

thread_local! {
  static CUR: RefCell<Option<(Arc<Exec>, Tid)>> = const { RefCell::new(None) };
  static TRACE: std::cell::Cell<bool> = const { std::cell::Cell::new(false) };
}

// ---------------------------------------------------------------- action trace

/// Is the calling thread a scheduler thread of an execution that records actions?
#[inline]
pub fn tracing() -> bool {
  TRACE.try_with(|t| t.get()).unwrap_or(false)
}

/// Register a new traced object; returns its creation index (1-based; 0 = untracked).
pub(crate) fn new_obj(is_mutex: bool, ty: &str, init: &str, loc: &std::panic::Location<'_>) -> u32 {
  if !tracing() {
    return 0;
  }
  let Some((ex, me)) = current() else { return 0 };
  let mut t = ex.tlog.lock().unwrap_or_else(|e| e.into_inner());
  let id = if is_mutex {
    t.next_mutex += 1;
    t.next_mutex
  } else {
    t.next_atomic += 1;
    t.next_atomic
  };
  let file = loc.file();
  let short = match file.rfind("/src/") {
    Some(i) => &file[i + 5..],
    None => file,
  };
  let name = if is_mutex { format!("m{}", id) } else { format!("a{}:{}", id, ty) };
  t.lines.push(format!("L {} {} {}:{} {}", name, me, short, loc.line(), init));
  id
}

/// Canonical token of a pointer value: `p0` = null, else `p<k>` in first-seen order.
pub(crate) fn ptr_token(p: usize) -> String {
  if p == 0 {
    return "p0".into();
  }
  let Some((ex, _)) = current() else { return "p?".into() };
  let mut t = ex.tlog.lock().unwrap_or_else(|e| e.into_inner());
  let n = t.ptrs.len() as u32 + 1;
  let k = *t.ptrs.entry(p).or_insert(n);
  format!("p{}", k)
}

/// Append one `A` line for the calling scheduler thread.
pub(crate) fn log_action(kind: &str, obj: &str, ord: &str, old: &str, new: &str, ok: &str) {
  let Some((ex, me)) = current() else { return };
  let mut t = ex.tlog.lock().unwrap_or_else(|e| e.into_inner());
  t.lines.push(format!("A {} {} {} {} {} {} {}", me, kind, obj, ord, old, new, ok));
}

/// Harness-level action line (`wake`, ...), only when tracing.
pub fn note(kind: &str, obj: &str) {
  if tracing() {
    log_action(kind, obj, "-", "-", "-", "-");
  }
}

/// Number of trace lines recorded so far (0 when not tracing).
pub fn trace_len() -> usize {
  if !tracing() {
    return 0;
  }
  match current() {
    Some((ex, _)) => ex.tlog.lock().unwrap_or_else(|e| e.into_inner()).lines.len(),
    None => 0,
  }
}

pub(crate) fn ord_token(o: std::sync::atomic::Ordering) -> &'static str {
  use std::sync::atomic::Ordering::*;
  match o {
    Relaxed => "rlx",
    Acquire => "acq",
    Release => "rel",
    AcqRel => "acqrel",
    SeqCst => "sc",
    _ => "?",
  }
}

pub(crate) fn current() -> Option<(Arc<Exec>, Tid)> {
  CUR.try_with(|c| c.borrow().clone()).ok().flatten()
}

/// Is the calling OS thread a registered scheduler thread?
pub fn is_registered() -> bool {
  current().is_some()
}

/// Scheduler thread id of the caller (None for unregistered threads).
pub fn current_tid() -> Option<Tid> {
  current().map(|(_, t)| t)
}

impl State {
  fn runnable_mask(&self) -> u32 {
    let mut m = 0u32;
    for (i, s) in self.ts.iter().enumerate() {
      if *s == TS::Runnable {
        m |= 1 << i;
      }
    }
    m
  }

  /// threads parked with a timeout: candidates of every decision (choosing one = its timeout fires)
  fn timed_mask(&self) -> u32 {
    let mut m = 0u32;
    for (i, s) in self.ts.iter().enumerate() {
      if *s == TS::ParkedT {
        m |= 1 << i;
      }
    }
    m
  }

  /// `t` was chosen: a thread parked with a timeout becomes runnable with its timeout fired
  fn wake_chosen(&mut self, t: Tid) {
    if self.ts[t] == TS::ParkedT {
      self.ts[t] = TS::Runnable;
      self.fired[t] = true;
    }
  }

  fn lower_prio(&mut self, t: Tid) {
    self.low -= 1;
    self.prio[t] = self.low;
  }

  /// Choose the next thread. `me` = the baton holder if it is still runnable.
  fn pick(&mut self, me: Option<Tid>, yielding: bool) -> Option<Tid> {
    self.pick_from(me, me, yielding)
  }

  /// `holder`: the thread giving up the baton (even if it is not a candidate):
  /// the default policy continues with the holder if it is a candidate, else
  /// with the next candidate after it in cyclic tid order (fair under yields).
  fn pick_from(&mut self, holder: Option<Tid>, me: Option<Tid>, yielding: bool) -> Option<Tid> {
    let c = self.pick_from0(holder, me, yielding);
    if let Some(t) = c {
      self.wake_chosen(t);
    }
    c
  }

  fn pick_from0(&mut self, holder: Option<Tid>, me: Option<Tid>, yielding: bool) -> Option<Tid> {
    let runnable = self.runnable_mask();
    let timed = self.timed_mask();
    if runnable == 0 && timed == 0 {
      return None;
    }
    let mut cands = runnable;
    if yielding {
      if let Some(m) = me {
        let others = runnable & !(1 << m);
        if others != 0 {
          cands = others;
        }
      }
    }
    // the really runnable candidates; threads parked with a timeout are candidates too (choosing one fires its
    // timeout), but no default / random / priority policy prefers them to a runnable thread
    let run_cands = cands;
    cands |= timed;
    if cands.count_ones() == 1 {
      return Some(cands.trailing_zeros() as Tid);
    }
    let cur = me.filter(|m| run_cands & (1 << m) != 0);
    let default = |cands: u32| -> Tid {
      let pool = if run_cands != 0 { run_cands } else { cands };
      match (cur, holder) {
        (Some(m), _) => m,
        (None, Some(h)) => {
          let mut t = h;
          for _ in 0..32 {
            t = (t + 1) % 32;
            if pool & (1 << t) != 0 {
              return t;
            }
          }
          pool.trailing_zeros() as Tid
        }
        (None, None) => pool.trailing_zeros() as Tid,
      }
    };
    let mut chosen: Option<Tid> = None;
    if self.cursor < self.schedule.len() {
      let want = self.schedule[self.cursor];
      self.cursor += 1;
      if want < 32 && cands & (1 << want) != 0 {
        chosen = Some(want);
      } else {
        self.diverged = true;
      }
    }
    let chosen = match chosen {
      Some(c) => c,
      None => match self.strategy {
        Strategy::Replay => match self.prefer.iter().find(|t| **t < 32 && cands & (1 << **t) != 0) {
          Some(t) => *t,
          None => default(cands),
        },
        Strategy::Random { .. } => {
          // a timeout fires early (while something else could run) once in ~200 decisions
          let pool = if run_cands == 0 || (timed != 0 && self.rng.below(200) == 0) { cands } else { run_cands };
          let n = pool.count_ones() as u64;
          let k = self.rng.below(n);
          nth_set_bit(pool, k as u32)
        }
        Strategy::Pct { .. } => {
          let pool = if run_cands != 0 { run_cands } else { cands };
          let mut best: Option<Tid> = None;
          for t in 0..self.ts.len() {
            if pool & (1 << t) != 0 {
              best = match best {
                None => Some(t),
                Some(b) => if self.prio[t] > self.prio[b] { Some(t) } else { Some(b) },
              };
            }
          }
          best.unwrap()
        }
      },
    };
    self.decisions.push(Decision { chosen, candidates: cands, current: cur });
    Some(chosen)
  }

  fn blocked_list(&self) -> Vec<Tid> {
    self
      .ts
      .iter()
      .enumerate()
      .filter(|(_, s)| !matches!(s, TS::Finished | TS::Runnable))
      .map(|(i, _)| i)
      .collect()
  }

  fn new_thread(&mut self) -> Tid {
    let t = self.ts.len();
    assert!(t < MAX_THREADS, "shim scheduler: too many threads");
    self.ts.push(TS::Runnable);
    self.token.push(false);
    self.fired.push(false);
    let p = (self.rng.next() >> 16) as i64 & 0xFFFF_FFFF;
    self.prio.push(p + 1);
    t
  }
}

fn nth_set_bit(mask: u32, mut k: u32) -> Tid {
  for i in 0..32 {
    if mask & (1 << i) != 0 {
      if k == 0 {
        return i as Tid;
      }
      k -= 1;
    }
  }
  mask.trailing_zeros() as Tid
}

impl Exec {
  fn lock(&self) -> MutexGuard<'_, State> {
    self.m.lock().unwrap_or_else(|e| e.into_inner())
  }

  fn freeze<'a>(&'a self, me: Tid, mut st: MutexGuard<'a, State>) -> ! {
    // The execution was abandoned; this OS thread is leaked on purpose.
    loop {
      st = self.cv[me].wait(st).unwrap_or_else(|e| e.into_inner());
    }
  }

  fn abort<'a>(&'a self, me: Tid, mut st: MutexGuard<'a, State>, status: Status) -> ! {
    if st.abort.is_none() {
      st.abort = Some(status);
    }
    st.active = None;
    self.done_cv.notify_all();
    self.freeze(me, st)
  }

  fn hand_over<'a>(&'a self, me: Tid, mut st: MutexGuard<'a, State>, next: Tid) -> MutexGuard<'a, State> {
    if next != me {
      st.active = Some(next);
      self.cv[next].notify_one();
      while st.active != Some(me) {
        st = self.cv[me].wait(st).unwrap_or_else(|e| e.into_inner());
      }
    }
    st
  }

  fn wait_turn(&self, me: Tid) {
    let mut st = self.lock();
    while st.active != Some(me) {
      st = self.cv[me].wait(st).unwrap_or_else(|e| e.into_inner());
    }
  }

  /// One visible action by `me` is about to happen.
  fn point(&self, me: Tid, yielding: bool) {
    let mut st = self.lock();
    if st.abort.is_some() || st.active != Some(me) {
      // abandoned execution (or a thread running out of turn during teardown
      // of an aborted run): never proceed.
      if st.abort.is_some() {
        self.freeze(me, st);
      }
      return;
    }
    st.steps += 1;
    if st.steps > st.budget {
      self.abort(me, st, Status::Budget);
    }
    if let Strategy::Pct { .. } = st.strategy {
      let step = st.steps;
      if st.change_points.contains(&step) || yielding {
        st.lower_prio(me);
      }
    }
    let next = st.pick(Some(me), yielding).expect("caller is runnable");
    let _st = self.hand_over(me, st, next);
  }

  fn tlog(&self, me: Tid, kind: &str, obj: &str, old: &str, new: &str) {
    if self.trace {
      let mut t = self.tlog.lock().unwrap_or_else(|e| e.into_inner());
      t.lines.push(format!("A {} {} {} - {} {} -", me, kind, obj, old, new));
    }
  }

  /// `me` cannot continue until someone makes it runnable again.
  fn block<'a>(&'a self, me: Tid, mut st: MutexGuard<'a, State>, why: TS) -> MutexGuard<'a, State> {
    st.ts[me] = why;
    match st.pick_from(Some(me), None, false) {
      Some(n) => self.hand_over(me, st, n),
      None => {
        let bl = st.blocked_list();
        self.abort(me, st, Status::Deadlock(bl))
      }
    }
  }

  fn finish(&self, me: Tid) {
    let mut st = self.lock();
    if st.abort.is_some() {
      self.freeze(me, st);
    }
    st.ts[me] = TS::Finished;
    for i in 0..st.ts.len() {
      if st.ts[i] == TS::Join(me) {
        st.ts[i] = TS::Runnable;
      }
    }
    match st.pick_from(Some(me), None, false) {
      Some(n) => {
        st.active = Some(n);
        self.cv[n].notify_one();
      }
      None => {
        if st.ts.iter().all(|s| *s == TS::Finished) {
          st.done = true;
          st.active = None;
          self.done_cv.notify_all();
        } else {
          let bl = st.blocked_list();
          st.abort = Some(Status::Deadlock(bl));
          st.active = None;
          self.done_cv.notify_all();
        }
      }
    }
  }
}

/// A visible action of the calling thread (no-op for unregistered threads).
#[inline]
pub fn sched_point() {
  if let Some((ex, me)) = current() {
    ex.point(me, false);
  }
}

/// A yielding visible action (`spin_loop`, `yield_now`): another runnable
/// thread, if any, runs next.
#[inline]
pub fn yield_point() {
  yield_point_kind("yield")
}

pub(crate) fn yield_point_kind(kind: &str) {
  if let Some((ex, me)) = current() {
    ex.point(me, true);
    ex.tlog(me, kind, "-", "-", "-");
  } else {
    std::thread::yield_now();
  }
}

// ---------------------------------------------------------------- park/unpark

#[derive(Clone)]
pub(crate) enum ThreadInner {
  Sched { exec: Arc<Exec>, tid: Tid },
  Real(std::thread::Thread),
}

pub(crate) fn current_thread_inner() -> ThreadInner {
  match current() {
    Some((exec, tid)) => ThreadInner::Sched { exec, tid },
    None => ThreadInner::Real(std::thread::current()),
  }
}

pub(crate) fn exec_id(e: &Arc<Exec>) -> u64 {
  e.id
}

/// Does the calling scheduler thread hold an unpark token right now? (harness executor; no scheduling point, not logged)
pub fn has_token() -> bool {
  match current() {
    Some((ex, me)) => ex.lock().token[me],
    None => false,
  }
}

pub(crate) fn park() {
  match current() {
    None => std::thread::park(),
    Some((ex, me)) => {
      ex.point(me, false);
      let mut st = ex.lock();
      if st.token[me] {
        st.token[me] = false;
        drop(st);
        ex.tlog(me, "park", "-", "1", "0");
        return;
      }
      let mut st = ex.block(me, st, TS::Parked);
      st.token[me] = false;
      drop(st);
      ex.tlog(me, "park", "-", "1", "0");
    }
  }
}

/// `thread::park_timeout`: a visible action. With a token: consume it and return. Otherwise the thread blocks as
/// "parked with timeout": an `unpark` makes it runnable, or the scheduler FIRES THE TIMEOUT — by an explicit
/// decision naming this thread, and always when no other thread is runnable (such a thread never takes part in a
/// deadlock). A fired timeout sleeps the remaining real time first, so the caller's own `Instant` deadline test
/// sees the deadline passed; this is the only place where the harness spends real time.
pub(crate) fn park_timeout(dur: std::time::Duration) {
  match current() {
    None => std::thread::park_timeout(dur),
    Some((ex, me)) => {
      ex.point(me, false);
      let mut st = ex.lock();
      if st.token[me] {
        st.token[me] = false;
        drop(st);
        ex.tlog(me, "parkt", "-", "1", "0");
        return;
      }
      let deadline = std::time::Instant::now() + dur;
      st.fired[me] = false;
      let mut st = ex.block(me, st, TS::ParkedT);
      let fired = st.fired[me] && !st.token[me];
      st.fired[me] = false;
      if !fired {
        st.token[me] = false;
      }
      drop(st);
      if fired {
        let now = std::time::Instant::now();
        if deadline > now {
          std::thread::sleep(deadline - now + std::time::Duration::from_micros(200));
        }
        ex.tlog(me, "parkt", "-", "0", "0");
      } else {
        ex.tlog(me, "parkt", "-", "1", "0");
      }
    }
  }
}

pub(crate) fn unpark(target: &ThreadInner) {
  match target {
    ThreadInner::Real(t) => {
      sched_point();
      if let Some((ex, me)) = current() {
        ex.tlog(me, "unpark", "t?", "-", "-");
      }
      t.unpark();
    }
    ThreadInner::Sched { exec, tid } => {
      if let Some((ex, me)) = current() {
        if Arc::ptr_eq(&ex, exec) {
          ex.point(me, false);
        }
      }
      let mut st = exec.lock();
      if *tid < st.ts.len() {
        let before = st.token[*tid];
        st.token[*tid] = true;
        if st.ts[*tid] == TS::Parked || st.ts[*tid] == TS::ParkedT {
          st.ts[*tid] = TS::Runnable;
        }
        drop(st);
        if let Some((ex, me)) = current() {
          if Arc::ptr_eq(&ex, exec) {
            ex.tlog(me, "unpark", &format!("t{}", tid), if before { "1" } else { "0" }, "1");
          }
        }
      }
    }
  }
}

// ---------------------------------------------------------------- mutex support

/// Returns after the calling thread has been blocked on `addr` and made
/// runnable again by `mutex_released(addr)`. No-op for unregistered threads.
pub(crate) fn mutex_block(addr: usize) {
  if let Some((ex, me)) = current() {
    let st = ex.lock();
    let _st = ex.block(me, st, TS::Mutex(addr));
  } else {
    std::thread::yield_now();
  }
}

pub(crate) fn mutex_released(addr: usize) {
  if let Some((ex, _me)) = current() {
    let mut st = ex.lock();
    for i in 0..st.ts.len() {
      if st.ts[i] == TS::Mutex(addr) {
        st.ts[i] = TS::Runnable;
      }
    }
  }
}

// ---------------------------------------------------------------- threads

pub(crate) struct Slot<T>(Mutex<Option<std::thread::Result<T>>>);

pub(crate) struct SchedJoin<T> {
  exec: Arc<Exec>,
  tid: Tid,
  slot: Arc<Slot<T>>,
}

impl<T> SchedJoin<T> {
  pub(crate) fn thread(&self) -> ThreadInner {
    ThreadInner::Sched { exec: self.exec.clone(), tid: self.tid }
  }

  pub(crate) fn tid(&self) -> Tid {
    self.tid
  }

  pub(crate) fn is_finished(&self) -> bool {
    self.exec.lock().ts[self.tid] == TS::Finished
  }

  pub(crate) fn join(self) -> std::thread::Result<T> {
    if let Some((ex, me)) = current() {
      if Arc::ptr_eq(&ex, &self.exec) {
        ex.point(me, false);
        let st = ex.lock();
        if st.ts[self.tid] != TS::Finished {
          let _st = ex.block(me, st, TS::Join(self.tid));
        } else {
          drop(st);
        }
        ex.tlog(me, "join", &format!("t{}", self.tid), "-", "-");
      }
    }
    // (unregistered joiner: only legal once the execution is over)
    loop {
      if let Some(r) = self.slot.0.lock().unwrap_or_else(|e| e.into_inner()).take() {
        return r;
      }
      std::thread::yield_now();
    }
  }
}

fn spawn_os<F, T>(exec: Arc<Exec>, tid: Tid, name: Option<String>, stack: usize, f: F) -> Arc<Slot<T>>
where
  F: FnOnce() -> T + Send + 'static,
  T: Send + 'static,
{
  let slot: Arc<Slot<T>> = Arc::new(Slot(Mutex::new(None)));
  let slot2 = slot.clone();
  let mut b = std::thread::Builder::new().stack_size(stack);
  b = b.name(name.unwrap_or_else(|| format!("shim-{}-{}", exec.id, tid)));
  let ex = exec;
  b.spawn(move || {
    CUR.with(|c| *c.borrow_mut() = Some((ex.clone(), tid)));
    TRACE.with(|t| t.set(ex.trace));
    ex.wait_turn(tid);
    let r = catch_unwind(AssertUnwindSafe(f));
    *slot2.0.lock().unwrap_or_else(|e| e.into_inner()) = Some(r);
    ex.tlog(tid, "exit", "-", "-", "-");
    ex.finish(tid);
    TRACE.with(|t| t.set(false));
    CUR.with(|c| *c.borrow_mut() = None);
  })
  .expect("shim scheduler: OS thread spawn failed");
  slot
}

/// Spawn a new scheduler thread from a registered thread. Returns None when
/// the caller is not registered (caller falls back to std).
pub(crate) fn spawn_sched<F, T>(name: Option<String>, stack: Option<usize>, f: F) -> Result<SchedJoin<T>, F>
where
  F: FnOnce() -> T + Send + 'static,
  T: Send + 'static,
{
  let Some((ex, me)) = current() else { return Err(f) };
  ex.point(me, false);
  let tid = {
    let mut st = ex.lock();
    st.new_thread()
  };
  ex.tlog(me, "spawn", &format!("t{}", tid), "-", "-");
  let stack = stack.unwrap_or(ex.stack_size).max(ex.stack_size);
  let slot = spawn_os(ex.clone(), tid, name, stack, f);
  Ok(SchedJoin { exec: ex, tid, slot })
}

/// Run `main` as scheduler thread 0 of a fresh execution and wait until every
/// scheduler thread has finished, or the execution is abandoned (deadlock /
/// budget). Abandoned executions leak their blocked OS threads.
pub fn run<F>(cfg: Config, main: F) -> Outcome
where
  F: FnOnce() + Send + 'static,
{
  let (seed, change_points) = match cfg.strategy {
    Strategy::Replay => (0u64, Vec::new()),
    Strategy::Random { seed } => (seed, Vec::new()),
    Strategy::Pct { seed, depth, est_steps } => {
      let mut r = Rng(seed ^ 0xA5A5_5A5A_1234_5678);
      let n = depth.saturating_sub(1) as usize;
      let cps = (0..n).map(|_| 1 + r.below(est_steps.max(1) as u64) as usize).collect();
      (seed, cps)
    }
  };
  let mut st = State {
    ts: Vec::new(),
    token: Vec::new(),
    fired: Vec::new(),
    active: Some(0),
    abort: None,
    done: false,
    steps: 0,
    budget: cfg.budget,
    strategy: cfg.strategy.clone(),
    schedule: cfg.schedule.clone(),
    prefer: cfg.prefer.clone(),
    cursor: 0,
    decisions: Vec::new(),
    diverged: false,
    rng: Rng(seed),
    prio: Vec::new(),
    low: 0,
    change_points,
  };
  let t0 = st.new_thread();
  debug_assert_eq!(t0, 0);
  let exec = Arc::new(Exec {
    id: EXEC_IDS.fetch_add(1, StdOrdering::Relaxed),
    m: Mutex::new(st),
    cv: (0..MAX_THREADS).map(|_| Condvar::new()).collect(),
    done_cv: Condvar::new(),
    stack_size: cfg.stack_size,
    trace: cfg.trace,
    tlog: Mutex::new(TraceLog::default()),
  });
  let _slot = spawn_os(exec.clone(), 0, None, cfg.stack_size.max(512 * 1024), main);
  let mut st = exec.lock();
  while !st.done && st.abort.is_none() {
    st = exec.done_cv.wait(st).unwrap_or_else(|e| e.into_inner());
  }
  let trace = std::mem::take(&mut exec.tlog.lock().unwrap_or_else(|e| e.into_inner()).lines);
  Outcome {
    status: st.abort.clone().unwrap_or(Status::Ok),
    decisions: std::mem::take(&mut st.decisions),
    steps: st.steps,
    diverged: st.diverged,
    threads: st.ts.len(),
    trace,
  }
}
