//! NOT the loom model checker.
//!
//! A crate *named* `loom` (patched in through `[patch.crates-io]`) that offers
//! the subset of loom's API used by `fibre` under `--cfg loom`, implemented as
//! thin wrappers over the std types. Every operation first reports to the
//! deterministic baton-passing scheduler in [`rt`]; exactly one registered
//! thread runs at a time, so every execution is sequentially consistent and is
//! fully determined by the recorded decision sequence.
//!
//! See /verif/docs/CHAN_HISTORY.md and /verif/harness/chan/README.md.

pub mod hint;
pub mod rt;
pub mod sync;
pub mod thread;

/// Compatibility stub: runs the closure once on a scheduler with the default
/// (replay, empty schedule) configuration. Not used by the harness.
pub fn model<F>(f: F)
where
  F: Fn() + Sync + Send + 'static,
{
  let out = rt::run(rt::Config::default(), move || f());
  if out.status != rt::Status::Ok {
    panic!("loom shim: execution ended with {:?}", out.status);
  }
}
