"""C08 — topic pub/sub routes by subscription; only full mailboxes drop (+ the topic part of C04 at the
model level). Model: lean/Fv/Chan/Topic.lean; theorems: Fv.Props.C08; ties: T2 differential of the real
fibre::spmc::topic handles (sync + async, int + String keys) against the Lean engine `fvdrv_topic`,
harness-side property monitors on every history, and a real-thread stress run judged by monitors only."""
import json, os
import vlib
from vlib import VERIF

def _names(f):
    return [l.strip() for l in open(os.path.join(VERIF, "props", f)) if l.strip() and not l.startswith("#")]

THEOREMS = _names("C08.theorems")
# the topic part of C04 lives on the same model; it is built and audited here too so that it cannot rot
C04_TOPIC = _names("C04_topic.theorems")

def run(ctx):
    # findings this property knows about; the lead merges them into known_findings.json, until then
    # (and harmlessly afterwards) they are taken from findings/C08.entries.json
    have = {f["signature"] for f in ctx.known}
    for e in json.load(open(os.path.join(VERIF, "findings", "C08.entries.json"))):
        if e["property"] == ctx.prop and e["signature"] not in have:
            ctx.known.append(e)
    ctx.lean_obligations("Fv.Props.C08", THEOREMS + C04_TOPIC, extra_modules=("Fv.Props.C08B", "Fv.Props.C04Topic"))
    drv = ctx.lean_exe("fvdrv_topic")
    h = ctx.cargo_build("topic", "topich")
    ctx.assumptions += [
        "papaya::HashMap (get / get_or_insert_with / iter) and internal::left_right (modify = apply, later readers see it) are represented by their sequential contracts: one list of (topic, mailbox) pairs in push order",
        "Weak::upgrade of a mailbox succeeds iff the owning receiver handle has not been dropped; of the dispatcher iff some sender handle has not been dropped",
        "interleavings: model Q quantifies over all SEQUENCES of atomic API calls and is the one replayed against the implementation; model B (Fv.Chan.TopicB) splits send into its snapshot and one step per visited mailbox and quantifies over all schedules, but B's step structure (snapshot instant, one mailbox lock per visit, every other call atomic) is tied to the code only by reading and by the real-thread stress monitors, which check exactly B's theorems (per-publisher order, at most once, subscribed at an instant of the publish call, nothing owed is lost when never full) — not by replay",
        "waiter registration / wake-ups of blocked or pending receivers are not modelled in Q (C05/C06); in the differential run a blocking recv() that would park is reported as wouldblock and not executed; it IS executed in the parked-receiver scenarios (released by a publish or by sender shutdown, under a watchdog)",
        "'never blocks' on real threads is a timing judgement: a call counts as blocked when it takes >= 60% of the parked receiver's timeout (>= 1.5 s for untimed waits) on >= 2 of 3 repetitions while the same call on an idle control channel, timed immediately before, took < 20% of it",
        "receiver_count is a 64-bit usize with wrapping fetch_add/fetch_sub",
        "message payloads are opaque (never inspected by the code); topics and values are small integers (String keys are formatted integers)",
    ]
    # oracle sanity: the monitors must flag hand-made histories that violate each clause
    rc, out, err = vlib.sh([h, "selftest"], timeout=60)
    if rc != 0:
        raise RuntimeError("topich selftest failed (monitors no longer detect synthetic violations):\n" + out[-2000:] + err[-500:])
    ctx.notes.append("monitor selftest: %d synthetic histories judged correctly" % out.count(": ok"))
    if ctx.replay:
        # real-thread cases (mode=block / mode=stress) are judged by the monitors only, not replayed on the model
        threaded = any(("mode=block" in l or "mode=stress" in l) for l in open(ctx.replay) if l.startswith("#case "))
        ctx.tie("replay", [h, "run", ctx.replay, "--prop", "C08"], None if threaded else [drv]); return
    ctx.tie("known-findings", [h, "run", os.path.join(VERIF, "findings", "C08_topic.case")], [drv])
    # the C04 topic witnesses are replayed on the model too (monitor family forced to C08)
    ctx.tie("c04-topic-witnesses", [h, "run", os.path.join(VERIF, "findings", "C04_topic.case"), "--prop", "C08"], [drv])
    corpus = os.path.join(VERIF, "corpus", "topic")
    if os.path.isdir(corpus):
        for f in sorted(os.listdir(corpus)):
            if f.endswith(".case"):
                # regression cases of fixed findings: monitor family from the case headers; nothing may fire
                ctx.tie("corpus-" + f[:-5], [h, "run", os.path.join(corpus, f)], [drv])
    n = 12000 if ctx.quick else 400000
    ctx.tie("topic-differential", [h, "gen", "--seed", str(ctx.seed), "--cases", str(n), "--tier", ctx.tier], [drv])
    # receivers parked in recv_timeout(300..800 ms) / blocking recv() / pending async recv on EMPTY mailboxes while
    # send / sender close, drop, shutdown / subscribe / clone calls are timed against an idle-channel baseline
    w = 36 if ctx.quick else 600
    ctx.tie("topic-parked-receivers", [h, "block", "--seed", str(ctx.seed), "--cases", str(w)], None)
    m = 60 if ctx.quick else 1500
    ctx.tie("topic-thread-stress", [h, "stress", "--seed", str(ctx.seed), "--cases", str(m), "--tier", ctx.tier], None)
